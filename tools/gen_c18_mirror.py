#!/usr/bin/env python3
"""Regenerate lean/LdkModel/Generated/C18Mirror.lean from /repo (C18): HOW the bytes of a BOLT-12
invoice request are put together from the bytes of the offer it answers, and the bytes of an invoice
from the bytes of the invoice request (or refund) it answers — the "cannot be altered" mechanism: the
records of the earlier message are COPIED (TlvStream::range over its bytes), never re-encoded.

  offers/invoice_request.rs  UnsignedInvoiceRequest::new + unsigned_invoice_request_sign_method!
  offers/invoice.rs          UnsignedBolt12Invoice::new   + unsigned_invoice_sign_method!
  offers/{offer,invoice_request,invoice}.rs  the range constants the copies use

  offers/static_invoice.rs   UnsignedStaticInvoice::new   + UnsignedStaticInvoice::sign
  offers/invoice_request.rs / offers/invoice.rs  TryFrom<Vec<u8>> for UnsignedInvoiceRequest / UnsignedBolt12Invoice:
      WHERE the re-parsed unsigned bytes are split into `bytes` / `experimental_bytes` (the range handed to
      `TlvStream::range(..).last()...end` + `split_off`), emitted as the predicates invreqSplitIn / invoiceSplitIn

Output: the range constants and, per message, the PLAN = the sequence of writes in source order
(`own` = a tlv_stream! struct of the message itself, `copy lo hi` = every record of the source bytes
in lo..hi, `copyRest lo hi` = the same over `remaining_bytes` (the source after the bytes copied so
far), `sig`).  The statements are located one by one and emitted in the order they occur, so a moved
statement or another range changes the plan (theorems of Props/C18.lean + the differential op
`mirror`), an unknown write is a TRANSLATE-ERROR (exit 2).
"""
import os, re, sys
sys.path.insert(0, os.path.dirname(os.path.abspath(__file__)))
from rs2lean import TranslateError, strip_comments, find_fn, match_brace

REPO = os.environ.get('VERIF_REPO', '/repo')
ROOT = os.path.dirname(os.path.dirname(os.path.abspath(__file__)))
OUT = os.path.join(ROOT, 'lean', 'LdkModel', 'Generated', 'C18Mirror.lean')

class TErr(Exception):
    pass

def ws(s): return ' '.join(s.split())
def num(s): return int(s.replace('_', ''))

def rd(rel):
    p = os.path.join(REPO, rel)
    if not os.path.exists(p): raise TErr('missing file %s' % rel)
    return strip_comments(open(p).read())

def rng_const(src, name, consts, what):
    m = re.search(r'const %s: core::ops::Range<u64> =\s*([^;]+);' % name, src)
    if not m: raise TErr('cannot find range constant %s in %s' % (name, what))
    lo, hi = [x.strip() for x in ws(m.group(1)).split('..')]
    def ev(x):
        if re.fullmatch(r'[\d_]+', x): return num(x)
        mm = re.fullmatch(r'([A-Z_]+)\.(start|end)', x)
        if mm and mm.group(1) in consts: return consts[mm.group(1)][0 if mm.group(2) == 'start' else 1]
        raise TErr('range constant %s: cannot evaluate `%s`' % (name, x))
    return (ev(lo), ev(hi))

def plan_of(body, src_expr, stmts, what):
    """stmts: list of (regex, seg-template); every `.write(&mut` / `extend_from_slice` of the body must be one of them"""
    found = []
    for rx, seg in stmts:
        ms = list(re.finditer(rx, body))
        if len(ms) != 1: raise TErr('%s: expected exactly one `%s` (found %d)' % (what, rx, len(ms)))
        found.append((ms[0].start(), seg, ms[0]))
    n_writes = len(re.findall(r'\.write\(&mut ', body))
    n_known = sum(1 for _, seg, _ in found if seg[0] in ('own', 'copy', 'copyRest'))
    if n_writes != n_known: raise TErr('%s: %d `.write(&mut ..)` statements, %d recognised' % (what, n_writes, n_known))
    found.sort(key=lambda x: x[0])
    return [(seg, m) for _, seg, m in found]

def main():
    offer = rd('lightning/src/offers/offer.rs')
    invreq = rd('lightning/src/offers/invoice_request.rs')
    inv = rd('lightning/src/offers/invoice.rs')
    consts = {}
    for name, src, what in [('OFFER_TYPES', offer, 'offer.rs'), ('EXPERIMENTAL_OFFER_TYPES', offer, 'offer.rs'),
                            ('INVOICE_REQUEST_TYPES', invreq, 'invoice_request.rs'), ('EXPERIMENTAL_INVOICE_REQUEST_TYPES', invreq, 'invoice_request.rs'),
                            ('INVOICE_TYPES', inv, 'invoice.rs'), ('EXPERIMENTAL_INVOICE_TYPES', inv, 'invoice.rs')]:
        consts[name] = rng_const(src, name, consts, what)

    # ---------------- UnsignedInvoiceRequest::new
    m = re.search(r'impl UnsignedInvoiceRequest \{\s*fn new\(offer: &Offer, contents: InvoiceRequestContents\) -> Self', invreq)
    if not m: raise TErr('cannot find UnsignedInvoiceRequest::new(offer, contents)')
    k = invreq.index('{', m.end()); body = ws(invreq[k:match_brace(invreq, k)])
    stm = [(r'payer_tlv_stream\.write\(&mut bytes\)\.unwrap\(\);', ('own', 'payer')),
           (r'for record in TlvStream::new\(&offer\.bytes\)\.range\((\w+)\) \{ record\.write\(&mut bytes\)\.unwrap\(\); \}', ('copy',)),
           (r'let remaining_bytes = &offer\.bytes\[bytes\.len\(\) - payer_tlv_stream\.serialized_length\(\)\.\.\];', ('rest',)),
           (r'invoice_request_tlv_stream\.write\(&mut bytes\)\.unwrap\(\);', ('own', 'own')),
           (r'let experimental_tlv_stream = TlvStream::new\(remaining_bytes\)\.range\((\w+)\); for record in experimental_tlv_stream \{ record\.write\(&mut experimental_bytes\)\.unwrap\(\); \}', ('copyRest',)),
           (r'experimental_invoice_request_tlv_stream\.write\(&mut experimental_bytes\)\.unwrap\(\);', ('own', 'expOwn')),
           (r'TlvStream::new\(&bytes\)\.chain\(TlvStream::new\(&experimental_bytes\)\)', ('hash',))]
    p_req = plan_of(body, 'offer.bytes', stm, 'UnsignedInvoiceRequest::new')
    # ---------------- UnsignedBolt12Invoice::new
    m = re.search(r'impl UnsignedBolt12Invoice \{\s*fn new\(invreq_bytes: &\[u8\], contents: InvoiceContents\) -> Self', inv)
    if not m: raise TErr('cannot find UnsignedBolt12Invoice::new(invreq_bytes, contents)')
    k = inv.index('{', m.end()); raw = inv[k:match_brace(inv, k)]; body = ws(raw)
    local = dict(consts)
    local['NON_EXPERIMENTAL_TYPES'] = rng_const(raw, 'NON_EXPERIMENTAL_TYPES', consts, 'UnsignedBolt12Invoice::new')
    local['EXPERIMENTAL_TYPES'] = rng_const(raw, 'EXPERIMENTAL_TYPES', consts, 'UnsignedBolt12Invoice::new')
    stm = [(r'for record in TlvStream::new\(invreq_bytes\)\.range\((\w+)\) \{ record\.write\(&mut bytes\)\.unwrap\(\); \}', ('copy',)),
           (r'let remaining_bytes = &invreq_bytes\[bytes\.len\(\)\.\.\];', ('rest',)),
           (r'invoice_tlv_stream\.write\(&mut bytes\)\.unwrap\(\);', ('own', 'own')),
           (r'let experimental_tlv_stream = TlvStream::new\(remaining_bytes\)\.range\((\w+)\); for record in experimental_tlv_stream \{ record\.write\(&mut experimental_bytes\)\.unwrap\(\); \}', ('copyRest',)),
           (r'experimental_invoice_tlv_stream\.write\(&mut experimental_bytes\)\.unwrap\(\);', ('own', 'expOwn')),
           (r'TlvStream::new\(&bytes\)\.chain\(TlvStream::new\(&experimental_bytes\)\)', ('hash',))]
    p_inv = plan_of(body, 'invreq_bytes', stm, 'UnsignedBolt12Invoice::new')
    # ---------------- UnsignedStaticInvoice::new + sign (a plain method, not a macro)
    sinv = rd('lightning/src/offers/static_invoice.rs')
    m = re.search(r'impl UnsignedStaticInvoice \{\s*fn new\(offer_bytes: &Vec<u8>, contents: InvoiceContents\) -> Self', sinv)
    if not m: raise TErr('cannot find UnsignedStaticInvoice::new(offer_bytes, contents)')
    k = sinv.index('{', m.end()); body = ws(sinv[k:match_brace(sinv, k)])
    stm = [(r'for record in TlvStream::new\(offer_bytes\)\.range\((\w+)\) \{ record\.write\(&mut bytes\)\.unwrap\(\); \}', ('copy',)),
           (r'let remaining_bytes = &offer_bytes\[bytes\.len\(\)\.\.\];', ('rest',)),
           (r'invoice_tlv_stream\.write\(&mut bytes\)\.unwrap\(\);', ('own', 'own')),
           (r'let experimental_tlv_stream = TlvStream::new\(remaining_bytes\)\.range\((\w+)\); for record in experimental_tlv_stream \{ record\.write\(&mut experimental_bytes\)\.unwrap\(\); \}', ('copyRest',)),
           (r'experimental_invoice_tlv_stream\.write\(&mut experimental_bytes\)\.unwrap\(\);', ('own', 'expOwn')),
           (r'TlvStream::new\(&bytes\)\.chain\(TlvStream::new\(&experimental_bytes\)\)', ('hash',))]
    p_sinv = plan_of(body, 'offer_bytes', stm, 'UnsignedStaticInvoice::new')
    m = re.search(r'pub fn sign<F: SignStaticInvoiceFn>\(mut self, sign: F\) -> Result<StaticInvoice, SignError>', sinv)
    if not m: raise TErr('cannot find UnsignedStaticInvoice::sign')
    k = sinv.index('{', m.end()); b = ws(sinv[k:match_brace(sinv, k)])
    if not re.search(r'signature_tlv_stream\.write\(&mut self\.bytes\)\.unwrap\(\); self\.bytes\.extend_from_slice\(&self\.experimental_bytes\);', b):
        raise TErr('UnsignedStaticInvoice::sign: `signature_tlv_stream.write(&mut self.bytes)` directly followed by `self.bytes.extend_from_slice(&self.experimental_bytes)` not found')
    if len(re.findall(r'\.write\(&mut ', b)) != 1 or len(re.findall(r'extend_from_slice', b)) != 1:
        raise TErr('UnsignedStaticInvoice::sign: unexpected further writes')
    if not re.search(r'Ok\(StaticInvoice \{ bytes: self\.bytes,', b): raise TErr('UnsignedStaticInvoice::sign: the signed bytes are not `self.bytes`')
    # ---------------- TryFrom<Vec<u8>> for the unsigned types: where `bytes` is split into bytes / experimental_bytes
    def u64_const(x):
        for src in (invreq, inv, offer):
            mm = re.search(r'const %s: u64 =\s*([\d_]+);' % x, src)
            if mm: return num(mm.group(1))
        return None
    def split_pred(src, ty, what):
        m = re.search(r'impl TryFrom<Vec<u8>> for %s \{' % ty, src)
        if not m: raise TErr('cannot find impl TryFrom<Vec<u8>> for %s' % ty)
        b = ws(src[m.end() - 1:match_brace(src, m.end() - 1)])
        mm = re.search(r'let ParsedMessage \{ mut bytes, tlv_stream \} = (\w+);', b)
        if not mm: raise TErr('%s: `let ParsedMessage { mut bytes, tlv_stream } = ..` not found' % what)
        ms = list(re.finditer(r'let offset = TlvStream::new\(&bytes\) \.range\(([^()]+)\) \.last\(\) \.map_or\(0, \|last_record\| last_record\.end\); let experimental_bytes = bytes\.split_off\(offset\);', b))
        if len(ms) != 1: raise TErr('%s: expected exactly one `let offset = TlvStream::new(&bytes).range(R).last().map_or(0, |last_record| last_record.end); let experimental_bytes = bytes.split_off(offset);` (found %d)' % (what, len(ms)))
        h = re.search(r'let tagged_hash = TaggedHash::from_valid_tlv_stream_bytes\(SIGNATURE_TAG, &bytes\);', b)
        if not h or h.start() > ms[0].start(): raise TErr('%s: the tagged hash is not computed over the whole `bytes` BEFORE split_off' % what)
        if len(re.findall(r'split_off|truncate|drain|extend_from_slice|\.push\(', b)) != 1: raise TErr('%s: `bytes` is modified by something else than the one split_off' % what)
        if not re.search(r'Ok\(%s \{ bytes, experimental_bytes, contents, tagged_hash \}\)' % ty, b): raise TErr('%s: result is not `%s { bytes, experimental_bytes, contents, tagged_hash }`' % (what, ty))
        r = ms[0].group(1).strip()
        def ev(x):
            x = x.strip()
            if re.fullmatch(r'[\d_]+', x): return num(x)
            q = re.fullmatch(r'([A-Z_]+)\.(start|end)', x)
            if q and q.group(1) in consts: return consts[q.group(1)][0 if q.group(2) == 'start' else 1]
            if re.fullmatch(r'[A-Z_]+', x) and u64_const(x) is not None: return u64_const(x)
            raise TErr('%s: cannot evaluate range bound `%s`' % (what, x))
        if r in consts: lo, hi, incl = consts[r][0], consts[r][1], False
        elif '..=' in r:
            a, c = r.split('..='); lo, hi, incl = (ev(a) if a.strip() else 0), ev(c), True
        elif '..' in r:
            a, c = r.split('..')
            if not c.strip(): raise TErr('%s: open-ended split range `%s`' % (what, r))
            lo, hi, incl = (ev(a) if a.strip() else 0), ev(c), False
        else: raise TErr('%s: unrecognised split range `%s`' % (what, r))
        return 'decide (%d ≤ t) && decide (t %s %d)' % (lo, '≤' if incl else '<', hi), r
    split_req, split_req_src = split_pred(invreq, 'UnsignedInvoiceRequest', 'TryFrom<Vec<u8>> for UnsignedInvoiceRequest')
    split_inv, split_inv_src = split_pred(inv, 'UnsignedBolt12Invoice', 'TryFrom<Vec<u8>> for UnsignedBolt12Invoice')
    # ---------------- impl Writeable for the unsigned types: which of the two halves are written, in which order
    def write_plan(src, ty):
        m = re.search(r'impl Writeable for %s \{\s*fn write<W: Writer>\(&self, writer: &mut W\) -> Result<\(\), io::Error>\s*\{' % ty, src)
        if not m: raise TErr('cannot find impl Writeable for %s' % ty)
        b = ws(src[m.end():match_brace(src, m.end() - 1) - 1])
        stmts = [x.strip() for x in b.split(';')]
        if stmts and stmts[-1] == '': raise TErr('impl Writeable for %s: the body ends with `;` (no tail expression)' % ty)
        parts = []
        for k, st in enumerate(stmts):
            q = re.fullmatch(r'WithoutLength\(&self\.(bytes|experimental_bytes)\)\.write\(writer\)(\??)', st)
            if not q or (q.group(2) == '?') != (k < len(stmts) - 1):
                raise TErr('impl Writeable for %s: unrecognised statement `%s`' % (ty, st))
            parts.append('.bytes' if q.group(1) == 'bytes' else '.experimental')
        return parts
    w_req = write_plan(invreq, 'UnsignedInvoiceRequest')
    w_inv = write_plan(inv, 'UnsignedBolt12Invoice')
    if re.search(r'impl Writeable for UnsignedStaticInvoice', sinv): raise TErr('UnsignedStaticInvoice now has a Writeable impl: not translated yet')
    if re.search(r'impl TryFrom<Vec<u8>> for UnsignedStaticInvoice', sinv): raise TErr('UnsignedStaticInvoice now has a TryFrom<Vec<u8>>: its split point is not translated yet')
    sig_m = re.search(r'const SIGNATURE_TYPES: core::ops::RangeInclusive<u64> =\s*([\d_]+)\s*\.\.=\s*([\d_]+);', rd('lightning/src/offers/merkle.rs'))
    if not sig_m: raise TErr('cannot find SIGNATURE_TYPES in merkle.rs')
    # ---------------- the sign methods: bytes ‖ signature ‖ experimental_bytes
    for src, mac, what in [(invreq, 'unsigned_invoice_request_sign_method', 'invoice_request.rs'), (inv, 'unsigned_invoice_sign_method', 'invoice.rs')]:
        m = re.search(r'macro_rules! %s \{' % mac, src)
        if not m: raise TErr('cannot find macro %s' % mac)
        b = ws(src[m.end() - 1:match_brace(src, m.end() - 1)])
        if not re.search(r'signature_tlv_stream\.write\(&mut \$self\.bytes\)\.unwrap\(\); \$self\.bytes\.extend_from_slice\(&\$self\.experimental_bytes\);', b):
            raise TErr('%s: `signature_tlv_stream.write(&mut $self.bytes)` directly followed by `$self.bytes.extend_from_slice(&$self.experimental_bytes)` not found' % mac)
        if len(re.findall(r'\.write\(&mut ', b)) != 1 or len(re.findall(r'extend_from_slice', b)) != 1:
            raise TErr('%s: unexpected further writes' % mac)

    def emit(plan, consts, what):
        """segments in write order; the experimental buffer is appended after the signature"""
        main, exp, rest_seen, main_len_at_rest = [], [], False, None
        for seg, m in plan:
            if seg[0] == 'own':
                (exp if seg[1] == 'expOwn' else main).append('.own "%s"' % seg[1])
            elif seg[0] == 'copy':
                lo, hi = consts.get(m.group(1)) or (_ for _ in ()).throw(TErr('%s: unknown range %s' % (what, m.group(1))))
                main.append('.copy %d %d' % (lo, hi))
            elif seg[0] == 'rest':
                rest_seen = True; main_len_at_rest = list(main)
            elif seg[0] == 'copyRest':
                if not rest_seen: raise TErr('%s: remaining_bytes used before it is defined' % what)
                # `remaining_bytes` starts after the bytes COPIED into `bytes` so far: only copies (and, for the request,
                # the payer stream that the slice index subtracts) may precede its definition
                if any(x.startswith('.own') and x != '.own "payer"' for x in main_len_at_rest):
                    raise TErr('%s: remaining_bytes is computed after an own stream was written (offset no longer the copied length)' % what)
                if m.group(1) not in consts: raise TErr('%s: unknown range %s' % (what, m.group(1)))
                exp.append('.copyRest %d %d' % consts[m.group(1)])
            elif seg[0] == 'hash':
                pass
        return main + ['.sig'] + exp

    L = ['/- GENERATED by tools/gen_c18_mirror.py from /repo (offers/invoice_request.rs, offers/invoice.rs, offers/offer.rs) — do not edit. -/',
         'namespace Ldk.C18Mirror', '',
         '/-- one write into the byte string of a message under construction, in source order -/',
         'inductive Seg', '  | own (name : String)          -- a tlv_stream! struct of the message itself (`payer`, `own`, `expOwn`)',
         '  | copy (lo hi : Nat)           -- `for record in TlvStream::new(src).range(lo..hi) { record.write(..) }`',
         '  | copyRest (lo hi : Nat)       -- the same over `remaining_bytes` = src after the bytes copied so far',
         '  | sig                          -- the signature record (sign method), then the experimental buffer',
         '  deriving DecidableEq, Repr', '']
    for name in ['OFFER_TYPES', 'EXPERIMENTAL_OFFER_TYPES', 'INVOICE_REQUEST_TYPES', 'EXPERIMENTAL_INVOICE_REQUEST_TYPES', 'INVOICE_TYPES', 'EXPERIMENTAL_INVOICE_TYPES']:
        L.append('def %s_LO : Nat := %d' % (name, consts[name][0])); L.append('def %s_HI : Nat := %d' % (name, consts[name][1]))
    L += ['', '/-- invoice_request.rs UnsignedInvoiceRequest::new (source = the offer bytes) + sign -/',
          'def invreqPlan : List Seg := [%s]' % ', '.join(emit(p_req, consts, 'UnsignedInvoiceRequest::new')), '',
          '/-- invoice.rs UnsignedBolt12Invoice::new (source = the invoice request / refund bytes) + sign -/',
          'def invoicePlan : List Seg := [%s]' % ', '.join(emit(p_inv, local, 'UnsignedBolt12Invoice::new')), '',
          '/-- static_invoice.rs UnsignedStaticInvoice::new (source = the offer bytes) + sign -/',
          'def staticInvoicePlan : List Seg := [%s]' % ', '.join(emit(p_sinv, consts, 'UnsignedStaticInvoice::new')), '',
          '/-- merkle.rs SIGNATURE_TYPES (inclusive) -/',
          'def SIGNATURE_TYPES_LO : Nat := %d' % num(sig_m.group(1)), 'def SIGNATURE_TYPES_HI : Nat := %d' % num(sig_m.group(2)), '',
          '/-- invoice_request.rs TryFrom<Vec<u8>> for UnsignedInvoiceRequest: a record type is in the range `%s` whose last record ends `bytes` (the rest becomes `experimental_bytes`) -/' % split_req_src,
          'def invreqSplitIn (t : Nat) : Bool := %s' % split_req, '',
          '/-- invoice.rs TryFrom<Vec<u8>> for UnsignedBolt12Invoice: the same, range `%s` -/' % split_inv_src,
          'def invoiceSplitIn (t : Nat) : Bool := %s' % split_inv, '',
          '/-- one `WithoutLength(&self.<field>).write(writer)` of `impl Writeable for Unsigned*` -/',
          'inductive WPart', '  | bytes', '  | experimental', '  deriving DecidableEq, Repr', '',
          '/-- invoice_request.rs impl Writeable for UnsignedInvoiceRequest, statements in source order -/',
          'def invreqUnsignedWrite : List WPart := [%s]' % ', '.join(w_req), '',
          '/-- invoice.rs impl Writeable for UnsignedBolt12Invoice -/',
          'def invoiceUnsignedWrite : List WPart := [%s]' % ', '.join(w_inv), '',
          'end Ldk.C18Mirror', '']
    text = '\n'.join(L)
    if not os.path.exists(OUT) or open(OUT).read() != text:
        open(OUT, 'w').write(text)
    print('gen_c18_mirror: ok (3 plans, 2 split ranges, 2 unsigned write plans, 14 constants)')

if __name__ == '__main__':
    try:
        main()
    except (TErr, TranslateError) as e:
        print('TRANSLATE-ERROR gen_c18_mirror.py: %s' % e)
        sys.exit(2)
