#!/usr/bin/env python3
"""Regenerate lean/LdkModel/Generated/PeerEph.lean from /repo (C15): how a PeerManager derives the
BOLT-8 EPHEMERAL KEY of each connection.

Translated (data flow, statement by statement) from lightning/src/ln/peer_handler.rs:
  * PeerManager::new:  `let mut ephemeral_key_midstate = Sha256::engine();`
                       `ephemeral_key_midstate.input(ephemeral_random_data);`          -> midstateParts
    and the struct literal stores that very engine (`ephemeral_key_midstate,`) and a fresh
    `peer_counter: AtomicCounter::new()`
  * PeerManager::get_ephemeral_key: every statement is interpreted over three kinds of values
       engine  (a SHA-256 engine = the list of parts fed to it so far)
       counter (the result of `self.peer_counter.next()`)
       hash    (`Sha256::from_engine(<engine expr>).to_byte_array()`)
    with Rust's shadowing rules, and the returned `SecretKey::from_slice(&<hash expr>)` gives
    ephPreimageParts = the parts that were fed to the engine THAT IS FINALISED (so finalising the
    un-mixed midstate, feeding the counter big-endian, feeding it twice, or not calling next() all
    give a different generated definition and the theorems of Props/C15 about it stop proving)
  * util/atomic_counter.rs: `AtomicU64::new(N)` -> COUNTER_START, `fetch_add(S, ..)` (returns the
    previous value) -> COUNTER_STEP; the fallback Mutex arm must be `*mtx += S; *mtx - S`
  * the two consumers: `PeerChannelEncryptor::new_outbound(.., self.get_ephemeral_key())` in
    new_outbound_connection and `self.get_ephemeral_key()` as the ephemeral argument of
    process_act_one_with_keys in the `NextNoiseStep::ActOne` arm of do_read_event; no other caller
    outside the verif hook (callSites).
Exit 2 with TRANSLATE-ERROR when a statement is not of a known shape.
"""
import os, re, sys

REPO = os.environ.get('VERIF_REPO', '/repo')
ROOT = os.path.dirname(os.path.dirname(os.path.abspath(__file__)))
OUT = os.path.join(ROOT, 'lean', 'LdkModel', 'Generated', 'PeerEph.lean')


class TErr(Exception):
    pass


def strip_comments(s):
    s = re.sub(r'/\*.*?\*/', '', s, flags=re.S)
    return re.sub(r'//[^\n]*', '', s)


def fn_body(src, name, start=0):
    m = re.compile(r'fn\s+%s\b[^{]*\{' % re.escape(name)).search(src, start)
    if not m:
        raise TErr('cannot find fn %s' % name)
    i, depth = m.end(), 1
    while depth and i < len(src):
        depth += {'{': 1, '}': -1}.get(src[i], 0)
        i += 1
    return src[m.end():i - 1]


def ws(s):
    return re.sub(r'\s+', '', s)


MID = 'self.ephemeral_key_midstate.clone()'


def engine_expr(e, env):
    """an expression that denotes a SHA-256 engine -> list of parts"""
    if e == MID:
        return list(MIDSTATE)
    if re.fullmatch(r'\w+', e) and env.get(e, (None,))[0] == 'engine':
        return list(env[e][1])
    if re.fullmatch(r'\w+\.clone\(\)', e) and env.get(e[:-8], (None,))[0] == 'engine':
        return list(env[e[:-8]][1])
    raise TErr('get_ephemeral_key: `%s` is not a known engine expression' % e)


def hash_expr(e, env):
    """an expression that denotes 32 hash bytes -> list of parts of its preimage"""
    m = re.fullmatch(r'Sha256::from_engine\((.*)\)\.to_byte_array\(\)', e)
    if m:
        return engine_expr(m.group(1), env)
    if re.fullmatch(r'\w+', e) and env.get(e, (None,))[0] == 'hash':
        return list(env[e][1])
    raise TErr('get_ephemeral_key: `%s` is not a known hash expression' % e)


def translate_get_ephemeral_key(body):
    stmts = [ws(s) for s in body.split(';')]
    stmts = [s for s in stmts if s]
    if not stmts:
        raise TErr('get_ephemeral_key: empty body')
    env, n_next = {}, 0
    for s in stmts[:-1]:
        m = re.fullmatch(r'let(mut)?(\w+)=(.*)', s)
        if m:
            name, e = m.group(2), m.group(3)
            if e == 'self.peer_counter.next()':
                env[name] = ('counter',)
                n_next += 1
            elif e.startswith('Sha256::from_engine('):
                env[name] = ('hash', hash_expr(e, env))
            else:
                env[name] = ('engine', engine_expr(e, env))
            continue
        m = re.fullmatch(r'(\w+)\.input\(&(\w+)\.to_(le|be)_bytes\(\)\)', s)
        if m:
            v, cvar, end = m.groups()
            if env.get(v, (None,))[0] != 'engine':
                raise TErr('get_ephemeral_key: `.input` on `%s`, which is not an engine' % v)
            if env.get(cvar, (None,))[0] != 'counter':
                raise TErr('get_ephemeral_key: `%s` fed to the engine is not the peer counter' % cvar)
            env[v][1].append('counterLE' if end == 'le' else 'counterBE')
            continue
        raise TErr('get_ephemeral_key: statement of unknown shape: %s' % s)
    last = stmts[-1]
    m = re.fullmatch(r'SecretKey::from_slice\(&(.*)\)\.expect\("[^"]*"\)', last)
    if not m:
        raise TErr('get_ephemeral_key: result is not SecretKey::from_slice(&<hash>).expect(..): %s' % last)
    return hash_expr(m.group(1), env), n_next


MIDSTATE = []


def main():
    ph_full = open(os.path.join(REPO, 'lightning/src/ln/peer_handler.rs')).read()
    ph = strip_comments(ph_full.split('#[cfg(test)]\nmod tests')[0])
    ac = strip_comments(open(os.path.join(REPO, 'lightning/src/util/atomic_counter.rs')).read())

    # ---- PeerManager::new: the midstate
    new_body = fn_body(ph, 'new', ph.rindex('pub fn new(', 0, ph.index('let mut ephemeral_key_midstate')))
    nb = ws(new_body)
    if 'letmutephemeral_key_midstate=Sha256::engine();' not in nb:
        raise TErr('PeerManager::new: ephemeral_key_midstate is not a fresh Sha256::engine()')
    inputs = re.findall(r'ephemeral_key_midstate\.input\(([^)]*)\)', nb)
    if inputs != ['ephemeral_random_data']:
        raise TErr('PeerManager::new: inputs of ephemeral_key_midstate are %s' % inputs)
    if not re.search(r'PeerManager\{.*[,{]ephemeral_key_midstate,.*peer_counter:AtomicCounter::new\(\),', nb):
        raise TErr('PeerManager::new: the struct literal no longer stores ephemeral_key_midstate / a fresh AtomicCounter')
    if len(re.findall(r'ephemeral_key_midstate\b', ph)) != len(re.findall(r'ephemeral_key_midstate\b', new_body)) + 1 + len(re.findall(r'ephemeral_key_midstate\b', fn_body(ph, 'get_ephemeral_key'))):
        raise TErr('ephemeral_key_midstate is used outside PeerManager::new / get_ephemeral_key')
    MIDSTATE.append('seed')

    # ---- get_ephemeral_key
    parts, n_next = translate_get_ephemeral_key(fn_body(ph, 'get_ephemeral_key'))
    if len(re.findall(r'peer_counter\b', ph)) != 3:
        raise TErr('peer_counter is used outside its field / PeerManager::new / get_ephemeral_key')

    # ---- AtomicCounter
    a = ws(ac)
    m0 = re.search(r'counter:AtomicU64::new\((\d+)\)', a)
    m0b = re.search(r'counter:Mutex::new\((\d+)\)', a)
    m1 = re.search(r'pub\(crate\)fnnext\(&self\)->u64\{#\[cfg\(target_has_atomic="64"\)\]\{self\.counter\.fetch_add\((\d+),Ordering::\w+\)\}#\[cfg\(not\(target_has_atomic="64"\)\)\]\{letmutmtx=self\.counter\.lock\(\)\.unwrap\(\);\*mtx\+=(\d+);\*mtx-(\d+)\}\}', a)
    if not (m0 and m0b and m1):
        raise TErr('util/atomic_counter.rs: AtomicCounter::new / next no longer have the expected shape')
    if m0.group(1) != m0b.group(1) or len(set(m1.groups())) != 1:
        raise TErr('util/atomic_counter.rs: the atomic and the mutex arm disagree')
    start, step = int(m0.group(1)), int(m1.group(1))

    # ---- consumers
    calls = [m.start() for m in re.finditer(r'self\s*\.\s*get_ephemeral_key\(\)', ph)]
    sites = []
    ob = fn_body(ph, 'new_outbound_connection')
    if re.search(r'PeerChannelEncryptor::new_outbound\(\s*their_node_id\.clone\(\)\s*,\s*self\.get_ephemeral_key\(\)\s*,?\s*\)', ob):
        sites.append('new_outbound_connection')
    rd = fn_body(ph, 'do_read_event')
    m = re.search(r'NextNoiseStep::ActOne\s*=>\s*\{\s*let res = peer\s*\.channel_encryptor\s*\.process_act_one_with_keys\(\s*&peer\.pending_read_buffer\[\.\.\],\s*&self\.node_signer,\s*self\.get_ephemeral_key\(\),\s*&self\.secp_ctx,?\s*\);', rd)
    if m:
        sites.append('do_read_event:ActOne')
    hook = len(re.findall(r'pub fn verif_get_ephemeral_key\(&self\) -> SecretKey \{\s*self\.get_ephemeral_key\(\)\s*\}', ph))
    if len(sites) != 2 or len(calls) != 2 + hook:
        raise TErr('get_ephemeral_key consumers: recognised %s, %d call(s) in total (hook %d)' % (sites, len(calls), hook))
    ib = fn_body(ph, 'new_inbound_connection')
    if 'PeerChannelEncryptor::new_inbound(&self.node_signer)' not in ib or 'ephemeral' in ib:
        raise TErr('new_inbound_connection: the encryptor is no longer created without an ephemeral key')

    out = '''/- GENERATED by tools/gen_peer_eph.py from lightning/src/ln/peer_handler.rs (PeerManager::new,
   get_ephemeral_key, its two consumers) and lightning/src/util/atomic_counter.rs. DO NOT EDIT. -/
namespace Ldk.PeerEph

/-- what is fed to a SHA-256 engine -/
inductive Part where
  | seed        -- `ephemeral_random_data` (PeerManager::new)
  | counterLE   -- `counter.to_le_bytes()` of the value `self.peer_counter.next()` returned
  | counterBE   -- `counter.to_be_bytes()`
  deriving Repr, DecidableEq

/-- PeerManager::new: inputs of `ephemeral_key_midstate` -/
def midstateParts : List Part := [%s]

/-- get_ephemeral_key: the inputs of the engine whose hash becomes the SecretKey, in order -/
def ephPreimageParts : List Part := [%s]

/-- get_ephemeral_key: number of `self.peer_counter.next()` calls per key -/
def counterNextCalls : Nat := %d

/-- AtomicCounter::new -/
def COUNTER_START : Nat := %d
/-- AtomicCounter::next: `fetch_add(STEP)`, the PREVIOUS value is returned -/
def COUNTER_STEP : Nat := %d

/-- who calls get_ephemeral_key (one call per connection, either direction) -/
def callSites : List String := [%s]

end Ldk.PeerEph
''' % (', '.join('.' + p for p in MIDSTATE), ', '.join('.' + p for p in parts), n_next, start, step,
       ', '.join('"%s"' % s for s in sites))
    old = open(OUT).read() if os.path.exists(OUT) else None
    if old != out:
        open(OUT, 'w').write(out)
        print('wrote', OUT)
    else:
        print('unchanged', OUT)


if __name__ == '__main__':
    try:
        main()
    except TErr as e:
        print('TRANSLATE-ERROR gen_peer_eph.py:', e)
        sys.exit(2)
