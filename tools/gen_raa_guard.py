#!/usr/bin/env python3
"""Regenerate lean/LdkModel/Generated/RaaGuard.lean from lightning/src/ln/channel.rs (C05):
the GUARD CHAIN and the STATE STEP of `FundedChannel::revoke_and_ack`, statement by statement:

  * every `if COND { return Err(ChannelError::KIND("text")) }` in front of the first state change, in source order
    (COND is translated: `channel_state.is_*()` flags, `matches!(channel_state, ChannelReady(_))`, `x.is_some()`,
    boolean fields, `! && || ()`, and calls of bool helpers of `ChannelContext` -- whose bodies are translated too,
    including `pending_*_htlcs.iter().any(|htlc| match htlc.state { .. })` over the HTLC state enums);
  * the `secp_check!(SecretKey::from_slice(..))`, the secret-vs-`counterparty_current_commitment_point` test,
    `validate_counterparty_revocation(IDX, ..)?`, `commitment_secrets.provide_secret(IDX, ..)?`;
  * the three index expressions IDX (signer, store, `ChannelMonitorUpdateStep::CommitmentSecret { idx }`);
  * the assignments between the last fallible call and the HTLC loop: clear_awaiting_remote_revoke, the rotation
    of the two counterparty commitment points, `counterparty_next_commitment_transaction_number -= 1`.

Any statement in these two regions that is not one of the shapes above is a TRANSLATE-ERROR (exit 2): the function
was restructured and the model must be revisited.  The file is written only if its content changed.
"""
import re, sys, os
sys.path.insert(0, os.path.dirname(__file__))
from rs2lean import TranslateError, strip_comments, find_fn, match_brace
from gen_htlc_tables import strip_logs, IN, OUT, lc

REPO = os.environ.get('VERIF_REPO', '/repo')

FLAGS = ['quiescent', 'peer_disconnected', 'both_sides_shutdown', 'awaiting_remote_revoke', 'monitor_update_in_progress',
         'local_shutdown_sent', 'remote_shutdown_sent', 'local_stfu_sent', 'remote_stfu_sent']
def camel(s):
    p = s.split('_')
    return p[0] + ''.join(x.capitalize() for x in p[1:])

# stable constructor names for the error texts known today; an unknown text gets `other<k>`
ERRNAMES = {
    'Got revoke_and_ack message while quiescent': 'quiescent',
    'Got revoke/ACK message when channel was not in an operational state': 'notOperational',
    "Peer sent revoke_and_ack when we needed a channel_reestablish": 'needReestablish',
    "Peer sent revoke_and_ack after we'd started exchanging closing_signeds": 'closingStarted',
    'Peer provided an invalid per_commitment_secret': 'invalidSecret',
    "Got a revoke commitment secret which didn't correspond to their current pubkey": 'secretMismatch',
    'Received an unexpected revoke_and_ack': 'unexpected',
    'Failed to validate revocation from peer': 'signerRefused',
    'Previous secrets did not match new one': 'storeMismatch',
}

def split_statements(body):
    """top-level statements of a `{ ... }` block (text without the outer braces)"""
    out, i, n = [], 0, len(body)
    while i < n:
        while i < n and body[i] in ' \t\n': i += 1
        if i >= n: break
        start = i
        d = 0
        is_if = body.startswith('if ', i) or body.startswith('{', i)
        while i < n:
            c = body[i]
            if c == '"':
                i += 1
                while body[i] != '"':
                    if body[i] == '\\': i += 1
                    i += 1
            elif c in '({[': d += 1
            elif c in ')}]':
                d -= 1
                if d == 0 and c == '}' and is_if:
                    # `if .. { } else ..` continues
                    j = i + 1
                    while j < n and body[j] in ' \t\n': j += 1
                    if body.startswith('else', j): i = j + 4; continue
                    i += 1
                    break
            elif c == ';' and d == 0:
                i += 1
                break
            i += 1
        out.append(' '.join(body[start:i].split()))
    return out

def join_dots(t):
    """`a\n\t.b()` -> `a.b()` (method chains broken over lines)"""
    return re.sub(r'\s+\.(?=[A-Za-z_])', '.', t)

class Cond:
    """boolean condition translator; `helpers` collects the ChannelContext helper fns that were needed"""
    def __init__(self, src, helpers):
        self.src, self.helpers = src, helpers
    def tr(self, text):
        self.s = text.strip(); self.i = 0
        r = self.p_or()
        self.ws()
        if self.i != len(self.s): raise TranslateError("condition not understood at %r in %r" % (self.s[self.i:self.i + 40], text[:120]))
        return r
    def ws(self):
        while self.i < len(self.s) and self.s[self.i] in ' \t\n': self.i += 1
    def p_or(self):
        a = self.p_and()
        while True:
            self.ws()
            if self.s.startswith('||', self.i): self.i += 2; a = '(%s || %s)' % (a, self.p_and())
            else: return a
    def p_and(self):
        a = self.p_not()
        while True:
            self.ws()
            if self.s.startswith('&&', self.i): self.i += 2; a = '(%s && %s)' % (a, self.p_not())
            else: return a
    def p_not(self):
        self.ws()
        if self.s.startswith('!', self.i) and not self.s.startswith('!=', self.i):
            self.i += 1
            return '!%s' % self.p_not()
        if self.s.startswith('(', self.i):
            self.i += 1
            a = self.p_or(); self.ws()
            if not self.s.startswith(')', self.i): raise TranslateError("missing ) in %r" % self.s)
            self.i += 1
            return a
        return self.atom()
    def atom(self):
        rest = self.s[self.i:]
        m = re.match(r'self\.channel_state\.is_(\w+)\(\)', rest)
        if m:
            if m.group(1) not in FLAGS: raise TranslateError("unknown ChannelState flag is_%s" % m.group(1))
            self.i += m.end(); return 'i.%s' % camel(m.group(1))
        m = re.match(r'matches!\(\s*self\.channel_state\s*,\s*ChannelState::ChannelReady\(_\)\s*\)', rest)
        if m: self.i += m.end(); return 'i.channelReady'
        m = re.match(r'self\.last_sent_closing_fee\.is_some\(\)', rest)
        if m: self.i += m.end(); return 'i.lastSentClosingFeeSome'
        m = re.match(r'self\.pending_update_fee\.is_some\(\)', rest)
        if m: self.i += m.end(); return 'i.pendingUpdateFeeSome'
        m = re.match(r'self\.expecting_peer_commitment_signed\b(?!\()', rest)
        if m: self.i += m.end(); return 'i.expectingPeerCommitmentSigned'
        m = re.match(r'self\.pending_(inbound|outbound)_htlcs\s*\.iter\(\)\s*\.any\(\s*\|htlc\|\s*match htlc\.state\s*\{', rest)
        if m:
            k = self.i + m.end() - 1
            end = match_brace(self.s, k)
            arms_text = self.s[k + 1:end - 1]
            j = end
            while j < len(self.s) and self.s[j] in ' \t\n': j += 1
            if not self.s.startswith(')', j): raise TranslateError("any(|htlc| match ..) not closed")
            self.i = j + 1
            inbound = m.group(1) == 'inbound'
            enum, states = ('InboundHTLCState', IN) if inbound else ('OutboundHTLCState', OUT)
            arms = {}
            for am in re.finditer(r'((?:%s::\w+\s*(?:\([^)]*\)|\{[^}]*\})?\s*\|?\s*)+)=>\s*(true|false)\s*,' % enum, arms_text):
                for v in re.findall(enum + r'::(\w+)', am.group(1)): arms[v] = am.group(2)
            if set(arms) != set(states): raise TranslateError("match over %s: arms %s != states %s" % (enum, sorted(arms), sorted(states)))
            def pat(s):
                if s in ('LocalRemoved', 'RemoteRemoved', 'AwaitingRemoteRevokeToRemove', 'AwaitingRemovedRemoteRevoke'): return '.%s _' % lc(s)
                return '.' + lc(s)
            return '(i.%s.any (fun s => match s with %s))' % ('inb' if inbound else 'outb', ' '.join('| %s => %s' % (pat(s), arms[s]) for s in states))
        m = re.match(r'self\.(\w+)\(\)', rest)
        if m:
            name = m.group(1)
            if name not in self.helpers:
                self.helpers[name] = None  # cycle guard
                self.helpers[name] = translate_helper(self.src, name, self.helpers)
            self.i += m.end(); return '(%s i)' % name
        raise TranslateError("condition atom not understood: %r" % rest[:80])

def translate_helper(src, name, helpers):
    """`fn name(&self) -> bool` of ChannelContext: `if COND { return BOOL; }`* followed by a final expression"""
    m = re.search(r'\bfn\s+' + name + r'\s*\(\s*&self\s*\)\s*->\s*bool\s*\{', src)
    if not m: raise TranslateError("bool helper fn %s(&self) not found" % name)
    k = m.end() - 1
    body = join_dots(strip_comments(src[k:match_brace(src, k)]))[1:-1]
    stmts = split_statements(body)
    if not stmts: raise TranslateError("helper %s is empty" % name)
    parts = []
    for st in stmts[:-1]:
        mm = re.match(r'^if (.*?) \{ return (true|false); \}$', st)
        if not mm: raise TranslateError("helper %s: statement not understood: %r" % (name, st[:100]))
        parts.append((Cond(src, helpers).tr(mm.group(1)), mm.group(2)))
    last = stmts[-1]
    if last.endswith(';'): raise TranslateError("helper %s: no final expression" % name)
    fin = Cond(src, helpers).tr(last)
    text = ''
    for c, v in parts: text += 'if %s then %s else ' % (c, v)
    return text + fin

IDX_RE = re.compile(r'^self\.counterparty_next_commitment_transaction_number(?: ([+-]) (\d+))?$')
def idx_expr(e):
    m = IDX_RE.match(e.strip())
    if not m: raise TranslateError("commitment index expression not understood: %r" % e)
    return 'cpNext' + (' %s %s' % (m.group(1), m.group(2)) if m.group(1) else '')

def err_of(text):
    m = re.search(r'ChannelError::(\w+)\(\s*"((?:[^"\\]|\\.)*)"', text)
    if not m: raise TranslateError("error constructor not understood: %r" % text[:120])
    return m.group(1), m.group(2)

def main(out_path):
    src = open(os.path.join(REPO, 'lightning/src/ln/channel.rs')).read()
    mm = re.search(r'macro_rules! secp_check \{.*?Err\(_\) => return Err\(ChannelError::close\(\$err\)\)', src, re.S)
    if not mm: raise TranslateError("secp_check! no longer closes the channel on Err")
    _, _, b = find_fn(src, 'revoke_and_ack')
    b = join_dots(strip_logs(strip_comments(b)))
    b = b.replace('self.context.', 'self.')
    cut1 = b.find('self.latest_monitor_update_id += 1;')
    cut2 = b.find('if self.announcement_sigs_state')
    if cut1 < 0 or cut2 < cut1: raise TranslateError("revoke_and_ack: region markers (latest_monitor_update_id += 1 / announcement_sigs_state) not found")
    guard_txt, eff_txt = b[1:cut1], b[cut1:cut2]
    helpers = {}
    checks = []   # (lean condition for FAILING, kind, text)
    idx = {}
    for st in split_statements(guard_txt):
        m = re.match(r'^if (.*?) \{ return Err\((.*)\); \}$', st)
        if m and not st.startswith('if let'):
            kind, text = err_of(m.group(2))
            checks.append((Cond(src, helpers).tr(m.group(1)), kind, text)); continue
        m = re.match(r'^let secret = secp_check!\( SecretKey::from_slice\(&msg\.per_commitment_secret\), "((?:[^"\\]|\\.)*)"\.to_owned\(\) \);$', st)
        if m: checks.append(('!i.secretValid', 'close', m.group(1))); continue
        m = re.match(r'^if let Some\(counterparty_current_commitment_point\) = self\.counterparty_current_commitment_point \{ if PublicKey::from_secret_key\(&self\.secp_ctx, &secret\) != counterparty_current_commitment_point \{ return Err\((.*)\); \} \}$', st)
        if m:
            kind, text = err_of(m.group(1))
            checks.append(('(i.cpCurrentPointSome && !i.secretMatchesPoint)', kind, text)); continue
        m = re.match(r'^self\.holder_signer\.validate_counterparty_revocation\( ?(.*?), &secret,? ?\)\.map_err\(\|_\| \{? ?(.*?) ?\}?\)\?;$', st)
        if m:
            kind, text = err_of(m.group(2)); idx['validate'] = idx_expr(m.group(1))
            checks.append(('!i.signerValidates', kind, text)); continue
        m = re.match(r'^self\.commitment_secrets\.provide_secret\( ?(.*?), msg\.per_commitment_secret,? ?\)\.map_err\(\|_\| \{? ?(.*?) ?\}?\)\?;$', st)
        if m:
            kind, text = err_of(m.group(2)); idx['provide'] = idx_expr(m.group(1))
            checks.append(('!i.storeAccepts', kind, text)); continue
        raise TranslateError("revoke_and_ack guard region: statement not understood: %r" % st[:140])
    if 'validate' not in idx or 'provide' not in idx: raise TranslateError("revoke_and_ack: validate_counterparty_revocation / provide_secret call not found in the guard region")
    # the state step
    effects = []
    for st in split_statements(eff_txt):
        if st == 'self.latest_monitor_update_id += 1;': effects.append('-- latest_monitor_update_id += 1 (C09)'); continue
        m = re.match(r'^let mut monitor_update = ChannelMonitorUpdate \{ update_id: self\.latest_monitor_update_id, updates: vec!\[ChannelMonitorUpdateStep::CommitmentSecret \{ idx: (.*?), secret: msg\.per_commitment_secret, \}\], channel_id: Some\(self\.channel_id\(\)\), \};$', st)
        if m: idx['monitor'] = idx_expr(m.group(1)); continue
        if st == 'self.channel_state.clear_awaiting_remote_revoke();': effects.append('let s := { s with awaitingRemoteRevoke := false }'); continue
        if st == 'self.mark_response_received();': continue
        if st == 'self.counterparty_current_commitment_point = self.counterparty_next_commitment_point;': effects.append('let s := { s with cpCurPoint := s.cpNextPoint }'); continue
        if st == 'self.counterparty_next_commitment_point = Some(msg.next_per_commitment_point);': effects.append('let s := { s with cpNextPoint := some next }'); continue
        m = re.match(r'^self\.counterparty_next_commitment_transaction_number (-|\+)= (\d+);$', st)
        if m: effects.append('let s := { s with cpNext := s.cpNext %s %s }' % (m.group(1), m.group(2))); continue
        raise TranslateError("revoke_and_ack state-step region: statement not understood: %r" % st[:140])
    if 'monitor' not in idx: raise TranslateError("revoke_and_ack: CommitmentSecret monitor update step not found")
    # error constructors
    names, seen = [], set()
    for k, (_, kind, text) in enumerate(checks):
        t = text.replace('\\"', '"')
        n = ERRNAMES.get(t, 'other%d' % k)
        if n in seen: n = '%s_%d' % (n, k)
        seen.add(n); names.append(n)
    L = ['/- GENERATED by tools/gen_raa_guard.py from FundedChannel::revoke_and_ack (lightning/src/ln/channel.rs) — do not edit. -/',
         'import LdkModel.Generated.HtlcTables', 'namespace Ldk.RaaGuard', 'open Ldk.Chan', '',
         '/-- everything the guard chain of `revoke_and_ack` reads: ChannelState flags, context fields, the HTLC states, and the',
         '    outcomes of the four message-dependent tests (secret parses / matches the announced point / signer / store) -/',
         'structure In where']
    for f in FLAGS: L.append('  %s : Bool := false' % camel(f))
    L += ['  channelReady : Bool := true', '  lastSentClosingFeeSome : Bool := false', '  expectingPeerCommitmentSigned : Bool := false',
          '  pendingUpdateFeeSome : Bool := false', '  inb : List InState := []', '  outb : List OutState := []',
          '  secretValid : Bool := true', '  cpCurrentPointSome : Bool := true', '  secretMatchesPoint : Bool := true',
          '  signerValidates : Bool := true', '  storeAccepts : Bool := true', '  deriving Repr, Inhabited', '']
    L += ['/-- the `ChannelError`s of the guard chain, in source order -/', 'inductive Err where', '  | ' + ' | '.join(names), '  deriving DecidableEq, Repr, Inhabited', '']
    L += ['def Err.text : Err → String'] + ['  | .%s => %s' % (n, '"' + t.replace('\\"', '\\"') + '"') for n, (_, _, t) in zip(names, checks)] + ['']
    L += ['/-- `close` / `WarnAndDisconnect` / … -/', 'def Err.kind : Err → String'] + ['  | .%s => "%s"' % (n, k) for n, (_, k, _) in zip(names, checks)] + ['']
    for hn, ht in helpers.items():
        if ht is None: raise TranslateError("helper %s is recursive" % hn)
    # helpers in dependency order: a helper's text may call others `(name i)`; emit callee first
    order, done = [], set()
    def visit(hn):
        if hn in done: return
        done.add(hn)
        for other in helpers:
            if other != hn and '(%s i)' % other in helpers[hn]: visit(other)
        order.append(hn)
    for hn in helpers: visit(hn)
    for hn in order:
        L += ['/-- `ChannelContext::%s` -/' % hn, 'def %s (i : In) : Bool :=' % hn, '  ' + helpers[hn], '']
    L += ['/-- the guard chain: the first failing check, `none` = the revoke_and_ack is accepted -/', 'def check (i : In) : Option Err :=']
    for n, (c, _, _) in zip(names, checks): L.append('  if %s then some .%s else' % (c, n))
    L += ['  none', '']
    L += ['/-- commitment number handed to `validate_counterparty_revocation` -/', 'def validateIdx (cpNext : Nat) : Nat := ' + idx['validate'],
          '/-- commitment number handed to `commitment_secrets.provide_secret` -/', 'def provideIdx (cpNext : Nat) : Nat := ' + idx['provide'],
          '/-- `idx` of the `ChannelMonitorUpdateStep::CommitmentSecret` -/', 'def monitorIdx (cpNext : Nat) : Nat := ' + idx['monitor'], '']
    L += ['/-- the fields the state step writes (`Pt` = commitment points) -/', 'structure St (Pt : Type) where',
          '  awaitingRemoteRevoke : Bool', '  cpNext : Nat', '  cpCurPoint : Option Pt', '  cpNextPoint : Option Pt', '  deriving Repr', '',
          '/-- the assignments after the last fallible call, in source order (`next` = msg.next_per_commitment_point) -/',
          'def accept {Pt : Type} (s : St Pt) (next : Pt) : St Pt :=']
    L += ['  ' + e for e in effects] + ['  s', '', 'end Ldk.RaaGuard']
    text = '\n'.join(L) + '\n'
    old = open(out_path).read() if os.path.exists(out_path) else None
    if old != text: open(out_path, 'w').write(text)

if __name__ == '__main__':
    try:
        main(sys.argv[1] if len(sys.argv) > 1 else os.path.join(os.path.dirname(__file__), '..', 'lean', 'LdkModel', 'Generated', 'RaaGuard.lean'))
    except TranslateError as ex:
        print("TRANSLATE-ERROR gen_raa_guard: %s" % ex)
        sys.exit(2)
