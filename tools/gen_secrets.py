#!/usr/bin/env python3
"""Regenerate lean/LdkModel/Generated/SecretsConsts.lean from lightning/src/ln/chan_utils.rs (C05/C06).

Re-ties the B = 48 instance of Model/Secrets.lean to the Rust text on every run: the slot count of
`CounterpartyCommitmentSecrets::old_secrets`, the bit-scan bound and fall-through value of
`place_secret`, the "empty slot" index `1 << 48` of `new()` / `get_min_seen_secret` / `read`, the
loop bound of `build_commitment_secret`, and the secret length.  Besides the numbers, the statement
shapes the model mirrors (comparison operators, loop directions, the flip-then-hash step) are
checked; a shape that is no longer found is a TRANSLATE-ERROR (a broken obligation), never silently OK.
"""
import re, sys, os
sys.path.insert(0, os.path.dirname(__file__))
from rs2lean import TranslateError, strip_comments, find_fn, match_brace

REPO = os.environ.get('VERIF_REPO', '/repo')

def norm(s):
    s = strip_comments(s)
    s = re.sub(r'#\[[^\]]*\]', ' ', s)
    return re.sub(r'\s+', ' ', s).strip()

def need(pat, text, what):
    m = re.search(pat, text)
    if not m:
        raise TranslateError('%s: pattern not found: %s' % (what, pat))
    return m

def main(out_path):
    src = open(os.path.join(REPO, 'lightning/src/ln/chan_utils.rs')).read()
    # --- struct ----------------------------------------------------------------------------------
    m = need(r'pub struct CounterpartyCommitmentSecrets\s*\{\s*old_secrets:\s*\[\(\[u8;\s*(\d+)\],\s*u64\);\s*(\d+)\],?\s*\}', src, 'struct CounterpartyCommitmentSecrets')
    secret_len, slots = int(m.group(1)), int(m.group(2))
    i0 = src.index('impl CounterpartyCommitmentSecrets {')
    impl = src[i0: match_brace(src, src.index('{', i0))]
    # --- new -------------------------------------------------------------------------------------
    _, _, body = find_fn(impl, 'new')
    m = need(r'^\{ Self \{ old_secrets: \[\(\[0; (\d+)\], 1 << (\d+)\); (\d+)\], \} \}$', norm(body), 'new()')
    if int(m.group(1)) != secret_len or int(m.group(3)) != slots:
        raise TranslateError('new(): array shape differs from the struct declaration')
    empty_shift = int(m.group(2))
    # --- place_secret ----------------------------------------------------------------------------
    _, _, body = find_fn(impl, 'place_secret')
    m = need(r'^\{ for i in 0\.\.(\d+) \{ if idx & \(1 << i\) == \(1 << i\) \{ return i;? \} \} (\d+) \}$', norm(body), 'place_secret')
    place_bound, place_default = int(m.group(1)), int(m.group(2))
    # --- get_min_seen_secret ---------------------------------------------------------------------
    _, _, body = find_fn(impl, 'get_min_seen_secret')
    m = need(r'^\{ let mut min = 1 << (\d+); for &\(_, idx\) in self\.old_secrets\.iter\(\) \{ if idx < min \{ min = idx; \} \} min \}$', norm(body), 'get_min_seen_secret')
    min_shift = int(m.group(1))
    # --- derive_secret ---------------------------------------------------------------------------
    _, _, body = find_fn(impl, 'derive_secret')
    need(r'^\{ let mut res: \[u8; %d\] = secret; for i in 0\.\.bits \{ let bitpos = bits - 1 - i; if idx & \(1 << bitpos\) == \(1 << bitpos\) \{ res\[\(bitpos / 8\) as usize\] \^= 1 << \(bitpos & 7\); res = Sha256::hash\(&res\)\.to_byte_array\(\); \} \} res \}$' % secret_len, norm(body), 'derive_secret')
    # --- provide_secret --------------------------------------------------------------------------
    _, _, body = find_fn(impl, 'provide_secret')
    need(r'^\{ let pos = Self::place_secret\(idx\); for i in 0\.\.pos \{ let \(old_secret, old_idx\) = self\.old_secrets\[i as usize\]; if Self::derive_secret\(secret, pos, old_idx\) != old_secret \{ return Err\(\(\)\); \} \} if self\.get_min_seen_secret\(\) <= idx \{ return Ok\(\(\)\); \} self\.old_secrets\[pos as usize\] = \(secret, idx\); Ok\(\(\)\) \}$', norm(body), 'provide_secret')
    # --- get_secret ------------------------------------------------------------------------------
    _, _, body = find_fn(impl, 'get_secret')
    need(r'^\{ for i in 0\.\.self\.old_secrets\.len\(\) \{ if \(idx & \(!\(\(1 << i\) - 1\)\)\) == self\.old_secrets\[i\]\.1 \{ return Some\(Self::derive_secret\(self\.old_secrets\[i\]\.0, i as u8, idx\)\);? \} \} assert!\(idx < self\.get_min_seen_secret\(\)\); None \}$', norm(body), 'get_secret')
    # --- build_commitment_secret -----------------------------------------------------------------
    _, _, body = find_fn(src, 'build_commitment_secret')
    m = need(r'^\{ let mut res: \[u8; (\d+)\] = commitment_seed\.clone\(\); for i in 0\.\.(\d+) \{ let bitpos = (\d+) - i; if idx & \(1 << bitpos\) == \(1 << bitpos\) \{ res\[bitpos / 8\] \^= 1 << \(bitpos & 7\); res = Sha256::hash\(&res\)\.to_byte_array\(\); \} \} res \}$', norm(body), 'build_commitment_secret')
    if int(m.group(1)) != secret_len:
        raise TranslateError('build_commitment_secret: secret length differs')
    build_bits, build_top = int(m.group(2)), int(m.group(3))
    # --- Writeable / Readable --------------------------------------------------------------------
    i1 = src.index('impl Writeable for CounterpartyCommitmentSecrets {')
    wr = norm(src[i1: match_brace(src, src.index('{', i1))])
    need(r'for &\(ref secret, ref idx\) in self\.old_secrets\.iter\(\) \{ writer\.write_all\(secret\)\?; writer\.write_all\(&idx\.to_be_bytes\(\)\)\?; \} write_tlv_fields!\(writer, \{\}\); Ok\(\(\)\)', wr, 'Writeable')
    i2 = src.index('impl Readable for CounterpartyCommitmentSecrets {')
    rdr = norm(src[i2: match_brace(src, src.index('{', i2))])
    m = need(r'let mut old_secrets = \[\(\[0; (\d+)\], 1 << (\d+)\); (\d+)\]; for &mut \(ref mut secret, ref mut idx\) in old_secrets\.iter_mut\(\) \{ \*secret = Readable::read\(reader\)\?; \*idx = Readable::read\(reader\)\?; \} read_tlv_fields!\(reader, \{\}\); Ok\(Self \{ old_secrets \}\)', rdr, 'Readable')
    if (int(m.group(1)), int(m.group(3))) != (secret_len, slots):
        raise TranslateError('Readable: array shape differs from the struct declaration')

    # consistency the model relies on (one width parameter B)
    if not (place_bound == place_default == empty_shift == min_shift == build_bits == build_top + 1 == int(m.group(2))):
        raise TranslateError('index widths disagree: place loop %d / default %d, empty idx 1<<%d, min 1<<%d, build %d (top bit %d), read 1<<%s'
                             % (place_bound, place_default, empty_shift, min_shift, build_bits, build_top, m.group(2)))
    if slots != place_bound + 1:
        raise TranslateError('slot count %d is not index width %d + 1' % (slots, place_bound))

    L = ['/- GENERATED by tools/gen_secrets.py from lightning/src/ln/chan_utils.rs — do not edit. -/',
         'namespace Ldk.Generated', '',
         '/-- `old_secrets: [([u8; 32], u64); 49]` -/',
         'def SECRET_SLOTS : Nat := %d' % slots,
         '/-- loop bound of `place_secret` = fall-through value = shift of the empty index `1 << 48` = loop bound of `build_commitment_secret` -/',
         'def SECRET_INDEX_BITS : Nat := %d' % place_bound,
         '/-- `[u8; 32]` -/',
         'def SECRET_LEN : Nat := %d' % secret_len, '',
         'theorem secret_slots_eq : SECRET_SLOTS = SECRET_INDEX_BITS + 1 := by decide', '',
         'end Ldk.Generated']
    text = '\n'.join(L) + '\n'
    old = open(out_path).read() if os.path.exists(out_path) else None
    if old != text:
        open(out_path, 'w').write(text)

if __name__ == '__main__':
    try:
        main(sys.argv[1] if len(sys.argv) > 1 else os.path.join(os.path.dirname(__file__), '..', 'lean', 'LdkModel', 'Generated', 'SecretsConsts.lean'))
    except (TranslateError, ValueError) as ex:
        print("TRANSLATE-ERROR gen_secrets: %s" % ex)
        sys.exit(2)
