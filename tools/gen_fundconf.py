#!/usr/bin/env python3
"""Regenerate lean/LdkModel/Generated/FundConf.lean (C11, manager/channel side of chain delivery): the decisions
that record and RETRACT the confirmation of a funding scope (the channel funding and every pending splice candidate),
translated from the Rust text that exists in /repo *now* (lightning/src/ln/channel.rs):

  FundingScope::get_funding_tx_confirmations            -> confirmations
  FundingScope::get_funding_tx_confirmation_height      -> relevantHeight
  ChannelContext::check_funding_meets_minimum_depth     -> meetsMinDepth
  ChannelContext::check_for_funding_tx_confirmed        -> confirmGuard (+ pinned assignments height / block hash / scid)
  FundedChannel::do_best_block_updated                  -> mainRetract* (the `funding_tx_confirmations == 0` block) and
                                                           spliceRetract* (the "splice funding transaction was unconfirmed"
                                                           block): for EVERY assigned field the conjunction of the guards
                                                           under which the assignment is executed (statement tree of the
                                                           block, not a text pin); step order retract -> check_get_splice_locked
  FundedChannel::do_best_block_updated (round 6)        -> mainCloseGuard: the force-close decision "Funding transaction was
                                                           un-confirmed" as the conjunction of its three nested guards (channel
                                                           state, `funding_tx_confirmations == 0 && was_confirmed`, minimum_depth),
                                                           each translated atom by atom; pinned: was_confirmed / original_scid are
                                                           captured BEFORE the retraction block, the section sits between
                                                           check_get_channel_ready and the pending-splice section
  FundedChannel::transactions_confirmed (round 6)       -> confirmLoopErr / confirmLoopMark: the two decisions of the candidate
                                                           loop (two-confirmations error, funding_already_confirmed mark); pinned:
                                                           initial values, `?` on the check, check_get_splice_locked(index, height) after it
  FundedChannel::transaction_unconfirmed                -> unconfGuard / unconfReorgHeight (+ pinned: funnels into do_best_block_updated)
  FundedChannel::get_relevant_txids                     -> pinned: all three of txid / confirmation height / block hash must be Some
  PendingFunding::check_get_splice_locked               -> pinned step order (quiescent, depth, already-sent test, sent := txid)

Exit 2 with TRANSLATE-ERROR when a shape is no longer recognised.
"""
import re, sys, os
sys.path.insert(0, os.path.dirname(__file__))
from rs2lean import TranslateError, strip_comments, find_fn, match_brace

REPO = os.environ.get('VERIF_REPO', '/repo')
def rd(p): return open(os.path.join(REPO, p)).read()
def sq(s): return ' '.join(s.split())

def one(pat, text, what, flags=re.S):
    ms = list(re.finditer(pat, text, flags))
    if len(ms) != 1:
        raise TranslateError("%s: expected exactly one match, found %d" % (what, len(ms)))
    return ms[0]

def strip_macros(b):
    """remove log_*!( ... ); statements (brace/paren aware)"""
    out, i = '', 0
    for m in re.finditer(r'\blog_(?:trace|debug|info|warn|error)!\s*\(', b):
        if m.start() < i: continue
        j, d = m.end() - 1, 0
        while True:
            if b[j] == '(': d += 1
            elif b[j] == ')':
                d -= 1
                if d == 0: break
            j += 1
        k = j + 1
        while b[k].isspace(): k += 1
        if b[k] != ';': raise TranslateError("log macro not terminated by `;`")
        out += b[i:m.start()]; i = k + 1
    return out + b[i:]

def stmt_tree(block, guards, acc, what):
    """block = text between the braces of a `{ ... }`; collects (guards, lhs, rhs) for every assignment, recursing into
    `if COND { ... }` (no else allowed). Anything else is a shape change."""
    s = block.strip()
    while s:
        m = re.match(r'if\s+(.*?)\s*\{', s, re.S)
        if m:
            k = s.index('{', m.start(1) + len(m.group(1)))
            e = match_brace(s, k)
            stmt_tree(s[k + 1:e - 1], guards + [sq(m.group(1))], acc, what)
            s = s[e:].strip()
            if s.startswith('else'): raise TranslateError("%s: an `else` appeared in the retraction block" % what)
            continue
        m = re.match(r'([A-Za-z_][\w.\[\]]*)\s*=\s*([^;{}]+);', s)
        if m:
            acc.append((list(guards), m.group(1), sq(m.group(2))))
            s = s[m.end():].strip()
            continue
        raise TranslateError("%s: unrecognised statement in the retraction block: %r" % (what, s[:70]))

def conj(gs, atoms, what):
    out = []
    for g in gs:
        if g not in atoms: raise TranslateError("%s: unknown guard `%s`" % (what, g))
        out.append(atoms[g])
    return ' && '.join(out) if out else 'true'

def field_defs(L, prefix, acc, atoms, fields, params, what):
    """one Lean function per field: value after the block = if (guards of its assignment) then <reset> else old"""
    seen = {}
    for gs, lhs, rhs in acc:
        if lhs not in fields: raise TranslateError("%s: assignment to unexpected field `%s`" % (what, lhs))
        name, ty, reset_rhs, reset_lean = fields[lhs]
        if rhs != reset_rhs: raise TranslateError("%s: `%s` is reset to `%s`, expected `%s`" % (what, lhs, rhs, reset_rhs))
        if name in seen: raise TranslateError("%s: `%s` assigned twice" % (what, lhs))
        seen[name] = conj(gs, atoms, what)
    for lhs, (name, ty, reset_rhs, reset_lean) in fields.items():
        g = seen.get(name)
        if g is None:
            L.append('/-- %s: `%s` is NOT assigned in the block (kept) -/' % (what, lhs))
            L.append('def %s%s %s (old : %s) : %s := old' % (prefix, name, params, ty, ty))
        else:
            L.append('/-- %s: `%s = %s` is executed iff `%s` -/' % (what, lhs, reset_rhs, g))
            L.append('def %s%s %s (old : %s) : %s := if %s then %s else old' % (prefix, name, params, ty, ty, g, reset_lean))
    L.append('')

def bool_expr(e, atoms, what):
    """translate a Rust condition made of known atoms (optionally negated with `!`, optionally `X <cmp> <int>` atoms given as
    regex -> template) joined by `&&` / `||` (no mixing without the atoms table knowing, no parentheses)"""
    e = sq(e)
    def atom(a):
        a = a.strip(); neg = ''
        if a.startswith('!') and not a.startswith('!='):
            neg, a = '!', a[1:].strip()
        for pat, tmpl in atoms:
            m = re.fullmatch(pat, a)
            if m: return '(' + neg + (tmpl % m.groups() if m.groups() else tmpl) + ')' if neg else (tmpl % m.groups() if m.groups() else tmpl)
        raise TranslateError("%s: unknown atom `%s`" % (what, a))
    ors = [o for o in e.split(' || ')]
    out = []
    for o in ors:
        ands = [atom(a) for a in o.split(' && ')]
        out.append(' && '.join(ands) if len(ors) == 1 or len(ands) == 1 else '(' + ' && '.join(ands) + ')')
    return ' || '.join(out)

def main(out_path):
    ch = strip_comments(rd('lightning/src/ln/channel.rs'))
    L = ['/- GENERATED by tools/gen_fundconf.py from lightning/src/ln/channel.rs — do not edit. -/',
         'set_option linter.unusedVariables false', 'namespace Ldk.FundConfGen', '']

    # ---- FundingScope::get_funding_tx_confirmations ---------------------------------------------------------------
    _, _, body = find_fn(ch, 'get_funding_tx_confirmations')
    m = re.fullmatch(r'\{ if self\.funding_tx_confirmation_height == 0 \{ return 0; \} height\.checked_sub\(self\.funding_tx_confirmation_height\)\.map_or\((\d+), \|c\| c \+ (\d+)\) \}', sq(body))
    if not m: raise TranslateError("FundingScope::get_funding_tx_confirmations changed shape: %s" % sq(body)[:120])
    L.append('/-- mirrors FundingScope::get_funding_tx_confirmations -/')
    L.append('def confirmations (confHeight height : Nat) : Nat :=')
    L.append('  if confHeight == 0 then 0 else if height < confHeight then %s else (height - confHeight) + %s' % (m.group(1), m.group(2)))
    L.append('')

    # ---- FundingScope::get_funding_tx_confirmation_height ---------------------------------------------------------
    _, _, body = find_fn(ch, 'get_funding_tx_confirmation_height')
    m = re.fullmatch(r'\{ let conf_height = self\.funding_tx_confirmation_height; if conf_height (>|>=|!=) (\d+) \{ Some\(conf_height\) \} else \{ None \} \}', sq(body))
    if not m: raise TranslateError("FundingScope::get_funding_tx_confirmation_height changed shape")
    L.append('/-- mirrors FundingScope::get_funding_tx_confirmation_height (what get_relevant_txids reports) -/')
    L.append('def relevantHeight (confHeight : Nat) : Option Nat := if confHeight %s %s then some confHeight else none' % (m.group(1), m.group(2)))
    L.append('')

    # ---- ChannelContext::check_funding_meets_minimum_depth --------------------------------------------------------
    _, _, body = find_fn(ch, 'check_funding_meets_minimum_depth')
    b = sq(body)
    m = re.fullmatch(r'\{ let minimum_depth = self \.minimum_depth\(funding\) \.expect\("[^"]*"\); if minimum_depth == 0 \{ return true; \} '
                     r'if funding\.funding_tx_confirmation_height == 0 \{ return false; \} '
                     r'let funding_tx_confirmations = height as i64 - funding\.funding_tx_confirmation_height as i64 \+ (\d+); '
                     r'if funding_tx_confirmations (<|<=|>|>=) minimum_depth as i64 \{ return false; \} return true; \}', b)
    if not m: raise TranslateError("ChannelContext::check_funding_meets_minimum_depth changed shape: %s" % b[:160])
    L.append('/-- mirrors ChannelContext::check_funding_meets_minimum_depth (i64 arithmetic) -/')
    L.append('def meetsMinDepth (minDepth confHeight height : Nat) : Bool :=')
    L.append('  if minDepth == 0 then true else if confHeight == 0 then false')
    L.append('  else if ((height : Int) - (confHeight : Int) + %s %s (minDepth : Int)) then false else true' % (m.group(1), m.group(2)))
    L.append('')

    # ---- ChannelContext::check_for_funding_tx_confirmed -----------------------------------------------------------
    _, _, body = find_fn(ch, 'check_for_funding_tx_confirmed')
    b = sq(strip_macros(body))
    m = one(r'if funding\.funding_tx_confirmation_height (==|!=) (\d+) \{ if tx\.txid\(\) == funding_txo\.txid \{', b, 'check_for_funding_tx_confirmed: guards')
    one(r'funding\.funding_tx_confirmation_height = height; funding\.funding_tx_confirmed_in = Some\(\*block_hash\); funding\.short_channel_id = match scid_from_parts\(height as u64, index_in_block as u64, txo_idx as u64\)', b,
        'check_for_funding_tx_confirmed: the three assignments (height, block hash, scid)')
    if not b.endswith('return Ok(true); } } } Ok(false) }'): raise TranslateError("check_for_funding_tx_confirmed: tail changed")
    L.append('/-- mirrors check_for_funding_tx_confirmed: a matching transaction is recorded iff this holds (then height := the block height) -/')
    L.append('def confirmGuard (confHeight : Nat) : Bool := confHeight %s %s' % (m.group(1), m.group(2)))
    L.append('')

    # ---- FundedChannel::do_best_block_updated ---------------------------------------------------------------------
    _, _, body = find_fn(ch, 'do_best_block_updated')
    b = strip_macros(body)
    # main funding
    m = one(r'let funding_tx_confirmations = self\.funding\.get_funding_tx_confirmations\(height\);\s*if (funding_tx_confirmations == 0) \{', b, 'do_best_block_updated: main funding retraction')
    k = b.index('{', m.start(1)); e = match_brace(b, k)
    acc = []
    stmt_tree(b[k + 1:e - 1], [sq(m.group(1))], acc, 'do_best_block_updated main funding')
    if b[e:].lstrip().startswith('else'): raise TranslateError("do_best_block_updated: main retraction got an else")
    i_ready = b.find('self.check_get_channel_ready(height, logger)')
    if not (0 < e < i_ready): raise TranslateError("do_best_block_updated: main retraction no longer precedes check_get_channel_ready")
    field_defs(L, 'mainRetract', acc, {'funding_tx_confirmations == 0': 'confs == 0'},
               {'self.funding.funding_tx_confirmation_height': ('Height', 'Nat', '0', '0'),
                'self.funding.funding_tx_confirmed_in': ('ConfIn', 'Bool', 'None', 'false'),
                'self.funding.short_channel_id': ('Scid', 'Bool', 'None', 'false')},
               '(confs : Nat)', 'do_best_block_updated main funding')
    # pending splice: candidate selection, retraction, lock
    one(r'for \(index, funding\) in candidates\.enumerate\(\) \{\s*if funding\.funding_tx_confirmation_height != 0 \{\s*if confirmed_funding_index\.is_some\(\) \{[^}]*return Err\(ClosureReason::ProcessingError \{[^}]*\}\);\s*\}\s*confirmed_funding_index = Some\(index\);\s*\}\s*\}', b,
        'do_best_block_updated: selection of the confirmed splice candidate')
    m = one(r'if let Some\(confirmed_funding_index\) = confirmed_funding_index \{\s*let funding =\s*&mut pending_splice\.negotiated_candidates\[confirmed_funding_index\]\.funding;\s*if (funding\.get_funding_tx_confirmations\(height\) == 0) \{', b,
            'do_best_block_updated: splice retraction head')
    k = b.index('{', m.start(1)); e = match_brace(b, k)
    acc = []
    stmt_tree(b[k + 1:e - 1], [sq(m.group(1))], acc, 'do_best_block_updated pending splice')
    rest = b[e:].lstrip()
    if not re.match(r'if let Some\(splice_locked\) = pending_splice\.check_get_splice_locked\(\s*&self\.context,\s*confirmed_funding_index,\s*height,\s*\) \{', rest):
        raise TranslateError("do_best_block_updated: the splice retraction is no longer directly followed by check_get_splice_locked(context, index, height)")
    field_defs(L, 'spliceRetract', acc,
               {'funding.get_funding_tx_confirmations(height) == 0': 'confs == 0',
                'let Some(sent_funding_txid) = pending_splice.sent_funding_txid': 'sent.isSome',
                'Some(sent_funding_txid) == funding.get_funding_txid()': 'sent == txid'},
               {'funding.funding_tx_confirmation_height': ('Height', 'Nat', '0', '0'),
                'funding.funding_tx_confirmed_in': ('ConfIn', 'Bool', 'None', 'false'),
                'funding.short_channel_id': ('Scid', 'Bool', 'None', 'false'),
                'pending_splice.sent_funding_txid': ('Sent', 'Option Nat', 'None', 'none')},
               '(confs : Nat) (sent txid : Option Nat)', 'do_best_block_updated pending splice')

    # ---- do_best_block_updated: the force-close decision "Funding transaction was un-confirmed" (round 6) ----------
    bs = sq(b)
    i_scid = bs.find('let original_scid = self.funding.short_channel_id;')
    i_was = bs.find('let was_confirmed = self.funding.funding_tx_confirmed_in.is_some();')
    i_ret = bs.find('let funding_tx_confirmations = self.funding.get_funding_tx_confirmations(height); if funding_tx_confirmations == 0 {')
    if not (0 < i_scid < i_was < i_ret):
        raise TranslateError("do_best_block_updated: original_scid / was_confirmed are no longer captured BEFORE the retraction block")
    if len(re.findall(r'\bwas_confirmed\b\s*=[^=]', bs)) != 1 or len(re.findall(r'\bfunding_tx_confirmations\b\s*=[^=]', bs)) != 1:
        raise TranslateError("do_best_block_updated: was_confirmed / funding_tx_confirmations assigned more than once")
    m = one(r'if let Some\(channel_ready\) = self\.check_get_channel_ready\(height, logger\) \{', bs, 'do_best_block_updated: check_get_channel_ready call')
    e_ready = match_brace(bs, bs.index('{', m.start()))
    m = re.match(r'\s*if ((?:(?!\{).)*?) \{', bs[e_ready:])
    if not m: raise TranslateError("do_best_block_updated: no state guard directly after the check_get_channel_ready block")
    g_state = m.group(1)
    k0 = e_ready + m.end() - 1; e0 = match_brace(bs, k0)
    blk0 = bs[k0 + 1:e0 - 1].strip()
    m1 = re.match(r'if ((?:(?!\{).)*?) \{', blk0)
    if not m1: raise TranslateError("do_best_block_updated: state-guard block does not start with the un-confirmed test")
    g_unconf = m1.group(1)
    k1 = m1.end() - 1; e1 = match_brace(blk0, k1)
    if blk0[e1:].strip(): raise TranslateError("do_best_block_updated: extra statements after the un-confirmed test in the state-guard block")
    blk1 = blk0[k1 + 1:e1 - 1].strip()
    m2 = one(r'if self\.context\.minimum_depth\(&self\.funding\)\.expect\("[^"]*"\) (>|>=|==|!=|<|<=) (\d+) \{', blk1, 'do_best_block_updated: minimum_depth test of the force-close')
    k2 = blk1.index('{', m2.start()); e2 = match_brace(blk1, k2)
    blk2 = blk1[k2 + 1:e2 - 1]
    if blk1[e2:].strip(): raise TranslateError("do_best_block_updated: statements after the minimum_depth block of the force-close")
    if blk2.count('return') != 1 or not re.search(r'return Err\(ClosureReason::ProcessingError \{ err: err_reason \}\); *$', blk2.strip()):
        raise TranslateError("do_best_block_updated: the minimum_depth block no longer ends in the one `return Err(ProcessingError)`")
    if blk0.count('return') != 1: raise TranslateError("do_best_block_updated: another return appeared in the state-guard block")
    pre2 = blk1[:m2.start()].strip()
    if not re.fullmatch(r'if let Some\(scid\) = original_scid \{ self\.context\.historical_scids\.push\(scid\); \} else \{ debug_assert!\(false\); \}', pre2):
        raise TranslateError("do_best_block_updated: historical_scids bookkeeping before the minimum_depth test changed shape")
    rest0 = bs[e0:].lstrip()
    if not rest0.startswith('else if !self.funding.is_outbound() && self.funding.funding_tx_confirmed_in.is_none() &&'):
        raise TranslateError("do_best_block_updated: the state guard is no longer followed by the funding-timeout arm")
    i_ps = bs.find('if let Some(pending_splice) = &mut self.pending_splice {')
    if not (e0 < i_ps): raise TranslateError("do_best_block_updated: force-close decision no longer precedes the pending-splice section")
    lean_state = bool_expr(g_state, [(r'matches!\(self\.context\.channel_state, ChannelState::ChannelReady\(_\)\)', 'isReady'),
                                     (r'self\.context\.channel_state\.is_our_channel_ready\(\)', 'ourReady')], 'do_best_block_updated state guard')
    lean_unconf = bool_expr(g_unconf, [(r'funding_tx_confirmations (==|!=|>|>=|<|<=) (\d+)', 'confs %s %s'),
                                       (r'was_confirmed', 'wasConfirmed')], 'do_best_block_updated un-confirmed test')
    L.append('/-- do_best_block_updated: `return Err(ProcessingError "Funding transaction was un-confirmed ...")` is executed iff')
    L.append('    `%s` && `%s` && `minimum_depth %s %s` (was_confirmed captured before the retraction block) -/' % (g_state, g_unconf, m2.group(1), m2.group(2)))
    L.append('def mainCloseGuard (isReady ourReady : Bool) (confs : Nat) (wasConfirmed : Bool) (minDepth : Nat) : Bool :=')
    L.append('  (%s) && (%s) && (minDepth %s %s)' % (lean_state, lean_unconf, m2.group(1), m2.group(2)))
    L.append('')

    # ---- FundedChannel::transactions_confirmed: the candidate loop (round 6) -----------------------------------------
    _, _, tbody = find_fn(ch, 'transactions_confirmed', after='fn check_get_channel_ready')
    tb = sq(strip_macros(tbody))
    m = one(r'if let Some\(pending_splice\) = &mut self\.pending_splice \{ let mut confirmed_funding_index = None; let mut funding_already_confirmed = false; '
            r'let candidates = pending_splice\.negotiated_candidates\.iter_mut\(\)\.map\(\|candidate\| &mut candidate\.funding\); '
            r'for \(index, funding\) in candidates\.enumerate\(\) \{ '
            r'if self\.context\.check_for_funding_tx_confirmed\( funding, block_hash, height, index_in_block, &mut confirmed_tx, logger, \)\? \{ '
            r'if ((?:(?!\{).)*?) \{ let err_reason = "[^"]*"; return Err\(ClosureReason::ProcessingError \{ err: err_reason\.to_owned\(\) \}\); \} '
            r'confirmed_funding_index = Some\(index\); \} '
            r'else if funding\.funding_tx_confirmation_height (!=|==|>|>=) (\d+) \{ funding_already_confirmed = true; \} \} '
            r'if let Some\(confirmed_funding_index\) = confirmed_funding_index \{ '
            r'if let Some\(splice_locked\) = pending_splice\.check_get_splice_locked\( &self\.context, confirmed_funding_index, height, \) \{', tb,
            'transactions_confirmed: candidate loop')
    lean_err = bool_expr(m.group(1), [(r'funding_already_confirmed', 'already'), (r'confirmed_funding_index\.is_some\(\)', 'idxSome'),
                                      (r'confirmed_funding_index\.is_none\(\)', '!idxSome')], 'transactions_confirmed two-confirmations test')
    L.append('/-- transactions_confirmed candidate loop: a candidate that confirms in this transaction is an ERROR (force-close) iff `%s` -/' % m.group(1))
    L.append('def confirmLoopErr (already idxSome : Bool) : Bool := %s' % lean_err)
    L.append('/-- transactions_confirmed candidate loop: a candidate NOT confirmed by this transaction sets funding_already_confirmed iff its recorded height `%s %s` -/' % (m.group(2), m.group(3)))
    L.append('def confirmLoopMark (confHeight : Nat) : Bool := confHeight %s %s' % (m.group(2), m.group(3)))
    L.append('')

    # ---- FundedChannel::transaction_unconfirmed -------------------------------------------------------------------
    _, _, body = find_fn(ch, 'transaction_unconfirmed', after='pub fn get_relevant_txids(&self) -> impl Iterator')
    b = sq(strip_macros(body))
    one(r'let unconfirmed_funding = self \.funding_and_pending_funding_iter_mut\(\) \.find\(\|funding\| funding\.get_funding_txid\(\) == Some\(\*txid\)\);', b, 'transaction_unconfirmed: scope look-up')
    m = one(r'if let Some\(funding\) = unconfirmed_funding \{ if funding\.funding_tx_confirmation_height (!=|>|==) (\d+) \{ let reorg_height = funding\.funding_tx_confirmation_height (-|\+) (\d+);', b, 'transaction_unconfirmed: guard and reorg height')
    one(r'match self\.do_best_block_updated\(reorg_height, None, signer_config, logger\) \{', b, 'transaction_unconfirmed: funnels into do_best_block_updated(reorg_height)')
    L.append('/-- mirrors FundedChannel::transaction_unconfirmed: the scope naming the txid is rewound iff this holds -/')
    L.append('def unconfGuard (confHeight : Nat) : Bool := confHeight %s %s' % (m.group(1), m.group(2)))
    L.append('/-- mirrors FundedChannel::transaction_unconfirmed: the height handed to do_best_block_updated -/')
    L.append('def unconfReorgHeight (confHeight : Nat) : Nat := confHeight %s %s' % (m.group(3), m.group(4)))
    L.append('')

    # ---- FundedChannel::get_relevant_txids (pinned) ---------------------------------------------------------------
    _, _, body = find_fn(ch, 'get_relevant_txids', after='fn do_best_block_updated')
    b = sq(body)
    if not re.fullmatch(r'\{ core::iter::once\(&self\.funding\) \.chain\(self\.pending_funding\(\)\) \.map\(\|funding\| \{ \( funding\.get_funding_txid\(\), funding\.get_funding_tx_confirmation_height\(\), funding\.funding_tx_confirmed_in, \) \}\) '
                        r'\.filter_map\(\|\(txid_opt, height_opt, hash_opt\)\| \{ if let \(Some\(funding_txid\), Some\(conf_height\), Some\(block_hash\)\) = \(txid_opt, height_opt, hash_opt\) \{ Some\(\(funding_txid, conf_height, Some\(block_hash\)\)\) \} else \{ None \} \}\) \}', b):
        raise TranslateError("FundedChannel::get_relevant_txids changed shape")

    # ---- PendingFunding::check_get_splice_locked (pinned step order) ----------------------------------------------
    _, _, body = find_fn(ch, 'check_get_splice_locked')
    b = sq(body)
    i1 = b.find('if context.channel_state.is_quiescent() { return None; }')
    i2 = b.find('if !context.check_funding_meets_minimum_depth(funding, height) { return None; }')
    i3 = b.find('match self.sent_funding_txid { Some(sent_funding_txid) if confirmed_funding_txid == sent_funding_txid => None, _ => {')
    i4 = b.find('self.sent_funding_txid = Some(splice_locked.splice_txid); Some(splice_locked)')
    if not (0 < i1 < i2 < i3 < i4): raise TranslateError("PendingFunding::check_get_splice_locked changed shape / step order")

    L.append('end Ldk.FundConfGen')
    text = '\n'.join(L) + '\n'
    old = open(out_path).read() if os.path.exists(out_path) else None
    if old != text:
        open(out_path, 'w').write(text)

if __name__ == '__main__':
    try:
        main(sys.argv[1] if len(sys.argv) > 1 else os.path.join(os.path.dirname(__file__), '..', 'lean', 'LdkModel', 'Generated', 'FundConf.lean'))
    except TranslateError as ex:
        print("TRANSLATE-ERROR gen_fundconf: %s" % ex)
        sys.exit(2)
