#!/usr/bin/env python3
"""Regenerate lean/LdkModel/Generated/ForceClose.lean (C02): which outbound HTLCs `ChannelContext::force_shutdown`
(lightning/src/ln/channel.rs) hands back for IMMEDIATE backwards failure (`dropped_outbound_htlcs`) when a channel is
force-closed, translated from the source that exists in /repo *now*:

  * every `HTLCUpdateAwaitingACK::AddHTLC` of the holding cell (pinned fragment);
  * of `pending_outbound_htlcs`: the head condition of the `'htlc_iter` loop is TRANSLATED (an `if let
    OutboundHTLCState::X(..) = htlc.state`, or a boolean expression over `htlc.state.included_in_commitment(b)` — the
    latter refers to the generated table `OutState.included` of Generated/HtlcTables.lean); the loop body (first blocked
    `ChannelMonitorUpdate` step that is a counterparty commitment decides, `continue 'htlc_iter`) is pinned textually;
  * `ChannelManager::finish_close_channel` fails every dropped HTLC backwards with `ChannelClosed` (pinned).

TRANSLATE-ERROR (exit 2) when the shape is not the expected one.
"""
import re, sys, os
sys.path.insert(0, os.path.dirname(__file__))
from rs2lean import parse_expr, Emitter, TranslateError, strip_comments, match_brace

REPO = os.environ.get('VERIF_REPO', '/repo')
OUT = ['LocalAnnounced', 'Committed', 'RemoteRemoved', 'AwaitingRemoteRevokeToRemove', 'AwaitingRemovedRemoteRevoke']
def lc(n): return n[0].lower() + n[1:]
def norm(s): return ' '.join(s.split())
def pat(s): return '.' + lc(s) + ('' if s in ('LocalAnnounced', 'Committed') else ' _')

def main(out_path):
    src = open(os.path.join(REPO, 'lightning/src/ln/channel.rs')).read()
    cm = open(os.path.join(REPO, 'lightning/src/ln/channelmanager.rs')).read()
    # ChannelContext::force_shutdown (the private one taking `funding`)
    m = re.search(r'\bfn force_shutdown\(\s*&mut self, funding: &FundingScope, mut closure_reason: ClosureReason,?\s*\) -> ShutdownResult \{', src)
    if not m: raise TranslateError("ChannelContext::force_shutdown(&mut self, funding, closure_reason) not found")
    body = strip_comments(src[m.end() - 1: match_brace(src, m.end() - 1)])
    nb = norm(body)
    # ---- holding cell -----------------------------------------------------------------------------------------
    hc = ("for htlc_update in self.holding_cell_htlc_updates.drain(..) { match htlc_update { HTLCUpdateAwaitingACK::AddHTLC { source, payment_hash, .. } => { "
          "dropped_outbound_htlcs.push(( source, payment_hash, counterparty_node_id, self.channel_id, )); }, _ => {}, } }")
    if hc not in nb: raise TranslateError("force_shutdown: the holding-cell drain no longer has the expected shape")
    # ---- pending_outbound_htlcs loop ----------------------------------------------------------------------------
    m = re.search(r"'htlc_iter: for htlc in self\.pending_outbound_htlcs\.iter\(\) \{", body)
    if not m: raise TranslateError("force_shutdown: `'htlc_iter: for htlc in self.pending_outbound_htlcs.iter()` not found")
    loop = body[m.end() - 1: match_brace(body, m.end() - 1)]
    inner = loop.strip()[1:-1].strip()
    if not inner.startswith('if '): raise TranslateError("force_shutdown: loop body does not start with `if`")
    # head condition = text between `if` and the `{` that opens the block containing the blocked_monitor_updates scan
    k = inner.index('for update in self.blocked_monitor_updates.iter()')
    head = inner[3:k].rstrip()
    if not head.endswith('{'): raise TranslateError("force_shutdown: unexpected text between the condition and the scan: %r" % head[-40:])
    cond = head[:-1].strip()
    blk_start = 3 + len(head) - 1
    blk_end = match_brace(inner, blk_start)
    if inner[blk_end:].strip() != '': raise TranslateError("force_shutdown: statements after the `if` in the 'htlc_iter loop: %r" % norm(inner[blk_end:])[:80])
    scan = norm(inner[blk_start:blk_end])
    expect_scan = norm("""{ for update in self.blocked_monitor_updates.iter() { for update in update.update.updates.iter() {
        let have_htlc = match update {
            ChannelMonitorUpdateStep::LatestCounterpartyCommitment { htlc_data, .. } => {
                let dust = htlc_data.dust_htlcs.iter().map(|(_, source)| source.as_ref());
                let nondust = htlc_data.nondust_htlc_sources.iter().map(|s| Some(s));
                dust.chain(nondust).any(|source| source == Some(&htlc.source)) },
            ChannelMonitorUpdateStep::LatestCounterpartyCommitmentTXInfo { htlc_outputs, .. } => htlc_outputs.iter().any(|(_, source)| { source.as_ref().map(|s| &**s) == Some(&htlc.source) }),
            _ => continue, };
        debug_assert!(have_htlc);
        if have_htlc { dropped_outbound_htlcs.push(( htlc.source.clone(), htlc.payment_hash, counterparty_node_id, self.channel_id, )); }
        continue 'htlc_iter; } } }""")
    if scan != expect_scan:
        raise TranslateError("force_shutdown: the scan of blocked_monitor_updates changed shape")
    # ---- translate the head condition ----------------------------------------------------------------------------
    m = re.fullmatch(r'let OutboundHTLCState::(\w+)(?:\((?:_|\.\.)\))? = htlc\.state', norm(cond))
    if m:
        if m.group(1) not in OUT: raise TranslateError("force_shutdown: unknown OutboundHTLCState::%s" % m.group(1))
        lean_cond = '(match s with | %s => true | _ => false)' % pat(m.group(1))
    else:
        def inc(recv, args):
            if recv != 'htlc.state' or len(args) != 1: raise TranslateError("included_in_commitment on %s(%s)" % (recv, args))
            return '(Ldk.Chan.OutState.included s %s)' % args[0]
        try:
            lean_cond = Emitter(methods={'included_in_commitment': inc}, env={'htlc': 'htlc'}).e(parse_expr(cond))
        except TranslateError as ex:
            raise TranslateError("force_shutdown: cannot translate the selection condition `%s`: %s" % (norm(cond), ex))
        if 'htlc' in lean_cond.replace('htlc.state', ''): pass
        if re.search(r'\bhtlc\b', lean_cond): raise TranslateError("force_shutdown: selection condition `%s` reads more than htlc.state" % norm(cond))
    # ---- finish_close_channel ------------------------------------------------------------------------------------
    ncm = norm(strip_comments(cm))
    fin = ("for htlc_source in shutdown_res.dropped_outbound_htlcs.drain(..) { let (source, payment_hash, counterparty_node_id, channel_id) = htlc_source; "
           "let failure_reason = LocalHTLCFailureReason::ChannelClosed; let reason = HTLCFailReason::from_failure_code(failure_reason); "
           "let failure_type = source.failure_type(counterparty_node_id, channel_id); self.fail_htlc_backwards_internal(&source, &payment_hash, &reason, failure_type, None); }")
    if fin not in ncm: raise TranslateError("finish_close_channel no longer fails `dropped_outbound_htlcs` backwards in the expected way")

    L = ['/- GENERATED by tools/gen_forceclose.py from lightning/src/ln/channel.rs — do not edit. -/',
         'import LdkModel.Generated.HtlcTables', 'namespace Ldk.FcGen', 'open Ldk.Chan', '',
         '/-- head condition of the `\'htlc_iter` loop of ChannelContext::force_shutdown (translated): `if %s` -/' % norm(cond),
         'def forceShutdownConsiders (s : OutState) : Bool :=', '  ' + lean_cond, '',
         '/-- mirrors the loop body (pinned textually): of the blocked `ChannelMonitorUpdate`s, the FIRST step that is a counterparty',
         '    commitment (`LatestCounterpartyCommitment{,TXInfo}`) decides — `have_htlc` = it lists the HTLC — and later ones are not',
         '    looked at (`continue \'htlc_iter`); `none` = no blocked update carries a counterparty commitment -/',
         'def forceShutdownDropsPending (s : OutState) (firstBlockedCommitmentHasHtlc : Option Bool) : Bool :=',
         '  forceShutdownConsiders s && (match firstBlockedCommitmentHasHtlc with | some b => b | none => false)', '',
         '/-- every `HTLCUpdateAwaitingACK::AddHTLC` in the holding cell is dropped (pinned textually) -/',
         'def forceShutdownDropsHoldingCellAdd : Bool := true', '',
         'end Ldk.FcGen']
    text = '\n'.join(L) + '\n'
    old = open(out_path).read() if os.path.exists(out_path) else None
    if old != text: open(out_path, 'w').write(text)

if __name__ == '__main__':
    try:
        main(sys.argv[1] if len(sys.argv) > 1 else os.path.join(os.path.dirname(__file__), '..', 'lean', 'LdkModel', 'Generated', 'ForceClose.lean'))
    except TranslateError as ex:
        print("TRANSLATE-ERROR gen_forceclose: %s" % ex)
        sys.exit(2)
