#!/usr/bin/env python3
"""Regenerate lean/LdkModel/Generated/OnionInbFail.lean (C14): how onion_payment.rs::decode_incoming_update_add_htlc_onion
answers an HTLC it cannot decode / forward — the two closures `encode_malformed_error` (blinding point present or reason
InvalidOnionBlinding => update_fail_malformed_htlc with zero sha and invalid_onion_blinding, else sha256 of the hop data and
the reason's code) and `encode_relay_error` (blinding point present => the former with InvalidOnionBlinding, else an
encrypted failure packet for the reason), and every site that calls them (invalid ephemeral key, unknown version, the
Malformed / Relay arms of decode_next_payment_hop, check_blinded_forward failing for Hop::BlindedForward / Hop::Dummy),
translated from the Rust text that exists in /repo now.  Anything outside these forms is a TRANSLATE-ERROR (exit 2)."""
import re, sys, os
sys.path.insert(0, os.path.dirname(__file__))
from rs2lean import TranslateError, strip_comments, find_fn
REPO = os.environ.get('VERIF_REPO', '/repo')
def rd(p): return open(os.path.join(REPO, p)).read()
def norm(s):
    s = ' '.join(strip_comments(s).split())
    s = re.sub(r',\s*\)', ')', s); s = re.sub(r',\s*\}', ' }', s)
    s = re.sub(r'\(\s+', '(', s); s = re.sub(r'\s+\)', ')', s)
    s = re.sub(r'\s+\.(?=[a-z_])', '.', s)
    return s

def main(out_path):
    op = rd('lightning/src/ln/onion_payment.rs'); ou = rd('lightning/src/ln/onion_utils.rs')
    consts = {n: int(re.search(r'const %s: u16 = (0x[0-9a-fA-F]+|\d+);' % n, ou).group(1), 0) for n in ('BADONION', 'PERM', 'NODE', 'UPDATE')}
    _, _, fc = find_fn(ou, 'failure_code'); codes = {}
    for m in re.finditer(r'((?:Self::\w+\s*\|?\s*)+)=>\s*([A-Z0-9 |]+),', strip_comments(fc)):
        val = 0
        for x in m.group(2).split('|'): x = x.strip(); val |= consts[x] if x in consts else int(x, 0)
        for v in re.findall(r'Self::(\w+)', m.group(1)): codes[v] = val
    iob = codes['InvalidOnionBlinding']
    if [v for v, c in codes.items() if c == iob] != ['InvalidOnionBlinding']: raise TranslateError("InvalidOnionBlinding's failure code is shared with another variant")
    _, _, body = find_fn(op, 'decode_incoming_update_add_htlc_onion'); b = norm(body)
    m = re.search(r'let encode_malformed_error = \|message: &str, failure_reason: LocalHTLCFailureReason\| \{ log_info!\([^;]*\); let \(sha256_of_onion, failure_reason\) = if (?P<cond>[^{]+?) \{ \((?P<s1>[^()]+), LocalHTLCFailureReason::(?P<r1>\w+)\) \} else \{ \((?P<s2>.+?), failure_reason\) \}; '
                  r'return Err\(\(HTLCFailureMsg::Malformed\(msgs::UpdateFailMalformedHTLC \{ channel_id: msg\.channel_id, htlc_id: msg\.htlc_id, sha256_of_onion, failure_code: failure_reason\.failure_code\(\) \}\), failure_reason\)\); \};', b)
    if not m: raise TranslateError("encode_malformed_error has an unknown form")
    terms = []
    for t in m.group('cond').split('||'):
        t = t.strip()
        if t == 'msg.blinding_point.is_some()': terms.append('msg_blinding_point_is_some')
        else:
            e = re.fullmatch(r'failure_reason == LocalHTLCFailureReason::(\w+)', t)
            if not e or e.group(1) not in codes: raise TranslateError("encode_malformed_error: unknown condition `%s`" % t)
            terms.append('failure_code == %d' % codes[e.group(1)])
    sha = {'[0; 32]': '.zeros', 'Sha256::hash(&msg.onion_routing_packet.hop_data).to_byte_array()': '.hashOfHopData'}
    if m.group('s1') not in sha or m.group('s2') not in sha or m.group('r1') not in codes: raise TranslateError("encode_malformed_error: unknown sha256_of_onion / reason")
    mal = 'if %s then .malformed %s %d else .malformed %s failure_code' % (' || '.join(terms), sha[m.group('s1')], codes[m.group('r1')], sha[m.group('s2')])
    m = re.search(r'let encode_relay_error = \|message: &str, reason: LocalHTLCFailureReason, shared_secret: \[u8; 32\], trampoline_shared_secret: Option<\[u8; 32\]>, data: &\[u8\]\| \{ if (?P<cond>[^{]+?) \{ return encode_malformed_error\(message, LocalHTLCFailureReason::(?P<r>\w+)\) \} log_info!\([^;]*\); '
                  r'let failure = HTLCFailReason::reason\(reason, data\.to_vec\(\)\)\.get_encrypted_failure_packet\(&shared_secret, &trampoline_shared_secret\); return Err\(\(HTLCFailureMsg::Relay\(msgs::UpdateFailHTLC \{ channel_id: msg\.channel_id, htlc_id: msg\.htlc_id, reason: failure\.data, attribution_data: failure\.attribution_data \}\), reason\)\); \};', b)
    if not m or m.group('cond') != 'msg.blinding_point.is_some()' or m.group('r') not in codes: raise TranslateError("encode_relay_error has an unknown form")
    rel_code = codes[m.group('r')]
    # call sites, in source order
    def cnt(p): return len(re.findall(p, b))
    checks = [(r'return encode_malformed_error\("[^"]*", LocalHTLCFailureReason::InvalidOnionKey\)', 1), (r'return encode_malformed_error\("[^"]*", LocalHTLCFailureReason::InvalidOnionVersion\)', 1),
              (r'return encode_malformed_error\(message, LocalHTLCFailureReason::InvalidOnionBlinding\)', 1),
              (r'Err\(onion_utils::OnionDecodeErr::Malformed \{ err_msg, reason \}\) => \{ return encode_malformed_error\(err_msg, reason\); \}', 1),
              (r'Err\(onion_utils::OnionDecodeErr::Relay \{ err_msg, reason, shared_secret, trampoline_shared_secret \}\) => \{ return encode_relay_error\(err_msg, reason, shared_secret\.secret_bytes\(\), trampoline_shared_secret\.map\(\|tss\| tss\.secret_bytes\(\)\), &\[0; 0\]\); \}', 1),
              (r'return encode_relay_error\("[^"]*", LocalHTLCFailureReason::InvalidOnionBlinding, shared_secret\.secret_bytes\(\), None, &\[0; 32\]\);', 2),
              (r'encode_malformed_error\(', 4), (r'encode_relay_error\(', 3), (r'HTLCFailureMsg::', 2)]
    for pat, k in checks:
        if cnt(pat) != k: raise TranslateError("call sites of encode_malformed_error / encode_relay_error changed: %d x `%s`, expected %d" % (cnt(pat), pat[:60], k))
    if len(re.findall(r'Err\(\(\)\) => \{ return encode_relay_error', b)) != 2: raise TranslateError("check_blinded_forward failure arms changed")
    L = ['/- GENERATED by tools/gen_onion_inbfail.py from lightning/src/ln/onion_payment.rs (decode_incoming_update_add_htlc_onion:',
         '   encode_malformed_error, encode_relay_error and their call sites) — do not edit.  Regenerated on every check. -/',
         'import LdkModel.Generated.OnionBlinded', 'set_option linter.unusedVariables false', 'namespace Ldk.Onion', '',
         '/-- `sha256_of_onion` of update_fail_malformed_htlc: all zero, or the hash of the received hop data -/',
         'inductive OnionSha | zeros | hashOfHopData', '  deriving DecidableEq, Repr', '',
         '/-- what goes back: update_fail_malformed_htlc (sha, failure code) or update_fail_htlc with an encrypted failure packet',
         '    built from (reason code, data) under this hop\'s shared secret -/',
         'inductive InboundFailure | malformed (sha : OnionSha) (failure_code : Nat) | relay (reason_code : Nat) (data : Bytes)', '  deriving DecidableEq, Repr', '',
         '/-- the closure `encode_malformed_error` (translated) -/',
         'def encodeMalformedError (msg_blinding_point_is_some : Bool) (failure_code : Nat) : InboundFailure :=', '  ' + mal, '',
         '/-- the closure `encode_relay_error` (translated) -/',
         'def encodeRelayError (msg_blinding_point_is_some : Bool) (reason_code : Nat) (data : Bytes) : InboundFailure :=',
         '  if msg_blinding_point_is_some then encodeMalformedError msg_blinding_point_is_some %d else .relay reason_code data' % rel_code, '',
         '/-- the places decode_incoming_update_add_htlc_onion gives up (source order) -/',
         'inductive InboundFailSite where', '  | invalidEphemeralKey | unknownVersion', '  | decodeMalformed (reason_code : Nat)   -- OnionDecodeErr::Malformed (bad HMAC, bad version inside, …)',
         '  | decodeRelay (reason_code : Nat)       -- OnionDecodeErr::Relay (unreadable payload, …)', '  | blindedForwardCheck | dummyCheck       -- check_blinded_forward failed', '  deriving DecidableEq, Repr', '',
         '/-- decode_incoming_update_add_htlc_onion, failure side: site -> answer (every call site translated) -/',
         'def inboundFailure (msg_blinding_point_is_some : Bool) : InboundFailSite → InboundFailure',
         '  | .invalidEphemeralKey => encodeMalformedError msg_blinding_point_is_some %d' % codes['InvalidOnionKey'],
         '  | .unknownVersion => encodeMalformedError msg_blinding_point_is_some %d' % codes['InvalidOnionVersion'],
         '  | .decodeMalformed reason_code => encodeMalformedError msg_blinding_point_is_some reason_code',
         '  | .decodeRelay reason_code => encodeRelayError msg_blinding_point_is_some reason_code []',
         '  | .blindedForwardCheck => encodeRelayError msg_blinding_point_is_some %d (zeros 32)' % iob,
         '  | .dummyCheck => encodeRelayError msg_blinding_point_is_some %d (zeros 32)' % iob, '',
         'end Ldk.Onion']
    text = '\n'.join(L) + '\n'
    old = open(out_path).read() if os.path.exists(out_path) else None
    if old != text:
        os.makedirs(os.path.dirname(out_path), exist_ok=True); open(out_path, 'w').write(text)

if __name__ == '__main__':
    try:
        main(sys.argv[1] if len(sys.argv) > 1 else os.path.join(os.path.dirname(os.path.abspath(__file__)), '..', 'lean', 'LdkModel', 'Generated', 'OnionInbFail.lean'))
    except TranslateError as ex:
        print("TRANSLATE-ERROR gen_onion_inbfail: %s" % ex); sys.exit(2)
    except (ValueError, AssertionError, AttributeError, KeyError) as ex:
        print("TRANSLATE-ERROR gen_onion_inbfail: source structure changed (%s: %s)" % (type(ex).__name__, ex)); sys.exit(2)
