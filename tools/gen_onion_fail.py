#!/usr/bin/env python3
"""Regenerate lean/LdkModel/Generated/OnionFail.lean (C14): the failure-relay path of
lightning/src/ln/onion_utils.rs, translated STATEMENT BY STATEMENT from the Rust text that exists in
/repo now:

  update_fail_htlc_wire_len      (arithmetic through rs2lean; message layout from msgs.rs / ser.rs / wire.rs)
  build_unencrypted_failure_packet, build_failure_packet, update_attribution_data,
  crypt_failure_packet, process_failure_packet (incl. the LN_MAX_MSG_LEN guard: its comparison is
  translated, not copied), the relaying arm of HTLCFailReason::get_encrypted_failure_packet

Every Rust statement must match one of a small table of statement forms (each mapped to one Lean
`let` on the packet state `p : FailPkt`, conditions / length expressions going through
rs2lean's expression translator).  A statement outside the table, a changed message layout or a
changed signature is a TRANSLATE-ERROR (exit 2) — never silently skipped.

process_fulfill_attribution_data / decode_fulfill_attribution_data (the fulfil direction) are translated the same
way (hop count / position formulas through rs2lean).

The byte-level helpers the statements call (AttributionData::{new, update, add_hmacs, write_downstream_hmacs,
crypt, shift_right, shift_left, verify, get_hmac, get_hmac_mut, get_hold_time_bytes}) have hand-written mirrors in
Model/Onion.lean: every statement of theirs must match its form (TRANSLATE-ERROR otherwise) and every index /
offset / length expression is TRANSLATED into Generated/AttrIdx.lean; Proofs/OnionAttrIdx.lean proves that the
mirrors use exactly those formulas.  Still PINNED by sha256 of the normalised text: the attribution block of
process_onion_failure_inner and the three key derivations.
"""
import re, sys, os, hashlib
sys.path.insert(0, os.path.dirname(__file__))
from rs2lean import (parse_expr, parse_block, Emitter, TranslateError, strip_comments, find_fn,
                     match_brace, parse_params)

REPO = os.environ.get('VERIF_REPO', '/repo')
def rd(p): return open(os.path.join(REPO, p)).read()

def norm(s):
    s = ' '.join(strip_comments(s).split())
    s = re.sub(r',\s*\)', ')', s)          # rustfmt trailing commas
    s = re.sub(r',\s*\}', ' }', s)
    s = re.sub(r'\(\s+', '(', s)
    s = re.sub(r'\s+\)', ')', s)
    return s

# ---------------------------------------------------------------------------------------------
# statement splitting

def split_stmts(body):
    """body = '{ ... }' → (list of normalised top-level statements, tail expression or None)"""
    src = strip_comments(body).strip()
    assert src[0] == '{' and src[-1] == '}'
    src = src[1:-1]
    out, cur, d, i, n = [], '', 0, 0, len(src)
    while i < n:
        c = src[i]
        if c in '([{': d += 1
        if c in ')]}': d -= 1
        cur += c
        if d == 0 and c == ';':
            out.append(norm(cur)); cur = ''
        elif d == 0 and c == '}' and re.match(r'\s*(if|for|while|match|loop)\b', cur):
            rest = src[i + 1:].lstrip()
            if not rest.startswith('else'):
                out.append(norm(cur)); cur = ''
        i += 1
    tail = norm(cur) if cur.strip() else None
    out = [s for s in out if not re.match(r'(debug_assert|assert_eq|assert|log_[a-z]+)!?\s*[!(]', s)]
    return out, tail

def fn_of(src, name, want_params, after=None):
    params, ret, body = find_fn(src, name, after=after)
    ps = [n for n, t in parse_params(params)]
    if ps != want_params:
        raise TranslateError("%s signature changed: %s (expected %s)" % (name, ps, want_params))
    return body

class Form:
    """one admissible statement shape: regex over the normalised statement → Lean `let` line(s)"""
    def __init__(self, rx, out):
        self.rx = re.compile(rx); self.out = out

def translate_stmts(fname, stmts, forms, ctx):
    lines = []
    for s in stmts:
        for f in forms:
            m = f.rx.fullmatch(s)
            if m:
                r = f.out(m, ctx) if callable(f.out) else f.out
                if r: lines += r if isinstance(r, list) else [r]
                break
        else:
            raise TranslateError("%s: statement outside the translated subset: `%s`" % (fname, s[:160]))
    return lines

# ---------------------------------------------------------------------------------------------
# message layout (msgs.rs / ser.rs / wire.rs) → the constants update_fail_htlc_wire_len evaluates

TYPE_SIZES = {'ChannelId': 32, 'u64': 8, 'u32': 4, 'u16': 2, 'u8': 1}

def layout(L):
    msgs = rd('lightning/src/ln/msgs.rs'); ser = rd('lightning/src/util/ser.rs'); wire = rd('lightning/src/ln/wire.rs')
    ou = rd('lightning/src/ln/onion_utils.rs')
    # struct UpdateFailHTLC + impl_writeable_msg!
    m = re.search(r'pub struct UpdateFailHTLC\s*\{', msgs)
    if not m: raise TranslateError("struct UpdateFailHTLC not found")
    sbody = strip_comments(msgs[m.end() - 1: match_brace(msgs, m.end() - 1)])[1:-1]
    ftypes = {}
    for part in sbody.split(','):
        part = part.strip()
        if not part: continue
        mm = re.fullmatch(r'(?:pub(?:\([a-z]+\))?\s+)?([a-z_]+)\s*:\s*(.+)', part, re.S)
        if not mm: raise TranslateError("UpdateFailHTLC field not understood: %r" % part)
        ftypes[mm.group(1)] = ' '.join(mm.group(2).split())
    m = re.search(r'impl_writeable_msg!\(UpdateFailHTLC,\s*\{([^}]*)\},\s*\{([^}]*)\}\);', msgs)
    if not m: raise TranslateError("impl_writeable_msg!(UpdateFailHTLC, ..) not found")
    fixed = [x.strip() for x in m.group(1).split(',') if x.strip()]
    tlvs = ' '.join(m.group(2).split())
    if tlvs != '(1, attribution_data, option)':
        raise TranslateError("UpdateFailHTLC TLV section changed: %s" % tlvs)
    if fixed[-1:] != ['reason'] or ftypes.get('reason') != 'Vec<u8>' or ftypes.get('attribution_data') != 'Option<AttributionData>':
        raise TranslateError("UpdateFailHTLC field order / types changed: %s %s" % (fixed, ftypes))
    sizes = []
    for f in fixed[:-1]:
        t = ftypes.get(f)
        if t not in TYPE_SIZES: raise TranslateError("UpdateFailHTLC.%s has untranslated type %s" % (f, t))
        sizes.append((f, t, TYPE_SIZES[t]))
    # Vec<u8>: CollectionLength (u16 when < 0xffff) then the bytes
    if not re.search(r'impl Writeable for Vec<u8> \{[^}]*CollectionLength\(self\.len\(\) as u64\)\.write\(w\)\?;\s*w\.write_all\(&self\)', ser, re.S):
        raise TranslateError("impl Writeable for Vec<u8> changed")
    if not re.search(r'impl Writeable for CollectionLength \{.*?if self\.0 < 0xffff \{\s*\(self\.0 as u16\)\.write\(writer\)', ser, re.S):
        raise TranslateError("impl Writeable for CollectionLength changed")
    # BigSize
    m = re.search(r'impl Writeable for BigSize \{.*?match self\.0 \{(.*?)\n\t\t\}', ser, re.S)
    if not m: raise TranslateError("impl Writeable for BigSize not found")
    arms = norm(m.group(1))
    want = ('0..=0xFC => (self.0 as u8).write(writer), 0xFD..=0xFFFF => { 0xFDu8.write(writer)?; (self.0 as u16).write(writer) }, '
            '0x10000..=0xFFFFFFFF => { 0xFEu8.write(writer)?; (self.0 as u32).write(writer) }, _ => { 0xFFu8.write(writer)?; (self.0 as u64).write(writer) }')
    if arms.rstrip(', ') != want:
        raise TranslateError("BigSize::write arms changed: %s" % arms)
    # message type
    m = re.search(r'impl Encode for msgs::UpdateFailHTLC \{\s*const TYPE: (u16) = (\d+);', wire)
    if not m: raise TranslateError("UpdateFailHTLC::TYPE not found / not u16")
    wire_type = m.group(2)
    # AttributionData
    m = re.search(r'pub struct AttributionData \{\s*hold_times: \[u8; ([^\]]+)\],\s*hmacs: \[u8; ([^\]]+)\],\s*\}', strip_comments(ou))
    if not m: raise TranslateError("struct AttributionData changed")
    ht, hm = m.group(1).strip(), m.group(2).strip()
    if not re.search(r'impl_writeable!\(AttributionData, \{\s*hold_times,\s*hmacs\s*\}\);', ou):
        raise TranslateError("impl_writeable!(AttributionData, ..) changed")
    for e in (ht, hm):
        if ('impl_array!(%s, u8);' % e) not in ser:
            raise TranslateError("no impl_array!(%s, u8) in ser.rs" % e)
    em = Emitter()
    L += ['/-- msgs::OnionErrorPacket: the `reason` bytes of an update_fail_htlc and its optional attribution data -/',
          'structure FailPkt where', '  data : Bytes', '  attr : Option Attr', '',
          '/-- serialized length of `BigSize(n)` (util/ser.rs `impl Writeable for BigSize`, match arms) -/',
          'def bigSizeLen (n : Nat) : Nat := if n ≤ 0xFC then 1 else if n ≤ 0xFFFF then 1 + 2 else if n ≤ 0xFFFFFFFF then 1 + 4 else 1 + 8', '',
          '/-- `UpdateFailHTLC { %s, reason: Vec::new(), attribution_data: None }.serialized_length()`:' % ', '.join('%s: %s' % (f, t) for f, t, _ in sizes),
          '    fixed fields then the u16 CollectionLength of the empty `reason` (msgs.rs impl_writeable_msg!, ser.rs) -/',
          'def updateFailHtlcEmptyLen : Nat := %s + 2' % ' + '.join(str(z) for _, _, z in sizes), '',
          '/-- `msgs::UpdateFailHTLC::TYPE.serialized_length()` (wire.rs: `const TYPE: u16 = %s`) -/' % wire_type,
          'def updateFailHtlcTypeLen : Nat := 2', '',
          '/-- `AttributionData::serialized_length()` (impl_writeable!: `[u8; %s]` then `[u8; %s]`) -/' % (ht, hm),
          'def attributionDataLen : Nat := %s + %s' % (em.e(parse_expr(ht)), em.e(parse_expr(hm))), '']

# ---------------------------------------------------------------------------------------------

def wire_len(L, ou):
    body = fn_of(ou, 'update_fail_htlc_wire_len', ['onion_error'])
    b = strip_comments(body)
    m = re.search(r'msgs::UpdateFailHTLC\s*\{(.*?)\}\s*\.serialized_length\(\)', b, re.S)
    if not m: raise TranslateError("update_fail_htlc_wire_len: empty-message literal not found")
    lit = ' '.join(m.group(1).split()).rstrip(', ')
    if lit != 'channel_id: ChannelId([0; 32]), htlc_id: 0, reason: Vec::new(), attribution_data: None':
        raise TranslateError("update_fail_htlc_wire_len: empty-message literal changed: %s" % lit)
    b = b[:m.start()] + 'EMPTY_UPDATE_FAIL_HTLC_LEN' + b[m.end():]
    def ser_len(recv, args):
        if recv == 'UPDATE_FAIL_HTLC_TYPE': return 'updateFailHtlcTypeLen'
        mm = re.fullmatch(r'\(BigSize (.*)\)', recv)
        if mm: return '(bigSizeLen %s)' % mm.group(1)
        if recv == 'attribution_data': return 'attributionDataLen'
        raise TranslateError("update_fail_htlc_wire_len: serialized_length of %s" % recv)
    em = Emitter(env={'EMPTY_UPDATE_FAIL_HTLC_LEN': 'updateFailHtlcEmptyLen', 'msgs::UpdateFailHTLC::TYPE': 'UPDATE_FAIL_HTLC_TYPE'},
                 funs={'BigSize': lambda a: '(BigSize %s)' % a[0]},
                 methods={'serialized_length': ser_len,
                          'map_or': lambda recv, a: '(Option.elim %s %s %s)' % (recv, a[0], a[1])},
                 fields={'onion_error.attribution_data': 'p.attr', 'onion_error.data': 'p.data'})
    L += ['/-- mirrors lightning/src/ln/onion_utils.rs::update_fail_htlc_wire_len (translated) -/',
          'def updateFailHtlcWireLen (p : FailPkt) : Nat :=', '  ' + em.block(parse_block(b)), '']

WS = r'\s*'
def packet_fns(L, ou):
    em_len = Emitter(methods={'len': lambda recv, a: '%s.length' % recv})
    # ---- build_unencrypted_failure_packet ---------------------------------------------------
    body = fn_of(ou, 'build_unencrypted_failure_packet', ['shared_secret', 'failure_reason', 'failure_data', 'hold_time', 'min_packet_len'])
    stmts, tail = split_stmts(body)
    if tail != 'packet': raise TranslateError("build_unencrypted_failure_packet: tail is `%s`" % tail)
    def let_num(m, ctx):
        return '  let %s := %s' % (m.group(1), em_len.e(parse_expr(m.group(2))))
    def u16(m, ctx):
        return '  let w := w ++ be16 %s' % em_len.e(parse_expr(m.group(1)))
    forms = [
        Form(r'let (failure_len|pad_len|total_len) = (.*);', let_num),
        Form(r'let mut writer = VecWriter\(Vec::with_capacity\(total_len\)\);', '  let w : Bytes := []'),
        Form(r'writer\.0\.extend_from_slice\(&\[0; (\d+)\]\);', lambda m, c: '  let w := w ++ zeros %s' % m.group(1)),
        Form(r'\((failure_len|pad_len) as u16\)\.write\(&mut writer\)\.unwrap\(\);', u16),
        Form(r'failure_reason\.failure_code\(\)\.write\(&mut writer\)\.unwrap\(\);', '  let w := w ++ be16 failure_code'),
        Form(r'writer\.0\.extend_from_slice\(&failure_data\[\.\.\]\);', '  let w := w ++ failure_data'),
        Form(r'writer\.0\.resize\(([a-z_]+), 0\);', lambda m, c: '  let w := resize w %s' % m.group(1)),
        Form(r'let um = gen_um_from_shared_secret\(&shared_secret\);', None),
        Form(r'let mut hmac = HmacEngine::<Sha256>::new\(&um\);', None),
        Form(r'hmac\.input\(&writer\.0\[(\d+)\.\.\]\);', lambda m, c: '  let hmac := norm32 (C.mac k.um (w.drop %s))' % m.group(1)),
        Form(r'let hmac = Hmac::from_engine\(hmac\)\.to_byte_array\(\);', None),
        Form(r'writer\.0\[\.\.(\d+)\]\.copy_from_slice\(&hmac\);', lambda m, c: '  let w := setSlice w 0 (hmac.take %s)' % m.group(1)),
        Form(r'let mut packet = OnionErrorPacket \{ data: writer\.0, attribution_data: None \};', '  let p : FailPkt := ⟨w, none⟩'),
        Form(r'update_attribution_data\(&mut packet, shared_secret, hold_time\);', '  let p := updateAttributionData C k p hold_time'),
    ]
    lines = translate_stmts('build_unencrypted_failure_packet', stmts, forms, None)
    need = ['let hmac :=', 'let w := setSlice', 'let p : FailPkt', 'updateAttributionData']
    for x in need:
        if not any(x in l for l in lines): raise TranslateError("build_unencrypted_failure_packet: step `%s` disappeared" % x)
    bu = ['/-- mirrors lightning/src/ln/onion_utils.rs::build_unencrypted_failure_packet (translated statement by statement;',
          '    `failure_code` = `failure_reason.failure_code()`) -/',
          'def buildUnencryptedFailurePacket (C : OnionCrypto) (k : FailKeysX) (failure_code : Nat) (failure_data : Bytes) (hold_time min_packet_len : Nat) : FailPkt :='] + lines + ['  p', '']

    # ---- update_attribution_data ------------------------------------------------------------
    body = fn_of(ou, 'update_attribution_data', ['onion_error_packet', 'shared_secret', 'hold_time'])
    stmts, tail = split_stmts(body)
    if tail is not None: raise TranslateError("update_attribution_data: unexpected tail `%s`" % tail)
    forms = [
        Form(r'let attribution_data = onion_error_packet\.attribution_data\.get_or_insert\(AttributionData::new\(\)\);',
             '  let attribution_data := p.attr.getD Attr.new'),
        Form(r'attribution_data\.update\(&onion_error_packet\.data, shared_secret, hold_time\);',
             '  let attribution_data := attribution_data.update C k.um p.data hold_time'),
    ]
    lines = translate_stmts('update_attribution_data', stmts, forms, None)
    if len(lines) != 2: raise TranslateError("update_attribution_data: expected get_or_insert + update, got %d statements" % len(lines))
    ua = ['/-- mirrors lightning/src/ln/onion_utils.rs::update_attribution_data (translated) -/',
          'def updateAttributionData (C : OnionCrypto) (k : FailKeysX) (p : FailPkt) (hold_time : Nat) : FailPkt :='] + lines + \
         ['  { p with attr := some attribution_data }', '']

    # ---- crypt_failure_packet ---------------------------------------------------------------
    body = fn_of(ou, 'crypt_failure_packet', ['shared_secret', 'packet'])
    stmts, tail = split_stmts(body)
    if tail is not None: raise TranslateError("crypt_failure_packet: unexpected tail `%s`" % tail)
    forms = [
        Form(r'let ammag = gen_ammag_from_shared_secret\(&shared_secret\);', None),
        Form(r'let mut chacha = ChaCha20::new\(Key::new\(ammag\), Nonce::new\(\[0; 12\]\), 0\);', None),
        Form(r'chacha\.apply_keystream\(&mut packet\.data\);', '  let p := { p with data := wrapFailure C k.base p.data }'),
        Form(r'if let Some\(ref mut attribution_data\) = packet\.attribution_data \{ attribution_data\.crypt\(shared_secret\); \}',
             '  let p := { p with attr := p.attr.map (fun attribution_data => attribution_data.crypt C k.ammagext) }'),
    ]
    if len(stmts) != 4: raise TranslateError("crypt_failure_packet: expected 4 statements, got %d" % len(stmts))
    lines = translate_stmts('crypt_failure_packet', stmts, forms, None)
    cf = ['/-- mirrors lightning/src/ln/onion_utils.rs::crypt_failure_packet (translated; `wrapFailure` is the ammag ChaCha20 xor) -/',
          'def cryptFailurePacket (C : OnionCrypto) (k : FailKeysX) (p : FailPkt) : FailPkt :='] + lines + ['  p', '']

    # ---- build_failure_packet ---------------------------------------------------------------
    body = fn_of(ou, 'build_failure_packet', ['shared_secret', 'failure_reason', 'failure_data', 'hold_time'])
    stmts, tail = split_stmts(body)
    if tail != 'onion_error_packet': raise TranslateError("build_failure_packet: tail is `%s`" % tail)
    forms = [
        Form(r'let mut onion_error_packet = build_unencrypted_failure_packet\(shared_secret, failure_reason, failure_data, hold_time, ([A-Z_0-9a-z]+)\);',
             lambda m, c: '  let p := buildUnencryptedFailurePacket C k failure_code failure_data hold_time %s' % Emitter().e(parse_expr(m.group(1)))),
        Form(r'crypt_failure_packet\(shared_secret, &mut onion_error_packet\);', '  let p := cryptFailurePacket C k p'),
    ]
    lines = translate_stmts('build_failure_packet', stmts, forms, None)
    if len(lines) != 2: raise TranslateError("build_failure_packet: expected build + crypt")
    bf = ['/-- mirrors lightning/src/ln/onion_utils.rs::build_failure_packet (translated) -/',
          'def buildFailurePacket (C : OnionCrypto) (k : FailKeysX) (failure_code : Nat) (failure_data : Bytes) (hold_time : Nat) : FailPkt :='] + lines + ['  p', '']

    # ---- process_failure_packet -------------------------------------------------------------
    body = fn_of(ou, 'process_failure_packet', ['onion_error', 'shared_secret', 'hold_time'], after='/// Updates the attribution data for an intermediate node.')
    stmts, tail = split_stmts(body)
    if tail is not None: raise TranslateError("process_failure_packet: unexpected tail `%s`" % tail)
    em_c = Emitter(funs={'update_fail_htlc_wire_len': lambda a: '(updateFailHtlcWireLen %s)' % a[0]}, env={'onion_error': 'p'})
    def guard(m, ctx):
        return '  let p := if %s then { p with attr := none } else p' % em_c.e(parse_expr(m.group(1)))
    forms = [
        Form(r'if let Some\(ref mut attribution_data\) = onion_error\.attribution_data \{ attribution_data\.shift_right\(\); \}',
             '  let p := { p with attr := p.attr.map (fun attribution_data => attribution_data.shiftRight) }'),
        Form(r'update_attribution_data\(onion_error, shared_secret, hold_time\);', '  let p := updateAttributionData C k p hold_time'),
        Form(r'if (.*?) \{ onion_error\.attribution_data = None; \}', guard),
    ]
    lines = translate_stmts('process_failure_packet', stmts, forms, None)
    pf = ['/-- mirrors lightning/src/ln/onion_utils.rs::process_failure_packet (translated statement by statement;',
          '    the size guard is the translated Rust condition `%s`) -/' % '; '.join(re.fullmatch(r'if (.*?) \{ onion_error\.attribution_data = None; \}', s).group(1) for s in stmts if s.endswith('= None; }')),
          'def processFailurePacket (C : OnionCrypto) (k : FailKeysX) (p : FailPkt) (hold_time : Nat) : FailPkt :='] + lines + ['  p', '']

    # ---- HTLCFailReason::get_encrypted_failure_packet, LightningError arm (a relaying hop) ----
    _, _, body = find_fn(ou, 'get_encrypted_failure_packet')
    b = strip_comments(body)
    m = re.search(r'HTLCFailReasonRepr::LightningError \{ ref err, hold_time \} => \{', b)
    if not m: raise TranslateError("get_encrypted_failure_packet: LightningError arm not found")
    arm = b[m.end() - 1: match_brace(b, m.end() - 1)]
    stmts, tail = split_stmts(arm)
    if tail != 'err': raise TranslateError("get_encrypted_failure_packet: relaying arm tail is `%s`" % tail)
    forms = [
        Form(r'let mut err = err\.clone\(\);', None),
        Form(r'let hold_time = hold_time\.unwrap_or\(0\);', '  let hold_time := hold_time.getD 0'),
        Form(r'if let Some\(secondary_shared_secret\) = secondary_shared_secret \{ process_failure_packet\(&mut err, secondary_shared_secret, hold_time\); crypt_failure_packet\(secondary_shared_secret, &mut err\); \}',
             '  let p := match secondary with\n    | some s => cryptFailurePacket C s (processFailurePacket C s p hold_time)\n    | none => p'),
        Form(r'process_failure_packet\(&mut err, incoming_packet_shared_secret, hold_time\);', '  let p := processFailurePacket C k p hold_time'),
        Form(r'crypt_failure_packet\(incoming_packet_shared_secret, &mut err\);', '  let p := cryptFailurePacket C k p'),
    ]
    lines = translate_stmts('get_encrypted_failure_packet[LightningError]', stmts, forms, None)
    if sum(1 for l in lines if 'let p :=' in l) != 3: raise TranslateError("get_encrypted_failure_packet: relaying arm lost a step")
    ge = ['/-- mirrors the `HTLCFailReasonRepr::LightningError` arm of HTLCFailReason::get_encrypted_failure_packet: what a',
          '    relaying hop does to the failure it received from downstream (`secondary` = phantom / trampoline inner secret) -/',
          'def relayFailurePacket (C : OnionCrypto) (k : FailKeysX) (secondary : Option FailKeysX) (p : FailPkt) (hold_time : Option Nat) : FailPkt :='] + lines + ['  p', '']
    L += ua + bu + cf + bf + pf + ge


# ---------------------------------------------------------------------------------------------
# the fulfil direction of attribution data: process_fulfill_attribution_data (every hop on the way back) and
# decode_fulfill_attribution_data (the sender's hop loop) — statement by statement; the hop count / position
# formulas go through rs2lean's expression translator

def fulfil_fns(L, ou):
    # ---- process_fulfill_attribution_data ----------------------------------------------------
    body = fn_of(ou, 'process_fulfill_attribution_data', ['attribution_data', 'shared_secret', 'hold_time'])
    stmts, tail = split_stmts(body)
    if tail != 'attribution_data': raise TranslateError("process_fulfill_attribution_data: tail is `%s`" % tail)
    forms = [
        Form(r'let mut attribution_data = attribution_data\.map_or\(AttributionData::new\(\), \|mut attribution_data\| \{ attribution_data\.shift_right\(\); attribution_data \}\);',
             ['  let attribution_data := Option.elim attribution_data Attr.new (fun attribution_data =>',
              '    let attribution_data := attribution_data.shiftRight',
              '    attribution_data)']),
        Form(r'attribution_data\.update\(&\[\], &shared_secret, hold_time\);', '  let attribution_data := attribution_data.update C k.um [] hold_time'),
        Form(r'attribution_data\.crypt\(&shared_secret\);', '  let attribution_data := attribution_data.crypt C k.ammagext'),
    ]
    lines = translate_stmts('process_fulfill_attribution_data', stmts, forms, None)
    if len(stmts) != 3 or len(lines) != 5: raise TranslateError("process_fulfill_attribution_data: expected map_or(new, shift_right) + update + crypt, got %d statements" % len(stmts))
    L += ['/-- mirrors lightning/src/ln/onion_utils.rs::process_fulfill_attribution_data (translated statement by statement) -/',
          'def processFulfillAttributionData (C : OnionCrypto) (k : FailKeysX) (attribution_data : Option Attr) (hold_time : Nat) : Attr :='] + lines + ['  attribution_data', '']

    # ---- decode_fulfill_attribution_data -----------------------------------------------------
    body = fn_of(ou, 'decode_fulfill_attribution_data', ['secp_ctx', 'logger', 'path', 'outer_session_priv', 'attribution_data'])
    stmts, tail = split_stmts(body)
    if tail != 'hold_times': raise TranslateError("decode_fulfill_attribution_data: tail is `%s`" % tail)
    em = Emitter(funs={'min': lambda a: '(Nat.min %s %s)' % (a[0], a[1])}, fields={'path.hops': 'path_hops'},
                 methods={'len': lambda recv, a: '%s_len' % recv})
    out = {}
    def hop_count(m, c):
        out['count'] = em.e(parse_expr(m.group(1))); return None
    def loop(m, c):
        if m.group(1) != 'attributable_hop_count': raise TranslateError("decode_fulfill_attribution_data: loop bound is `%s`" % m.group(1))
        inner, itail = split_stmts('{' + m.group(2) + '}')
        if itail is not None:
            inner.append(itail)
        def pos(mm, cc):
            out['position'] = em.e(parse_expr(mm.group(1))); return None
        def vfy(mm, cc):
            out['verify'] = True; return None
        def mt(mm, cc):
            out['match'] = True; return None
        def cr(mm, cc):
            out['crypt'] = len(out); return None
        iforms = [
            Form(r'attribution_data\.crypt\(shared_secret\.as_ref\(\)\);', cr),
            Form(r'let position = (.*);', pos),
            Form(r'let res = attribution_data\.verify\(&Vec::new\(\), shared_secret\.as_ref\(\), position\);', vfy),
            Form(r'match res \{ Ok\(hold_time\) => \{ hold_times\.push\(hold_time\); attribution_data\.shift_left\(\); \},? Err\(\(\)\) => \{ (?:log_[a-z]+!\((?:[^()]|\([^()]*\))*\); )?break; \},? \}', mt),
        ]
        translate_stmts('decode_fulfill_attribution_data[loop]', inner, iforms, None)
        if len(inner) != 4 or out.get('crypt') != 1 or not all(x in out for x in ('position', 'verify', 'match')):
            raise TranslateError("decode_fulfill_attribution_data: loop body is not crypt; position; verify; match (got %s)" % inner)
        return None
    forms = [
        Form(r'let mut hold_times = Vec::new\(\);', None),
        Form(r'let shared_secrets = construct_onion_keys_generic\(secp_ctx, &path\.hops, None, outer_session_priv\) ?\.map\(\|\(shared_secret, _, _, _, _\)\| shared_secret\);', None),
        Form(r'let attributable_hop_count = (.*);', hop_count),
        Form(r'for \(route_hop_idx, shared_secret\) in shared_secrets\.enumerate\(\)\.take\(([a-z_]+)\) \{ (.*) \}', loop),
    ]
    out['count'] = None
    translate_stmts('decode_fulfill_attribution_data', stmts, forms, None)
    if len(stmts) != 4 or not out.get('count') or 'position' not in out:
        raise TranslateError("decode_fulfill_attribution_data: expected hold_times / shared_secrets / attributable_hop_count / for-loop")
    L += ['/-- `let attributable_hop_count = ...` of decode_fulfill_attribution_data (translated expression; `path_hops_len` = `path.hops.len()`) -/',
          'def fulfillAttributableHopCount (path_hops_len : Nat) : Nat := %s' % out['count'], '',
          '/-- `let position = ...` in the hop loop of decode_fulfill_attribution_data (translated expression) -/',
          'def fulfillPosition (path_hops_len attributable_hop_count route_hop_idx : Nat) : Nat := %s' % out['position'], '',
          '/-- the hop loop of decode_fulfill_attribution_data (statement order checked by the translator): `crypt`, `let position`,',
          '    `verify(&[], .., position)`; `Ok(hold_time)` => push, `shift_left`, next hop; `Err(())` => `break` -/',
          'def decodeFulfillLoop (C : OnionCrypto) (path_hops_len attributable_hop_count : Nat) : Nat → List FailKeysX → Attr → List Nat → List Nat',
          '  | _, [], _, hold_times => hold_times',
          '  | route_hop_idx, k :: rest, attribution_data, hold_times =>',
          '    let attribution_data := attribution_data.crypt C k.ammagext',
          '    let position := fulfillPosition path_hops_len attributable_hop_count route_hop_idx',
          '    match attribution_data.verify C k.um [] position with',
          '    | some hold_time => decodeFulfillLoop C path_hops_len attributable_hop_count (route_hop_idx + 1) rest attribution_data.shiftLeft (hold_times ++ [hold_time])',
          '    | none => hold_times', '',
          '/-- mirrors lightning/src/ln/onion_utils.rs::decode_fulfill_attribution_data: `keys` = the per-hop keys of `path.hops` in route order',
          '    (`shared_secrets.enumerate().take(attributable_hop_count)`) -/',
          'def decodeFulfillAttributionData (C : OnionCrypto) (keys : List FailKeysX) (attribution_data : Attr) : List Nat :=',
          '  let attributable_hop_count := fulfillAttributableHopCount keys.length',
          '  decodeFulfillLoop C keys.length attributable_hop_count 0 (keys.take attributable_hop_count) attribution_data []', '']

# ---------------------------------------------------------------------------------------------
# AttributionData byte-level helpers: every statement must match its form (shape = what the hand-written mirror in
# Model/Onion.lean does with the buffers); every INDEX / OFFSET / LENGTH expression is translated through rs2lean
# into Generated/AttrIdx.lean, and Proofs/OnionAttrIdx.lean proves (by `rfl`, for all arguments) that the mirrors use
# exactly these formulas — an edited index expression breaks a theorem, not a text pin.

def attr_idx(ou):
    imp = ou.index('impl AttributionData {', ou.index('impl_writeable!(AttributionData'))
    src = ou[imp:]
    em = Emitter()
    E = lambda x: em.e(parse_expr(x))
    D = []   # (doc, name, params, body)
    def fn(name, want):
        params, ret, body = find_fn(src, name)
        ps = [n for n, t in parse_params(params)]
        if ps != want: raise TranslateError("AttributionData::%s signature changed: %s" % (name, ps))
        return split_stmts(body)
    def run(name, stmts, forms, n):
        if len(stmts) != n: raise TranslateError("AttributionData::%s: expected %d statements, got %d" % (name, n, len(stmts)))
        translate_stmts('AttributionData::' + name, stmts, forms, None)
    def add(doc, name, params, body):
        D.append((doc, name, params, body)); return None
    # ---- new ------------------------------------------------------------------------------------
    _, _, b = find_fn(ou, 'new', after='pub struct AttributionData')
    m = re.fullmatch(r'\{ Self \{ hold_times: \[0; (.*?)\], hmacs: \[0; (.*?)\] \} \}', norm(b))
    if not m: raise TranslateError("AttributionData::new changed: %s" % norm(b))
    add('AttributionData::new: `hold_times: [0; ..]`', 'holdTimesLen', '', E(m.group(1)))
    add('AttributionData::new: `hmacs: [0; ..]`', 'hmacsLen', '', E(m.group(2)))
    # ---- crypt ----------------------------------------------------------------------------------
    stmts, tail = fn('crypt', ['shared_secret'])
    run('crypt', stmts, [
        Form(r'let ammagext = gen_ammagext_from_shared_secret\(&shared_secret\);', None),
        Form(r'let mut chacha = ChaCha20::new\(Key::new\(ammagext\), Nonce::new\(\[0; 12\]\), 0\);', None),
        Form(r'chacha\.apply_keystream\(&mut self\.hold_times\);', None),
        Form(r'chacha\.apply_keystream\(&mut self\.hmacs\);', None)], 4)
    if [s for s in stmts if 'apply_keystream' in s] != ['chacha.apply_keystream(&mut self.hold_times);', 'chacha.apply_keystream(&mut self.hmacs);']:
        raise TranslateError("AttributionData::crypt: keystream order changed")
    # ---- get_hmac / get_hmac_mut / get_hold_time_bytes --------------------------------------------
    for name, rx, lean in [('get_hmac', r'&self\.hmacs\[(.*?)\.\.(.*)\]', 'getHmac'), ('get_hmac_mut', r'&mut self\.hmacs\[(.*?)\.\.(.*)\]', 'getHmacMut'),
                           ('get_hold_time_bytes', r'&self\.hold_times\[(.*?)\.\.(.*)\]', 'getHoldTimeBytes')]:
        stmts, tail = fn(name, ['idx'])
        m = re.fullmatch(rx, tail or '')
        if stmts or not m: raise TranslateError("AttributionData::%s changed: %s" % (name, tail))
        add('AttributionData::%s: the slice `[start..end]`' % name, lean + 'Range', '(idx : Nat)', '(%s, %s)' % (E(m.group(1)), E(m.group(2))))
    # ---- update ---------------------------------------------------------------------------------
    stmts, tail = fn('update', ['message', 'shared_secret', 'hold_time'])
    run('update', stmts, [
        Form(r'let hold_time_bytes: \[u8; 4\] = hold_time\.to_be_bytes\(\);', None),
        Form(r'self\.hold_times\[\.\.(.*?)\]\.copy_from_slice\(&hold_time_bytes\);', lambda m, c: add('AttributionData::update: `hold_times[..end].copy_from_slice(hold_time_bytes)`', 'updateHoldTimeEnd', '', E(m.group(1)))),
        Form(r'self\.add_hmacs\(shared_secret, message\);', None)], 3)
    # ---- add_hmacs ------------------------------------------------------------------------------
    stmts, tail = fn('add_hmacs', ['shared_secret', 'message'])
    def add_hmacs_loop(m, c):
        add('AttributionData::add_hmacs: `for hmac_idx in 0..N`', 'addHmacsIters', '', E(m.group(1)))
        inner, itail = split_stmts('{' + m.group(2) + '}')
        run('add_hmacs[loop]', inner, [
            Form(r'let position: usize = (.*);', lambda mm, cc: add('AttributionData::add_hmacs: `let position = ..`', 'addHmacsPosition', '(hmac_idx : Nat)', E(mm.group(1)))),
            Form(r'let mut hmac_engine = HmacEngine::<Sha256>::new\(&um\);', None),
            Form(r'hmac_engine\.input\(&message\);', None),
            Form(r'hmac_engine\.input\(&self\.hold_times\[\.\.(.*)\]\);', lambda mm, cc: add('AttributionData::add_hmacs: `hold_times[..end]` fed to the HMAC', 'addHmacsHoldTimesEnd', '(position : Nat)', E(mm.group(1)))),
            Form(r'self\.write_downstream_hmacs\(position, &mut hmac_engine\);', None),
            Form(r'let full_hmac = Hmac::from_engine\(hmac_engine\)\.to_byte_array\(\);', None),
            Form(r'let hmac = &full_hmac\[\.\.(.*)\];', lambda mm, cc: add('AttributionData::add_hmacs: truncation `full_hmac[..end]`', 'addHmacsTruncLen', '', E(mm.group(1)))),
            Form(r'self\.get_hmac_mut\(hmac_idx\)\.copy_from_slice\(hmac\);', None)], 8)
        want = ['let position', 'let mut hmac_engine', 'hmac_engine.input(&message)', 'hmac_engine.input(&self.hold_times', 'self.write_downstream_hmacs', 'let full_hmac', 'let hmac =', 'self.get_hmac_mut']
        if not all(x.startswith(w) for x, w in zip(inner, want)): raise TranslateError("AttributionData::add_hmacs: statement order changed")
        return None
    run('add_hmacs', stmts, [
        Form(r'let um: \[u8; 32\] = gen_um_from_shared_secret\(&shared_secret\);', None),
        Form(r'for hmac_idx in 0\.\.(.*?) \{ (.*) \}', add_hmacs_loop)], 2)
    # ---- write_downstream_hmacs -------------------------------------------------------------------
    stmts, tail = fn('write_downstream_hmacs', ['position', 'w'])
    def ds_loop(m, c):
        add('AttributionData::write_downstream_hmacs: `for j in 0..N`', 'downstreamIters', '(position : Nat)', E(m.group(1)))
        inner, itail = split_stmts('{' + m.group(2) + '}')
        if inner[:1] != ['w.input(self.get_hmac(hmac_idx));']: raise TranslateError("write_downstream_hmacs: loop does not start with the HMAC input")
        mm = re.fullmatch(r'let block_size = (.*);', inner[1] if len(inner) == 3 else '')
        if not mm or inner[2] != 'hmac_idx += block_size;': raise TranslateError("write_downstream_hmacs: loop body changed: %s" % inner)
        add('AttributionData::write_downstream_hmacs: `let block_size = ..; hmac_idx += block_size`', 'downstreamNext', '(hmac_idx j : Nat)', '(hmac_idx + %s)' % E(mm.group(1)))
        return None
    run('write_downstream_hmacs', stmts, [
        Form(r'let mut hmac_idx = (.*);', lambda m, c: add('AttributionData::write_downstream_hmacs: `let mut hmac_idx = ..`', 'downstreamInit', '(position : Nat)', E(m.group(1)))),
        Form(r'for j in 0\.\.(.*?) \{ (.*) \}', ds_loop)], 2)
    # ---- verify ---------------------------------------------------------------------------------
    stmts, tail = fn('verify', ['message', 'shared_secret', 'position'])
    if tail != 'Ok(hold_time)': raise TranslateError("AttributionData::verify: tail is %s" % tail)
    run('verify', stmts, [
        Form(r'let um = gen_um_from_shared_secret\(shared_secret\);', None),
        Form(r'let mut hmac = HmacEngine::<Sha256>::new\(&um\);', None),
        Form(r'hmac\.input\(&message\);', None),
        Form(r'hmac\.input\(&self\.hold_times\[\.\.(.*)\]\);', lambda m, c: add('AttributionData::verify: `hold_times[..end]` fed to the HMAC', 'verifyHoldTimesEnd', '(position : Nat)', E(m.group(1)))),
        Form(r'self\.write_downstream_hmacs\(position, &mut hmac\);', None),
        Form(r'let expected_hmac = &Hmac::from_engine\(hmac\)\.to_byte_array\(\)\[\.\.(.*)\];', lambda m, c: add('AttributionData::verify: truncation `[..end]`', 'verifyTruncLen', '', E(m.group(1)))),
        Form(r'let hmac_idx = (.*);', lambda m, c: add('AttributionData::verify: `let hmac_idx = ..`', 'verifyHmacIdx', '(position : Nat)', E(m.group(1)))),
        Form(r'let actual_hmac = self\.get_hmac\(hmac_idx\);', None),
        Form(r'if !fixed_time_eq\(expected_hmac, actual_hmac\) \{ return Err\(\(\)\); \}', None),
        Form(r'let hold_time: u32 = u32::from_be_bytes\(self\.get_hold_time_bytes\((\d+)\)\.try_into\(\)\.unwrap\(\)\);', lambda m, c: add('AttributionData::verify: which hold time is returned', 'verifyHoldTimeIdx', '', m.group(1)))], 10)
    want = ['let um', 'let mut hmac', 'hmac.input(&message)', 'hmac.input(&self.hold_times', 'self.write_downstream_hmacs', 'let expected_hmac', 'let hmac_idx', 'let actual_hmac', 'if !fixed_time_eq', 'let hold_time']
    if not all(x.startswith(w) for x, w in zip(stmts, want)): raise TranslateError("AttributionData::verify: statement order changed")
    # ---- shift_left / shift_right -----------------------------------------------------------------
    COPY = r'self\.hmacs\.copy_within\((.*?)\.\.(.*?), (.*?)\);'
    def upd(stmt, var):
        mm = re.fullmatch(r'([a-z_]+) (\+=|-=) (.*);', stmt)
        if not mm or mm.group(1) != var: raise TranslateError("shift loop: expected an update of %s, got `%s`" % (var, stmt))
        return '(%s %s %s)' % (var, mm.group(2)[0], E(mm.group(3)))
    def shift(name, lean, ht_rx, ht_out, order, has_break):
        stmts, tail = fn(name, [])
        if len(stmts) != 5: raise TranslateError("AttributionData::%s: expected 5 statements" % name)
        m = re.fullmatch(ht_rx, stmts[0])
        if not m: raise TranslateError("AttributionData::%s: hold-time copy_within changed: %s" % (name, stmts[0]))
        ht_out(m)
        init = []
        for st, var in zip(stmts[1:4], ['src_idx', 'dest_idx', 'copy_len']):
            mm = re.fullmatch(r'let mut %s = (.*);' % var, st)
            if not mm: raise TranslateError("AttributionData::%s: expected `let mut %s`, got `%s`" % (name, var, st))
            init.append(E(mm.group(1)))
        add('AttributionData::%s: initial (src_idx, dest_idx, copy_len)' % name, lean + 'Init', '', '(%s, %s, %s)' % tuple(init))
        m = re.fullmatch(r'for (?:_|i) in 0\.\.(.*?) \{ (.*) \}', stmts[4])
        if not m: raise TranslateError("AttributionData::%s: loop changed" % name)
        add('AttributionData::%s: `for _ in 0..N`' % name, lean + 'Iters', '', E(m.group(1)))
        inner, itail = split_stmts('{' + m.group(2) + '}')
        mm = re.fullmatch(COPY, inner[0])
        if not mm: raise TranslateError("AttributionData::%s: hmacs.copy_within changed: %s" % (name, inner[0]))
        add('AttributionData::%s: `hmacs.copy_within(start..end, dest)`' % name, lean + 'Copy', '(src_idx dest_idx copy_len : Nat)',
            '(%s, %s, %s)' % (E(mm.group(1)), E(mm.group(2)), E(mm.group(3))))
        rest = inner[1:]
        if has_break:
            mb = re.fullmatch(r'if i == (.*?) \{ break; \}', rest[0] if rest else '')
            if not mb: raise TranslateError("AttributionData::%s: break guard changed" % name)
            add('AttributionData::%s: the iteration after whose copy the loop breaks (its index updates would underflow)' % name, lean + 'BreakAt', '', E(mb.group(1)))
            rest = rest[1:]
        if len(rest) != 3: raise TranslateError("AttributionData::%s: expected 3 index updates, got %s" % (name, rest))
        lets = ['let %s := %s' % (var, upd(st, var)) for st, var in zip(rest, order)]
        add('AttributionData::%s: the index updates at the end of an iteration, in source order' % name, lean + 'Next', '(src_idx dest_idx copy_len : Nat)',
            '\n  ' + '\n  '.join(lets) + '\n  (src_idx, dest_idx, copy_len)')
    shift('shift_left', 'shiftLeft', r'self\.hold_times\.copy_within\((.*?)\.\., (.*?)\);',
          lambda m: add('AttributionData::shift_left: `hold_times.copy_within(src.., dest)`', 'shiftLeftHt', '', '(%s, %s)' % (E(m.group(1)), E(m.group(2)))),
          ['src_idx', 'dest_idx', 'copy_len'], False)
    shift('shift_right', 'shiftRight', r'self\.hold_times\.copy_within\(\.\.(.*?), ([A-Z_a-z0-9 *+-]+)\);',
          lambda m: add('AttributionData::shift_right: `hold_times.copy_within(..end, dest)`', 'shiftRightHt', '', '(%s, %s)' % (E(m.group(1)), E(m.group(2)))),
          ['copy_len', 'src_idx', 'dest_idx'], True)
    L = ['/- GENERATED by tools/gen_onion_fail.py from lightning/src/ln/onion_utils.rs (impl AttributionData) — do not edit.',
         '   Every index / offset / length expression of the byte-level helpers, translated through rs2lean; the statement',
         '   SHAPE of each helper is checked by the translator (TRANSLATE-ERROR otherwise).  Proofs/OnionAttrIdx.lean proves',
         '   that the hand-written mirrors of Model/Onion.lean use exactly these formulas. -/',
         'import LdkModel.Generated.Consts', 'set_option linter.unusedVariables false', 'namespace Ldk.Onion.AttrIdx', 'open Ldk', '']
    for doc, name, params, body in D:
        ty = 'Nat'
        if name.startswith('shift') and name.endswith(('Init', 'Copy', 'Next')): ty = 'Nat × Nat × Nat'
        if name.endswith(('Range', 'Ht')): ty = 'Nat × Nat'
        L += ['/-- %s -/' % doc, 'def %s %s: %s := %s' % (name, params + ' ' if params else '', ty, body), '']
    L.append('end Ldk.Onion.AttrIdx')
    return '\n'.join(L) + '\n'

# ---------------------------------------------------------------------------------------------
# pins: hand-written mirrors in Model/Onion.lean

PINS = {
    # (file, how to find) : (expected sha256[:16], Lean mirror)
}

def pin_targets(ou):
    t = {}
    # AttributionData::{new, crypt, add_hmacs, write_downstream_hmacs, verify, shift_left, shift_right, get_hmac, get_hmac_mut,
    # get_hold_time_bytes, update}: statement forms + translated index expressions (attr_idx), no text pin any more;
    # process_fulfill_attribution_data / decode_fulfill_attribution_data: translated (fulfil_fns)
    _, _, b = find_fn(ou, 'process_onion_failure_inner')
    b = strip_comments(b)
    i = b.find('let attributable_hop_count')
    j = b.find('let mut hmac = HmacEngine::<Sha256>::new(&um);', i)
    k2 = b.find('let err_packet', j)
    if i < 0 or j < 0 or k2 < 0: raise TranslateError("process_onion_failure_inner: attribution block not found")
    blk = b[i:b.index(';', i) + 1] + ' ... ' + b[b.index('crypt_failure_packet(shared_secret.as_ref(), &mut encrypted_packet);', i):k2]
    # the log_debug! lines are not behaviour
    blk = re.sub(r'log_debug!\((?:[^()]|\([^()]*\))*\);', '', blk)
    t['process_onion_failure_inner[attribution + legacy hmac block]'] = (norm(blk), 'decodeGoX / decodeFailureX')
    for name, mirror in [('gen_um_from_shared_secret', 'failKeysXOfSecret.um'), ('gen_ammag_from_shared_secret', 'failKeysXOfSecret.ammag'),
                         ('gen_ammagext_from_shared_secret', 'failKeysXOfSecret.ammagext')]:
        p, r, b = find_fn(ou, name)
        t[name] = (norm(b), mirror)
    return t

PIN_FILE = os.path.join(os.path.dirname(os.path.abspath(__file__)), 'cfg', 'C14_pins.txt')

def pins(L, ou):
    want = {}
    if os.path.exists(PIN_FILE):
        for line in open(PIN_FILE):
            line = line.strip()
            if line and not line.startswith('#'):
                h, name = line.split(' ', 1); want[name] = h
    got = pin_targets(ou)
    if os.environ.get('C14_REPIN') == '1':
        with open(PIN_FILE, 'w') as f:
            f.write('# sha256[:16] of the comment-stripped, whitespace-normalised Rust text of the functions that have HAND-WRITTEN\n'
                    '# mirrors in lean/LdkModel/Model/Onion.lean (written by `C14_REPIN=1 tools/gen_onion_fail.py` after the mirror\n'
                    '# was re-validated against the new text; checked on every run)\n')
            for name in sorted(got): f.write('%s %s\n' % (hashlib.sha256(got[name][0].encode()).hexdigest()[:16], name))
        want = {n: hashlib.sha256(got[n][0].encode()).hexdigest()[:16] for n in got}
    L.append('/-! pinned Rust text (hand-written mirrors in Model/Onion.lean):')
    errs = []
    for name in sorted(got):
        h = hashlib.sha256(got[name][0].encode()).hexdigest()[:16]
        if name not in want:
            errs.append("no pin recorded for %s (run C14_REPIN=1 tools/gen_onion_fail.py after validating the mirror)" % name)
        elif want[name] != h:
            errs.append("pinned Rust function %s changed shape (sha256 %s, pinned %s): the hand-written mirror %s must be re-validated" % (name, h, want[name], got[name][1]))
        L.append('   %s  %s  ↔ %s' % (want.get(name, '?'), name, got[name][1]))
    L.append('-/')
    L.append('')
    return errs

def main(out_path):
    ou = rd('lightning/src/ln/onion_utils.rs')
    idx_text = attr_idx(ou)
    idx_path = os.path.join(os.path.dirname(out_path), 'AttrIdx.lean')
    if (open(idx_path).read() if os.path.exists(idx_path) else None) != idx_text:
        os.makedirs(os.path.dirname(idx_path), exist_ok=True)
        open(idx_path, 'w').write(idx_text)
    L = ['/- GENERATED by tools/gen_onion_fail.py from the Rust sources (onion_utils.rs, msgs.rs, util/ser.rs, wire.rs) — do not edit.',
         '   Regenerated on every check.  Failure-relay path of C14: message layout, update_fail_htlc_wire_len,',
         '   build_(unencrypted_)failure_packet, update_attribution_data, crypt_failure_packet, process_failure_packet,',
         '   the relaying arm of get_encrypted_failure_packet — translated statement by statement. -/',
         'import LdkModel.Model.Onion', 'set_option linter.unusedVariables false', 'namespace Ldk.Onion', '']
    layout(L)
    wire_len(L, ou)
    packet_fns(L, ou)
    fulfil_fns(L, ou)
    pin_errs = pins(L, ou)
    L.append('end Ldk.Onion')
    text = '\n'.join(L) + '\n'
    old = open(out_path).read() if os.path.exists(out_path) else None
    if old != text:
        os.makedirs(os.path.dirname(out_path), exist_ok=True)
        open(out_path, 'w').write(text)
    # the translated part is written even when a pin fails (the Lean side then still follows the current Rust text)
    if pin_errs:
        raise TranslateError('; '.join(pin_errs))

if __name__ == '__main__':
    try:
        main(sys.argv[1] if len(sys.argv) > 1 else os.path.join(os.path.dirname(os.path.abspath(__file__)), '..', 'lean', 'LdkModel', 'Generated', 'OnionFail.lean'))
    except TranslateError as ex:
        print("TRANSLATE-ERROR gen_onion_fail: %s" % ex)
        sys.exit(2)
    except (ValueError, AssertionError) as ex:
        print("TRANSLATE-ERROR gen_onion_fail: source structure changed (%s: %s)" % (type(ex).__name__, ex))
        sys.exit(2)
