#!/usr/bin/env python3
"""Regenerate lean/LdkModel/Generated/RecvAdmit.lean (C01 census row 2): the RECEIVER's admission comparisons of
ChannelContext::validate_update_add_htlc (channel value, max accepted HTLCs, max HTLC value in flight, the reserve test with the
side's reserve it reads, the unknown-HTLC / fee-spike parameters of its statistics) and, from sign/tx_builder.rs
get_available_balances, the three SENDER caps they answer to (reserve cap, in-flight cap, HTLC-count cap) as stand-alone
definitions. Comparison operators, `+ 1` / `* 1000` and the field names are taken from the source text; unknown shape =>
TRANSLATE-ERROR."""
import re, sys, os
sys.path.insert(0, os.path.dirname(__file__))
from rs2lean import TranslateError, strip_comments
REPO = os.environ.get('VERIF_REPO', '/repo')
OPS = {'>': '>', '>=': '≥', '<': '<', '<=': '≤'}
def one(pat, txt, what):
    ms = re.findall(pat, txt)
    if len(ms) != 1: raise TranslateError('%s: expected exactly one match, found %d' % (what, len(ms)))
    return ms[0]
def main(out):
    ch = ' '.join(strip_comments(open(os.path.join(REPO, 'lightning/src/ln/channel.rs')).read()).split())
    i = ch.find('fn validate_update_add_htlc<')
    if i < 0: raise TranslateError('fn validate_update_add_htlc not found')
    v = ch[i:ch.find(' fn ', i + 10)]
    r0 = one(r'if msg\.amount_msat (>=|>) funding\.get_value_satoshis\(\) \* (\d+) \{ return Err\(ChannelError::close\( "Remote side tried to send more than the total value', v, 'channel value test')
    r1 = one(r'if inbound_htlcs_count (>=|>) self\.(\w+) as usize \{ return Err\(ChannelError::close\(format!\( "Remote tried to push more than our max accepted HTLCs', v, 'max accepted HTLCs test')
    r2 = one(r'if inbound_htlcs_value_msat (>=|>) self\.(\w+) \{ return Err\(ChannelError::close\(format!\( "Remote HTLC add would put them over our max HTLC value', v, 'max in flight test')
    r3 = one(r'if remote_stats\.commitment_stats\.(\w+) (<=|<) funding\.(\w+) \* (\d+) \{ return Err\(ChannelError::close\( "Remote HTLC add would put them under remote reserve value"', v, 'reserve test')
    unk = one(r'let include_counterparty_unknown_htlcs = (true|false);', v, 'include_counterparty_unknown_htlcs')
    spike = one(r'let fee_spike_buffer_htlc = (\d+);', v, 'fee_spike_buffer_htlc')
    if not re.search(r'let inbound_htlcs_count = remote_htlcs\.iter\(\)\.filter\(\|htlc\| !htlc\.outbound\)\.count\(\);', v): raise TranslateError('inbound_htlcs_count changed')
    if not re.search(r'let inbound_htlcs_value_msat: u64 = remote_htlcs \.iter\(\) \.filter_map\(\|htlc\| \(!htlc\.outbound\)\.then_some\(htlc\.amount_msat\)\) \.sum\(\);', v): raise TranslateError('inbound_htlcs_value_msat changed')
    if len(re.findall(r'Some\(HTLCAmountDirection \{ outbound: false, amount_msat: msg\.amount_msat \}\)', v)) != 2: raise TranslateError('the new HTLC is no longer added (as inbound) to both statistics')
    okf = {'holder_max_accepted_htlcs', 'holder_max_htlc_value_in_flight_msat', 'counterparty_max_accepted_htlcs', 'counterparty_max_htlc_value_in_flight_msat'}
    okr = {'holder_selected_channel_reserve_satoshis', 'counterparty_selected_channel_reserve_satoshis'}
    okb = {'counterparty_balance_msat', 'holder_balance_msat'}
    if r1[1] not in okf or r2[1] not in okf or r3[2] not in okr or r3[0] not in okb: raise TranslateError('unexpected field in a receiver test: %s %s %s %s' % (r1[1], r2[1], r3[0], r3[2]))
    # FundedChannel::update_add_htlc: the direct refusals BEFORE validate_update_add_htlc, and what an accepted add leaves behind
    k = ch.find('pub fn update_add_htlc<F: FeeEstimator>(')
    if k < 0: raise TranslateError('fn update_add_htlc not found')
    u = ch[k:ch.find(' fn ', k + 10)]
    def pos(pat, what):
        ms = list(re.finditer(pat, u))
        if len(ms) != 1: raise TranslateError('%s: expected exactly one match, found %d' % (what, len(ms)))
        return ms[0]
    u0 = pos(r'if msg\.amount_msat (==|<=|<) (\d+) \{ return Err\(ChannelError::close\("Remote side tried to send a 0-msat HTLC"', 'zero-amount test')
    u1 = pos(r'if msg\.amount_msat (<=|<) self\.context\.(\w+) \{ return Err\(ChannelError::close\(format!\("Remote side tried to send less than our minimum HTLC value', 'htlc_minimum test')
    u2 = pos(r'if self\.context\.next_counterparty_htlc_id (!=|<|>) msg\.htlc_id \{ return Err\(ChannelError::close\(format!\("Remote skipped HTLC ID', 'htlc_id test')
    u3 = pos(r'if msg\.cltv_expiry (>=|>) (\d+) \{ return Err\(ChannelError::close\("Remote provided CLTV expiry in seconds', 'cltv_expiry test')
    u4 = pos(r'core::iter::once\(&self\.funding\) \.chain\(self\.pending_funding\(\)\) \.try_for_each\(\|funding\| self\.context\.validate_update_add_htlc\(funding, msg, fee_estimator\)\)\?;', 'call of validate_update_add_htlc')
    u5 = pos(r'self\.context\.next_counterparty_htlc_id \+= (\d+);', 'next_counterparty_htlc_id increment')
    u6 = pos(r'self\.context\.pending_inbound_htlcs\.push\(InboundHTLCOutput \{ htlc_id: msg\.htlc_id, amount_msat: msg\.amount_msat, payment_hash: msg\.payment_hash, cltv_expiry: msg\.cltv_expiry, state: InboundHTLCState::(\w+)\(', 'push of the new inbound HTLC')
    if not (u0.start() < u1.start() < u2.start() < u3.start() < u4.start() < u5.start() < u6.start()): raise TranslateError('update_add_htlc: the refusals / validate_update_add_htlc / state update changed order')
    if u1.group(2) not in ('holder_htlc_minimum_msat', 'counterparty_htlc_minimum_msat'): raise TranslateError('unexpected field in the htlc_minimum test: %s' % u1.group(2))
    if u5.group(1) != '1' or u6.group(1) != 'RemoteAnnounced': raise TranslateError('an accepted update_add_htlc no longer advances next_counterparty_htlc_id by 1 / pushes a RemoteAnnounced HTLC')
    UOPS = {'==': '=', '<=': '≤', '<': '<', '!=': '≠', '>': '>', '>=': '≥'}
    # ChannelContext::can_accept_incoming_htlc (the forwarding-time test; a refusal fails the HTLC back, not the channel)
    from gen_htlc_tables import strip_logs
    raw = open(os.path.join(REPO, 'lightning/src/ln/channel.rs')).read()
    kk = raw.find('\tfn can_accept_incoming_htlc<L: Logger>(')
    if kk < 0: raise TranslateError('fn can_accept_incoming_htlc not found')
    c = ' '.join(strip_logs(strip_comments(raw[kk:raw.find('\n\t}\n', kk)])).split())
    c0 = one(r'let fee_spike_buffer_htlc = if funding\.get_channel_type\(\)\.supports_anchor_zero_fee_commitments\(\) \{ (\d+) \} else \{ (\d+) \};', c, 'can_accept fee_spike_buffer_htlc')
    c1 = one(r'let include_counterparty_unknown_htlcs = (true|false);', c, 'can_accept include_counterparty_unknown_htlcs')
    if 'let feerate = cmp::max(self.feerate_per_kw, self.pending_update_fee.map(|(fee, _)| fee).unwrap_or(0));' not in c: raise TranslateError('can_accept feerate changed')
    c2 = re.findall(r'if (remote|local)_stats\.commitment_stats\.dust_exposure_msat (>=|>) max_dust_htlc_exposure_msat \{ return Err\(LocalHTLCFailureReason::(\w+)\); \}', c)
    if [x[0] for x in c2] != ['remote', 'local'] or [x[2] for x in c2] != ['DustLimitCounterparty', 'DustLimitHolder']: raise TranslateError('can_accept dust exposure tests changed: %s' % c2)
    c3 = one(r'if (!?)funding\.is_outbound\(\) \{ let \(remote_stats, _remote_htlcs\) = self \.get_next_remote_commitment_stats\( funding, None, include_counterparty_unknown_htlcs, fee_spike_buffer_htlc, feerate, (true|false), dust_exposure_limiting_feerate, \) \.map_err\(\|\(\)\| \{ LocalHTLCFailureReason::FeeSpikeBuffer \}\)\?; if remote_stats\.commitment_stats\.(\w+) (<=|<) funding\.(\w+) \* (\d+) \{ return Err\(LocalHTLCFailureReason::FeeSpikeBuffer\); \} \} Ok\(\(\)\)', c, 'can_accept fee-spike-buffer branch')
    if c3[2] not in okb or c3[4] not in okr: raise TranslateError('unexpected field in the fee-spike-buffer test: %s %s' % (c3[2], c3[4]))
    if len(re.findall(r'get_next_(?:local|remote)_commitment_stats\( funding, None, include_counterparty_unknown_htlcs, fee_spike_buffer_htlc, feerate, (?:true|false), dust_exposure_limiting_feerate, \)', c)) != 3: raise TranslateError('can_accept: the three statistics calls changed')
    tb = ' '.join(strip_comments(open(os.path.join(REPO, 'lightning/src/sign/tx_builder.rs')).read()).split())
    j = tb.find('fn get_available_balances(')
    if j < 0: raise TranslateError('fn get_available_balances not found')
    g = tb[j:tb.find(' fn ', j + 10)]
    s1 = one(r'let outbound_capacity_msat = local_balance_before_fee_msat \.saturating_sub\(channel_constraints\.(\w+) \* (\d+)\);', g, 'sender reserve cap')
    s2 = one(r'available_capacity_msat = cmp::min\( available_capacity_msat, channel_constraints \.(\w+) \.saturating_sub\(outbound_htlcs_value_msat\), \);', g, 'sender in-flight cap')
    s3 = one(r'if pending_htlcs\.iter\(\)\.filter\(\|htlc\| htlc\.outbound\)\.count\(\) \+ (\d+) (>=|>) channel_constraints\.(\w+) as usize \{ available_capacity_msat = 0; \}', g, 'sender HTLC-count cap')
    if s1[0] not in okr or s2 not in okf or s3[2] not in okf: raise TranslateError('unexpected field in a sender cap: %s %s %s' % (s1[0], s2, s3[2]))
    L = ['/- GENERATED by tools/gen_recvadmit.py from lightning/src/ln/channel.rs (validate_update_add_htlc) and lightning/src/sign/tx_builder.rs (get_available_balances) — do not edit. -/',
         'namespace Ldk.RecvAdmit', '',
         '/-- the channel parameters one node holds (names as in ChannelContext / FundingScope / ChannelConstraints) -/',
         'structure Params where', '  holder_max_accepted_htlcs : Nat', '  holder_max_htlc_value_in_flight_msat : Nat', '  holder_selected_channel_reserve_satoshis : Nat',
         '  counterparty_max_accepted_htlcs : Nat', '  counterparty_max_htlc_value_in_flight_msat : Nat', '  counterparty_selected_channel_reserve_satoshis : Nat',
         '  holder_htlc_minimum_msat : Nat', '  counterparty_htlc_minimum_msat : Nat', '',
         '/-- what the receiver computes from its next REMOTE commitment statistics with the new HTLC included -/',
         'structure RecvView where', '  inbound_htlcs_count : Nat', '  inbound_htlcs_value_msat : Nat', '  counterparty_balance_msat : Nat', '  holder_balance_msat : Nat', '',
         '/-- validate_update_add_htlc (translated): the four direct refusals, in source order -/',
         'def recvAdmits (p : Params) (channel_value_satoshis amount_msat : Nat) (v : RecvView) : Bool :=',
         '  !(decide (amount_msat %s channel_value_satoshis * %s)) &&' % (OPS[r0[0]], r0[1]),
         '  !(decide (v.inbound_htlcs_count %s p.%s)) &&' % (OPS[r1[0]], r1[1]),
         '  !(decide (v.inbound_htlcs_value_msat %s p.%s)) &&' % (OPS[r2[0]], r2[1]),
         '  !(decide (v.%s %s p.%s * %s))' % (r3[0], OPS[r3[1]], r3[2], r3[3]), '',
         '/-- `let include_counterparty_unknown_htlcs = %s;` / `let fee_spike_buffer_htlc = %s;` of validate_update_add_htlc -/' % (unk, spike),
         'def recvIncludesUnknownHtlcs : Bool := %s' % unk, 'def recvFeeSpikeBufferHtlcs : Nat := %s' % spike, '',
         '/-- get_available_balances (translated): `local_balance_before_fee_msat.saturating_sub(channel_constraints.%s * %s)` -/' % s1,
         'def senderReserveCap (p : Params) (local_balance_before_fee_msat : Nat) : Nat := local_balance_before_fee_msat - p.%s * %s' % s1, '',
         '/-- get_available_balances (translated): `channel_constraints.%s.saturating_sub(outbound_htlcs_value_msat)` -/' % s2,
         'def senderInFlightCap (p : Params) (outbound_htlcs_value_msat : Nat) : Nat := p.%s - outbound_htlcs_value_msat' % s2, '',
         '/-- get_available_balances (translated): the limit is zeroed when `outbound count + %s %s channel_constraints.%s` -/' % s3,
         'def senderCountOk (p : Params) (outbound_htlcs_count : Nat) : Bool := !(decide (outbound_htlcs_count + %s %s p.%s))' % (s3[0], OPS[s3[1]], s3[2]), '',
         '/-- FundedChannel::update_add_htlc (translated): the direct refusals that precede validate_update_add_htlc, in source order',
         '    (amount 0, below our htlc_minimum_msat, skipped HTLC id, CLTV in seconds) -/',
         'def recvAddPrechecks (p : Params) (amount_msat htlc_id next_counterparty_htlc_id cltv_expiry : Nat) : Bool :=',
         '  !(decide (amount_msat %s %s)) &&' % (UOPS[u0.group(1)], u0.group(2)),
         '  !(decide (amount_msat %s p.%s)) &&' % (UOPS[u1.group(1)], u1.group(2)),
         '  !(decide (next_counterparty_htlc_id %s htlc_id)) &&' % UOPS[u2.group(1)],
         '  !(decide (cltv_expiry %s %s))' % (UOPS[u3.group(1)], u3.group(2)), '',
         '/-- an accepted update_add_htlc: `next_counterparty_htlc_id += %s`, the HTLC is pushed as %s (pinned, after all refusals) -/' % (u5.group(1), u6.group(1)),
         'def recvAddIdStep : Nat := %s' % u5.group(1), '',
         '/-- can_accept_incoming_htlc (translated): `fee_spike_buffer_htlc`, `include_counterparty_unknown_htlcs`, `feerate` -/',
         'def canAcceptFeeSpikeBufferHtlcs (zero_fee_commitments : Bool) : Nat := if zero_fee_commitments then %s else %s' % (c0[0], c0[1]),
         'def canAcceptIncludesUnknownHtlcs : Bool := %s' % c1,
         'def canAcceptFeerate (feerate_per_kw : Nat) (pending_update_fee : Option Nat) : Nat := Nat.max feerate_per_kw (pending_update_fee.getD 0)', '',
         '/-- can_accept_incoming_htlc (translated): the decision once the statistics are known. 0 = Ok, 1 = DustLimitCounterparty, 2 = DustLimitHolder,',
         '    3 = FeeSpikeBuffer. `spike_%s` = that field of the next remote commitment statistics with `assume_fee_spike = %s`' % (c3[2], c3[1]),
         '    (none = the statistics fail), consulted only when `%sfunding.is_outbound()` -/' % c3[0],
         'def canAcceptDecision (p : Params) (is_outbound : Bool) (max_dust_htlc_exposure_msat remote_dust_exposure_msat local_dust_exposure_msat : Nat) (spike_%s : Option Nat) : Nat :=' % c3[2],
         '  if remote_dust_exposure_msat %s max_dust_htlc_exposure_msat then 1 else' % OPS[c2[0][1]],
         '  if local_dust_exposure_msat %s max_dust_htlc_exposure_msat then 2 else' % OPS[c2[1][1]],
         '  if %sis_outbound then (match spike_%s with' % ('!' if c3[0] else '', c3[2]),
         '    | none => 3',
         '    | some bal => if bal %s p.%s * %s then 3 else 0) else 0' % (OPS[c3[3]], c3[4], c3[5]),
         'def canAcceptSpikeAssumed : Bool := %s' % c3[1], '',
         'end Ldk.RecvAdmit', '']
    text = '\n'.join(L)
    if not os.path.exists(out) or open(out).read() != text: open(out, 'w').write(text)
if __name__ == '__main__':
    out = sys.argv[1] if len(sys.argv) > 1 else os.path.join(os.path.dirname(__file__), '..', 'lean', 'LdkModel', 'Generated', 'RecvAdmit.lean')
    try: main(out)
    except TranslateError as e:
        print('TRANSLATE-ERROR gen_recvadmit.py: %s' % e); sys.exit(2)
