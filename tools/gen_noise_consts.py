#!/usr/bin/env python3
"""Regenerate lean/LdkModel/Generated/NoiseConsts.lean from /repo (C15).

The BOLT-8 transport constants are LITERALS in the Rust source (not named consts), so they are
extracted by pattern and tied to the model's literals by the theorem
`Ldk.C15.model_constants_match_source`:
  lightning/src/ln/peer_channel_encryptor.rs
    * `if *sn >= N {` and `if *rn >= N {`            (key rotation threshold; both must agree)
    * `const NOISE_CK: [u8; 32] = [...]`, `const NOISE_H: [u8; 32] = [...]`
    * `let mut res = [0; 50];` / `[0; 66]`            (act lengths), `assert_eq!(act.len(), 50)`,
      `assert_eq!(act_three.len(), 66)`, `assert_eq!(msg.len(), 16 + 2)` (header box length)
    * the nonces of the two boxes of a frame: `*sn` then `*sn` after `*sn += 1` (checked by shape:
      exactly two `*sn += 1;` in encrypt_message_with_header_0s, one `*rn += 1;` in each decrypt fn)
  lightning/src/ln/peer_handler.rs
    * `let pending_read_buffer = [0; 50].to_vec();` (both connection constructors),
      `peer.pending_read_buffer = [0; 66].to_vec();`, `[0; 18].to_vec()`, `.resize(18, 0)`,
      `.resize(msg_len as usize + 16, 0)`, `if msg_len < 2 {`
Exit 2 with TRANSLATE-ERROR when the source no longer has the expected shape.
"""
import os, re, sys

REPO = os.environ.get('VERIF_REPO', '/repo')
ROOT = os.path.dirname(os.path.dirname(os.path.abspath(__file__)))
OUT = os.path.join(ROOT, 'lean', 'LdkModel', 'Generated', 'NoiseConsts.lean')


class TErr(Exception):
    pass


def strip_comments(s):
    s = re.sub(r'/\*.*?\*/', '', s, flags=re.S)
    return re.sub(r'//[^\n]*', '', s)


def fn_body(src, name):
    m = re.search(r'fn\s+%s\b[^{]*\{' % re.escape(name), src)
    if not m:
        raise TErr('cannot find fn %s' % name)
    i, depth = m.end(), 1
    while depth and i < len(src):
        depth += {'{': 1, '}': -1}.get(src[i], 0)
        i += 1
    return src[m.end():i]


def one(vals, what):
    vals = sorted(set(vals))
    if len(vals) != 1:
        raise TErr('%s: expected exactly one value, found %s' % (what, vals))
    return int(vals[0])


def byte_array(src, name):
    m = re.search(r'const\s+%s\s*:\s*\[u8;\s*32\]\s*=\s*\[(.*?)\];' % name, src, re.S)
    if not m:
        raise TErr('cannot find const %s' % name)
    b = [int(x, 16) for x in re.findall(r'0x([0-9a-fA-F]{2})', m.group(1))]
    if len(b) != 32:
        raise TErr('%s has %d bytes' % (name, len(b)))
    return b


def main():
    enc = strip_comments(open(os.path.join(REPO, 'lightning/src/ln/peer_channel_encryptor.rs')).read())
    ph = strip_comments(open(os.path.join(REPO, 'lightning/src/ln/peer_handler.rs')).read())
    enc = enc.split('#[cfg(test)]\nmod tests')[0]
    e_body = fn_body(enc, 'encrypt_message_with_header_0s')
    h_body = fn_body(enc, 'decrypt_length_header')
    m_body = fn_body(enc, 'decrypt_message')
    rot_s = re.findall(r'if\s+\*sn\s*>=\s*(\d+)\s*\{', e_body)
    rot_r = re.findall(r'if\s+\*rn\s*>=\s*(\d+)\s*\{', h_body)
    if len(rot_s) != 1 or len(rot_r) != 1:
        raise TErr('rotation tests: sender %s receiver %s' % (rot_s, rot_r))
    if re.search(r'>=\s*\d+', m_body.replace('LN_MAX_MSG_LEN + 16', '')):
        raise TErr('decrypt_message now has a threshold test (the model rotates only before a header)')
    rotate_s, rotate_r = int(rot_s[0]), int(rot_r[0])
    # the rotation block must come before the first box is sealed / opened
    if e_body.index('*sn >=') > e_body.index('encrypt_with_ad') or h_body.index('*rn >=') > h_body.index('decrypt_with_ad'):
        raise TErr('rotation test no longer precedes the header box')
    if len(re.findall(r'\*sn\s*\+=\s*1\s*;', e_body)) != 2 or len(re.findall(r'\*rn\s*\+=\s*1\s*;', h_body)) != 1 \
            or len(re.findall(r'\*rn\s*\+=\s*1\s*;', m_body)) != 1:
        raise TErr('nonce increments per box changed')
    hdr_box = re.search(r'assert_eq!\(msg\.len\(\),\s*(\d+)\s*\+\s*(\d+)\)', h_body)
    if not hdr_box:
        raise TErr('decrypt_length_header length assertion')
    header_len = int(hdr_box.group(1)) + int(hdr_box.group(2))
    act12 = one(re.findall(r'assert_eq!\(act(?:_one|_two)?\.len\(\),\s*(\d+)\)', enc), 'act one/two length')
    act3 = one(re.findall(r'assert_eq!\(act_three\.len\(\),\s*(\d+)\)', enc), 'act three length')
    ck, h = byte_array(enc, 'NOISE_CK'), byte_array(enc, 'NOISE_H')
    # peer_handler buffer sizes
    ph_first = one(re.findall(r'let\s+pending_read_buffer\s*=\s*\[0;\s*(\d+)\]\.to_vec\(\)', ph), 'first pending_read_buffer')
    ph_all = sorted(set(int(x) for x in re.findall(r'peer\.pending_read_buffer\s*=\s*\[0;\s*(\d+)\]\.to_vec\(\)', ph)))
    ph_resize = one(re.findall(r'pending_read_buffer\.resize\((\d+),\s*0\)', ph), 'header resize')
    tag = one(re.findall(r'pending_read_buffer\.resize\(msg_len as usize \+ (\d+),\s*0\)', ph), 'body resize')
    min_len = one(re.findall(r'if\s+msg_len\s*<\s*(\d+)\s*\{', ph), 'minimum message length')
    if ph_all != sorted(set([act3, ph_resize])):
        raise TErr('peer_handler pending_read_buffer sizes %s' % ph_all)
    lean_list = lambda b: '[' + ', '.join('0x%02x' % x for x in b) + ']'
    out = '''/- GENERATED by tools/gen_noise_consts.py from lightning/src/ln/peer_channel_encryptor.rs and
   lightning/src/ln/peer_handler.rs — do not edit.  Literals of the BOLT-8 transport. -/
namespace Ldk.NoiseConsts
/-- `if *sn >= N` in encrypt_message_with_header_0s -/
def ROTATE_AT_SEND : Nat := %d
/-- `if *rn >= N` in decrypt_length_header -/
def ROTATE_AT_RECV : Nat := %d
def NOISE_CK : List UInt8 := %s
def NOISE_H : List UInt8 := %s
/-- `assert_eq!(act.len(), ..)` of acts one and two; first `pending_read_buffer` of a connection -/
def ACT_ONE_TWO_LEN : Nat := %d
def PEER_FIRST_READ_LEN : Nat := %d
/-- `assert_eq!(act_three.len(), ..)` -/
def ACT_THREE_LEN : Nat := %d
/-- `assert_eq!(msg.len(), 16 + 2)` in decrypt_length_header; `pending_read_buffer.resize(.., 0)` -/
def HEADER_BOX_LEN : Nat := %d
def PEER_HEADER_READ_LEN : Nat := %d
/-- `pending_read_buffer.resize(msg_len as usize + .., 0)` -/
def TAG_LEN : Nat := %d
/-- `if msg_len < .. { return Err(PeerHandleError {}) }` -/
def MIN_MSG_LEN : Nat := %d
end Ldk.NoiseConsts
''' % (rotate_s, rotate_r, lean_list(ck), lean_list(h), act12, ph_first, act3, header_len, ph_resize, tag, min_len)
    old = open(OUT).read() if os.path.exists(OUT) else None
    if old != out:
        with open(OUT, 'w') as f:
            f.write(out)
        print('wrote', OUT)
    else:
        print('unchanged', OUT)


if __name__ == '__main__':
    try:
        main()
    except TErr as e:
        print('TRANSLATE-ERROR gen_noise_consts.py: %s' % e)
        sys.exit(2)
