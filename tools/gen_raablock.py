#!/usr/bin/env python3
"""Regenerate lean/LdkModel/Generated/RaaBlock.lean (C02): the life cycle of `PeerState::actions_blocking_raa_monitor_updates`
(`BTreeMap<ChannelId, Vec<RAAMonitorUpdateBlockingAction>>`, lightning/src/ln/channelmanager.rs) — the map that holds the
downstream channel's `revoke_and_ack` monitor update until the preimage is durable in the inbound edge's monitor —
translated from the source that exists in /repo *now*:

  * `internal_update_fulfill_htlc`: the entry chain that REGISTERS the blocker for every `prev_hop` of the fulfilled HTLC
    (`.entry(k)` `.or_insert_with(Vec::new | || vec![e])` / `.or_insert(Vec::new())` / `.or_default()` `.push(e)`), TRANSLATED
    call by call into the map primitives of Model/RaaBlockTypes.lean;
  * `claim_mpp_part`: both entry chains (open channel: `if let Some(raa_blocker) = raa_blocker_opt`; closed channel), TRANSLATED;
  * `handle_monitor_update_release`: the `retain` predicate and the remove-if-empty of the completed blocker, TRANSLATED;
  * `raa_monitor_updates_held`: the map disjunct (`.get(&channel_id).map(|v| [!]v.is_empty()).unwrap_or(b)`), TRANSLATED; the
    pending-events disjunct is TRANSLATED as well (`heldByEvents`);
  * `internal_revoke_and_ack` passes `raa_monitor_updates_held(..)` of `msg.channel_id` to `Channel::revoke_and_ack` as
    `mon_update_blocked` (pinned), the startup re-add of claim_mpp_part (`if !actions_list.contains(..) { push }`) is pinned;
  * `claim_mpp_part`, FreeDuplicateClaimImmediately: the stateful retain that removes ONE copy of the duplicate blocker, TRANSLATED
    (`releaseDuplicate`).

TRANSLATE-ERROR (exit 2) when the shape is not the expected one.
"""
import re, sys, os
sys.path.insert(0, os.path.dirname(__file__))
from rs2lean import TranslateError, strip_comments, match_brace

REPO = os.environ.get('VERIF_REPO', '/repo')
def norm(s): return ' '.join(s.split())
def squeeze(s): return re.sub(r'\s+', '', s)

def fn_body(src, name):
    m = re.search(r'\bfn %s\b' % re.escape(name), src)
    if not m: raise TranslateError("fn %s not found" % name)
    # the parameter list is the `(` right before the first `&self` after the name (generic bounds may contain `(`, `>`)
    i = src.rindex('(', m.end(), src.index('&self', m.end()))
    depth = 0
    while True:
        c = src[i]
        if c == '(': depth += 1
        elif c == ')':
            depth -= 1
            if depth == 0: break
        i += 1
    k = src.index('{', i)
    return strip_comments(src[k: match_brace(src, k)])

def chain(text, what, key, elems):
    """text: squeezed `<recv>.actions_blocking_raa_monitor_updates.entry(K)....;` -> Lean expression over m / channel_id / blocker"""
    m = re.match(r'[\w.]*\.actions_blocking_raa_monitor_updates\.entry\(([^()]*)\)', text)
    if not m: raise TranslateError("%s: entry chain not found in `%s`" % (what, text[:100]))
    if m.group(1) != key: raise TranslateError("%s: the blocker is registered under `%s`, expected `%s`" % (what, m.group(1), key))
    rest = text[m.end():]
    lean = 'm'
    el = '(?:' + '|'.join(re.escape(squeeze(e)) for e in elems) + ')'
    n_calls = 0
    while rest and rest != ';':
        for rx, f in [
            (r'\.or_insert_with\(Vec::new\)', lambda l: 'BlockMap.orInsertWith %s channel_id []' % l),
            (r'\.or_insert\(Vec::new\(\)\)', lambda l: 'BlockMap.orInsertWith %s channel_id []' % l),
            (r'\.or_default\(\)', lambda l: 'BlockMap.orInsertWith %s channel_id []' % l),
            (r'\.or_insert_with\(\|\|vec!\[' + el + r'\]\)', lambda l: 'BlockMap.orInsertWith %s channel_id [blocker]' % l),
            (r'\.or_insert\(vec!\[' + el + r'\]\)', lambda l: 'BlockMap.orInsertWith %s channel_id [blocker]' % l),
            (r'\.push\(' + el + r'\)', lambda l: 'BlockMap.pushAt %s channel_id blocker' % l)]:
            mm = re.match(rx, rest)
            if mm:
                lean = '(' + f(lean) + ')'; rest = rest[mm.end():]; n_calls += 1
                break
        else:
            raise TranslateError("%s: cannot translate the call `%s` of the entry chain" % (what, rest[:80]))
    if n_calls == 0: raise TranslateError("%s: the entry is not used" % what)
    return lean

def stmt_at(sq, start):
    """the statement (up to `;` at bracket depth 0) of squeezed text that starts at `start`"""
    depth = 0
    for i in range(start, len(sq)):
        c = sq[i]
        if c in '([{': depth += 1
        elif c in ')]}': depth -= 1
        elif c == ';' and depth == 0: return sq[start:i + 1]
    raise TranslateError("unterminated statement")

def main(out_path):
    cm = open(os.path.join(REPO, 'lightning/src/ln/channelmanager.rs')).read()
    # ---- internal_update_fulfill_htlc ---------------------------------------------------------------------------
    b = fn_body(cm, 'internal_update_fulfill_htlc')
    m = re.search(r'for prev_hop in res\.0\.previous_hop_data\(\) \{', b)
    if not m: raise TranslateError("internal_update_fulfill_htlc: `for prev_hop in res.0.previous_hop_data()` not found")
    loop = b[m.end() - 1: match_brace(b, m.end() - 1)]
    sq = squeeze(re.sub(r'log_trace!\((?:[^()]|\([^()]*\))*\);', '', loop))[1:-1]
    blocker_call = 'RAAMonitorUpdateBlockingAction::from_prev_hop_data(prev_hop)'
    elems = [blocker_call]
    mm = re.match(r'let(\w+)=' + re.escape(blocker_call) + ';', sq)
    if mm: elems.append(mm.group(1)); sq = sq[mm.end():]
    if not sq.startswith('peer_state.actions_blocking_raa_monitor_updates'):
        raise TranslateError("internal_update_fulfill_htlc: unexpected statement in the prev_hop loop: `%s`" % sq[:80])
    st = stmt_at(sq, 0)
    if sq[len(st):] != '': raise TranslateError("internal_update_fulfill_htlc: statements after the registration: `%s`" % sq[len(st):][:80])
    on_fulfil = chain(st, 'internal_update_fulfill_htlc', 'msg.channel_id', elems)
    if squeeze('chan.update_fulfill_htlc(&msg)') not in squeeze(b): raise TranslateError("internal_update_fulfill_htlc: chan.update_fulfill_htlc(&msg) not found")
    # ---- claim_mpp_part ------------------------------------------------------------------------------------------
    b = squeeze(fn_body(cm, 'claim_mpp_part'))
    k = b.find('ifletSome(raa_blocker)=raa_blocker_opt{peer_state.actions_blocking_raa_monitor_updates')
    if k < 0: raise TranslateError("claim_mpp_part: `if let Some(raa_blocker) = raa_blocker_opt { peer_state.actions_blocking_raa_monitor_updates...` not found")
    k1 = b.index('{', k) + 1
    on_claim = chain(stmt_at(b, k1), 'claim_mpp_part (open channel)', 'chan_id', ['raa_blocker'])
    k2 = b.find('ifletSome(raa_blocker)=raa_blocker_opt{peer_state.actions_blocking_raa_monitor_updates', k + 10)
    if k2 < 0: raise TranslateError("claim_mpp_part: second registration (closed channel) not found")
    k3 = b.index('{', k2) + 1
    on_closed = chain(stmt_at(b, k3), 'claim_mpp_part (closed channel)', 'prev_hop.channel_id', ['raa_blocker'])
    readd = squeeze("""let actions = &mut peer_state.actions_blocking_raa_monitor_updates;
        let actions_list = actions.entry(chan_id).or_insert_with(Vec::new);
        if !actions_list.contains(&raa_blocker) { debug_assert!(during_init); actions_list.push(raa_blocker); }""")
    if readd not in b: raise TranslateError("claim_mpp_part: the startup re-add of the RAA blocker changed shape")
    # FreeDuplicateClaimImmediately: only ONE copy of the duplicatively added blocker is removed (stateful retain, TRANSLATED)
    rx = (r'ifletMonitorUpdateCompletionAction::FreeDuplicateClaimImmediately\{downstream_counterparty_node_id:node_id,blocking_action:blocker,downstream_channel_id:channel_id,\}=action'
          r'\{ifletSome\(peer_state_mtx\)=per_peer_state\.get\(&node_id\)\{letmutpeer_state=peer_state_mtx\.lock\(\)\.unwrap\(\);'
          r'letentry=peer_state\.actions_blocking_raa_monitor_updates\.entry\(channel_id\);ifletbtree_map::Entry::Occupied\(mutentry\)=entry\{'
          r'letmutfound_blocker=(true|false);entry\.get_mut\(\)\.retain\(\|iter\|\{'
          r'letfirst_blocker=(!?)found_blocker;if\*iter(==|!=)blocker\{found_blocker=(true|false);\}'
          r'\*iter(==|!=)blocker(\|\||&&)(!?)first_blocker\}\);(ifentry\.get\(\)\.is_empty\(\)\{entry\.remove\(\);\})?')
    m = re.search(rx, b)
    if not m: raise TranslateError("claim_mpp_part: FreeDuplicateClaimImmediately's removal of one duplicate blocker changed shape")
    init, neg1, cmp1, setv, cmp2, conn, neg2, rm = m.groups()
    dup = ('BlockMap.retainStateAt m channel_id %s (fun found_blocker iter =>\n      let first_blocker := %sfound_blocker\n'
           '      let found_blocker := if iter %s blocker then %s else found_blocker\n      (found_blocker, (iter %s blocker %s %sfirst_blocker)))'
           % (init, '!' if neg1 else '', cmp1, setv, cmp2, conn, '!' if neg2 else ''))
    if rm: dup = 'BlockMap.removeIfEmpty (%s) channel_id' % dup
    # ---- handle_monitor_update_release ---------------------------------------------------------------------------
    b = squeeze(fn_body(cm, 'handle_monitor_update_release'))
    rx = (r'ifletSome\(blocker\)=completed_blocker\.take\(\)\{letentry=peer_state\.actions_blocking_raa_monitor_updates\.entry\(channel_id\);'
          r'ifletbtree_map::Entry::Occupied\(mutentry\)=entry\{entry\.get_mut\(\)\.retain\(\|iter\|(iter|&blocker|\*iter|blocker)(!=|==)(iter|&blocker|\*iter|blocker)\);'
          r'(ifentry\.get\(\)\.is_empty\(\)\{entry\.remove\(\);\})?\}\}')
    m = re.search(rx, b)
    if not m: raise TranslateError("handle_monitor_update_release: removal of the completed blocker changed shape")
    sides = {m.group(1).strip('&*'), m.group(3).strip('&*')}
    if sides != {'iter', 'blocker'}: raise TranslateError("handle_monitor_update_release: retain predicate compares %s" % sorted(sides))
    release = 'BlockMap.retainAt m channel_id (fun iter => iter %s blocker)' % m.group(2)
    if m.group(4): release = 'BlockMap.removeIfEmpty (%s) channel_id' % release
    after = b[m.end():]
    if not after.startswith('ifself.raa_monitor_updates_held(&peer_state.actions_blocking_raa_monitor_updates,channel_id,counterparty_node_id){'):
        raise TranslateError("handle_monitor_update_release: the held test no longer follows the removal")
    blk_end = match_brace(after, after.index('{'))
    if not re.sub(r'log_trace!\((?:[^()]|\([^()]*\))*\);', '', after[after.index('{'):blk_end]) == '{break;}':
        raise TranslateError("handle_monitor_update_release: held => break changed shape")
    if 'chan.unblock_next_blocked_monitor_update()' not in after[blk_end:] or 'iffurther_update_exists{continue;}' not in after[blk_end:]:
        raise TranslateError("handle_monitor_update_release: unblock_next_blocked_monitor_update loop changed shape")
    # ---- raa_monitor_updates_held --------------------------------------------------------------------------------
    b = squeeze(fn_body(cm, 'raa_monitor_updates_held'))[1:-1]
    m = re.match(r'actions_blocking_raa_monitor_updates\.get\(&channel_id\)\.map\(\|v\|(!?)v\.is_empty\(\)\)\.unwrap_or\((true|false)\)\|\|', b)
    if not m: raise TranslateError("raa_monitor_updates_held: the map disjunct changed shape")
    held = '((m channel_id).map (fun v => %sv.isEmpty)).getD %s' % ('!' if m.group(1) else '', m.group(2))
    rx = (r'self\.pending_events\.lock\(\)\.unwrap\(\)\.iter\(\)\.(any|all)\(\|\(_,action\)\|\{ifletSome\(EventCompletionAction::ReleaseRAAChannelMonitorUpdate\{'
          r'channel_funding_outpoint:_,channel_id:ev_channel_id,counterparty_node_id:ev_counterparty_node_id\}\)=action\{'
          r'\*(ev_channel_id|ev_counterparty_node_id)(==|!=)(channel_id|counterparty_node_id)(&&|\|\|)\*(ev_channel_id|ev_counterparty_node_id)(==|!=)(channel_id|counterparty_node_id)\}else\{(true|false)\}\}\)')
    me = re.fullmatch(rx, b[m.end():])
    if not me: raise TranslateError("raa_monitor_updates_held: the pending-events disjunct changed shape")
    q, l1, c1, r1, conn, l2, c2, r2, els = me.groups()
    held_ev = ('evs.%s (fun action => match action with\n    | some (ev_channel_id, ev_counterparty_node_id) => (%s %s %s %s %s %s %s)\n    | none => %s)'
               % (q, l1, c1, r1, conn, l2, c2, r2, els))
    # ---- internal_revoke_and_ack ---------------------------------------------------------------------------------
    b = squeeze(fn_body(cm, 'internal_revoke_and_ack'))
    pin = squeeze("""let mon_update_blocked = self.raa_monitor_updates_held(&peer_state.actions_blocking_raa_monitor_updates, msg.channel_id, *counterparty_node_id);""")
    if pin not in b or 'chan.revoke_and_ack(&msg,&self.fee_estimator,&&logger,mon_update_blocked)' not in b:
        raise TranslateError("internal_revoke_and_ack: mon_update_blocked is no longer raa_monitor_updates_held of msg.channel_id")

    L = ['/- GENERATED by tools/gen_raablock.py from lightning/src/ln/channelmanager.rs — do not edit. -/',
         'import LdkModel.Model.RaaBlockTypes', 'namespace Ldk.RaaBlockGen', 'open Ldk.RaaBlock', '',
         '/-- internal_update_fulfill_htlc: `for prev_hop in res.0.previous_hop_data()` — the entry chain on',
         '    `peer_state.actions_blocking_raa_monitor_updates` (translated call by call); channel_id = msg.channel_id,',
         '    blocker = RAAMonitorUpdateBlockingAction::from_prev_hop_data(prev_hop) -/',
         'def registerOnFulfil (m : BlockMap) (channel_id blocker : Nat) : BlockMap :=', '  ' + on_fulfil, '',
         '/-- claim_mpp_part, channel open: `if let Some(raa_blocker) = raa_blocker_opt` (translated) -/',
         'def registerOnClaim (m : BlockMap) (channel_id blocker : Nat) : BlockMap :=', '  ' + on_claim, '',
         '/-- claim_mpp_part, channel closed (translated) -/',
         'def registerOnClosedClaim (m : BlockMap) (channel_id blocker : Nat) : BlockMap :=', '  ' + on_closed, '',
         '/-- handle_monitor_update_release: removal of the completed blocker (translated) -/',
         'def release (m : BlockMap) (channel_id blocker : Nat) : BlockMap :=', '  ' + release, '',
         '/-- raa_monitor_updates_held: the map disjunct (translated); the pending-events disjunct is pinned -/',
         'def held (m : BlockMap) (channel_id : Nat) : Bool :=', '  ' + held, '',
         '/-- raa_monitor_updates_held: the pending-events disjunct (translated); an event action is `some (channel_id, counterparty_node_id)`',
         '    for `EventCompletionAction::ReleaseRAAChannelMonitorUpdate`, `none` for no / any other action -/',
         'def heldByEvents (evs : List (Option (Nat × Nat))) (channel_id counterparty_node_id : Nat) : Bool :=', '  ' + held_ev, '',
         '/-- claim_mpp_part, `FreeDuplicateClaimImmediately`: the stateful retain that drops ONE copy of the blocker (translated) -/',
         'def releaseDuplicate (m : BlockMap) (channel_id blocker : Nat) : BlockMap :=', '  ' + dup, '',
         'end Ldk.RaaBlockGen']
    text = '\n'.join(L) + '\n'
    old = open(out_path).read() if os.path.exists(out_path) else None
    if old != text: open(out_path, 'w').write(text)

if __name__ == '__main__':
    try:
        main(sys.argv[1] if len(sys.argv) > 1 else os.path.join(os.path.dirname(__file__), '..', 'lean', 'LdkModel', 'Generated', 'RaaBlock.lean'))
    except TranslateError as ex:
        print("TRANSLATE-ERROR gen_raablock: %s" % ex)
        sys.exit(2)
