#!/usr/bin/env python3
"""Regenerate lean/LdkModel/Generated/OnionFwdInfo.lean (C14): what a FORWARDING hop makes of its peeled instructions
with respect to route blinding, translated from the Rust text that exists in /repo now:

  * onion_payment.rs::create_fwd_pending_htlc_info — for every `match hop_data` arm that forwards (Hop::Forward,
    Hop::BlindedForward, Hop::TrampolineForward, Hop::TrampolineBlindedForward) the last two components of the tuple it
    yields (`intro_node_blinding_point`, `next_blinding_override`: which field of the decoded payload, or None), and the
    `blinded:` field of PendingHTLCRouting::Forward / ::TrampolineForward
    (`intro.or(<msg.blinding_point | current_path_key>).map(|bp| BlindedForward { inbound_blinding_point, next_blinding_override,
    failure: intro.map(|_| FromIntroductionNode).unwrap_or(FromBlindedNode) })`), operand by operand;
  * channelmanager.rs — the blinding point a forwarder puts into the outgoing update_add_htlc / trampoline hop info
    (`blinded.and_then(|b| b.next_blinding_override.or_else(|| next_hop_pubkey(b.inbound_blinding_point, ecdh(..))))`, both sites);
  * shape pins of the way TLV 8 reaches that function: `impl Readable for BlindedPaymentTlvs` (record (8, next_blinding_override,
    option), the Forward arm of its match) and the `InboundOnionBlindedForwardPayload` / `InboundTrampolineBlindedForwardPayload { .. next_blinding_override }`
    constructions of msgs.rs.

A statement outside these forms is a TRANSLATE-ERROR (exit 2).
"""
import re, sys, os
sys.path.insert(0, os.path.dirname(__file__))
from rs2lean import TranslateError, strip_comments, find_fn

REPO = os.environ.get('VERIF_REPO', '/repo')
def rd(p): return open(os.path.join(REPO, p)).read()

def norm(s):
    s = ' '.join(strip_comments(s).split())
    s = re.sub(r',\s*\)', ')', s); s = re.sub(r',\s*\}', ' }', s)
    s = re.sub(r'\(\s+', '(', s); s = re.sub(r'\s+\)', ')', s)
    s = re.sub(r'\s+\.(?=[a-z_])', '.', s)
    return s

VARIANT = {'FromIntroductionNode': 'BlindedFailure.fromIntroductionNode', 'FromBlindedNode': 'BlindedFailure.fromBlindedNode'}

def blinded_expr(b, second, what):
    """translate `blinded: A.or(<second>).map(|bp| BlindedForward { inbound_blinding_point: X, next_blinding_override[: Y],
    failure: F.map(|_| BlindedFailure::V1).unwrap_or(BlindedFailure::V2) })` -> Lean term over the variables
    intro_node_blinding_point / second / next_blinding_override"""
    pat = (r'blinded: (\w+)\.or\(' + re.escape(second) + r'\)\.map\(\|(\w+)\| BlindedForward \{ inbound_blinding_point: (\w+), '
           r'next_blinding_override(?:: (\w+))?, failure: (\w+)\.map\(\|_\| BlindedFailure::(\w+)\)\.unwrap_or\(BlindedFailure::(\w+)\) \}\)')
    ms = list(re.finditer(pat, b))
    if len(ms) != 1:
        raise TranslateError("%s: `blinded:` is not `<intro>.or(%s).map(|bp| BlindedForward { inbound_blinding_point, next_blinding_override, failure: <intro>.map(|_| ..).unwrap_or(..) })` (%d matches)" % (what, second, len(ms)))
    first, binder, inbound, ovr, fsrc, v1, v2 = ms[0].groups()
    ovr = ovr or 'next_blinding_override'
    sec = second.replace('msg.', 'msg_')
    names = {'intro_node_blinding_point', 'next_blinding_override', sec, binder}
    for t in (first, inbound, ovr, fsrc):
        if t not in names: raise TranslateError("%s: unknown operand `%s` in the `blinded:` expression" % (what, t))
    for v in (v1, v2):
        if v not in VARIANT: raise TranslateError("%s: unknown BlindedFailure::%s" % (what, v))
    return ('(%s.or %s).map fun %s => { inbound_blinding_point := %s, next_blinding_override := %s, failure := (%s.map fun _ => %s).getD %s }'
            % (first, sec, binder, inbound, ovr, fsrc, VARIANT[v1], VARIANT[v2]))

def tuple_tail(b, arm_pat, what, fields):
    """the last two components of the tuple of one `match hop_data` arm -> Lean terms; `fields`: Rust token -> Lean term"""
    m = re.search(arm_pat, b)
    if not m: raise TranslateError("create_fwd_pending_htlc_info: the %s arm has an unknown form" % what)
    out = []
    for t in (m.group('intro'), m.group('ovr')):
        if t == 'None': out.append('none')
        elif t in fields: out.append(fields[t])
        else: raise TranslateError("create_fwd_pending_htlc_info: %s arm yields `%s`" % (what, t))
    return out, m

def main(out_path):
    op = rd('lightning/src/ln/onion_payment.rs'); cm = rd('lightning/src/ln/channelmanager.rs')
    ms_ = rd('lightning/src/ln/msgs.rs'); bp = rd('lightning/src/blinded_path/payment.rs')
    _, _, body = find_fn(op, 'create_fwd_pending_htlc_info')
    b = norm(body)
    # ---- the destructuring target ------------------------------------------------------------------------
    if not re.search(r'let \(routing_info, amt_to_forward, outgoing_cltv_value, intro_node_blinding_point, next_blinding_override\) = match hop_data \{', b):
        raise TranslateError("create_fwd_pending_htlc_info: `let (routing_info, amt_to_forward, outgoing_cltv_value, intro_node_blinding_point, next_blinding_override) = match hop_data` not found")
    DIRECT = r'\(RoutingInfo::Direct \{ short_channel_id, new_packet_bytes, next_hop_hmac \}, amt_to_forward, outgoing_cltv_value, (?P<intro>[\w.]+), (?P<ovr>[\w.]+)\)'
    fwd, _ = tuple_tail(b, r'onion_utils::Hop::Forward \{ next_hop_data: msgs::InboundOnionForwardPayload \{ short_channel_id, amt_to_forward, outgoing_cltv_value \}, new_packet_bytes, next_hop_hmac, \.\. \} => ' + DIRECT + ',', 'Hop::Forward', {})
    bf, m = tuple_tail(b, r'onion_utils::Hop::BlindedForward \{ next_hop_data: msgs::InboundOnionBlindedForwardPayload \{ (?P<pat>[\w, ]+) \}, new_packet_bytes, next_hop_hmac, \.\. \} => \{ let \(amt_to_forward, outgoing_cltv_value\) = check_blinded_forward\(msg\.amount_msat, msg\.cltv_expiry, &payment_relay, &payment_constraints, &features\)\.map_err\(.*?\)\?; ' + DIRECT + r' \},',
                       'Hop::BlindedForward', {'intro_node_blinding_point': 'intro_node_blinding_point', 'next_blinding_override': 'next_blinding_override'})
    bound = [x.strip() for x in m.group('pat').split(',')]
    for f in ('short_channel_id', 'payment_relay', 'payment_constraints', 'intro_node_blinding_point', 'features', 'next_blinding_override'):
        if f not in bound: raise TranslateError("create_fwd_pending_htlc_info: Hop::BlindedForward pattern does not bind `%s` by its field name" % f)
    TRAMP = r'\(RoutingInfo::Trampoline \{ (?P<ri>[^{}]*) \}, outer_hop_data\.amt_to_forward, outer_hop_data\.outgoing_cltv_value, (?P<intro>[\w.]+), (?P<ovr>[\w.]+)\)'
    tf, m = tuple_tail(b, r'onion_utils::Hop::TrampolineForward \{ [\w, ]+, \.\. \} => \{ ' + TRAMP + r' \},', 'Hop::TrampolineForward', {})
    if 'current_path_key: None' not in m.group('ri'): raise TranslateError("Hop::TrampolineForward: current_path_key is not None")
    tbf, m = tuple_tail(b, r'onion_utils::Hop::TrampolineBlindedForward \{ [\w, ]+, \.\. \} => \{ let \(next_hop_amount, next_hop_cltv\) = check_blinded_forward\(.*?\)\.map_err\(.*?\)\?; ' + TRAMP + r' \},? \};',
                        'Hop::TrampolineBlindedForward', {'next_trampoline_hop_data.intro_node_blinding_point': 'intro_node_blinding_point', 'next_trampoline_hop_data.next_blinding_override': 'next_blinding_override'})
    if 'current_path_key: outer_hop_data.current_path_key' not in m.group('ri'): raise TranslateError("Hop::TrampolineBlindedForward: current_path_key is not outer_hop_data.current_path_key")
    # every other arm returns an error (no forward is produced)
    n_arms = len(re.findall(r'onion_utils::Hop::\w+ \{', b))
    if n_arms != 9: raise TranslateError("create_fwd_pending_htlc_info: %d Hop patterns, expected 9 (4 forwarding arms + Dummy + 4 final kinds)" % n_arms)
    # ---- the `blinded:` fields -----------------------------------------------------------------------------
    i_direct = b.index('RoutingInfo::Direct { short_channel_id, new_packet_bytes, next_hop_hmac } => {')
    i_tramp = b.index('RoutingInfo::Trampoline { next_trampoline,', i_direct)
    direct = blinded_expr(b[i_direct:i_tramp], 'msg.blinding_point', 'PendingHTLCRouting::Forward')
    tramp = blinded_expr(b[i_tramp:], 'current_path_key', 'PendingHTLCRouting::TrampolineForward')
    # ---- channelmanager: the outgoing blinding point -------------------------------------------------------------
    c = norm(cm)
    pat = (r'blinded\.and_then\(\|b\| \{ b\.next_blinding_override\.or_else\(\|\| \{ let encrypted_tlvs_ss = self\.node_signer\.ecdh\(Recipient::Node, &b\.inbound_blinding_point, None\)'
           r'\.unwrap\(\)\.secret_bytes\(\); onion_utils::next_hop_pubkey\(&self\.secp_ctx, b\.inbound_blinding_point, &encrypted_tlvs_ss\)\.ok\(\) \}\) \}\)')
    k = len(re.findall(pat, c))
    if k != 2: raise TranslateError("channelmanager.rs: expected 2 sites `blinded.and_then(|b| b.next_blinding_override.or_else(|| next_hop_pubkey(b.inbound_blinding_point, ecdh)))`, found %d" % k)
    if len(re.findall(r'next_blinding_override\.or', c)) != 2: raise TranslateError("channelmanager.rs: another use of next_blinding_override.or… appeared")
    if not re.search(r'let next_blinding_point = blinded\.and_then\(', c): raise TranslateError("channelmanager.rs: `let next_blinding_point = blinded.and_then(` not found")
    # ---- shape pins: how TLV 8 reaches create_fwd_pending_htlc_info -------------------------------------------------
    p = norm(bp)
    i = p.find('impl Readable for BlindedPaymentTlvs {')
    if i < 0: raise TranslateError("impl Readable for BlindedPaymentTlvs not found")
    r = p[i:i + 3000]
    if '(8, next_blinding_override, option)' not in r: raise TranslateError("BlindedPaymentTlvs::read: record (8, next_blinding_override, option) not found")
    if not re.search(r'match \(scid, next_blinding_override, payment_relay, features, payment_secret, payment_context, is_dummy\) \{ \(Some\(short_channel_id\), next_override, Some\(relay\), features, None, None, None\) => \{ Ok\(BlindedPaymentTlvs::Forward\(ForwardTlvs \{ short_channel_id, payment_relay: relay, payment_constraints: payment_constraints\.0\.unwrap\(\), next_blinding_override: next_override, features: features\.unwrap_or_else\(BlindedHopFeatures::empty\) \}\)\) \}', r):
        raise TranslateError("BlindedPaymentTlvs::read: the Forward arm no longer passes next_blinding_override through")
    mm = norm(ms_)
    COND = r'used_aad \} => \{ if [^{}]*\{ return Err\(DecodeError::InvalidValue\); \} '
    k = len(re.findall(r'BlindedPaymentTlvs::Forward\(ForwardTlvs \{ short_channel_id, payment_relay, payment_constraints, features, next_blinding_override \}\), ' + COND + r'Ok\(Self::BlindedForward\(InboundOnionBlindedForwardPayload \{ short_channel_id, payment_relay, payment_constraints, features, intro_node_blinding_point(?:: \w+)?, next_blinding_override \}\)\) \}', mm))
    if k != 1: raise TranslateError("msgs.rs: expected 1 reader building InboundOnionBlindedForwardPayload { .., next_blinding_override } from ForwardTlvs, found %d" % k)
    k = len(re.findall(r'BlindedTrampolineTlvs::Forward\(TrampolineForwardTlvs \{ next_trampoline, payment_relay, payment_constraints, features, next_blinding_override \}\), ' + COND + r'Ok\(Self::BlindedForward\(InboundTrampolineBlindedForwardPayload \{ next_trampoline, payment_relay, payment_constraints, features, intro_node_blinding_point(?:: \w+)?, next_blinding_override \}\)\) \}', mm))
    if k != 1: raise TranslateError("msgs.rs: expected 1 reader building InboundTrampolineBlindedForwardPayload { .., next_blinding_override } from TrampolineForwardTlvs, found %d" % k)

    L = ['/- GENERATED by tools/gen_onion_fwdinfo.py from lightning/src/ln/onion_payment.rs (create_fwd_pending_htlc_info) and',
         '   ln/channelmanager.rs (the blinding point of the outgoing update_add_htlc) — do not edit.  Regenerated on every check. -/',
         'import LdkModel.Generated.OnionBlinded', 'set_option linter.unusedVariables false', 'namespace Ldk.Onion', '',
         '/-- channelmanager.rs `BlindedForward` (curve points are opaque byte strings) -/',
         'structure BlindedForward where',
         '  inbound_blinding_point : Bytes',
         '  next_blinding_override : Option Bytes',
         '  failure : BlindedFailure',
         '  deriving DecidableEq, Repr', '',
         '/-- the decoded hop kinds create_fwd_pending_htlc_info forwards, with the blinding fields of their payloads (every',
         '    other `Hop` kind makes it return an error) -/',
         'inductive FwdHop where',
         '  | forward',
         '  | blindedForward (intro_node_blinding_point next_blinding_override : Option Bytes)',
         '  | trampolineForward',
         '  | trampolineBlindedForward (current_path_key intro_node_blinding_point next_blinding_override : Option Bytes)',
         '  deriving DecidableEq, Repr', '',
         '/-- 4th component of the tuple each `match hop_data` arm yields (translated arm by arm) -/',
         'def fwdIntroNodeBlindingPoint : FwdHop → Option Bytes',
         '  | .forward => %s' % fwd[0],
         '  | .blindedForward intro_node_blinding_point next_blinding_override => %s' % bf[0],
         '  | .trampolineForward => %s' % tf[0],
         '  | .trampolineBlindedForward current_path_key intro_node_blinding_point next_blinding_override => %s' % tbf[0], '',
         '/-- 5th component of the tuple each `match hop_data` arm yields (translated arm by arm) -/',
         'def fwdNextBlindingOverride : FwdHop → Option Bytes',
         '  | .forward => %s' % fwd[1],
         '  | .blindedForward intro_node_blinding_point next_blinding_override => %s' % bf[1],
         '  | .trampolineForward => %s' % tf[1],
         '  | .trampolineBlindedForward current_path_key intro_node_blinding_point next_blinding_override => %s' % tbf[1], '',
         '/-- `RoutingInfo::Trampoline { current_path_key, .. }` of the arm -/',
         'def fwdCurrentPathKey : FwdHop → Option Bytes',
         '  | .trampolineBlindedForward current_path_key _ _ => current_path_key',
         '  | _ => none', '',
         '/-- the `blinded:` field of PendingHTLCRouting::Forward (RoutingInfo::Direct arm), translated -/',
         'def directBlinded (intro_node_blinding_point msg_blinding_point next_blinding_override : Option Bytes) : Option BlindedForward :=',
         '  ' + direct, '',
         '/-- the `blinded:` field of PendingHTLCRouting::TrampolineForward (RoutingInfo::Trampoline arm), translated -/',
         'def trampolineBlinded (intro_node_blinding_point current_path_key next_blinding_override : Option Bytes) : Option BlindedForward :=',
         '  ' + tramp, '',
         '/-- create_fwd_pending_htlc_info, blinding part: decoded hop + `msg.blinding_point` -> `blinded` of the forward -/',
         'def fwdBlinded (h : FwdHop) (msg_blinding_point : Option Bytes) : Option BlindedForward :=',
         '  match h with',
         '  | .forward | .blindedForward _ _ => directBlinded (fwdIntroNodeBlindingPoint h) msg_blinding_point (fwdNextBlindingOverride h)',
         '  | .trampolineForward | .trampolineBlindedForward _ _ _ => trampolineBlinded (fwdIntroNodeBlindingPoint h) (fwdCurrentPathKey h) (fwdNextBlindingOverride h)', '',
         '/-- channelmanager.rs (both forwarding sites): `blinded.and_then(|b| b.next_blinding_override.or_else(|| next_hop_pubkey(..',
         '    b.inbound_blinding_point, ecdh(b.inbound_blinding_point)).ok()))`; `derive` = this node\'s ECDH + next_hop_pubkey (trusted) -/',
         'def nextBlindingPoint (derive : Bytes → Option Bytes) (blinded : Option BlindedForward) : Option Bytes :=',
         '  blinded.bind fun b => b.next_blinding_override.orElse fun _ => derive b.inbound_blinding_point', '',
         'end Ldk.Onion']
    text = '\n'.join(L) + '\n'
    old = open(out_path).read() if os.path.exists(out_path) else None
    if old != text:
        os.makedirs(os.path.dirname(out_path), exist_ok=True)
        open(out_path, 'w').write(text)

if __name__ == '__main__':
    try:
        main(sys.argv[1] if len(sys.argv) > 1 else os.path.join(os.path.dirname(os.path.abspath(__file__)), '..', 'lean', 'LdkModel', 'Generated', 'OnionFwdInfo.lean'))
    except TranslateError as ex:
        print("TRANSLATE-ERROR gen_onion_fwdinfo: %s" % ex)
        sys.exit(2)
    except (ValueError, AssertionError, AttributeError) as ex:
        print("TRANSLATE-ERROR gen_onion_fwdinfo: source structure changed (%s: %s)" % (type(ex).__name__, ex))
        sys.exit(2)
