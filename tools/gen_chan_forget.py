#!/usr/bin/env python3
"""Regenerate lean/LdkModel/Generated/ChanForget.lean from /repo/lightning/src/ln/channel.rs: the PERSISTENCE DECISION TABLE of
`impl Writeable for FundedChannel::write` ("we write out as if remove_uncommitted_htlcs_and_mark_paused had just been called"),
the matching pieces of `ReadableArgs for FundedChannel::read`, and the in-memory table of
`FundedChannel::remove_uncommitted_htlcs_and_mark_paused`:

  writer   wCounted            variants counted into `dropped_inbound_htlcs` (first loop over pending_inbound_htlcs)
           wCountMinusDropped  the written HTLC count is `len - dropped_inbound_htlcs`
           wInTag              second loop: variant -> none (`continue`, not written) | some <state byte>
           wOutTag             OutboundHTLCState variant -> state byte (RemoteRemoved written as Committed)
           wFee                the pending_update_fee statement: role x fee state -> Option feerate
           wNextIdMinusDropped next_counterparty_htlc_id is written minus `dropped_inbound_htlcs`
  reader   rInTag / rOutTag    state byte -> variant;  rFee  Option feerate -> (feerate, state by role)
  memory   mKeep               the `retain` closure: variant -> kept?; mCounted: variants bumping inbound_drop_count
           mNextIdMinusDropped `next_counterparty_htlc_id -= inbound_drop_count`
           mFeeDrop            fee states whose pending_update_fee is reset to None
           mOutReset           OutboundHTLCState variant -> variant it is reset to
Exits 2 with TRANSLATE-ERROR when a statement no longer has a recognised shape."""
import re, sys, os
sys.path.insert(0, os.path.dirname(__file__))
import gen_tlv_schemas as G
from gen_tlv_schemas import TranslateError

REPO = os.environ.get('VERIF_REPO', '/repo')
IN = ['RemoteAnnounced', 'AwaitingRemoteRevokeToAnnounce', 'AwaitingAnnouncedRemoteRevoke', 'Committed', 'LocalRemoved']
OUT = ['LocalAnnounced', 'Committed', 'RemoteRemoved', 'AwaitingRemoteRevokeToRemove', 'AwaitingRemovedRemoteRevoke']
FEE = ['RemoteAnnounced', 'AwaitingRemoteRevokeToAnnounce', 'Outbound']

def lc(v): return v[0].lower() + v[1:]
def ws(s): return ' '.join(s.split())

def fn_body(cl, impl_pat, fn_name):
    """text between the braces of `fn fn_name` inside the first impl whose header matches impl_pat"""
    for m in re.finditer(impl_pat, cl):
        o = cl.index('{', m.end() - 1) if cl[m.end() - 1] != '{' else m.end() - 1
        c = G.match_close(cl, o)
        f = re.search(r'\bfn\s+%s\b' % fn_name, cl[o:c])
        if not f: continue
        bo = cl.index('{', o + f.end())
        # skip a `where` clause / generics: the body brace is the first `{` after the signature's `)`
        return cl[bo + 1:G.match_close(cl, bo)]
    raise TranslateError('fn %s not found under %s' % (fn_name, impl_pat))

def block_after(text, pat, what):
    m = re.search(pat, text)
    if not m: raise TranslateError('%s: statement not found' % what)
    o = text.index('{', m.end() - 1) if text[m.end() - 1] != '{' else m.end() - 1
    c = G.match_close(text, o)
    return text[o + 1:c], m.start(), c + 1

def variants_of(pat, enum, what, universe):
    vs = re.findall(r'%s\s*::\s*(\w+)' % enum, pat)
    if not vs: raise TranslateError('%s: no %s variant in pattern %r' % (what, enum, ws(pat)[:80]))
    for v in vs:
        if v not in universe: raise TranslateError('%s: unknown %s variant %s' % (what, enum, v))
    return vs

def tag_arms(match_body, enum, what, universe):
    """variant -> leading `<n>u8.write(writer)?` of its arm | 'unreachable'"""
    out = {}
    for pat, arm in G.split_arms(match_body):
        vs = variants_of(pat, enum, what, universe)
        a = ws(arm)
        m = re.match(r'^(\d+)u8\s*\.\s*write\s*\(\s*writer\s*\)\s*\?', a)
        if m: t = int(m.group(1))
        elif re.match(r'^unreachable\s*!\s*\(\s*\)$', a): t = 'unreachable'
        else: raise TranslateError('%s: arm of %s does not begin with a state byte: %r' % (what, vs, a[:80]))
        for v in vs:
            if v in out: raise TranslateError('%s: variant %s matched twice' % (what, v))
            out[v] = t
    return out

def read_arms(match_body, enum, what, universe):
    """state byte -> the variant the arm constructs (last `Enum::Variant` mentioned that is followed by `(` / `{` / `,` / end)"""
    out = {}
    for pat, arm in G.split_arms(match_body):
        p = ws(pat)
        if p == '_':
            if not re.search(r'return\s+Err\s*\(\s*DecodeError\s*::\s*InvalidValue\s*\)', arm): raise TranslateError('%s: `_` arm does not reject' % what)
            continue
        if not re.match(r'^\d+$', p): raise TranslateError('%s: arm pattern %r is not a byte' % (what, p))
        vs = re.findall(r'%s\s*::\s*(\w+)' % enum, arm)
        if not vs or vs[-1] not in universe: raise TranslateError('%s: arm %s constructs no %s variant' % (what, p, enum))
        out[int(p)] = vs[-1]
    return out

def extract():
    cl = G.clean(open(os.path.join(REPO, 'lightning/src/ln/channel.rs')).read())
    w = fn_body(cl, r'impl\s*<[^{;]*>\s*Writeable\s+for\s+FundedChannel\s*<[^{;]*>\s*\{', 'write')
    T = {}
    # --- writer: dropped counter
    m = re.search(r'let\s+mut\s+dropped_inbound_htlcs\s*=\s*0\s*;\s*for\s+htlc\s+in\s+self\s*\.\s*context\s*\.\s*pending_inbound_htlcs\s*\.\s*iter\s*\(\s*\)\s*\{', w)
    if not m: raise TranslateError('writer: `let mut dropped_inbound_htlcs = 0; for htlc in …pending_inbound_htlcs.iter()` not found')
    o = m.end() - 1; c = G.match_close(w, o)
    body = ws(w[o + 1:c])
    mm = re.match(r'^if let (.+?) = htlc\s*\.\s*state \{ dropped_inbound_htlcs \+= 1 ; \}$', re.sub(r'\s*;\s*', ' ; ', body).replace('  ', ' '))
    if not mm: raise TranslateError('writer: dropped_inbound_htlcs loop body has a new shape: %r' % body[:120])
    T['wCounted'] = variants_of(mm.group(1), 'InboundHTLCState', 'writer dropped loop', IN)
    rest = w[c + 1:]
    # --- writer: count
    wn = ws(rest)
    if re.search(r'\(\s*self\.context\.pending_inbound_htlcs\.len\(\) as u64 - dropped_inbound_htlcs\s*\)\s*\.write\(writer\)\?', wn): T['wCountMinusDropped'] = True
    elif re.search(r'\(\s*self\.context\.pending_inbound_htlcs\.len\(\) as u64\s*\)\s*\.write\(writer\)\?', wn): T['wCountMinusDropped'] = False
    else: raise TranslateError('writer: pending_inbound_htlcs count statement not recognised')
    # --- writer: inbound loop
    lb, _, lend = block_after(rest, r'for\s+htlc\s+in\s+self\s*\.\s*context\s*\.\s*pending_inbound_htlcs\s*\.\s*iter\s*\(\s*\)\s*\{', 'writer inbound loop')
    skipped = []
    for mm in re.finditer(r'if\s+let\s+([^={]+?)=\s*&?\s*htlc\s*\.\s*state\s*\{', lb):
        o2 = mm.end() - 1; c2 = G.match_close(lb, o2)
        if ws(lb[o2 + 1:c2]) in ('continue;', 'continue ;'):
            skipped += variants_of(mm.group(1), 'InboundHTLCState', 'writer inbound skip', IN)
        else: raise TranslateError('writer inbound loop: `if let … = htlc.state` that is not a `continue`')
    mb, _, _ = block_after(lb, r'match\s+&\s*htlc\s*\.\s*state\s*\{', 'writer inbound state match')
    tags = tag_arms(mb, 'InboundHTLCState', 'writer inbound state match', IN)
    T['wInTag'] = {}
    for v in IN:
        if v not in tags: raise TranslateError('writer inbound state match: variant %s has no arm' % v)
        if v in skipped: T['wInTag'][v] = None
        elif tags[v] == 'unreachable': raise TranslateError('writer inbound: %s is neither skipped nor written' % v)
        else: T['wInTag'][v] = tags[v]
    # --- writer: outbound loop
    ob, _, _ = block_after(rest[lend:], r'for\s+htlc\s+in\s+self\s*\.\s*context\s*\.\s*pending_outbound_htlcs\s*\.\s*iter\s*\(\s*\)\s*\{', 'writer outbound loop')
    if re.search(r'\bcontinue\b', ob): raise TranslateError('writer outbound loop: a `continue` appeared (count is written unconditionally)')
    mb, _, _ = block_after(ob, r'match\s+&\s*htlc\s*\.\s*state\s*\{', 'writer outbound state match')
    tags = tag_arms(mb, 'OutboundHTLCState', 'writer outbound state match', OUT)
    for v in OUT:
        if not isinstance(tags.get(v), int): raise TranslateError('writer outbound state match: variant %s has no byte' % v)
    T['wOutTag'] = tags
    # --- writer: fee
    mA = re.search(r'if self\.funding\.is_outbound\(\) \{ self\.context\.pending_update_fee\.map\(\|\((\w+), _\)\| \1\)\.write\(writer\)\?; \} else if let Some\(\((\w+), FeeUpdateState::(\w+)\)\) = self\.context\.pending_update_fee \{ Some\(\2\)\.write\(writer\)\?; \} else \{ None::<u32>\.write\(writer\)\?; \}', wn)
    mB = re.search(r'(?<![\w{] )self\.context\.pending_update_fee\.map\(\|\((\w+), _\)\| \1\)\.write\(writer\)\?;', wn)
    if mA:
        if mA.group(3) not in FEE: raise TranslateError('writer fee: unknown FeeUpdateState::%s' % mA.group(3))
        T['wFee'] = ('by-role', mA.group(3))
    elif mB and 'is_outbound() { self.context.pending_update_fee' not in wn: T['wFee'] = ('always', None)
    else: raise TranslateError('writer: pending_update_fee statement not recognised')
    # --- writer: next_counterparty_htlc_id
    if re.search(r'\(\s*self\.context\.next_counterparty_htlc_id - dropped_inbound_htlcs\s*\)\s*\.write\(writer\)\?', wn): T['wNextIdMinusDropped'] = True
    elif re.search(r'self\.context\.next_counterparty_htlc_id\.write\(writer\)\?', wn): T['wNextIdMinusDropped'] = False
    else: raise TranslateError('writer: next_counterparty_htlc_id statement not recognised')
    # --- reader
    r = fn_body(cl, r'ReadableArgs\s*<[^{;]*>\s*for\s+FundedChannel\s*<[^{;]*>\s*(?:where[^{]*)?\{', 'read')
    ib, _, iend = block_after(r, r'pending_inbound_htlcs\s*\.\s*push\s*\(\s*InboundHTLCOutput\s*\{', 'reader inbound push')
    mb, _, _ = block_after(ib, r'state\s*:\s*match\s*<\s*u8\s+as\s+Readable\s*>\s*::\s*read\s*\(\s*reader\s*\)\s*\?\s*\{', 'reader inbound state match')
    T['rInTag'] = read_arms(mb, 'InboundHTLCState', 'reader inbound state match', IN)
    ob, _, _ = block_after(r[iend:], r'pending_outbound_htlcs\s*\.\s*push\s*\(\s*OutboundHTLCOutput\s*\{', 'reader outbound push')
    mb, _, _ = block_after(ob, r'state\s*:\s*match\s*<\s*u8\s+as\s+Readable\s*>\s*::\s*read\s*\(\s*reader\s*\)\s*\?\s*\{', 'reader outbound state match')
    T['rOutTag'] = read_arms(mb, 'OutboundHTLCState', 'reader outbound state match', OUT)
    rn = ws(r)
    mF = re.search(r'let pending_update_fee = if let Some\((\w+)\) = pending_update_fee_value \{ Some\(\( \1, if channel_parameters\.is_outbound_from_holder \{ FeeUpdateState::(\w+) \} else \{ FeeUpdateState::(\w+) \}, \)\) \} else \{ None \};', rn)
    if not mF or mF.group(2) not in FEE or mF.group(3) not in FEE: raise TranslateError('reader: `let pending_update_fee = …` not recognised')
    T['rFee'] = (mF.group(2), mF.group(3))
    if not re.search(r'let pending_update_fee_value: Option<u32> = Readable::read\(reader\)\?; let holding_cell_update_fee = Readable::read\(reader\)\?; let next_holder_htlc_id = Readable::read\(reader\)\?; let next_counterparty_htlc_id = Readable::read\(reader\)\?;', rn):
        raise TranslateError('reader: pending_update_fee_value / holding_cell_update_fee / next_holder_htlc_id / next_counterparty_htlc_id are no longer read in this order')
    # --- in-memory
    mem = None
    mfn = re.search(r'\bfn\s+remove_uncommitted_htlcs_and_mark_paused\b', cl)
    if not mfn: raise TranslateError('fn remove_uncommitted_htlcs_and_mark_paused not found')
    bo = cl.index('{', cl.index(')', mfn.end())); mem = cl[bo + 1:G.match_close(cl, bo)]
    rb, _, rend = block_after(mem, r'self\s*\.\s*context\s*\.\s*pending_inbound_htlcs\s*\.\s*retain\s*\(\s*\|\s*htlc\s*\|\s*\{', 'memory retain closure')
    mb, _, _ = block_after(rb, r'match\s+htlc\s*\.\s*state\s*\{', 'memory retain match')
    keep, counted = {}, []
    for pat, arm in G.split_arms(mb):
        vs = variants_of(pat, 'InboundHTLCState', 'memory retain match', IN)
        a = ws(arm)
        bump = bool(re.search(r'inbound_drop_count \+= 1', a))
        last = re.sub(r'^.*;', '', a).strip()
        if last not in ('true', 'false'): raise TranslateError('memory retain match: arm of %s does not end in true / false: %r' % (vs, a[:80]))
        for v in vs:
            if v in keep: raise TranslateError('memory retain match: %s matched twice' % v)
            keep[v] = last == 'true'
            if bump: counted.append(v)
    for v in IN:
        if v not in keep: raise TranslateError('memory retain match: variant %s has no arm' % v)
    T['mKeep'], T['mCounted'] = keep, counted
    mn = ws(mem[rend:])
    if re.match(r'^\)?\s*;?\s*self\.context\.next_counterparty_htlc_id -= inbound_drop_count;', mn): T['mNextIdMinusDropped'] = True
    elif 'next_counterparty_htlc_id' not in mn: T['mNextIdMinusDropped'] = False
    else: raise TranslateError('memory: next_counterparty_htlc_id statement not recognised')
    mF = re.search(r'if let Some\(\(_, (\w+)\)\) = self\.context\.pending_update_fee \{ if \1 == FeeUpdateState::(\w+) \{ (?:debug_assert!\([^;]*\); )?self\.context\.pending_update_fee = None; \} \}', mn)
    if mF:
        if mF.group(2) not in FEE: raise TranslateError('memory fee: unknown FeeUpdateState::%s' % mF.group(2))
        T['mFeeDrop'] = [mF.group(2)]
    elif 'pending_update_fee' not in mn: T['mFeeDrop'] = []
    else: raise TranslateError('memory: pending_update_fee statement not recognised')
    reset = {}
    for mm in re.finditer(r'for htlc in self\.context\.pending_outbound_htlcs\.iter_mut\(\) \{ if let OutboundHTLCState::(\w+)(?:\([^)]*\))? = htlc\.state \{ htlc\.state = OutboundHTLCState::(\w+); \} \}', mn):
        if mm.group(1) not in OUT or mm.group(2) not in OUT: raise TranslateError('memory outbound reset: unknown variant')
        reset[mm.group(1)] = mm.group(2)
    if not reset and 'pending_outbound_htlcs' in mn: raise TranslateError('memory: pending_outbound_htlcs loop not recognised')
    T['mOutReset'] = reset
    if not re.search(r'self\.context\.channel_state\.set_peer_disconnected\(\);', mn): raise TranslateError('memory: set_peer_disconnected() missing')
    return T

def main(out_path):
    T = extract()
    b = lambda x: 'true' if x else 'false'
    L = ['/- GENERATED by tools/gen_chan_forget.py from lightning/src/ln/channel.rs — do not edit.',
         '   The persistence decision table of FundedChannel::write / ::read ("written as if remove_uncommitted_htlcs_and_mark_paused had',
         '   just been called") and the in-memory table of remove_uncommitted_htlcs_and_mark_paused, statement by statement. -/',
         'import LdkModel.Model.ChanForgetTypes', 'namespace Ldk.ChanForget.Gen', 'open Ldk.ChanForget', '']
    def fun(name, ty, ret, arms, doc):
        L.append('/-- %s -/' % doc)
        L.append('def %s : %s → %s' % (name, ty, ret))
        for k, v in arms: L.append('  | .%s => %s' % (lc(k), v))
        L.append('')
    fun('wCounted', 'InSt', 'Bool', [(v, b(v in T['wCounted'])) for v in IN], 'writer, first loop: `if let InboundHTLCState::V(_) = htlc.state { dropped_inbound_htlcs += 1 }`')
    L += ['/-- writer: the HTLC count written is `pending_inbound_htlcs.len() - dropped_inbound_htlcs` -/', 'def wCountMinusDropped : Bool := %s' % b(T['wCountMinusDropped']), '']
    fun('wInTag', 'InSt', 'Option Nat', [(v, 'none' if T['wInTag'][v] is None else 'some %d' % T['wInTag'][v]) for v in IN], 'writer, second loop: `continue` (none) or the state byte written')
    fun('wOutTag', 'OutSt', 'Nat', [(v, str(T['wOutTag'][v])) for v in OUT], 'writer: state byte of an outbound HTLC')
    L.append('/-- writer: the pending_update_fee statement (role = `self.funding.is_outbound()`) -/')
    if T['wFee'][0] == 'by-role':
        L += ['def wFee (outbound : Bool) (fee : Option (Nat × FeeSt)) : Option Nat :=',
              '  if outbound then fee.map (·.1)',
              '  else match fee with',
              '    | some (feerate, .%s) => some feerate' % lc(T['wFee'][1]),
              '    | _ => none', '']
    else:
        L += ['def wFee (_outbound : Bool) (fee : Option (Nat × FeeSt)) : Option Nat := fee.map (·.1)', '']
    L += ['/-- writer: next_counterparty_htlc_id is written minus `dropped_inbound_htlcs` -/', 'def wNextIdMinusDropped : Bool := %s' % b(T['wNextIdMinusDropped']), '']
    for nm, ty, tab in (('rInTag', 'InSt', T['rInTag']), ('rOutTag', 'OutSt', T['rOutTag'])):
        L.append('/-- reader: state byte -> variant (`_ => return Err(DecodeError::InvalidValue)`) -/')
        L.append('def %s : Nat → Option %s' % (nm, ty))
        for k in sorted(tab): L.append('  | %d => some .%s' % (k, lc(tab[k])))
        L += ['  | _ => none', '']
    L += ['/-- reader: `pending_update_fee_value.map(|feerate| (feerate, if is_outbound_from_holder { … } else { … }))` -/',
          'def rFee (outbound : Bool) (v : Option Nat) : Option (Nat × FeeSt) := v.map fun feerate => (feerate, if outbound then .%s else .%s)' % (lc(T['rFee'][0]), lc(T['rFee'][1])), '']
    fun('mKeep', 'InSt', 'Bool', [(v, b(T['mKeep'][v])) for v in IN], 'remove_uncommitted_htlcs_and_mark_paused: value of the `retain` closure')
    fun('mCounted', 'InSt', 'Bool', [(v, b(v in T['mCounted'])) for v in IN], 'remove_uncommitted_htlcs_and_mark_paused: arms with `inbound_drop_count += 1`')
    L += ['/-- memory: `self.context.next_counterparty_htlc_id -= inbound_drop_count` -/', 'def mNextIdMinusDropped : Bool := %s' % b(T['mNextIdMinusDropped']), '']
    fun('mFeeDrop', 'FeeSt', 'Bool', [(v, b(v in T['mFeeDrop'])) for v in FEE], 'memory: `if update_state == FeeUpdateState::V { pending_update_fee = None }`')
    fun('mOutReset', 'OutSt', 'OutSt', [(v, '.' + lc(T['mOutReset'].get(v, v))) for v in OUT], 'memory: `if let OutboundHTLCState::V(_) = htlc.state { htlc.state = OutboundHTLCState::W }`')
    L += ['end Ldk.ChanForget.Gen']
    text = '\n'.join(L) + '\n'
    old = open(out_path).read() if os.path.exists(out_path) else None
    if old != text: open(out_path, 'w').write(text)

if __name__ == '__main__':
    try:
        main(sys.argv[1] if len(sys.argv) > 1 else os.path.join(os.path.dirname(__file__), '..', 'lean', 'LdkModel', 'Generated', 'ChanForget.lean'))
    except TranslateError as ex:
        print('TRANSLATE-ERROR gen_chan_forget: %s' % ex)
        sys.exit(2)
