#!/usr/bin/env python3
"""Write seeded/<id>/meta.json from the table below + the confirm.log produced by tools/confirm_seeded.sh.
Only entries listed in TABLE are (re)written; older hand-written meta.json files are left alone."""
import json, os, re, sys
ROOT = os.path.dirname(os.path.dirname(os.path.abspath(__file__)))
T = {
 'C09-a': ('C09', 'channel_ready withheld for a pending monitor update is never released when the peer is disconnected at the moment the funding confirms (check_get_channel_ready returns early on is_peer_disconnected before recording monitor_pending_channel_ready)',
           'inbound channel, initial monitor persist InProgress, funding confirms while the peer is disconnected, then reconnect and completion', 'demo_c09',
           'C09 (mongate, exhaustive open-order probe over {confirm, peer channel_ready, disconnect, reconnect, completion}): "held channel_ready never released … order [2, 0, 3, 4, 1]". First run missed it (no channel-establishment scenarios): probe added'),
 'C20-a': ('C20', 'SpvClient::update_chain_tip records partial progress only if chainwork grew instead of whenever the tip changed: after an interrupted reorg the client believes it is at the old tip while the listeners are elsewhere',
           'a poll that disconnects blocks, then a block-source error, then a later poll', 'demo_c20',
           'C20: impl oracle "listener notified although the poll reported no change" with the tree/schedule as failing input, plus correspondence mismatches'),
 'C13-a': ('C13', 'UnsignedNodeAnnouncement decoder: the address-fits-in-addrlen check ignores the 1-byte descriptor type, a node_announcement whose last address overruns addrlen by one byte is accepted',
           'node_announcement with >=1 known address and addrlen = real length - 1', 'demo_c13', None),
 'C17-a': ('C17', 'the equal-timestamp rejection in update_node_from_announcement_intern is deleted: through the unsigned entry point a different node_announcement with the same timestamp replaces the stored one (order dependent)',
           'two different node announcements with equal timestamps via update_node_from_unsigned_announcement', 'demo_c17',
           'C17: correspondence `na 5 … 1` impl "ok" vs model "err SameTimestamp IgnoreDuplicateGossip" (the model is what order independence / newest-wins are proved about) and impl oracle "stored last_update went back or was replaced at an equal timestamp" with the op and the graph before'),
 'C04-a': ('C04', 'inbound_payment::verify zeroes only one of the two min_final_cltv bytes folded into the expiry field: for the custom-final-CLTV payment-secret methods the invoice expiry is never enforced',
           'payment registered with min_final_cltv_expiry_delta d, d & 0xff != 0, HTLC arriving after expiry + 7200 s', 'demo_c04',
           'C04: `c04secret` correspondence (verify on an expired secret: impl ok, model err; the model of verify is what the expiry/authenticity theorems are about) and impl oracle "verify of a created user secret: accepted=true but total>=min && expiry>=now is false (expiry=481175 now=481176)"'),
 'C14-a': ('C14', 'process_failure_packet strips attribution data when the relayed update_fail_htlc is exactly LN_MAX_MSG_LEN (> became >=): hold times / attribution HMACs lost at the sender',
           'failure data of exactly 64529 bytes relayed by >= 1 hop', 'demo_c14', None),
 'C15-a': ('C15', 'peer_handler do_attempt_write_data: after an incomplete send_data the front-message offset is SET to the bytes sent instead of advanced by them: already-sent bytes are re-sent or skipped, the peer sees a bad MAC',
           'one outbound message needing >= 3 socket writes (two consecutive partial writes, the first non-empty)', 'demo_c15',
           'C15 (`c15peer`): two real PeerManagers over sockets with random partial-write schedules: impl oracle "PeerManager panicked in a 118-message scenario: attempt to subtract with overflow" / stream not delivered intact, with the scenario as failing input'),
 'C18-a': ('C18', 'PositiveTimestamp::from_unix_timestamp bound <= MAX_TIMESTAMP became <: the builder rejects 2^35-1 and any checksummed invoice string whose 35-bit timestamp is all ones panics the parser (unreachable!)',
           'timestamp exactly 34359738367', 'demo_c18',
           'C18: regenerated C18Bounds breaks theorem timestamp_constructor_range (+ non-vacuity examples); impl oracles "builder rejected a timestamp the wire format can carry" and "parser panicked on a checksum-valid string" (lnbc1lllllll…). First run missed it (boundary timestamp builds were discarded, all-ones field had probability 2^-35): bounds translator, 15 theorems and boundary/malformed generators added'),
 'C19-a': ('C19', 'MonitorUpdatingPersister::cleanup_stale_updates reads the monitor WITH updates applied, so every update file is deleted as stale while the full monitor on disk is older: updates reported Completed are lost',
           'maximum_pending_updates >= 2 and at least one update newer than the stored full monitor when cleanup runs', 'demo_c19',
           'C19: `c19mup` correspondence (`cleanup` leaves a different key set) and impl oracle "MonitorUpdatingPersister lost or tore state: monitor … recovered at update_id 18 equals no in-memory snapshot"'),
 'C03-a': ('C03', 're-abandoning an already abandoned payment replaces its in-flight HTLC set by an empty set: PaymentFailed is emitted and the PaymentId becomes reusable while HTLCs are still in flight; a late claim gives no PaymentSent',
           '>= 2-part MPP abandoned with parts in flight, then parts fail one at a time (or a 3-part MPP with two successive failures)', 'demo_c03',
           'C03: `c03pay`/`c03e2e` correspondence (PaymentFailed one step early) and impl oracle "PaymentFailed for payment N while k of its HTLCs are still pending in the sender\'s channels" with the op sequence. First run reported no-failing-input-found: the in-flight oracle was added'),
 'C16-a': ('C16', 'PaymentPath::update_value_and_recompute_fees drops total_fee_paid_msat += extra_fees_msat when raising a non-last hop to its htlc_minimum: hops closer to the payer are paid less than their policy fee',
           'path of >= 4 hops, raised hop index >= 2 and not last, an earlier hop with a proportional fee', 'demo_c16',
           'C16: `c16fees` correspondence on `recompute` ops (translated model differs: gen_router.py regenerates the function, breaking recompute_fees_sound) and the impl-side route oracle (hop underpaid) with the graph as failing input'),
 'C11-a': ('C11', 'provide_payment_preimage registers the preimage claim on a not-yet-buried counterparty commitment with creation height = current tip instead of the commitment\'s confirmation height: a reorg above the commitment drops the claim for good',
           'counterparty commitment confirmed at H, preimage k blocks later (1<=k<6), fork point in [H, H+k)', 'demo_c11', None),
 'C02-a': ('C02', 'can_forward_htlc_should_intercept: the outgoing_amt_msat > inbound amount check is applied to phantom SCIDs only; an intercepted HTLC can ask to forward more than it carries',
           'interception enabled, next-hop SCID neither ours nor phantom, hand-built onion with amt_to_forward > update_add_htlc.amount_msat', 'demo_c02', None),
 'C10-a': ('C10', 'handle_in_flight_updates!: replay condition update_id > monitor id became >=: the in-flight update the monitor already has is replayed, the node panics (out-of-order update) on every restart',
           'persisted manager lists >= 2 in-flight updates [N, N+1], monitor on disk at N', 'demo_c10',
           'C10: regenerated Restart.lean breaks replayList_eq / shouldReplay_iff; `c10` correspondence on `reload` worlds; impl oracle "restart from durable state FAILED: PANIC Attempted to apply ChannelMonitorUpdates out of order" with the crash world'),
 'C06-a': ('C06', 'check_spend_counterparty_htlc passes conf+CSV as the creation height of the justice claim on a revoked second-stage HTLC tx output: any reorg above that tx makes the handler forget the claim',
           'revoked commitment + cheater HTLC tx confirmed, >= 1 block above it disconnected before the justice tx is buried', 'demo_c06', None),
 'C07-a': ('C07', 'compute_package_feerate ForceBump: min(prev*1.25, 5*estimate) without the max(.., prev) clamp: the target feerate of externally funded claims goes down when the estimator falls below prev/5',
           'anchor channel, unilateral close, unconfirmed externally funded claim, estimator dropping below a fifth of the previous feerate', 'demo_c07', None),
 'C12-a': ('C12', 'write_claimable_htlc writes mpp_part.value under TLV 3 instead of sender_intended_value: after a reload an underpaid but complete payment is failed back with MPPTimeout',
           'manager written while a claimable HTLC has value != sender_intended_value (skimmed fee)', 'demo_c12', None),

 'C15-b': ('C15', 'peer_handler do_read_event sizes the message-body read buffer as `msg_len + 16` in u16: a valid authenticated message of 65520..65535 bytes overflows (debug: panic; release: wraps, assert / underflow in decrypt): a peer can crash the node and the message is never delivered',
           'one message with encoded length >= 65520 after the handshake', 'demo_c15b',
           'C15: gen_noise_consts.py TRANSLATE-ERROR (shape pin on the body buffer sizing) + c15peer impl oracle "PeerManager panicked in a 42-message scenario: attempt to add with overflow"'),
 'C16-b': ('C16', 'get_route: minimal_value_contribution_msat = max(final_value / max_path_count, 1) instead of div_ceil: the router can return more paths than max_path_count',
           'MPP, amount not a multiple of max_path_count, more than max_path_count paths whose limit is exactly the floor value', 'demo_c16b',
           'C16: regenerated minimal_value_contribution_msat breaks theorem min_contribution_covers (under path_count_bounded); c16router impl oracle "find_route panicked (assertion failed: paths.len() <= payment_params.max_path_count.into() …) on: noroute 0 1 12634004 …" from the fan-graph family. First run missed it: the fragmentation bound was not modelled and every router debug assertion was discarded as "own assertion" — now only the two observed on the unchanged tree are'),
 'C17-b': ('C17', 'add_channel_between_nodes: when a chain-validated announcement replaces an existing SCID, remove_channel_in_nodes is given the NEW channel_info: the old endpoints keep the SCID in their channel lists (stale node entries; a later node failure deletes an unrelated channel; panic on unknown node)',
           'UTXO lookup configured, SCID already in the graph, new valid announcement naming different node ids', 'demo_c17b',
           'C17: the real NetworkGraph panics while the harness drives it; ./check reports the op history since the last reset as the failing input. First run: harness-crash with no-failing-input-found; check now extracts the history of a crashed harness'),
 'C19-b': ('C19', 'MonitorUpdatingPersister::update_persisted_channel cleans up old update entries even when the consolidating full-monitor write FAILED: after a restart the old monitor is recovered without updates it had reported Completed',
           'maximum_pending_updates >= 2, the store fails the monitors write at a consolidation point while removals succeed, then reload', 'demo_c19b',
           'C19 c19mup: correspondence (`upd … UnrecoverableError` leaves a different key set) + impl oracle "MonitorUpdatingPersister lost or tore state: … recovered at update_id 8 equals no in-memory snapshot" with the fault schedule'),
 'C08-b': ('C08', 'create_recv_pending_htlc_info: the final-hop "expiry too soon" test loses its +1 (current_height >= cltv_expiry.saturating_sub(HTLC_FAIL_BACK_BUFFER)): an HTLC whose claim deadline is the very next block is reported claimable',
           'payment HTLC with cltv_expiry == recipient height + HTLC_FAIL_BACK_BUFFER + 1', 'demo_c08b',
           'C08: regenerated final-hop check breaks theorems final_reject_iff and never_claimable_too_soon; impl oracle "final hop accepted HTLC expiring too soon h=364 cltv=404"'),
 'C09-b': ('C09', 'get_update_fulfill_htlc_and_commit renumbers only the FIRST held monitor update when a preimage update jumps the queue: with >= 2 held updates two ChannelMonitorUpdates carry the same update_id',
           '>= 2 held (blocked) monitor updates when a preimage is learned for an inbound HTLC of that channel', 'demo_c09b',
           'C09 (mongate): probe_jump_over_held (revoke_and_ack update held behind an unhandled PaymentSent + later commitment updates, then claim): "preimage update ahead of held monitor updates (1 extra): panicked: Attempted to apply ChannelMonitorUpdates out of order". First run missed it in C09, C10, C12 and C02 (random scenarios reach at most one held update): probe family added'),
 'C20-b': ('C20', 'lightning-block-sync Validate for BlockData: the HeaderOnly arm no longer compares the header hash with the requested block hash: a header-only source can serve any PoW-valid header',
           'a header-only block source answering get_block with a mismatching header', 'demo_c20b',
           'C20: correspondence on `poll` + impl oracles "notifications do not describe one chain: connected an unknown block" / "skipped or repeated a block" with tree and fault schedule'),
 'C01-c': ('C01', 'can_send_update_fee compares the post-fee balance with holder_selected_channel_reserve_satoshis instead of the reserve the PEER selected: with asymmetric reserves the funder sends an update_fee the peer rejects by force-closing',
           'peer-required reserve larger than our own, funder balance near it, feerate increase fitting above the small but not the large reserve', 'demo_c01b',
           'C01: regenerated FeeUpdate.lean (gen_feeupd.py) breaks theorems update_fee_reserve_accepted and sender_test_is_peer_reserve; chan fee scenarios (asymmetric reserves, update_fee at quiet moments) give "honest operation produced a protocol error at node 1: Funding remote cannot afford proposed new fee". First run missed it: no update_fee and no asymmetric reserves in any scenario, reserve tests not translated — all three added'),
 'C03-b': ('C03', 'handle_pay_route_err PartialFailure: every Err path has its session priv removed, including Err(MonitorUpdateInProgress) paths that are still in flight: PaymentFailed while the paused HTLC is pending, or the amount re-sent',
           'MPP send where one path returns MonitorUpdateInProgress and another fails outright in the same call', 'demo_c03b', None),
 'C04-b': ('C04', 'claim_payment_internal: the all-or-nothing guard compares claimable_amt_msat with claiming_payment.amount_msat (both sums over what is still there): after one MPP part was failed back at its deadline the remaining parts are claimed',
           'MPP parts with different CLTV expiries, chain at the first claim_deadline, then claim_funds', 'demo_c04b',
           'C04 c04mpp: correspondence (`claim` impl fulfils, model `none`) + impl oracle "an incomplete set was claimed (sum intended 1198134 < total_msat 1262038): [deadline-drop] claim 1 at height 113"'),
 'C05-c': ('C05', 'validate_commitment_signed accepts FEWER HTLC signatures than non-dust HTLCs (!= became >): the node stores a holder commitment it cannot fully enforce and revokes its previous, fully signed state',
           'a commitment_signed carrying too few htlc_signatures', 'demo_c05b',
           'C05 (chan): probe_bad_cs (drop last / drop all / foreign / swapped / surplus HTLC signatures x 1,2,4 HTLCs): "bad commitment_signed probe (kind 0, 1 HTLCs) panicked: assertion left == right failed" (the monitor debug assertion on the resulting update; in release the revoke_and_ack-sent clause fires). First run missed it: only corrupted revoke_and_ack probes existed'),

 'C13-b': ('C13', 'UnsignedChannelUpdate reader tests `message_flags == 0` instead of bit 0 (must_be_one): a channel_update with must_be_one clear but another flag bit set is accepted, and decode∘encode∘decode changes the message (flags 2 become 3)',
           'channel_update whose message_flags byte is even and non-zero', 'demo_c13b',
           'C13: gen_msg_schemas.py TRANSLATE-ERROR (the low-bit check is part of the extracted reader shape); correspondence on `dec UnsignedChannelUpdate …`; impl oracle "re-encoding of decoded UnsignedChannelUpdate does not decode to an equal message" with the bytes'),
 'C14-b': ('C14', 'decode_fulfill_attribution_data indexes hold times with path.hops.len() instead of the attributable hop count: for fulfilled payments over more than 20 hops the sender panics in AttributionData::verify / misreports hold times',
           'path of >= 21 unblinded hops whose update_fulfill_htlc carries attribution data', 'demo_c14b',
           'C14: gen_onion_fail.py TRANSLATE-ERROR (sha256 pin of decode_fulfill_attribution_data, whose hand-written mirror the theorems are about) and the real code panics on the harness\'s >20-hop fulfil chains; ./check reports the op history as the failing input'),
 'C18-b': ('C18', 'Description::new measures the 639 limit in characters instead of UTF-8 bytes: the builder accepts descriptions a tagged field cannot carry; hashing / signing / serialising then panics (assert!(len < 1024))',
           'non-ASCII description of more than 639 bytes but at most 639 characters (e.g. 320 x "é")', 'demo_c18b',
           'C18: gen_c18_bounds.py TRANSLATE-ERROR (untranslatable `chars().count()` in the pinned bound) + impl oracle "builder accepted a description of 640 bytes (320 characters of 2 bytes each) which a tagged field cannot carry". First run had no failing input (only ASCII descriptions at the boundary): multi-byte boundary cases added'),
 'C02-b': ('C02', 'ChannelContext::force_shutdown fails backwards every outbound HTLC `included_in_commitment(true)` instead of only LocalAnnounced ones: force-closing a channel with a held counterparty-commitment update refunds upstream HTLCs the next hop can still claim on chain',
           'outbound channel with an RAA-blocked (held) monitor update containing a new counterparty commitment, another forwarded HTLC Committed on it, force-close before the release', 'demo_c02b', None),
 'C10-b': ('C10', 'reconcile_pending_htlcs_with_monitor matches a queued forward with a closed channel\'s forwarded HTLC by prev_htlc_id alone (not by inbound channel): on restart a never-forwarded HTLC of another inbound channel with a colliding id is silently dropped',
           'legacy reload path, a channel closed at load time whose monitor lists a forwarded HTLC (U1, id k), the written manager holds a pending forward from (U2 != U1, id k)', 'demo_c10b', None),
 'C11-b': ('C11', 'ChannelMonitorImpl::blocks_disconnected (Listen path) retains `entry.height < new_height` instead of `<=`: a reorg also discards pending on-chain events of transactions confirmed IN the fork-point block',
           'chain data via Listen::blocks_disconnected, fork point exactly the block in which a monitor-relevant transaction confirmed < ANTI_REORG_DELAY blocks earlier', 'demo_c11b',
           'C11: gen_claims.py TRANSLATE-ERROR (retain condition pinned) ; correspondence on `disc` ops (impl aw=- vs model aw=1.1.11.154,…); impl oracle O4 "styles disagree at the end" (FullBlockViaListen vs the Confirm styles) with the scenario'),
 'C06-b': ('C06', 'filter_block recognises a same-block child transaction only through its FIRST input: a second-stage HTLC tx confirmed in the same block as the revoked commitment whose first input is a fee input is dropped, its outputs are never punished',
           'anchor channel, revoked commitment and an HTLC tx with a fee input placed first in the same block, whole-block delivery', 'demo_c06b', None),
 'C07-b': ('C07', 'get_spendable_outputs takes the DelayedPaymentOutputDescriptor\'s to_self_delay from on_counterparty_tx_csv instead of on_holder_tx_csv: after a holder-side close the SpendableOutputs event comes at the wrong height with an unusable descriptor',
           'the two peers chose different our_to_self_delay values; holder-side unilateral close', 'demo_c07b', None),
 'C12-b': ('C12', 'ChannelLiquidity reader swaps TLV 9 and 11 (last_datapoint_time / offset_history_last_updated): a reloaded ProbabilisticScorer has the two timestamps exchanged',
           'scorer serialized after time_passed decayed the historical buckets of a channel without new data (> 14 days idle)', 'demo_c12b',
           'C12: regenerated TlvFieldPairs.lean breaks writer_reader_fields_agree / field_exceptions_exact; impl oracle "ProbabilisticScorer over the graph of node 0 does not round trip" with the bytes. First run had no failing input (no long-idle scorer states): long idle steps + time_passed added to the scorer histories'),
}
DET = {}
p = os.path.join(ROOT, 'seeded', 'detected_by.json')
if os.path.exists(p): DET = json.load(open(p))
for sid, (prop, breaks, needs, filt, det) in sorted(T.items()):
    d = os.path.join(ROOT, 'seeded', sid)
    log = os.path.join(d, 'confirm.log')
    if not os.path.exists(log): print('no confirm.log for', sid); continue
    txt = open(log).read()
    secs = re.split(r'^== ', txt, flags=re.M)
    def sec(prefix):
        for s in secs:
            if s.startswith(prefix): return s
        return ''
    pr, pa, su = sec('pristine + demo'), sec('patched + demo'), sec('patched, whole')
    conf = {
        'pristine_demo_passes': bool(re.search(r'test result: ok\. [1-9]\d* passed', pr)) and 'FAILED' not in pr,
        'patched_demo_fails': 'test result: FAILED' in pa,
        'patched_whole_suite': ' ; '.join(l for l in su.splitlines()[1:] if l.startswith('test result')),
        'patched_whole_suite_passes': 'FAILED' not in su and 'test result: ok' in su,
    }
    det = DET.get(sid, det)
    meta = {'property': prop, 'breaks': breaks, 'needs': needs, 'demo_filter': filt,
            'detected_by': det if det else 'NOT YET DETECTED on the first run; strengthening in progress (see DESIGN.md 9.4)',
            'confirmed': conf,
            'what_was_run': 'tools/confirm_seeded.sh in scratch worktree /tmp/confirm (demo with/without patch; whole suite of the touched crate with the patch); then the registered check against /repo HEAD + patch.diff (tools/try_seeded.sh in place, or tools/mut_sandbox.sh in an isolated worktree), reverted afterwards',
            'origin': 'written by an independent sub-agent given only the property text and a scratch worktree'}
    json.dump(meta, open(os.path.join(d, 'meta.json'), 'w'), indent=1)
    ok = conf['pristine_demo_passes'] and conf['patched_demo_fails'] and conf['patched_whole_suite_passes']
    print(sid, 'confirmed' if ok else 'NOT CONFIRMED', '| detected' if det else '| missed so far')
