#!/usr/bin/env python3
"""Write seeded/<id>/meta.json from the table below + the confirm.log produced by tools/confirm_seeded.sh.
Only entries listed in TABLE are (re)written; older hand-written meta.json files are left alone."""
import json, os, re, sys
ROOT = os.path.dirname(os.path.dirname(os.path.abspath(__file__)))
T = {
 'C09-a': ('C09', 'channel_ready withheld for a pending monitor update is never released when the peer is disconnected at the moment the funding confirms (check_get_channel_ready returns early on is_peer_disconnected before recording monitor_pending_channel_ready)',
           'inbound channel, initial monitor persist InProgress, funding confirms while the peer is disconnected, then reconnect and completion', 'demo_c09',
           'C09 (mongate, exhaustive open-order probe over {confirm, peer channel_ready, disconnect, reconnect, completion}): "held channel_ready never released … order [2, 0, 3, 4, 1]". First run missed it (no channel-establishment scenarios): probe added'),
 'C20-a': ('C20', 'SpvClient::update_chain_tip records partial progress only if chainwork grew instead of whenever the tip changed: after an interrupted reorg the client believes it is at the old tip while the listeners are elsewhere',
           'a poll that disconnects blocks, then a block-source error, then a later poll', 'demo_c20',
           'C20: impl oracle "listener notified although the poll reported no change" with the tree/schedule as failing input, plus correspondence mismatches'),
 'C13-a': ('C13', 'UnsignedNodeAnnouncement decoder: the address-fits-in-addrlen check ignores the 1-byte descriptor type, a node_announcement whose last address overruns addrlen by one byte is accepted',
           'node_announcement with >=1 known address and addrlen = real length - 1', 'demo_c13', None),
 'C17-a': ('C17', 'the equal-timestamp rejection in update_node_from_announcement_intern is deleted: through the unsigned entry point a different node_announcement with the same timestamp replaces the stored one (order dependent)',
           'two different node announcements with equal timestamps via update_node_from_unsigned_announcement', 'demo_c17',
           'C17: correspondence `na 5 … 1` impl "ok" vs model "err SameTimestamp IgnoreDuplicateGossip" (the model is what order independence / newest-wins are proved about) and impl oracle "stored last_update went back or was replaced at an equal timestamp" with the op and the graph before'),
 'C04-a': ('C04', 'inbound_payment::verify zeroes only one of the two min_final_cltv bytes folded into the expiry field: for the custom-final-CLTV payment-secret methods the invoice expiry is never enforced',
           'payment registered with min_final_cltv_expiry_delta d, d & 0xff != 0, HTLC arriving after expiry + 7200 s', 'demo_c04',
           'C04: `c04secret` correspondence (verify on an expired secret: impl ok, model err; the model of verify is what the expiry/authenticity theorems are about) and impl oracle "verify of a created user secret: accepted=true but total>=min && expiry>=now is false (expiry=481175 now=481176)"'),
 'C14-a': ('C14', 'process_failure_packet strips attribution data when the relayed update_fail_htlc is exactly LN_MAX_MSG_LEN (> became >=): hold times / attribution HMACs lost at the sender',
           'failure data of exactly 64529 bytes relayed by >= 1 hop', 'demo_c14', None),
 'C15-a': ('C15', 'peer_handler do_attempt_write_data: after an incomplete send_data the front-message offset is SET to the bytes sent instead of advanced by them: already-sent bytes are re-sent or skipped, the peer sees a bad MAC',
           'one outbound message needing >= 3 socket writes (two consecutive partial writes, the first non-empty)', 'demo_c15',
           'C15 (`c15peer`): two real PeerManagers over sockets with random partial-write schedules: impl oracle "PeerManager panicked in a 118-message scenario: attempt to subtract with overflow" / stream not delivered intact, with the scenario as failing input'),
 'C18-a': ('C18', 'PositiveTimestamp::from_unix_timestamp bound <= MAX_TIMESTAMP became <: the builder rejects 2^35-1 and any checksummed invoice string whose 35-bit timestamp is all ones panics the parser (unreachable!)',
           'timestamp exactly 34359738367', 'demo_c18',
           'C18: regenerated C18Bounds breaks theorem timestamp_constructor_range (+ non-vacuity examples); impl oracles "builder rejected a timestamp the wire format can carry" and "parser panicked on a checksum-valid string" (lnbc1lllllll…). First run missed it (boundary timestamp builds were discarded, all-ones field had probability 2^-35): bounds translator, 15 theorems and boundary/malformed generators added'),
 'C19-a': ('C19', 'MonitorUpdatingPersister::cleanup_stale_updates reads the monitor WITH updates applied, so every update file is deleted as stale while the full monitor on disk is older: updates reported Completed are lost',
           'maximum_pending_updates >= 2 and at least one update newer than the stored full monitor when cleanup runs', 'demo_c19',
           'C19: `c19mup` correspondence (`cleanup` leaves a different key set) and impl oracle "MonitorUpdatingPersister lost or tore state: monitor … recovered at update_id 18 equals no in-memory snapshot"'),
 'C03-a': ('C03', 're-abandoning an already abandoned payment replaces its in-flight HTLC set by an empty set: PaymentFailed is emitted and the PaymentId becomes reusable while HTLCs are still in flight; a late claim gives no PaymentSent',
           '>= 2-part MPP abandoned with parts in flight, then parts fail one at a time (or a 3-part MPP with two successive failures)', 'demo_c03',
           'C03: `c03pay`/`c03e2e` correspondence (PaymentFailed one step early) and impl oracle "PaymentFailed for payment N while k of its HTLCs are still pending in the sender\'s channels" with the op sequence. First run reported no-failing-input-found: the in-flight oracle was added'),
 'C16-a': ('C16', 'PaymentPath::update_value_and_recompute_fees drops total_fee_paid_msat += extra_fees_msat when raising a non-last hop to its htlc_minimum: hops closer to the payer are paid less than their policy fee',
           'path of >= 4 hops, raised hop index >= 2 and not last, an earlier hop with a proportional fee', 'demo_c16',
           'C16: `c16fees` correspondence on `recompute` ops (translated model differs: gen_router.py regenerates the function, breaking recompute_fees_sound) and the impl-side route oracle (hop underpaid) with the graph as failing input'),
 'C11-a': ('C11', 'provide_payment_preimage registers the preimage claim on a not-yet-buried counterparty commitment with creation height = current tip instead of the commitment\'s confirmation height: a reorg above the commitment drops the claim for good',
           'counterparty commitment confirmed at H, preimage k blocks later (1<=k<6), fork point in [H, H+k)', 'demo_c11', None),
 'C02-a': ('C02', 'can_forward_htlc_should_intercept: the outgoing_amt_msat > inbound amount check is applied to phantom SCIDs only; an intercepted HTLC can ask to forward more than it carries',
           'interception enabled, next-hop SCID neither ours nor phantom, hand-built onion with amt_to_forward > update_add_htlc.amount_msat', 'demo_c02', None),
 'C10-a': ('C10', 'handle_in_flight_updates!: replay condition update_id > monitor id became >=: the in-flight update the monitor already has is replayed, the node panics (out-of-order update) on every restart',
           'persisted manager lists >= 2 in-flight updates [N, N+1], monitor on disk at N', 'demo_c10',
           'C10: regenerated Restart.lean breaks replayList_eq / shouldReplay_iff; `c10` correspondence on `reload` worlds; impl oracle "restart from durable state FAILED: PANIC Attempted to apply ChannelMonitorUpdates out of order" with the crash world'),
 'C06-a': ('C06', 'check_spend_counterparty_htlc passes conf+CSV as the creation height of the justice claim on a revoked second-stage HTLC tx output: any reorg above that tx makes the handler forget the claim',
           'revoked commitment + cheater HTLC tx confirmed, >= 1 block above it disconnected before the justice tx is buried', 'demo_c06', None),
 'C07-a': ('C07', 'compute_package_feerate ForceBump: min(prev*1.25, 5*estimate) without the max(.., prev) clamp: the target feerate of externally funded claims goes down when the estimator falls below prev/5',
           'anchor channel, unilateral close, unconfirmed externally funded claim, estimator dropping below a fifth of the previous feerate', 'demo_c07', None),
 'C12-a': ('C12', 'write_claimable_htlc writes mpp_part.value under TLV 3 instead of sender_intended_value: after a reload an underpaid but complete payment is failed back with MPPTimeout',
           'manager written while a claimable HTLC has value != sender_intended_value (skimmed fee)', 'demo_c12', None),
}
DET = {}
p = os.path.join(ROOT, 'seeded', 'detected_by.json')
if os.path.exists(p): DET = json.load(open(p))
for sid, (prop, breaks, needs, filt, det) in sorted(T.items()):
    d = os.path.join(ROOT, 'seeded', sid)
    log = os.path.join(d, 'confirm.log')
    if not os.path.exists(log): print('no confirm.log for', sid); continue
    txt = open(log).read()
    secs = re.split(r'^== ', txt, flags=re.M)
    def sec(prefix):
        for s in secs:
            if s.startswith(prefix): return s
        return ''
    pr, pa, su = sec('pristine + demo'), sec('patched + demo'), sec('patched, whole')
    conf = {
        'pristine_demo_passes': bool(re.search(r'test result: ok\. [1-9]\d* passed', pr)) and 'FAILED' not in pr,
        'patched_demo_fails': 'test result: FAILED' in pa,
        'patched_whole_suite': ' ; '.join(l for l in su.splitlines()[1:] if l.startswith('test result')),
        'patched_whole_suite_passes': 'FAILED' not in su and 'test result: ok' in su,
    }
    det = DET.get(sid, det)
    meta = {'property': prop, 'breaks': breaks, 'needs': needs, 'demo_filter': filt,
            'detected_by': det if det else 'NOT YET DETECTED on the first run; strengthening in progress (see DESIGN.md 9.4)',
            'confirmed': conf,
            'what_was_run': 'tools/confirm_seeded.sh in scratch worktree /tmp/confirm (demo with/without patch; whole suite of the touched crate with the patch); then the registered check against /repo HEAD + patch.diff (tools/try_seeded.sh in place, or tools/mut_sandbox.sh in an isolated worktree), reverted afterwards',
            'origin': 'written by an independent sub-agent given only the property text and a scratch worktree'}
    json.dump(meta, open(os.path.join(d, 'meta.json'), 'w'), indent=1)
    ok = conf['pristine_demo_passes'] and conf['patched_demo_fails'] and conf['patched_whole_suite_passes']
    print(sid, 'confirmed' if ok else 'NOT CONFIRMED', '| detected' if det else '| missed so far')
