#!/usr/bin/env python3
"""Regenerate lean/LdkModel/Generated/HolderGate.lean (C05, holder side) from
lightning/src/chain/channelmonitor.rs and chainmonitor.rs:
  * `ChannelMonitorImpl::no_further_updates_allowed` (a disjunction of bool fields)                 -> noFurtherUpdatesAllowed
  * the `is_pre_close_update` classification of ChannelMonitorUpdateStep variants in update_monitor -> isPreCloseStep
  * the final decision of update_monitor  `if ret.is_ok() && self.no_further_updates_allowed() && is_pre_close_update { Err(()) } else { ret }`
  * ChainMonitor::update_channel_internal: `if (update_res.is_err() || monitor.no_further_updates_allowed()) && persist_res == Completed` => InProgress
  * pins: the holder-commitment arms apply the step BEFORE that decision; `holder_tx_signed = true` is set where the
    holder commitment claim is queued (generate_claimable_outpoints_and_watch_outputs), `lockdown_from_offchain = true` in the
    ChannelForceClosed arm; both flags are written and read back by the (de)serializer.
TRANSLATE-ERROR (exit 2) when a shape changed; writes only if the content changed."""
import re, sys, os
sys.path.insert(0, os.path.dirname(__file__))
from rs2lean import TranslateError, strip_comments, find_fn, match_brace
REPO = os.environ.get('VERIF_REPO', '/repo')
FIELDS = {'funding_spend_seen': 'fundingSpendSeen', 'lockdown_from_offchain': 'lockdownFromOffchain', 'holder_tx_signed': 'holderTxSigned',
          'is_manual_broadcast': 'isManualBroadcast', 'funding_seen_onchain': 'fundingSeenOnchain'}

def bool_expr(txt, what, locals_={}):
    """translate a Rust bool expression over `self.<flag>` (the five monitor flags), the given local bools, `!`, `&&`, `||` and
    parentheses into Lean (fully parenthesised); anything else is a TRANSLATE-ERROR"""
    toks = re.findall(r'\|\||&&|!|\(|\)|self\.\w+|\w+|\S', txt)
    pos = [0]
    def peek(): return toks[pos[0]] if pos[0] < len(toks) else None
    def eat(): pos[0] += 1; return toks[pos[0] - 1]
    def unary():
        t = peek()
        if t == '!': eat(); return '!' + unary()
        if t == '(':
            eat(); e = or_(); 
            if peek() != ')': raise TranslateError("%s: unbalanced parenthesis in %r" % (what, txt))
            eat(); return '(' + e + ')'
        if t is not None and t.startswith('self.') and t[5:] in FIELDS: eat(); return 'm.' + FIELDS[t[5:]]
        if t in locals_: eat(); return locals_[t]
        raise TranslateError("%s: term not understood: %r in %r" % (what, t, txt))
    def and_():
        e = [unary()]
        while peek() == '&&': eat(); e.append(unary())
        return ' && '.join(e) if len(e) == 1 else '(' + ' && '.join(e) + ')'
    def or_():
        e = [and_()]
        while peek() == '||': eat(); e.append(and_())
        return ' || '.join(e)
    r = or_()
    if pos[0] != len(toks): raise TranslateError("%s: trailing tokens in %r" % (what, txt))
    if r.startswith('(') and r.endswith(')') and r.count('(') == 1: r = r[1:-1]
    return r

def lcv(n): return n[0].lower() + n[1:]

def main(out_path):
    src = open(os.path.join(REPO, 'lightning/src/chain/channelmonitor.rs')).read()
    cm = open(os.path.join(REPO, 'lightning/src/chain/chainmonitor.rs')).read()
    _, _, b = find_fn(src, 'no_further_updates_allowed', after='fn is_closed_without_updates(&self)')
    e = ' '.join(strip_comments(b)[1:-1].split())
    nfua = bool_expr(e, 'no_further_updates_allowed')
    # ---- the manual-broadcast decisions around `holder_tx_signed` (who really signs / broadcasts, and when)
    _, _, g0 = find_fn(src, 'generate_claimable_outpoints_and_watch_outputs')
    g0f = ' '.join(strip_comments(g0).split())
    _, _, q0 = find_fn(src, 'queue_latest_holder_commitment_txn_for_broadcast')
    q0f = ' '.join(strip_comments(q0).split())
    mg = re.findall(r'if ([^{}]*) \{ return \(Vec::new\(\), Vec::new\(\)\); \}', g0f)
    if len(mg) != 1: raise TranslateError("generate_claimable_outpoints_and_watch_outputs: expected exactly one `if .. { return (Vec::new(), Vec::new()); }`")
    mq = re.findall(r'if ([^{}]*) \{ log_info!\([^;]*\); return; \}', q0f)
    if len(mq) != 1: raise TranslateError("queue_latest_holder_commitment_txn_for_broadcast: expected exactly one `if .. { log_info!(..); return; }`")
    LOC = {'require_funding_seen': 'requireFundingSeen'}
    skip_g, skip_q = bool_expr(mg[0], 'generate_claimable_outpoints_and_watch_outputs early return', LOC), bool_expr(mq[0], 'queue_latest_holder_commitment_txn_for_broadcast early return', LOC)
    if skip_g != skip_q: raise TranslateError("the not-before-funding-seen conditions of generate_claimable_outpoints_and_watch_outputs (%s) and queue_latest_holder_commitment_txn_for_broadcast (%s) differ" % (skip_g, skip_q))
    # the flag is set BEFORE the early return (a manual-broadcast channel is frozen although nothing was broadcast yet), and the
    # force-close monitor event is pushed before it too
    ia, ib, ic = g0f.find('self.pending_monitor_events.push(event);'), g0f.find('self.holder_tx_signed = true;'), g0f.find('if ' + mg[0] + ' {')
    if not (0 <= ia < ib < ic): raise TranslateError("generate_claimable_outpoints_and_watch_outputs: order {push HolderForceClosed event; holder_tx_signed = true; early return} changed")
    if 'self.generate_claimable_outpoints_and_watch_outputs(Some(reason), require_funding_seen);' not in q0f or q0f.find('self.generate_claimable_outpoints_and_watch_outputs(') > q0f.find('if ' + mq[0] + ' {'):
        raise TranslateError("queue_latest_holder_commitment_txn_for_broadcast: generate_claimable_outpoints_and_watch_outputs(Some(reason), require_funding_seen) no longer precedes the early return")
    _, _, bc = find_fn(src, 'block_confirmed')
    bcf = ' '.join(strip_comments(bc).split())
    mb = re.search(r'self\.generate_claimable_outpoints_and_watch_outputs\(Some\(reason\), false\); if ([^{}]*) \{ claimable_outpoints\.append\(&mut new_outpoints\); watch_outputs\.append\(&mut new_outputs\); \} else \{', bcf)
    if not mb: raise TranslateError("block_confirmed: HTLC-timeout broadcast gate `generate..(Some(reason), false); if <cond> { claimable_outpoints.append(..) ..} else {` not found")
    timeout_ok = bool_expr(mb.group(1), 'block_confirmed timeout broadcast gate')
    flat_src = ' '.join(strip_comments(src).split())
    mt = re.findall(r'let funding_seen_before = self\.funding_seen_onchain;.*?if ([^{}]*?) \{ should_broadcast_commitment = true; \}', flat_src)
    if len(mt) != 1: raise TranslateError("transactions_confirmed: `let funding_seen_before = self.funding_seen_onchain; .. if <cond> { should_broadcast_commitment = true; }` not found exactly once")
    if len(re.findall(r'funding_seen_onchain = (true|false);', flat_src)) != 1 or 'self.funding_seen_onchain = true;' not in flat_src: raise TranslateError("funding_seen_onchain must be assigned exactly once (= true)")
    on_seen = bool_expr(mt[0].split(' if ')[-1] if ' if ' in mt[0] else mt[0], 'transactions_confirmed broadcast-on-funding-seen', {'funding_seen_before': 'fundingSeenBefore'})
    # step variants
    m = re.search(r'pub\(crate\) enum ChannelMonitorUpdateStep\s*\{', src)
    if not m: raise TranslateError("enum ChannelMonitorUpdateStep not found")
    body = strip_comments(src[m.end() - 1: match_brace(src, m.end() - 1)])[1:-1]
    variants, d, cur = [], 0, ''
    for c in body:
        if c in '({': d += 1
        if d == 0: cur += c
        if c in ')}': d -= 1
    for part in cur.split(','):
        part = re.sub(r'#\[[^\]]*\]', '', part).strip()
        if part: variants.append(part.split()[0])
    _, _, um = find_fn(src, 'update_monitor', after='fn promote_funding')
    um = strip_comments(um)
    k = um.find('let mut is_pre_close_update = false;')
    if k < 0: raise TranslateError("update_monitor: is_pre_close_update not found")
    km = um.index('match update {', k)
    arms_txt = um[km + len('match update '): match_brace(um, km + len('match update '))]
    pre = {}
    for am in re.finditer(r'((?:\|?\s*ChannelMonitorUpdateStep::\w+\s*\{\s*\.\.\s*\}\s*)+)=>\s*(is_pre_close_update = true|\{\s*\})\s*,', arms_txt):
        for v in re.findall(r'ChannelMonitorUpdateStep::(\w+)', am.group(1)): pre[v] = am.group(2).startswith('is_pre')
    if set(pre) != set(variants): raise TranslateError("is_pre_close_update arms %s != variants %s" % (sorted(pre), sorted(variants)))
    flat = ' '.join(um.split())
    if 'if ret.is_ok() && self.no_further_updates_allowed() && is_pre_close_update {' not in flat or not re.search(r'is_pre_close_update \{ log_error!\([^;]*\); Err\(\(\)\) \} else \{ ret \}', flat):
        raise TranslateError("update_monitor: final refusal decision changed")
    # the holder arms apply first (before the decision), and only refuse on their own error
    i1 = flat.find('ChannelMonitorUpdateStep::LatestHolderCommitmentTXInfo { commitment_tx, htlc_outputs, claimed_htlcs, nondust_htlc_sources } => {')
    i2 = flat.find('self.provide_latest_holder_commitment_tx(')
    i3 = flat.find('self.update_holder_commitment_data(')
    i4 = flat.find('let mut is_pre_close_update = false;')
    if not (0 <= i1 < i2 < i3 < i4): raise TranslateError("update_monitor: holder commitment arms no longer precede the refusal decision")
    if 'if self.lockdown_from_offchain { panic!(); }' not in flat or 'assert!(!self.lockdown_from_offchain);' not in flat:
        raise TranslateError("update_monitor: holder commitment arms no longer panic under lockdown_from_offchain")
    ifc = flat.find('ChannelMonitorUpdateStep::ChannelForceClosed { should_broadcast } => {')
    if ifc < 0 or 'self.lockdown_from_offchain = true;' not in flat[ifc: ifc + 400]:
        raise TranslateError("update_monitor: ChannelForceClosed no longer sets lockdown_from_offchain")
    _, _, g = find_fn(src, 'generate_claimable_outpoints_and_watch_outputs')
    if 'self.holder_tx_signed = true;' not in g: raise TranslateError("generate_claimable_outpoints_and_watch_outputs no longer sets holder_tx_signed")
    if len(re.findall(r'holder_tx_signed = (true|false)', strip_comments(src))) != 1: raise TranslateError("holder_tx_signed is assigned in more than one place (it must never be reset)")
    for f in ('lockdown_from_offchain', 'holder_tx_signed'):
        if 'channel_monitor.%s.write(writer)?;' % f not in src or 'let %s = Readable::read(reader)?;' % f not in src: raise TranslateError("%s is no longer serialized" % f)
    # get_latest_holder_commitment_txn signs the current holder commitment only
    _, _, gl = find_fn(src, 'unsafe_get_latest_holder_commitment_txn')
    # ChainMonitor deferral
    cflat = ' '.join(strip_comments(cm).split())
    if 'if (update_res.is_err() || monitor.no_further_updates_allowed()) && persist_res == ChannelMonitorUpdateStatus::Completed {' not in cflat:
        raise TranslateError("ChainMonitor::update_channel_internal: post-close deferral condition changed")
    j = cflat.index('if (update_res.is_err() || monitor.no_further_updates_allowed()) && persist_res == ChannelMonitorUpdateStatus::Completed {')
    blk = cflat[j: j + 1400]
    if not re.search(r'ChannelMonitorUpdateStatus::InProgress \} else \{ persist_res \}', blk): raise TranslateError("ChainMonitor::update_channel_internal: deferral no longer returns InProgress / persist_res")
    L = ['/- GENERATED by tools/gen_holder_gate.py from lightning/src/chain/channelmonitor.rs + chainmonitor.rs — do not edit. -/',
         'namespace Ldk.HolderGate', '',
         '/-- the three "channel is closed" flags of ChannelMonitorImpl and the two manual-broadcast-funding flags -/', 'structure Flags where',
         '  fundingSpendSeen : Bool := false', '  lockdownFromOffchain : Bool := false', '  holderTxSigned : Bool := false',
         '  isManualBroadcast : Bool := false', '  fundingSeenOnchain : Bool := true', '  deriving DecidableEq, Repr, Inhabited', '',
         '/-- ChannelMonitorUpdateStep variants -/', 'inductive Step where', '  | ' + ' | '.join(lcv(v) for v in variants), '  deriving DecidableEq, Repr, Inhabited', '',
         '/-- `ChannelMonitorImpl::no_further_updates_allowed` -/', 'def noFurtherUpdatesAllowed (m : Flags) : Bool := ' + nfua, '',
         '/-- generate_claimable_outpoints_and_watch_outputs / queue_latest_holder_commitment_txn_for_broadcast: nothing is queued for',
         '    broadcast (holder_tx_signed and the HolderForceClosed event are set all the same: pinned order) -/',
         'def skipBroadcastUntilFundingSeen (requireFundingSeen : Bool) (m : Flags) : Bool := ' + skip_g, '',
         '/-- block_confirmed, outbound HTLC timed out: are the holder commitment claims queued (after holder_tx_signed was set)? -/',
         'def timeoutBroadcastAllowed (m : Flags) : Bool := ' + timeout_ok, '',
         '/-- transactions_confirmed: the funding of a manual-broadcast channel shows up => broadcast the holder commitment now? -/',
         'def broadcastOnFundingSeen (fundingSeenBefore : Bool) (m : Flags) : Bool := ' + on_seen, '',
         '/-- the `is_pre_close_update` classification of update_monitor -/', 'def isPreCloseStep : Step → Bool']
    for v in variants: L.append('  | .%s => %s' % (lcv(v), 'true' if pre[v] else 'false'))
    L += ['', '/-- the value update_monitor returns (true = Ok): `if ret.is_ok() && no_further_updates_allowed() && is_pre_close_update { Err } else { ret }`,',
          '    evaluated AFTER every step of the update was applied -/',
          'def updateOk (retOk : Bool) (m : Flags) (steps : List Step) : Bool :=', '  if retOk && noFurtherUpdatesAllowed m && steps.any isPreCloseStep then false else retOk', '',
          '/-- ChainMonitor::update_channel_internal: is a `Completed` persist turned into InProgress (completion deferred behind the',
          '    monitor events)? -/',
          'def chainMonitorDefers (updateOk : Bool) (m : Flags) (persistCompleted : Bool) : Bool :=', '  (!updateOk || noFurtherUpdatesAllowed m) && persistCompleted', '',
          'end Ldk.HolderGate']
    text = '\n'.join(L) + '\n'
    old = open(out_path).read() if os.path.exists(out_path) else None
    if old != text: open(out_path, 'w').write(text)

if __name__ == '__main__':
    try:
        main(sys.argv[1] if len(sys.argv) > 1 else os.path.join(os.path.dirname(__file__), '..', 'lean', 'LdkModel', 'Generated', 'HolderGate.lean'))
    except TranslateError as ex:
        print("TRANSLATE-ERROR gen_holder_gate: %s" % ex)
        sys.exit(2)
