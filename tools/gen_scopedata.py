#!/usr/bin/env python3
"""Regenerate lean/LdkModel/Generated/ScopeData.lean from /repo's lightning/src/chain/channelmonitor.rs: WHICH commitment
transaction's HTLC list (with its `transaction_output_index`es) is stored for WHICH FundingScope under WHICH txid (C06).

Translated (the Rust text determines the Lean definition):
  * `ChannelMonitorImpl::update_counterparty_commitment_data`: the `txid` and `htlc_outputs` arguments of the
    `provide_latest_counterparty_commitment_tx` call (the locked scope) and, in the loop over `pending_funding`, the pairing
    `zip(commitment_txs.iter().skip(K))`, the key and the value of `counterparty_claimable_outpoints.insert(..)` and the value of
    `current_counterparty_commitment_txid` — every one resolved through the `let` bindings (and `.clone()`s) of the function to an
    element of `commitment_txs`: `lockedKey`, `lockedSrc`, `pendingSkip`, `pendingKey k`, `pendingCur k`, `pendingSrc k`;
  * `ChannelMonitorImpl::renegotiated_funding`: where the stored `transaction_output_index` of the new scope's list comes from
    (`renegIndexFromAlternative`).
Pinned by shape: the closure `htlcs_for_commitment` takes its non-dust HTLCs (hence their indices) from ITS ARGUMENT's
`nondust_htlcs()`; `verify_matching_commitment_transactions` pairs `once(&self.funding).chain(self.pending_funding.iter())` with
the transactions in order and refuses a transaction that does not spend its scope's funding outpoint;
`check_spend_counterparty_transaction` looks the data up in the scope whose funding was spent; `promote_funding` swaps the promoted
scope in whole.  Anything else: exit 2 with `TRANSLATE-ERROR ...`."""
import re, sys, os
sys.path.insert(0, os.path.dirname(__file__))
from rs2lean import TranslateError, strip_comments, match_brace
REPO = os.environ.get('VERIF_REPO', '/repo')
OUT = os.path.join(os.path.dirname(os.path.abspath(__file__)), '..', 'lean', 'LdkModel', 'Generated', 'ScopeData.lean')

def norm(s): return re.sub(r'\s*\.\s*(?=[A-Za-z_])', '.', ' '.join(s.split())).replace('( ', '(').replace(' )', ')').replace(', )', ')').replace(',)', ')')

def body(src, name):
    ms = list(re.finditer(r'\bfn\s+%s\s*(?:<[^{;]*?>)?\s*\(' % re.escape(name), src))
    if len(ms) != 1: raise TranslateError('expected exactly one `fn %s`, found %d' % (name, len(ms)))
    depth, i = 1, ms[0].end()
    while depth: depth += {'(': 1, ')': -1}.get(src[i], 0); i += 1
    k = src.index('{', i)
    return norm(src[k:match_brace(src, k)])

def split_args(s):
    out, depth, cur = [], 0, ''
    for ch in s:
        if ch in '([{': depth += 1
        if ch in ')]}': depth -= 1
        if ch == ',' and depth == 0: out.append(cur.strip()); cur = ''
        else: cur += ch
    if cur.strip(): out.append(cur.strip())
    return out

def call_args(text, head, where):
    i = text.find(head + '(')
    if i < 0 or text.find(head + '(', i + 1) >= 0: raise TranslateError('%s: expected exactly one `%s(`' % (where, head))
    j, depth = i + len(head) + 1, 1
    k = j
    while depth: depth += {'(': 1, ')': -1}.get(text[k], 0); k += 1
    return split_args(text[j:k - 1])

class Resolver:
    """resolves an expression of update_counterparty_commitment_data to `tx <index expr>` / `txid <index expr>` / `htlcs <index expr>`"""
    def __init__(self, lets, loop_tx, skip): self.lets, self.loop_tx, self.skip = lets, loop_tx, skip
    def tx(self, e, depth=0):
        e = e.strip().lstrip('&')
        if depth > 8: raise TranslateError('let chain too deep at `%s`' % e)
        if e == self.loop_tx: return 'k + pendingSkip'
        if e in ('commitment_txs.first().unwrap()', 'commitment_txs[0]', '&commitment_txs[0]'): return '0'
        if e in self.lets: return self.tx(self.lets[e], depth + 1)
        raise TranslateError('cannot resolve `%s` to an element of commitment_txs' % e)
    def txid(self, e, depth=0):
        e = e.strip()
        if depth > 8: raise TranslateError('let chain too deep at `%s`' % e)
        m = re.fullmatch(r'(.+)\.trust\(\)\.txid\(\)', e)
        if m: return self.tx(m.group(1))
        if e in self.lets: return self.txid(self.lets[e], depth + 1)
        raise TranslateError('cannot resolve `%s` to the txid of an element of commitment_txs' % e)
    def htlcs(self, e, depth=0):
        e = e.strip()
        if depth > 8: raise TranslateError('let chain too deep at `%s`' % e)
        while e.endswith('.clone()'): e = e[:-len('.clone()')]
        m = re.fullmatch(r'htlcs_for_commitment\((.+)\)', e)
        if m: return self.tx(m.group(1))
        if e in self.lets: return self.htlcs(self.lets[e], depth + 1)
        raise TranslateError('cannot resolve `%s` to htlcs_for_commitment(<element of commitment_txs>)' % e)

def main():
    src = strip_comments(open(os.path.join(REPO, 'lightning/src/chain/channelmonitor.rs')).read())
    # ---- update_counterparty_commitment_data ----------------------------------------------------------------------------------
    b = body(src, 'update_counterparty_commitment_data')
    W = 'update_counterparty_commitment_data'
    if not b.startswith('{ self.verify_matching_commitment_transactions(commitment_txs.iter())?;'):
        raise TranslateError('%s: does not start with verify_matching_commitment_transactions(commitment_txs.iter())?' % W)
    ci = b.find('let htlcs_for_commitment = |commitment: &CommitmentTransaction| {')
    if ci < 0: raise TranslateError('%s: closure htlcs_for_commitment not found' % W)
    cstart = b.index('{', ci); cend = match_brace(b, cstart)
    clos = b[cstart:cend]
    if 'let mut nondust_htlcs = commitment.nondust_htlcs().iter();' not in clos or 'nondust_htlcs.next()?.clone()' not in clos \
       or 'nondust_htlcs.chain(dust_htlcs).collect' not in clos or len(re.findall(r'\bnondust_htlcs\(\)', clos)) != 2:
        raise TranslateError('%s: htlcs_for_commitment no longer takes its non-dust HTLCs from its argument `commitment.nondust_htlcs()` followed by the dust HTLCs' % W)
    rest = b[:ci] + b[cend:]
    fi = rest.find('for (')
    m = re.search(r'for \((\w+), (\w+)\) in self\.pending_funding\.iter_mut\(\)\.zip\(commitment_txs\.iter\(\)\.skip\((\d+)\)\) \{', rest)
    if not m or rest.count('for ') != 1: raise TranslateError('%s: expected one loop `for (scope, tx) in self.pending_funding.iter_mut().zip(commitment_txs.iter().skip(K))`' % W)
    scope_v, tx_v, skip = m.group(1), m.group(2), int(m.group(3))
    ls = rest.index('{', m.end() - 1); le = match_brace(rest, ls)
    loop = rest[ls:le]; top = rest[:m.start()] + rest[le:]
    if fi != m.start(): raise TranslateError('%s: unexpected loop' % W)
    lets_top = dict(re.findall(r'let (\w+) = ([^;]+);', top))
    lets_loop = dict(lets_top); lets_loop.update(dict(re.findall(r'let (\w+) = ([^;]+);', loop)))
    a = call_args(top, 'self.provide_latest_counterparty_commitment_tx', W)
    if len(a) != 4: raise TranslateError('%s: provide_latest_counterparty_commitment_tx takes %d arguments' % (W, len(a)))
    Rt = Resolver(lets_top, None, skip)
    locked_key, locked_src = Rt.txid(a[0]), Rt.htlcs(a[1])
    for extra, suffix in ((a[2], '.commitment_number()'), (a[3], '.per_commitment_point()')):
        if not extra.endswith(suffix) or Rt.tx(extra[:-len(suffix)]) != locked_key: raise TranslateError('%s: argument `%s` is not taken from the locked scope\'s transaction' % (W, extra))
    Rl = Resolver(lets_loop, tx_v, skip)
    ins = call_args(loop, '%s.counterparty_claimable_outpoints.insert' % scope_v, W + ' (loop)')
    if len(ins) != 2: raise TranslateError('%s: insert takes %d arguments' % (W, len(ins)))
    pend_key, pend_src = Rl.txid(ins[0]), Rl.htlcs(ins[1])
    mc = re.findall(r'%s\.current_counterparty_commitment_txid = Some\(([^;]+)\);' % scope_v, loop)
    if len(mc) != 1 or ('%s.prev_counterparty_commitment_txid = %s.current_counterparty_commitment_txid.take();' % (scope_v, scope_v)) not in loop:
        raise TranslateError('%s: the loop no longer rotates prev/current_counterparty_commitment_txid' % W)
    pend_cur = Rl.txid(mc[0])
    if loop.index('.take();') > loop.index('current_counterparty_commitment_txid = Some('): raise TranslateError('%s: prev/current rotation order changed' % W)
    # ---- verify_matching_commitment_transactions (pinned) -------------------------------------------------------------------------
    v = body(src, 'verify_matching_commitment_transactions')
    for need in ('if self.pending_funding.len() + 1 != commitment_txs.len() { return Err(',
                 'for (funding, commitment_tx) in core::iter::once(&self.funding).chain(self.pending_funding.iter()).zip(commitment_txs)',
                 'let funding_outpoint_spent = trusted_tx.input[0].previous_output; if funding_outpoint_spent != funding.funding_outpoint().into_bitcoin_outpoint() { return Err('):
        if need not in v: raise TranslateError('verify_matching_commitment_transactions: `%s…` not found' % need[:70])
    # ---- verify_matching_commitment_transactions: the cross-version comparisons (TRANSLATED, round 6) ---------------------------------
    VW = 'verify_matching_commitment_transactions'
    if 'let mut other_commitment_tx = None::<&CommitmentTransaction>; for (funding, commitment_tx) in' not in v:
        raise TranslateError('%s: `other_commitment_tx` is no longer initialised to None right before the loop' % VW)
    oi = v.find('if let Some(other_commitment_tx) = other_commitment_tx {')
    if oi < 0 or v.count('if let Some(') != 1: raise TranslateError('%s: expected exactly one `if let Some(other_commitment_tx) = other_commitment_tx {`' % VW)
    os_ = v.index('{', oi); oe = match_brace(v, os_)
    blk = v[os_ + 1:oe - 1].strip()
    tail = v[oe:].strip()
    if tail == 'other_commitment_tx = Some(commitment_tx); } Ok(()) }': predecessor = 'true'
    elif tail == '} Ok(()) }': predecessor = 'false'     # nothing is ever compared: the theorem breaks
    else: raise TranslateError('%s: unexpected statements after the comparison block: `%s`' % (VW, tail[:80]))
    if v.index('funding_outpoint_spent != funding.funding_outpoint()') > oi: raise TranslateError('%s: the funding-outpoint check moved behind the comparisons' % VW)
    ATTR = {'commitment_number': 'number', 'per_commitment_point': 'point', 'negotiated_feerate_per_kw': 'feerate'}
    cmps, pos, lets_v = [], 0, {}
    while pos < len(blk):
        restb = blk[pos:]
        m1 = re.match(r'if commitment_tx\.(\w+)\(\) != other_commitment_tx\.(\w+)\(\) \{ return Err\("([^"]*)"\); \}\s*', restb)
        m2 = re.match(r'let (\w+) = (commitment_tx|other_commitment_tx)\.nondust_htlcs\(\);\s*', restb)
        m3 = re.match(r'if (\w+)\.len\(\) != (\w+)\.len\(\) \{ return Err\("([^"]*)"\); \}\s*', restb)
        m4 = re.match(r'for \((\w+), (\w+)\) in (\w+)\.iter\(\)\.zip\((\w+)\.iter\(\)\) \{ if !(\w+)\.is_data_equal\((\w+)\) \{ return Err\("([^"]*)"\); \} \}\s*', restb)
        if m1:
            if m1.group(1) != m1.group(2) or m1.group(1) not in ATTR: raise TranslateError('%s: comparison of `%s()` with `%s()` is not one the model knows' % (VW, m1.group(1), m1.group(2)))
            cmps.append(('%s tx != %s other' % (ATTR[m1.group(1)], ATTR[m1.group(1)]), m1.group(3))); pos += m1.end()
        elif m2: lets_v[m2.group(1)] = m2.group(2); pos += m2.end()
        elif m3:
            if {lets_v.get(m3.group(1)), lets_v.get(m3.group(2))} != {'commitment_tx', 'other_commitment_tx'}: raise TranslateError('%s: the length comparison is not between the two transactions\' nondust_htlcs()' % VW)
            cmps.append(('htlcCount tx != htlcCount other', m3.group(3))); pos += m3.end()
        elif m4:
            a, b_, la, lb, ca, cb = m4.group(1, 2, 3, 4, 5, 6)
            if {lets_v.get(la), lets_v.get(lb)} != {'commitment_tx', 'other_commitment_tx'} or {ca, cb} != {a, b_}: raise TranslateError('%s: the is_data_equal loop does not pair the two transactions\' nondust HTLCs' % VW)
            cmps.append(('!(htlcsDataEqual tx other)', m4.group(7))); pos += m4.end()
        else: raise TranslateError('%s: cannot translate the comparison block at `%s`' % (VW, restb[:90]))
    # ---- HTLCOutputInCommitment::is_data_equal (TRANSLATED, round 6) ------------------------------------------------------------------
    cu = strip_comments(open(os.path.join(REPO, 'lightning/src/ln/chan_utils.rs')).read())
    de = body(cu, 'is_data_equal')
    de_terms = [t.strip() for t in de.strip()[1:-1].split('&&')]
    FIELDS = ('offered', 'amount_msat', 'cltv_expiry', 'payment_hash')
    de_lean = []
    for t in de_terms:
        mt = re.fullmatch(r'self\.(\w+) == other\.(\w+)', t)
        if not mt or mt.group(1) != mt.group(2) or mt.group(1) not in FIELDS: raise TranslateError('is_data_equal: cannot translate the term `%s`' % t)
        de_lean.append('(%s a == %s b)' % (mt.group(1), mt.group(1)))
    if not de_lean: raise TranslateError('is_data_equal: no comparison')
    # ---- renegotiated_funding ---------------------------------------------------------------------------------------------------------
    r = body(src, 'renegotiated_funding')
    for need in ('self.funding.counterparty_claimable_outpoints.get(txid).unwrap()', 'let mut htlcs_with_sources = current_counterparty_commitment_htlcs.clone();',
                 'let alternative_htlcs = alternative_counterparty_commitment_tx.nondust_htlcs();',
                 'for (alternative_htlc, (htlc, _)) in alternative_htlcs.iter().zip(htlcs_with_sources.iter_mut())',
                 'if !alternative_htlc.is_data_equal(htlc) {', 'if alternative_htlcs.len() != expected_non_dust_htlc_count {',
                 'counterparty_claimable_outpoints.insert(alternative_counterparty_commitment_txid, htlcs_with_sources);',
                 'let alternative_counterparty_commitment_txid = alternative_counterparty_commitment_tx.trust().txid();',
                 'current_counterparty_commitment_txid: Some(alternative_counterparty_commitment_txid), prev_counterparty_commitment_txid: None, counterparty_claimable_outpoints,',
                 'self.pending_funding.push(alternative_funding);'):
        if need not in r: raise TranslateError('renegotiated_funding: `%s…` not found' % need[:80])
    asg = re.findall(r'(\w+)\.transaction_output_index = ([^;]+);', r)
    if asg == [('htlc', 'alternative_htlc.transaction_output_index')]: reneg = 'true'
    elif asg == []: reneg = 'false'
    else: raise TranslateError('renegotiated_funding: unexpected assignment(s) to transaction_output_index: %s' % asg)
    # ---- promote_funding / the lookup (pinned) ----------------------------------------------------------------------------------------------
    p = body(src, 'promote_funding')
    for need in ('.find(|funding| funding.funding_txid() == new_funding_txid);', 'mem::swap(&mut self.funding, &mut new_funding);', 'mem::swap(&mut self.pending_funding, &mut discarded_funding);'):
        if need not in p: raise TranslateError('promote_funding: `%s` not found' % need)
    c = body(src, 'check_spend_counterparty_transaction')
    if 'let funding_spent = get_confirmed_funding_scope!(self); let per_commitment_option = funding_spent.counterparty_claimable_outpoints.get(&commitment_txid);' not in c:
        raise TranslateError('check_spend_counterparty_transaction: the per-commitment data is no longer looked up in the confirmed funding scope')
    L = ['/- GENERATED by tools/gen_scopedata.py from lightning/src/chain/channelmonitor.rs — do not edit.',
         '   Which element of `commitment_txs` (index 0 = the locked funding\'s commitment, index 1.. = one per pending FundingScope, in order)',
         '   supplies the txid / the HTLC list with output indices stored for each FundingScope. -/',
         'namespace Ldk.ScopeData.Gen', '',
         '/-- update_counterparty_commitment_data: `txid` argument of provide_latest_counterparty_commitment_tx (the locked scope) -/',
         'def lockedKey : Nat := %s' % locked_key,
         '/-- … its `htlc_outputs` argument: `htlcs_for_commitment(commitment_txs[lockedSrc])` -/',
         'def lockedSrc : Nat := %s' % locked_src,
         '/-- `self.pending_funding.iter_mut().zip(commitment_txs.iter().skip(pendingSkip))` -/',
         'def pendingSkip : Nat := %d' % skip,
         '/-- key of `pending_funding[k].counterparty_claimable_outpoints.insert(..)`: the txid of commitment_txs[pendingKey k] -/',
         'def pendingKey (k : Nat) : Nat := %s' % pend_key,
         '/-- `pending_funding[k].current_counterparty_commitment_txid = Some(txid of commitment_txs[pendingCur k])` -/',
         'def pendingCur (k : Nat) : Nat := %s' % pend_cur,
         '/-- value of that insert: `htlcs_for_commitment(commitment_txs[pendingSrc k])` -/',
         'def pendingSrc (k : Nat) : Nat := %s' % pend_src,
         '/-- renegotiated_funding: `htlc.transaction_output_index = alternative_htlc.transaction_output_index` is present -/',
         'def renegIndexFromAlternative : Bool := %s' % reneg, '',
         '/-- verify_matching_commitment_transactions: the comparisons between a transaction `tx` and `other_commitment_tx`, in the code\'s order;',
         '    `some msg` = `return Err(msg)` -/',
         'def versionMismatch {T : Type} (number point feerate htlcCount : T → Nat) (htlcsDataEqual : T → T → Bool) (tx other : T) : Option String :=',
         ] + \
        ['  %s %s then some "%s"' % ('if' if i == 0 else 'else if', c, msg) for i, (c, msg) in enumerate(cmps)] + \
        ['  %snone' % ('else ' if cmps else ''),
         '/-- `other_commitment_tx = Some(commitment_tx)` is the last statement of the loop body: every transaction is compared with its PREDECESSOR -/',
         'def verifyOtherIsPredecessor : Bool := %s' % predecessor,
         '/-- ln/chan_utils.rs HTLCOutputInCommitment::is_data_equal -/',
         'def isDataEqual {H : Type} (offered : H → Bool) (amount_msat cltv_expiry payment_hash : H → Nat) (a b : H) : Bool :=',
         '  ' + ' && '.join(de_lean), '',
         'end Ldk.ScopeData.Gen', '']
    text = '\n'.join(L).replace('(k : Nat) : Nat := 0', '(_k : Nat) : Nat := 0')
    old = open(OUT).read() if os.path.exists(OUT) else None
    if old != text:
        os.makedirs(os.path.dirname(OUT), exist_ok=True)
        open(OUT, 'w').write(text); print('wrote', os.path.normpath(OUT))
    else: print('unchanged', os.path.normpath(OUT))

if __name__ == '__main__':
    try: main()
    except TranslateError as e:
        print('TRANSLATE-ERROR gen_scopedata: %s' % e); sys.exit(2)
