#!/usr/bin/env python3
"""Regenerate lean/LdkModel/Generated/RouterFees.lean: the pure fee / capacity arithmetic of
lightning/src/routing/router.rs (`compute_fees`, `compute_fees_saturating`, `max_htlc_from_capacity`)
and `EffectiveCapacity` (+ `as_msat`) of routing/gossip.rs, translated from the Rust bodies that
exist in /repo *now* (C16).  RoutingFees fields become the Nat parameters `base_msat`,
`proportional_millionths`.
"""
import re, sys, os
sys.path.insert(0, os.path.dirname(__file__))
from rs2lean import (parse_expr, parse_block, Emitter, TranslateError, strip_comments, find_fn,
                     match_brace, parse_params)

REPO = os.environ.get('VERIF_REPO', '/repo')
def rd(p): return open(os.path.join(REPO, p)).read()

def lc(n): return n[0].lower() + n[1:]

def enum_struct_variants(src, name):
    """`pub enum Name { V { a: u64, b: u64 }, W, ... }` -> [(V, [a, b]), (W, [])]; only u64 fields allowed"""
    m = re.search(r'pub enum ' + name + r'\s*\{', src)
    if not m: raise TranslateError("enum %s not found" % name)
    body = strip_comments(src[m.end() - 1: match_brace(src, m.end() - 1)])[1:-1]
    out = []
    i = 0
    pat = re.compile(r'\s*(?:#\[[^\]]*\]\s*)*([A-Z][A-Za-z0-9]*)\s*(\{([^}]*)\})?\s*,?')
    while i < len(body):
        if not body[i:].strip(): break
        mm = pat.match(body, i)
        if not mm or mm.end() == i: raise TranslateError("cannot parse variants of %s at %r" % (name, body[i:i + 40]))
        fields = []
        if mm.group(2):
            for f in mm.group(3).split(','):
                f = f.strip()
                if not f: continue
                fm = re.fullmatch(r'([a-z_0-9]+)\s*:\s*u64', f)
                if not fm: raise TranslateError("field %r of %s::%s is not a plain u64" % (f, name, mm.group(1)))
                fields.append(fm.group(1))
        out.append((mm.group(1), fields))
        i = mm.end()
    return out

def tuple_variants(src, name):
    """`pub enum Name<'a> { V(Payload), ... }` -> [V, ...] (doc comments / attributes skipped)"""
    m = re.search(r'pub enum ' + name + r"(<'a>)?\s*\{", src)
    if not m: raise TranslateError("enum %s not found" % name)
    body = strip_comments(src[m.end() - 1: match_brace(src, m.end() - 1)])[1:-1]
    out = []
    for part in body.split(','):
        part = part.strip()
        if not part: continue
        part = re.sub(r'#\[[^\]]*\]\s*', '', part)
        vm = re.fullmatch(r'([A-Z][A-Za-z0-9]*)\s*\([A-Za-z0-9_<>\']+\)', part)
        if not vm: raise TranslateError("variant of %s outside subset: %r" % (name, part[:60]))
        out.append(vm.group(1))
    return out

def match_arms(body, scrut):
    """body of a fn whose tail is `match <scrut> { arms }` -> (prefix_text, [(variant, binders, expr_text)])"""
    b = strip_comments(body)
    m = re.search(r'match\s+' + re.escape(scrut) + r'\s*\{', b)
    if not m: raise TranslateError("`match %s` not found" % scrut)
    end = match_brace(b, m.end() - 1)
    if b[end:].strip() != '}': raise TranslateError("code after the match on %s: %r" % (scrut, b[end:end + 40]))
    inner = b[m.end():end - 1]
    arms = []
    # split at top-level commas
    d = 0; cur = ''
    parts = []
    for c in inner:
        if c in '({[': d += 1
        if c in ')}]': d -= 1
        if c == ',' and d == 0:
            parts.append(cur); cur = ''
        else:
            cur += c
    if cur.strip(): parts.append(cur)
    for p in parts:
        p = p.strip()
        if not p: continue
        am = re.fullmatch(r'EffectiveCapacity::([A-Za-z0-9]+)\s*(\{([^}]*)\})?\s*=>\s*(.*)', p, re.S)
        if not am: raise TranslateError("match arm outside subset: %r" % p[:80])
        binders = [x.strip() for x in (am.group(3) or '').split(',') if x.strip()]
        arms.append((am.group(1), binders, ' '.join(am.group(4).split())))
    return b[:m.start()], arms

def emit_match(L, em, variants, arms, scrut_lean, deref=False):
    seen = set()
    L.append('  match %s with' % scrut_lean)
    vd = dict(variants)
    for v, binders, expr in arms:
        if v not in vd: raise TranslateError("arm for unknown variant %s" % v)
        if v in seen: raise TranslateError("duplicate arm %s" % v)
        seen.add(v)
        pats = []
        for f in vd[v]:
            pats.append(f if f in binders else '_')
        rest = [x for x in binders if x != '..' and x not in vd[v]]
        if rest: raise TranslateError("arm %s binds unknown fields %s" % (v, rest))
        if not all(f in binders or '..' in binders for f in vd[v]): raise TranslateError("arm %s does not bind all fields and has no `..`" % v)
        L.append('  | .%s%s => %s' % (lc(v), ''.join(' ' + p for p in pats), em.e(parse_expr(expr))))
    missing = [v for v, _ in variants if v not in seen]
    if missing: raise TranslateError("match is missing variants %s (wildcard arms are outside the subset)" % missing)

def main(out_path):
    router = rd('lightning/src/routing/router.rs')
    gossip = rd('lightning/src/routing/gossip.rs')
    L = ['/- GENERATED by tools/gen_router.py from lightning/src/routing/router.rs and routing/gossip.rs — do not edit. -/',
         'import LdkModel.Prim.Arith', 'namespace Ldk.Router', 'open Ldk', '',
         '/-- Rust `u64::checked_shr(s: u32)`: `None` when the shift is not smaller than the bit width -/',
         'def chkShr64 (a s : Nat) : Option Nat := if s < 64 then some (a / 2 ^ s) else none', '']
    # constant used by as_msat
    m = re.search(r'pub const UNKNOWN_CHANNEL_CAPACITY_MSAT: u64 = ([0-9_ *]+);', gossip)
    if not m: raise TranslateError("UNKNOWN_CHANNEL_CAPACITY_MSAT not found")
    val = 1
    for f in m.group(1).split('*'): val *= int(f.strip().replace('_', ''))
    L.append('/-- routing/gossip.rs: `%s` -/' % m.group(0))
    L.append('def UNKNOWN_CHANNEL_CAPACITY_MSAT : Nat := %d' % val)
    L.append('')
    variants = enum_struct_variants(gossip, 'EffectiveCapacity')
    L.append('/-- mirrors routing/gossip.rs `enum EffectiveCapacity` (all fields msat) -/')
    L.append('inductive EffectiveCapacity where')
    for v, fs in variants:
        L.append('  | %s%s' % (lc(v), ''.join(' (%s : Nat)' % f for f in fs)))
    L.append('  deriving DecidableEq, Repr, Inhabited')
    L.append('')

    def deref_fields(binders):  # `*liquidity_msat` -> unary * is dropped by the parser already
        return binders

    # --- EffectiveCapacity::as_msat ---------------------------------------------------------------
    params, ret, body = find_fn(gossip, 'as_msat', after='impl EffectiveCapacity')
    if ' '.join(ret.split()) != '-> u64': raise TranslateError("as_msat return type changed: %r" % ret)
    pre, arms = match_arms(body, 'self')
    if pre.strip() != '{': raise TranslateError("as_msat has statements before the match")
    em = Emitter()
    L.append('/-- mirrors routing/gossip.rs EffectiveCapacity::as_msat (translated arm by arm) -/')
    L.append('def EffectiveCapacity.as_msat (self : EffectiveCapacity) : Nat :=')
    emit_match(L, em, variants, arms, 'self')
    L.append('')

    # --- compute_fees / compute_fees_saturating ---------------------------------------------------
    fee_fields = {'channel_fees.proportional_millionths': 'proportional_millionths', 'channel_fees.base_msat': 'base_msat'}
    for name, rty, lty in (('compute_fees', '-> Option<u64>', 'Option Nat'), ('compute_fees_saturating', '-> u64', 'Nat')):
        params, ret, body = find_fn(router, name)
        ps = parse_params(params)
        if ps != [('amount_msat', 'u64'), ('channel_fees', 'RoutingFees')]:
            raise TranslateError("%s signature changed: %s" % (name, ps))
        if ' '.join(ret.split()) != rty: raise TranslateError("%s return type changed: %r" % (name, ret))
        em = Emitter(fields=dict(fee_fields))
        L.append('/-- mirrors routing/router.rs::%s (translated): `%s` -/' % (name, ' '.join(strip_comments(body).split())))
        L.append('def %s (amount_msat base_msat proportional_millionths : Nat) : %s :=' % (name, lty))
        L.append('  ' + em.block(parse_block(body)))
        L.append('')

    # --- max_htlc_from_capacity --------------------------------------------------------------------
    params, ret, body = find_fn(router, 'max_htlc_from_capacity')
    ps = parse_params(params)
    if ps != [('capacity', 'EffectiveCapacity'), ('max_channel_saturation_power_of_half', 'u8')]:
        raise TranslateError("max_htlc_from_capacity signature changed: %s" % ps)
    if ' '.join(ret.split()) != '-> u64': raise TranslateError("max_htlc_from_capacity return type changed")
    pre, arms = match_arms(body, 'capacity')
    pm = re.fullmatch(r'\{\s*let saturation_shift: u32 = (.*?);\s*', pre, re.S)
    if not pm: raise TranslateError("max_htlc_from_capacity prefix changed: %r" % pre[:120])
    em = Emitter(methods={'checked_shr': lambda r, a: '(chkShr64 %s %s)' % (r, a[0]),
                          'as_msat': lambda r, a: '(EffectiveCapacity.as_msat %s)' % r},
                 env={'EffectiveCapacity::Unknown': 'EffectiveCapacity.unknown'})
    L.append('/-- mirrors routing/router.rs::max_htlc_from_capacity (translated arm by arm) -/')
    L.append('def max_htlc_from_capacity (capacity : EffectiveCapacity) (max_channel_saturation_power_of_half : Nat) : Nat :=')
    L.append('  let saturation_shift := ' + em.e(parse_expr(pm.group(1))) + ';')
    emit_match(L, em, variants, arms, 'capacity')
    L.append('')
    # --- update_value_and_recompute_fees: the amount a hop transfers (pins the KF-C16-1 repair) -------
    params, ret, body = find_fn(router, 'update_value_and_recompute_fees')
    b = strip_comments(body)
    ms = re.findall(r'let mut cur_hop_transferred_amount_msat\s*=\s*(.*?);', b, re.S)
    if len(ms) != 1: raise TranslateError("expected exactly one `let mut cur_hop_transferred_amount_msat = …;` in update_value_and_recompute_fees, found %d" % len(ms))
    expr = ' '.join(ms[0].split())
    names = set(re.findall(r'[A-Za-z_][A-Za-z0-9_]*', expr))
    allowed = {'total_fee_paid_msat', 'value_msat', 'extra_contribution_msat'}
    if not names <= allowed: raise TranslateError("cur_hop_transferred_amount_msat uses names outside %s: %s" % (sorted(allowed), sorted(names - allowed)))
    for decl in ('let mut extra_contribution_msat = 0;', 'let mut total_fee_paid_msat = 0 as u64;'):
        if decl not in b: raise TranslateError("update_value_and_recompute_fees: `%s` not found" % decl)
    em = Emitter()
    L.append('/-- mirrors the first statement about the amount in the loop of PaymentPath::update_value_and_recompute_fees')
    L.append('    (translated): `let mut cur_hop_transferred_amount_msat = %s;` -/' % expr)
    L.append('def cur_hop_transferred_amount_msat (total_fee_paid_msat value_msat extra_contribution_msat : Nat) : Nat :=')
    L.append('  ' + em.e(parse_expr(expr)))
    L.append('')
    # ---- get_route: the routing-fragmentation bound ------------------------------------------------------
    ms = re.findall(r'let minimal_value_contribution_msat: u64 = (if allow_mpp \{.*?\} else \{.*?\});', router, re.S)
    if len(ms) != 1: raise TranslateError("expected exactly one `let minimal_value_contribution_msat: u64 = if allow_mpp {…} else {…};` in get_route, found %d" % len(ms))
    expr = ' '.join(ms[0].split()).replace('payment_params.max_path_count as u64', 'max_path_count')
    names = set(re.findall(r'[A-Za-z_][A-Za-z0-9_]*', expr)) - {'if', 'else'}
    allowed = {'allow_mpp', 'final_value_msat', 'max_path_count', 'div_ceil', 'max', 'min', 'cmp'}
    if not names <= allowed: raise TranslateError("minimal_value_contribution_msat uses names outside %s: %s" % (sorted(allowed), sorted(names - allowed)))
    if not re.search(r'let contributes_sufficient_value = value_contribution_msat >= minimal_value_contribution_msat;', router):
        raise TranslateError("get_route: `contributes_sufficient_value = value_contribution_msat >= minimal_value_contribution_msat` not found")
    em = Emitter()
    em.methods['div_ceil'] = lambda recv, args: '((%s + %s - 1) / %s)' % (recv, args[0], args[0])
    L.append('/-- get_route (translated): `let minimal_value_contribution_msat: u64 = %s;` — a path is only collected when its')
    L.append('    value contribution is at least this (`contributes_sufficient_value`).  `div_ceil` is ⌈a / b⌉ (b > 0: max_path_count = 0')
    L.append('    is refused before). -/' )
    L[-3] = L[-3] % expr
    L.append('def minimal_value_contribution_msat (allow_mpp : Bool) (final_value_msat max_path_count : Nat) : Nat :=')
    L.append('  ' + em.e(parse_expr(expr)))
    L.append('')

    # ---- CandidateRouteHop: what each variant contributes to the search (C16 v2) -------------------------
    cand_variants = tuple_variants(router, 'CandidateRouteHop')
    want = ['FirstHop', 'PublicHop', 'PrivateHop', 'Blinded', 'OneHopBlinded']
    if cand_variants != want: raise TranslateError("enum CandidateRouteHop variants changed: %s (expected %s)" % (cand_variants, want))
    L.append('/-- mirrors the variants of routing/router.rs `enum CandidateRouteHop` (payloads dropped) -/')
    L.append('inductive CandidateKind where')
    for v in cand_variants: L.append('  | %s' % lc(v))
    L.append('  deriving DecidableEq, Repr, Inhabited')
    L.append('')
    impl = "impl<'a> CandidateRouteHop<'a>"
    if impl not in router: raise TranslateError("`%s` not found" % impl)

    def cand_table(fn, rty, srcmap):
        """arms of `match self` in CandidateRouteHop::<fn> -> {variant: tag}; every arm body must be one of the
        texts of `srcmap` (whitespace-normalised), anything else is outside the subset"""
        params, ret, body = find_fn(router, fn, after=impl)
        if ' '.join(params.split()) != '&self': raise TranslateError("CandidateRouteHop::%s signature changed: %r" % (fn, params))
        if ' '.join(ret.split()) != rty: raise TranslateError("CandidateRouteHop::%s return type changed: %r" % (fn, ret))
        b = strip_comments(body)
        m = re.search(r'match\s+self\s*\{', b)
        if not m or b[:m.start()].strip() != '{': raise TranslateError("CandidateRouteHop::%s is not a single `match self`" % fn)
        end = match_brace(b, m.end() - 1)
        if b[end:].strip() != '}': raise TranslateError("CandidateRouteHop::%s: code after the match" % fn)
        inner = b[m.end():end - 1]
        parts = []; d = 0; cur = ''
        i = 0
        while i < len(inner):
            c = inner[i]
            if c in '({[': d += 1
            if c in ')}]':
                d -= 1
                # an arm whose body is a `{ … }` block may end without a comma
                if c == '}' and d == 0 and '=>' in cur and cur.split('=>', 1)[1].strip().startswith('{'):
                    cur += c; parts.append(cur); cur = ''; i += 1
                    while i < len(inner) and inner[i] in ' \t\n,': i += 1
                    continue
            if c == ',' and d == 0:
                parts.append(cur); cur = ''
            else:
                cur += c
            i += 1
        if cur.strip(): parts.append(cur)
        out = {}
        for part in parts:
            part = ' '.join(part.split())
            if not part: continue
            am = re.fullmatch(r'CandidateRouteHop::([A-Za-z]+)\s*(\(.*?\)|\{ \.\. \})\s*=>\s*(.*)', part)
            if not am: raise TranslateError("CandidateRouteHop::%s: arm outside subset: %r" % (fn, part[:100]))
            v, pat, expr = am.group(1), am.group(2), am.group(3).strip().rstrip(',').strip()
            key = expr
            if fn == 'effective_capacity' and v == 'PrivateHop':
                pm = re.fullmatch(r'\(PrivateHopCandidate \{ hint: RouteHintHop \{ htlc_maximum_msat: (Some\(max\)|None), \.\. \}, \.\. \}\)', pat)
                if not pm: raise TranslateError("effective_capacity: PrivateHop pattern changed: %r" % pat)
                v = 'PrivateHop/' + ('some' if pm.group(1).startswith('Some') else 'none')
            elif not re.fullmatch(r'\((hop|_)\)|\{ \.\. \}', pat):
                raise TranslateError("CandidateRouteHop::%s: pattern outside subset: %r" % (fn, pat))
            if key not in srcmap: raise TranslateError("CandidateRouteHop::%s: arm %s has an unknown body %r" % (fn, v, key))
            if v in out: raise TranslateError("CandidateRouteHop::%s: duplicate arm %s" % (fn, v))
            out[v] = srcmap[key]
        return out

    def need(tab, fn, vs):
        miss = [v for v in vs if v not in tab]
        if miss or len(tab) != len(vs): raise TranslateError("CandidateRouteHop::%s: arms %s, expected %s" % (fn, sorted(tab), vs))

    # effective_capacity
    tab = cand_table('effective_capacity', '-> EffectiveCapacity', {
        'EffectiveCapacity::ExactLiquidity { liquidity_msat: hop.details.next_outbound_htlc_limit_msat, }': '.exactLiquidity htlc_maximum_msat',
        'hop.info.effective_capacity()': 'info_capacity',
        'EffectiveCapacity::HintMaxHTLC { amount_msat: *max }': '.hintMaxHTLC htlc_maximum_msat',
        'EffectiveCapacity::Infinite': '.infinite',
        'EffectiveCapacity::HintMaxHTLC { amount_msat: hop.hint.payinfo.htlc_maximum_msat }': '.hintMaxHTLC htlc_maximum_msat',
    })
    need(tab, 'effective_capacity', ['FirstHop', 'PublicHop', 'PrivateHop/some', 'PrivateHop/none', 'Blinded', 'OneHopBlinded'])
    L.append('/-- mirrors router.rs CandidateRouteHop::effective_capacity (translated arm by arm). `htlc_maximum_msat` is')
    L.append('    next_outbound_htlc_limit_msat (FirstHop) / the hint\'s htlc_maximum_msat, absent iff `no_maximum` (PrivateHop) /')
    L.append('    payinfo.htlc_maximum_msat (Blinded); `info_capacity` is DirectedChannelInfo::effective_capacity (PublicHop) -/')
    L.append('def candidate_capacity (k : CandidateKind) (info_capacity : EffectiveCapacity) (htlc_maximum_msat : Nat) (no_maximum : Bool) : EffectiveCapacity :=')
    L.append('  match k with')
    for v in cand_variants:
        if v == 'PrivateHop':
            L.append('  | .privateHop => if no_maximum then %s else %s' % (tab['PrivateHop/none'], tab['PrivateHop/some']))
        else:
            L.append('  | .%s => %s' % (lc(v), tab[v]))
    L.append('')
    # fees
    zero_fees = ['RoutingFees { base_msat: 0, proportional_millionths: 0, }', 'RoutingFees { base_msat: 0, proportional_millionths: 0 }']
    srcmap = {z: '(0, 0)' for z in zero_fees}
    srcmap.update({'hop.info.direction().fees': '(base_msat, proportional_millionths)', 'hop.hint.fees': '(base_msat, proportional_millionths)',
                   '{ RoutingFees { base_msat: hop.hint.payinfo.fee_base_msat, proportional_millionths: hop.hint.payinfo.fee_proportional_millionths } }': '(base_msat, proportional_millionths)'})
    tab = cand_table('fees', '-> RoutingFees', srcmap)
    need(tab, 'fees', cand_variants)
    L.append('/-- mirrors router.rs CandidateRouteHop::fees (translated arm by arm): (base_msat, proportional_millionths) of the policy /')
    L.append('    hint / BlindedPayInfo, or zero -/')
    L.append('def candidate_fees (k : CandidateKind) (base_msat proportional_millionths : Nat) : Nat × Nat :=')
    L.append('  match k with')
    for v in cand_variants: L.append('  | .%s => %s' % (lc(v), tab[v]))
    L.append('')
    # cltv_expiry_delta
    tab = cand_table('cltv_expiry_delta', '-> u32', {'0': '0', 'hop.info.direction().cltv_expiry_delta as u32': 'cltv_expiry_delta',
        'hop.hint.cltv_expiry_delta as u32': 'cltv_expiry_delta', 'hop.hint.payinfo.cltv_expiry_delta as u32': 'cltv_expiry_delta'})
    need(tab, 'cltv_expiry_delta', cand_variants)
    L.append('/-- mirrors router.rs CandidateRouteHop::cltv_expiry_delta (translated arm by arm) -/')
    L.append('def candidate_cltv_expiry_delta (k : CandidateKind) (cltv_expiry_delta : Nat) : Nat :=')
    L.append('  match k with')
    for v in cand_variants: L.append('  | .%s => %s' % (lc(v), tab[v]))
    L.append('')
    # htlc_minimum_msat
    tab = cand_table('htlc_minimum_msat', '-> u64', {'0': '0', 'hop.details.next_outbound_htlc_minimum_msat': 'htlc_minimum_msat',
        'hop.info.direction().htlc_minimum_msat': 'htlc_minimum_msat', 'hop.hint.htlc_minimum_msat.unwrap_or(0)': 'htlc_minimum_msat',
        'hop.hint.payinfo.htlc_minimum_msat': 'htlc_minimum_msat'})
    need(tab, 'htlc_minimum_msat', cand_variants)
    L.append('/-- mirrors router.rs CandidateRouteHop::htlc_minimum_msat (translated arm by arm; an absent hint minimum is 0) -/')
    L.append('def candidate_htlc_minimum_msat (k : CandidateKind) (htlc_minimum_msat : Nat) : Nat :=')
    L.append('  match k with')
    for v in cand_variants: L.append('  | .%s => %s' % (lc(v), tab[v]))
    L.append('')
    # short_channel_id: which variants are RouteHops (the others become the BlindedTail)
    tab = cand_table('short_channel_id', '-> Option<u64>', {'hop.details.get_outbound_payment_scid()': 'true', 'Some(hop.short_channel_id)': 'true',
        'Some(hop.hint.short_channel_id)': 'true', 'None': 'false'})
    need(tab, 'short_channel_id', cand_variants)
    if not re.search(r'\.filter\(\|\(h, _\)\| h\.candidate\.short_channel_id\(\)\.is_some\(\)\)', router):
        raise TranslateError("get_route: `.filter(|(h, _)| h.candidate.short_channel_id().is_some())` (RouteHops = candidates with an scid) not found")
    L.append('/-- router.rs CandidateRouteHop::short_channel_id is `Some` (translated arm by arm): exactly these candidates become')
    L.append('    `RouteHop`s of a returned path (get_route filters on it); the others end the path as its `BlindedTail` -/')
    L.append('def candidate_has_scid (k : CandidateKind) : Bool :=')
    L.append('  match k with')
    for v in cand_variants: L.append('  | .%s => %s' % (lc(v), tab[v]))
    L.append('')
    # ChannelDetails::get_outbound_payment_scid
    chst = rd('lightning/src/ln/channel_state.rs')
    params, ret, body = find_fn(chst, 'get_outbound_payment_scid')
    if ' '.join(strip_comments(body).split()) != '{ self.outbound_scid_alias.or(self.short_channel_id) }':
        raise TranslateError("ChannelDetails::get_outbound_payment_scid body changed: %r" % ' '.join(strip_comments(body).split()))
    L.append('/-- mirrors ln/channel_state.rs ChannelDetails::get_outbound_payment_scid (translated): `self.outbound_scid_alias.or(self.short_channel_id)` -/')
    L.append('def get_outbound_payment_scid (outbound_scid_alias short_channel_id : Option Nat) : Option Nat :=')
    L.append('  outbound_scid_alias.or short_channel_id')
    L.append('')
    # get_route step (1): a hint hop naming a direct channel of ours
    ms = re.findall(r'let matches_an_scid = \|d: &&ChannelDetails\|\s*(.*?);', router, re.S)
    if len(ms) != 1: raise TranslateError("get_route: expected exactly one `let matches_an_scid = |d: &&ChannelDetails| …;`, found %d" % len(ms))
    expr = ' '.join(ms[0].split())
    em = Emitter(fields={'d.outbound_scid_alias': 'outbound_scid_alias', 'd.short_channel_id': 'short_channel_id', 'hop.short_channel_id': 'hint_scid'})
    em.methods['get_outbound_payment_scid'] = lambda recv, args: '(get_outbound_payment_scid outbound_scid_alias short_channel_id)'
    try:
        body_lean = em.e(parse_expr(expr))
    except Exception as ex:
        raise TranslateError("matches_an_scid outside subset (%s): %r" % (ex, expr))
    if not re.search(r'if first_channels\.iter\(\)\.any\(matches_an_scid\) \{', router):
        raise TranslateError("get_route: `if first_channels.iter().any(matches_an_scid) {` not found")
    L.append('/-- get_route step (1) (translated): `let matches_an_scid = |d: &&ChannelDetails| %s;` — a route-hint hop whose' % expr)
    L.append('    target is a first-hop peer and which names one of our channels to it is ignored (the FirstHop candidate is used) -/')
    L.append('def matches_an_scid (outbound_scid_alias short_channel_id : Option Nat) (hint_scid : Nat) : Bool :=')
    L.append('  decide (%s)' % body_lean)
    L.append('')
    # get_route: public channels of the payer are skipped when first_hops was supplied
    if not re.search(r'if first_hops\.is_none\(\) \|\| \*source != our_node_id \{', router):
        raise TranslateError("get_route: `if first_hops.is_none() || *source != our_node_id {` not found")
    L.append('/-- get_route (translated): `if first_hops.is_none() || *source != our_node_id {` guards the PublicHop candidates -/')
    L.append('def public_candidate_considered (first_hops_is_none source_is_our_node : Bool) : Bool :=')
    L.append('  first_hops_is_none || !source_is_our_node')
    L.append('')
    # PaymentPath::max_final_value_msat: the contribution bound of one hop
    params, ret, body = find_fn(router, 'max_final_value_msat')
    b = strip_comments(body)
    ms = re.findall(r'let hop_max_final_value_contribution = (.*?);', b, re.S)
    if len(ms) != 1: raise TranslateError("max_final_value_msat: expected one `let hop_max_final_value_contribution = …;`, found %d" % len(ms))
    expr = ' '.join(ms[0].split())
    want = ('(hop_max_msat as u128) .checked_sub(next_hops_aggregated_base as u128) .and_then(|f| f.checked_mul(1_000_000)) '
            '.and_then(|f| f.checked_add(next_hops_aggregated_prop as u128)) .map(|f| f / ((next_hops_aggregated_prop as u128).saturating_add(1_000_000)))')
    if expr != want: raise TranslateError("max_final_value_msat: hop_max_final_value_contribution changed: %r" % expr)
    ms2 = re.findall(r'let hop_max_msat = max_htlc_from_capacity\(\s*hop_effective_capacity_msat, channel_saturation_pow_half\s*\)\.saturating_sub\(\*used_liquidities\.get\(&hop\.candidate\.id\(\)\)\.unwrap_or\(&0_u64\)\);', b)
    if len(ms2) != 1: raise TranslateError("max_final_value_msat: `let hop_max_msat = max_htlc_from_capacity(…).saturating_sub(used liquidity)` changed")
    L.append('/-- PaymentPath::max_final_value_msat (translated, u128 arithmetic: the three checked steps cannot overflow for u64')
    L.append('    inputs except the subtraction): `let hop_max_final_value_contribution = %s;` -/' % expr)
    L.append('def hop_max_final_value_contribution (hop_max_msat next_hops_aggregated_base next_hops_aggregated_prop : Nat) : Option Nat :=')
    L.append('  if next_hops_aggregated_base ≤ hop_max_msat then')
    L.append('    some (((hop_max_msat - next_hops_aggregated_base) * 1000000 + next_hops_aggregated_prop) / (next_hops_aggregated_prop + 1000000))')
    L.append('  else none')
    L.append('')
    L.append('/-- PaymentPath::max_final_value_msat (translated): `hop_max_msat = max_htlc_from_capacity(effective_capacity, pow).saturating_sub(used)` -/')
    L.append('def hop_max_msat (capacity : EffectiveCapacity) (channel_saturation_pow_half used_liquidity_msat : Nat) : Nat :=')
    L.append('  max_htlc_from_capacity capacity channel_saturation_pow_half - used_liquidity_msat')
    L.append('')

    # ---- blinded_path/payment.rs compute_aggregated_base_prop_fee (used by PaymentPath::max_final_value_msat) -----
    pay = rd('lightning/src/blinded_path/payment.rs')
    params, ret, body = find_fn(pay, 'compute_aggregated_base_prop_fee')
    b = strip_comments(body)
    shape = ' '.join(re.sub(r'curr_base_fee = curr_base_fee.*?\.ok_or\(\(\)\)\?;', 'BASE;', re.sub(r'curr_prop_mil = curr_prop_mil.*?\.ok_or\(\(\)\)\?;', 'PROP;', b, flags=re.S), flags=re.S).split())
    want_shape = ('{ let mut curr_base_fee: u64 = 0; let mut curr_prop_mil: u64 = 0; for fees in hops_fees.rev() { let next_base_fee = fees.base_msat as u64; '
                  'let next_prop_mil = fees.proportional_millionths as u64; BASE; PROP; } Ok((curr_base_fee, curr_prop_mil)) }')
    if shape != want_shape: raise TranslateError("compute_aggregated_base_prop_fee: loop shape changed: %r" % shape)
    m1 = re.findall(r'curr_base_fee = (curr_base_fee.*?)\.ok_or\(\(\)\)\?;', b, re.S)
    m2 = re.findall(r'curr_prop_mil = (curr_prop_mil.*?)\.ok_or\(\(\)\)\?;', b, re.S)
    if len(m1) != 1 or len(m2) != 1: raise TranslateError("compute_aggregated_base_prop_fee: the two update statements were not found")
    e1, e2 = ' '.join(m1[0].split()), ' '.join(m2[0].split())
    for e, allowed in ((e1, {'curr_base_fee', 'next_prop_mil', 'next_base_fee'}), (e2, {'curr_prop_mil', 'next_prop_mil'})):
        names = set(re.findall(r'[A-Za-z_][A-Za-z0-9_]*', e)) - {'checked_mul', 'checked_add', 'checked_sub', 'and_then', 'map', 'f', 'f1', 'f2', '_000_000', '_000'}
        names = {n for n in names if not re.fullmatch(r'_?\d[\d_]*', n)}
        if not names <= allowed: raise TranslateError("compute_aggregated_base_prop_fee: names outside %s: %s" % (sorted(allowed), sorted(names - allowed)))
    em = Emitter()
    L.append('/-- blinded_path/payment.rs compute_aggregated_base_prop_fee, loop body (translated): `curr_base_fee = %s.ok_or(())?;` -/' % e1)
    L.append('def agg_base_step (curr_base_fee next_base_fee next_prop_mil : Nat) : Option Nat :=')
    L.append('  ' + em.e(parse_expr(e1)))
    L.append('')
    L.append('/-- … (translated): `curr_prop_mil = %s.ok_or(())?;` -/' % e2)
    L.append('def agg_prop_step (curr_prop_mil next_prop_mil : Nat) : Option Nat :=')
    L.append('  ' + em.e(parse_expr(e2)))
    L.append('')
    # max_final_value_msat: the surrounding loop is pinned
    params, ret, body = find_fn(router, 'max_final_value_msat')
    b = ' '.join(strip_comments(body).split())
    for frag in ('let mut max_path_contribution = (0, u64::MAX);', 'for (idx, (hop, _)) in self.hops.iter().enumerate() {',
                 '.skip(idx + 1) .map(|(hop, _)| hop.candidate.fees());', '.map_err(|_| idx + 1)?;',
                 'let hop_contribution: u64 = hop_contribution.try_into().unwrap_or(u64::MAX); if hop_contribution <= max_path_contribution.1 { max_path_contribution = (idx, hop_contribution); } } else { debug_assert!(false); }',
                 'Ok(max_path_contribution)'):
        if frag not in b: raise TranslateError("max_final_value_msat: `%s` not found" % frag)
    # get_route: the CLTV budget of the search
    ms = re.findall(r'let max_total_cltv_expiry_delta: u16 =\s*(.*?);', router, re.S)
    if len(ms) != 1: raise TranslateError("get_route: expected one `let max_total_cltv_expiry_delta: u16 = …;`, found %d" % len(ms))
    expr = ' '.join(ms[0].split())
    want = ('(payment_params.max_total_cltv_expiry_delta - final_cltv_expiry_delta) .checked_sub(2*MEDIAN_HOP_CLTV_EXPIRY_DELTA) '
            '.unwrap_or(payment_params.max_total_cltv_expiry_delta - final_cltv_expiry_delta) .try_into() .unwrap_or(u16::MAX)')
    if expr != want: raise TranslateError("get_route: max_total_cltv_expiry_delta budget changed: %r" % expr)
    m = re.search(r'const MEDIAN_HOP_CLTV_EXPIRY_DELTA: u32 = (\d+);', router)
    if not m: raise TranslateError("MEDIAN_HOP_CLTV_EXPIRY_DELTA not found")
    if not re.search(r'if payment_params\.max_total_cltv_expiry_delta <= final_cltv_expiry_delta \{\s*return Err\(', router):
        raise TranslateError("get_route: `if payment_params.max_total_cltv_expiry_delta <= final_cltv_expiry_delta { return Err(` not found")
    if not re.search(r'let exceeds_cltv_delta_limit = hop_total_cltv_delta > max_total_cltv_expiry_delta as u32;', router):
        raise TranslateError("get_route: `exceeds_cltv_delta_limit = hop_total_cltv_delta > max_total_cltv_expiry_delta as u32` not found")
    L.append('def MEDIAN_HOP_CLTV_EXPIRY_DELTA : Nat := %s' % m.group(1))
    L.append('/-- get_route (translated): the CLTV budget of the hops BEFORE the final one: `let max_total_cltv_expiry_delta: u16 = %s;`' % expr)
    L.append('    (get_route returns Err before when max_total_cltv_expiry_delta <= final_cltv_expiry_delta) -/')
    L.append('def search_cltv_budget (max_total_cltv_expiry_delta final_cltv_expiry_delta : Nat) : Nat :=')
    L.append('  let room := max_total_cltv_expiry_delta - final_cltv_expiry_delta;')
    L.append('  Nat.min (if 2 * MEDIAN_HOP_CLTV_EXPIRY_DELTA ≤ room then room - 2 * MEDIAN_HOP_CLTV_EXPIRY_DELTA else room) 65535')
    L.append('')
    # add_entry!: htlc-minimum propagation
    ms = re.findall(r'let path_htlc_minimum_msat = (compute_fees_saturating\(curr_min, candidate_fees\)\s*\.saturating_add\(curr_min\));', router)
    if len(ms) != 1: raise TranslateError("add_entry!: `let path_htlc_minimum_msat = compute_fees_saturating(curr_min, candidate_fees).saturating_add(curr_min);` not found")
    if not re.search(r'let curr_min = cmp::max\(\s*\$next_hops_path_htlc_minimum_msat, htlc_minimum_msat\s*\);', router):
        raise TranslateError("add_entry!: `let curr_min = cmp::max($next_hops_path_htlc_minimum_msat, htlc_minimum_msat);` not found")
    L.append('/-- add_entry! (translated): `let curr_min = cmp::max($next_hops_path_htlc_minimum_msat, htlc_minimum_msat);`')
    L.append('    `let path_htlc_minimum_msat = compute_fees_saturating(curr_min, candidate_fees).saturating_add(curr_min);` -/')
    L.append('def path_htlc_minimum_msat (next_hops_path_htlc_minimum_msat htlc_minimum_msat base_msat proportional_millionths : Nat) : Nat :=')
    L.append('  let curr_min := Nat.max next_hops_path_htlc_minimum_msat htlc_minimum_msat;')
    L.append('  satAdd64 (compute_fees_saturating curr_min base_msat proportional_millionths) curr_min')
    L.append('')
    L.append('end Ldk.Router')
    text = '\n'.join(L) + '\n'
    old = open(out_path).read() if os.path.exists(out_path) else None
    if old != text:
        open(out_path, 'w').write(text)

if __name__ == '__main__':
    try:
        main(sys.argv[1] if len(sys.argv) > 1 else os.path.join(os.path.dirname(__file__), '..', 'lean', 'LdkModel', 'Generated', 'RouterFees.lean'))
    except TranslateError as ex:
        print("TRANSLATE-ERROR gen_router: %s" % ex)
        sys.exit(2)
