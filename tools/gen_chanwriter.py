#!/usr/bin/env python3
"""Regenerate lean/LdkModel/Generated/ChanWriter.lean from /repo's channel.rs: WHAT `impl Writeable for FundedChannel`
drops / rewinds / rewrites of the updates the PEER announced but never committed, and how `ReadableArgs` restores the
state of `pending_update_fee` (C01, seeded change C01-r5).

A persisted channel is read back with the peer disconnected, so the writer has to produce the state that
`remove_uncommitted_htlcs_and_mark_paused` produces in memory:
  * inbound HTLCs in state RemoteAnnounced are not written, the written count and `next_counterparty_htlc_id` are reduced
    by the number dropped;
  * an outbound HTLC in state RemoteRemoved is written with the tag of Committed;
  * `pending_update_fee`: the funder writes its (Outbound) update, the fundee writes it only in state
    AwaitingRemoteRevokeToAnnounce (a RemoteAnnounced update is dropped); the reader maps a written feerate to Outbound on
    the funder and AwaitingRemoteRevokeToAnnounce on the fundee;
  * the holding cell (`holding_cell_update_fee`, `holding_cell_htlc_updates`) is written as it is.
Each decision is extracted from the source text (per-arm / per-branch), not pinned as a whole: a changed arm yields a
DIFFERENT generated table (and `written_forgets_uncommitted` of Props/C01Persist.lean stops checking); an unknown shape is a
TRANSLATE-ERROR."""
import re, sys, os
sys.path.insert(0, os.path.dirname(__file__))
from rs2lean import TranslateError, strip_comments
REPO = os.environ.get('VERIF_REPO', '/repo')

IN_STATES = ['RemoteAnnounced', 'AwaitingRemoteRevokeToAnnounce', 'AwaitingAnnouncedRemoteRevoke', 'Committed', 'LocalRemoved']
IN_LEAN = {'RemoteAnnounced': '.remoteAnnounced', 'AwaitingRemoteRevokeToAnnounce': '.awaitingRemoteRevokeToAnnounce',
           'AwaitingAnnouncedRemoteRevoke': '.awaitingAnnouncedRemoteRevoke', 'Committed': '.committed', 'LocalRemoved': '.localRemoved _'}
OUT_STATES = ['LocalAnnounced', 'Committed', 'RemoteRemoved', 'AwaitingRemoteRevokeToRemove', 'AwaitingRemovedRemoteRevoke']
FEE_STATES = ['RemoteAnnounced', 'AwaitingRemoteRevokeToAnnounce', 'Outbound']

def block_at(src, i):
    """the {...} block starting at the first '{' at or after i"""
    i = src.index('{', i)
    d, j = 0, i
    while True:
        if src[j] == '{': d += 1
        elif src[j] == '}':
            d -= 1
            if d == 0: return src[i:j + 1], j + 1
        j += 1

def tag_arms(block, enum):
    """`match <u8>::read { <tag> => <expr building enum::State>, ... }`: tag -> the one State its arm constructs (arms found at nesting depth 1)"""
    res, d, i, cur = {}, 0, 0, None
    while i < len(block):
        c = block[i]
        if c in '{(': d += 1
        elif c in '})': d -= 1
        elif d == 1:
            m = re.match(r'(\d+) => ', block[i:])
            if m and (i == 0 or not (block[i - 1].isalnum() or block[i - 1] == '_')): cur = int(m.group(1)); i += len(m.group(0)); continue
            if block.startswith('_ => ', i): cur = None
        m = re.match(enum + r'::(\w+)', block[i:])
        if m and cur is not None:
            if res.get(cur, m.group(1)) != m.group(1): raise TranslateError('reader: tag %d builds two different %s states' % (cur, enum))
            res[cur] = m.group(1); i += len(m.group(0)); continue
        i += 1
    return res

def main(out):
    src = strip_comments(open(os.path.join(REPO, 'lightning/src/ln/channel.rs')).read())
    m = re.search(r'impl<SP: SignerProvider> Writeable for FundedChannel<SP>', src)
    if not m: raise TranslateError('impl Writeable for FundedChannel not found')
    w, _ = block_at(src, m.end())
    w1 = ' '.join(w.split())

    # ---- inbound HTLCs: the counting loop, the written count, the writing loop with its `continue` arms -----------------
    cnt = re.findall(r'let mut dropped_inbound_htlcs = 0; for htlc in self\.context\.pending_inbound_htlcs\.iter\(\) \{ if let ((?:&?InboundHTLCState::\w+(?:\(_\)| \{ \.\. \})?\s*\|?\s*)+) = &?htlc\.state \{ dropped_inbound_htlcs \+= 1; \} \}', w1)
    if len(cnt) != 1: raise TranslateError('writer: the loop counting dropped inbound HTLCs changed shape')
    counted = set(re.findall(r'InboundHTLCState::(\w+)', cnt[0]))
    if not re.search(r'\(self\.context\.pending_inbound_htlcs\.len\(\) as u64 - dropped_inbound_htlcs\)\.write\(writer\)\?;', w1):
        raise TranslateError('writer: written inbound HTLC count is no longer `len - dropped_inbound_htlcs`')
    lp = re.search(r'for htlc in self\.context\.pending_inbound_htlcs\.iter\(\) \{ (if let [^{}]*\{ continue; \} )?htlc\.htlc_id\.write\(writer\)\?;', w1)
    if not lp: raise TranslateError('writer: the loop writing inbound HTLCs changed shape')
    skipped = set(re.findall(r'InboundHTLCState::(\w+)', lp.group(1) or ''))
    # the tags of the arms that do get written (RemoteAnnounced must be `unreachable!()` there iff it is skipped)
    body, _ = block_at(w1, lp.start())
    in_tag = {}
    for st in IN_STATES:
        a = re.search(r'&InboundHTLCState::%s\b[^=]*=> (unreachable!\(\)|\{ (\d+)u8\.write\(writer\)\?;)' % st, body)
        if not a: raise TranslateError('writer: no arm for InboundHTLCState::%s' % st)
        in_tag[st] = None if a.group(1).startswith('unreachable') else int(a.group(2))
    for st in IN_STATES:
        if (st in skipped) != (in_tag[st] is None): raise TranslateError('writer: InboundHTLCState::%s is %s but its arm %s' % (st, 'skipped' if st in skipped else 'written', 'writes a tag' if in_tag[st] is not None else 'is unreachable'))
    if not set(counted) <= set(IN_STATES) or not skipped <= set(IN_STATES): raise TranslateError('writer: unknown InboundHTLCState in the drop decision')
    # reader: tag -> state
    src1 = ' '.join(src.split())
    rstart = re.search(r'ReadableArgs<[^{]*for FundedChannel<SP>', src1)
    if not rstart: raise TranslateError('impl ReadableArgs for FundedChannel not found')
    rdr = block_at(src1, rstart.end())[0]
    sm = [m.end() - 1 for m in re.finditer(r'state: match <u8 as Readable>::read\(reader\)\? \{', rdr)]
    if len(sm) != 2: raise TranslateError('reader: expected exactly two `state: match <u8 as Readable>::read(reader)?` (inbound, outbound), found %d' % len(sm))
    in_read = tag_arms(block_at(rdr, sm[0])[0], 'InboundHTLCState')
    if not in_read: raise TranslateError('reader: inbound HTLC state match not found')
    for st in IN_STATES:
        if in_tag[st] is not None and in_read.get(in_tag[st]) != st: raise TranslateError('reader/writer: inbound tag %s of %s is read back as %s' % (in_tag[st], st, in_read.get(in_tag[st])))

    # ---- outbound HTLCs: tag per state; which state the reader gives the tag ---------------------------------------------
    om = re.search(r'for htlc in self\.context\.pending_outbound_htlcs\.iter\(\) \{', w1)
    if not om: raise TranslateError('writer: outbound HTLC loop not found')
    obody, _ = block_at(w1, om.start())
    out_tag = {}
    for st in OUT_STATES:
        a = re.search(r'&OutboundHTLCState::%s\b[^=]*=> \{ (\d+)u8\.write\(writer\)\?;' % st, obody)
        if not a: raise TranslateError('writer: no tag-writing arm for OutboundHTLCState::%s' % st)
        out_tag[st] = int(a.group(1))
    out_read = tag_arms(block_at(rdr, sm[1])[0], 'OutboundHTLCState')
    if not out_read: raise TranslateError('reader: outbound HTLC state match not found')
    out_as = {}
    for st in OUT_STATES:
        if out_tag[st] not in out_read: raise TranslateError('reader: outbound tag %d (written for %s) is not read' % (out_tag[st], st))
        out_as[st] = out_read[out_tag[st]]

    # ---- pending_update_fee: writer branches ---------------------------------------------------------------------------
    fee_written = {}   # (is_outbound, state) -> bool
    three = re.search(r'if self\.funding\.is_outbound\(\) \{ self\.context\.pending_update_fee\.map\(\|\((\w+), _\)\| \1\)\.write\(writer\)\?; \} '
                      r'else if let Some\(\((\w+), ((?:FeeUpdateState::\w+\s*\|?\s*)+)\)\) = self\.context\.pending_update_fee \{ Some\(\2\)\.write\(writer\)\?; \} '
                      r'else \{ None::<u32>\.write\(writer\)\?; \}', w1)
    plain = re.search(r'self\.context\.pending_update_fee\.map\(\|\((\w+), _\)\| \1\)\.write\(writer\)\?; self\.context\.holding_cell_update_fee\.write\(writer\)\?;', w1)
    if three:
        kept = set(re.findall(r'FeeUpdateState::(\w+)', three.group(3)))
        if not kept <= set(FEE_STATES): raise TranslateError('writer: unknown FeeUpdateState in the pending_update_fee branch')
        for st in FEE_STATES:
            fee_written[(True, st)] = True
            fee_written[(False, st)] = st in kept
        shape = 'funder: always; fundee: only in state ' + ' | '.join(sorted(kept))
    elif plain and w1.count('self.context.pending_update_fee') == 1:
        for st in FEE_STATES: fee_written[(True, st)] = fee_written[(False, st)] = True
        shape = 'always (the state is not looked at)'
    else:
        raise TranslateError('writer: the serialisation of pending_update_fee changed shape')
    if not re.search(r'\.write\(writer\)\?; \}? ?self\.context\.holding_cell_update_fee\.write\(writer\)\?;', w1): raise TranslateError('writer: holding_cell_update_fee is no longer written right after pending_update_fee')
    # reader: written feerate -> state by funding side
    rf = re.search(r'let pending_update_fee = if let Some\(feerate\) = pending_update_fee_value \{ Some\(\( feerate, if channel_parameters\.is_outbound_from_holder \{ FeeUpdateState::(\w+) \} else \{ FeeUpdateState::(\w+) \}, \)\) \} else \{ None \};', ' '.join(src.split()))
    if not rf: raise TranslateError('reader: reconstruction of pending_update_fee changed shape')
    if rf.group(1) not in FEE_STATES or rf.group(2) not in FEE_STATES: raise TranslateError('reader: unknown FeeUpdateState')

    # ---- next_counterparty_htlc_id rewind, holding cell written unfiltered -------------------------------------------------
    rw = re.search(r'\(self\.context\.next_counterparty_htlc_id( - dropped_inbound_htlcs)?\)\.write\(writer\)\?;|self\.context\.next_counterparty_htlc_id\.write\(writer\)\?;', w1)
    if not rw: raise TranslateError('writer: next_counterparty_htlc_id write not found')
    rewinds = bool(rw.group(1))
    if not (re.search(r'let holding_cell_htlc_update_count = self\.context\.holding_cell_htlc_updates\.len\(\);', w1) and re.search(r'\(holding_cell_htlc_update_count as u64\)\.write\(writer\)\?; for update in self\.context\.holding_cell_htlc_updates\.iter\(\) \{ match update \{', w1)):
        raise TranslateError('writer: holding_cell_htlc_updates is no longer written in full')
    if not re.search(r'channel_state\.set_peer_disconnected\(\); channel_state\.to_u32\(\)\.write\(writer\)\?;', w1): raise TranslateError('writer: the written channel_state no longer has peer_disconnected set')

    b = lambda x: 'true' if x else 'false'
    fcode = {s: i for i, s in enumerate(FEE_STATES)}
    olean = {'LocalAnnounced': '.localAnnounced', 'Committed': '.committed', 'RemoteRemoved': '.remoteRemoved', 'AwaitingRemoteRevokeToRemove': '.awaitingRemoteRevokeToRemove', 'AwaitingRemovedRemoteRevoke': '.awaitingRemovedRemoteRevoke'}
    L = ['/- GENERATED by tools/gen_chanwriter.py from lightning/src/ln/channel.rs (impl Writeable for FundedChannel / ReadableArgs) — do not edit. -/',
         'import LdkModel.Generated.HtlcTables', 'namespace Ldk.Chan.Writer', 'open Ldk.Chan', '',
         '/-- is an inbound HTLC in this state written? (the `continue; // Drop` arm of the writing loop) -/',
         'def inWritten : InState → Bool']
    for st in IN_STATES: L.append('  | %s => %s' % (IN_LEAN[st], b(st not in skipped)))
    L += ['', '/-- is an inbound HTLC in this state counted in `dropped_inbound_htlcs` (subtracted from the written length and from `next_counterparty_htlc_id`)? -/',
          'def inCountedAsDropped : InState → Bool']
    for st in IN_STATES: L.append('  | %s => %s' % (IN_LEAN[st], b(st in counted)))
    L += ['', '/-- the state an outbound HTLC comes back in (writer tag, then the reader\'s arm for that tag); removal outcomes are kept -/',
          'def outReadBack : OutState → OutState']
    for st in OUT_STATES:
        tgt = out_as[st]
        if st == 'LocalAnnounced': L.append('  | .localAnnounced => %s' % (olean[tgt] if tgt in ('LocalAnnounced', 'Committed') else olean[tgt] + ' false'))
        elif st == 'Committed': L.append('  | .committed => %s' % (olean[tgt] if tgt in ('LocalAnnounced', 'Committed') else olean[tgt] + ' false'))
        else: L.append('  | %s ok => %s' % (olean[st], olean[tgt] if tgt in ('LocalAnnounced', 'Committed') else olean[tgt] + ' ok'))
    L += ['', '/- FeeUpdateState codes used below: %s -/' % ', '.join('%d = %s' % (i, s) for s, i in fcode.items()),
          '/-- is `pending_update_fee` (in state `st`) written? Source shape: %s -/' % shape,
          'def feeWritten (is_outbound : Bool) (st : Nat) : Bool :=', '  match is_outbound, st with']
    for io in (True, False):
        for st in FEE_STATES: L.append('  | %s, %d => %s' % (b(io), fcode[st], b(fee_written[(io, st)])))
    L += ['  | _, _ => false', '',
          '/-- the state the reader gives a written feerate: `if channel_parameters.is_outbound_from_holder { %s } else { %s }` -/' % (rf.group(1), rf.group(2)),
          'def feeReadState (is_outbound : Bool) : Nat := if is_outbound then %d else %d' % (fcode[rf.group(1)], fcode[rf.group(2)]), '',
          '/-- `(self.context.next_counterparty_htlc_id%s).write(writer)` -/' % (' - dropped_inbound_htlcs' if rewinds else ''),
          'def nextCounterpartyHtlcIdWritten (next dropped : Nat) : Nat := %s' % ('next - dropped' if rewinds else 'next'), '',
          'end Ldk.Chan.Writer', '']
    text = '\n'.join(L)
    if not os.path.exists(out) or open(out).read() != text: open(out, 'w').write(text)

if __name__ == '__main__':
    out = sys.argv[1] if len(sys.argv) > 1 else os.path.join(os.path.dirname(__file__), '..', 'lean', 'LdkModel', 'Generated', 'ChanWriter.lean')
    try: main(out)
    except TranslateError as e:
        print('TRANSLATE-ERROR gen_chanwriter.py: %s' % e); sys.exit(2)
