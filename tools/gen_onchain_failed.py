#!/usr/bin/env python3
"""Regenerate lean/LdkModel/Generated/OnchainFailed.lean (C03): the decisions of
`ChannelMonitor::get_onchain_failed_outbound_htlcs` (lightning/src/chain/channelmonitor.rs) — the restart
reconstruction that tells `ChannelManager::read` which outbound HTLCs of a closed channel have FAILED on chain —
translated from the Rust text that is in /repo *now*:

  * when the funding spend counts as irrevocably confirmed: `funding_spend_confirmed.or_else(..)` first, else the first
    `FundingSpendConfirmation` entry of `onchain_events_awaiting_threshold_conf` with
    `event.height + ANTI_REORG_DELAY - 1 <= us.best_block.height`                                   -> `buried`;
  * which confirmed txids are recognised, in this order: current / previous counterparty commitment (arm 1, HTLCs from
    `counterparty_claimable_outpoints[confirmed_txid]`), current holder commitment (arm 2), previous holder commitment
    (arm 3), anything else = an EMPTY confirmed list (arm 4)          -> `isCounterparty`, `isHolderCur`, `isHolderPrev`;
  * which candidate lists are walked (`us.funding.{current,prev}_counterparty_commitment_txid`)     -> `candidates`;
  * per candidate: no source => skip; `htlcs_resolved_to_user.contains(..)` => skip; found in the confirmed list by
    source: dust test, the `htlcs_resolved_on_chain` filter, the preimage test; not found => failed
                                      -> `skipResolved`, `isDust`, `resolvedFilter`, `reportResolved`, and the arm flags.

The whole function body is matched against a template (comments stripped, whitespace normalised); the deciding
expressions are slots that go through rs2lean. Anything else that changed is a TRANSLATE-ERROR (exit 2)."""
import re, sys, os
sys.path.insert(0, os.path.dirname(__file__))
from rs2lean import parse_expr, Emitter, TranslateError, strip_comments
from gen_outbound_send import find_fn, one

REPO = os.environ.get('VERIF_REPO', '/repo')
SRC = 'lightning/src/chain/channelmonitor.rs'

def fail(msg): raise TranslateError(msg)

# ⟦name⟧ = a slot (an expression without `{`, `}` or `;`), everything else is literal
TEMPLATE = (
 '{ let mut res = new_hash_map(); let us = self.inner.lock().unwrap(); '
 'let confirmed_txid = us.funding_spend_confirmed.or_else(|| { us.onchain_events_awaiting_threshold_conf.iter().find_map(|event| { '
 'if let OnchainEvent::FundingSpendConfirmation { .. } = event.event { if ⟦buried⟧ { Some(event.txid) } else { None } } else { None } }) }); '
 'let confirmed_txid = if let Some(txid) = confirmed_txid { txid } else { return res; }; '
 'macro_rules! walk_htlcs { ($htlc_iter: expr) => { let mut walk_candidate_htlcs = |htlcs| { '
 'for &(ref candidate_htlc, ref candidate_source) in htlcs { '
 'let candidate_htlc: &HTLCOutputInCommitment = &candidate_htlc; let candidate_source: &Option<Box<HTLCSource>> = &candidate_source; '
 'let source: &HTLCSource = if let Some(source) = candidate_source { source } else { continue; }; '
 'let htlc_id = SentHTLCId::from_source(source); if ⟦skip⟧ { continue; } '
 'let confirmed = $htlc_iter.find(|(_, conf_src)| Some(source) == *conf_src); '
 'if let Some((confirmed_htlc, _)) = confirmed { let filter = |v: &&IrrevocablyResolvedHTLC| { ⟦filter⟧ }; '
 'if ⟦dust⟧ { res.insert(source.clone(), confirmed_htlc.payment_hash); } '
 'else if let Some(state) = us.htlcs_resolved_on_chain.iter().filter(filter).next() { '
 'if ⟦preimage⟧ { res.insert(source.clone(), confirmed_htlc.payment_hash); } } } '
 'else { res.insert(source.clone(), candidate_htlc.payment_hash); } } }; '
 'if let Some(ref txid) = us.funding.⟦cand1⟧ { let htlcs = us.funding.counterparty_claimable_outpoints.get(txid); '
 'walk_candidate_htlcs(htlcs.expect("Missing tx info for latest tx")); } '
 'if let Some(ref txid) = us.funding.⟦cand2⟧ { let htlcs = us.funding.counterparty_claimable_outpoints.get(txid); '
 'walk_candidate_htlcs(htlcs.expect("Missing tx info for previous tx")); } }; } '
 'let funding = get_confirmed_funding_scope!(us); '
 'if ⟦arm1⟧ { let htlcs = funding.counterparty_claimable_outpoints.get(&confirmed_txid).unwrap(); '
 'walk_htlcs!(htlcs.iter().filter_map(|(a, b)| { if let &Some(ref source) = b { Some((a, Some(&**source))) } else { None } })); } '
 'else if ⟦arm2⟧ { walk_htlcs!(holder_commitment_htlcs!(us, CURRENT_WITH_SOURCES)); } '
 'else if let Some(prev_commitment_tx) = &funding.prev_holder_commitment_tx { '
 'if ⟦arm3⟧ { walk_htlcs!(holder_commitment_htlcs!(us, PREV_WITH_SOURCES).unwrap()); } '
 'else { let htlcs_confirmed: &[(&HTLCOutputInCommitment, _)] = &[]; walk_htlcs!(htlcs_confirmed.iter()); } } '
 'else { let htlcs_confirmed: &[(&HTLCOutputInCommitment, _)] = &[]; walk_htlcs!(htlcs_confirmed.iter()); } res }')

# get_all_current_outbound_htlcs: which HTLCs a restart re-inserts as pending / replays as claimed
TEMPLATE_ALL = (
 '{ let mut res = new_hash_map(); let us = self.inner.lock().unwrap(); let mut walk_counterparty_commitment = |txid| { '
 'if let Some(latest_outpoints) = us.funding.counterparty_claimable_outpoints.get(txid) { '
 'for &(ref htlc, ref source_option) in latest_outpoints.iter() { if let &Some(ref source) = source_option { '
 'let htlc_id = SentHTLCId::from_source(source); if ⟦listed⟧ { '
 'let preimage_opt = us.counterparty_fulfilled_htlcs.get(&htlc_id).cloned(); res.insert((**source).clone(), (htlc.clone(), preimage_opt)); } } } } }; '
 'if let Some(ref txid) = us.funding.⟦all1⟧ { walk_counterparty_commitment(txid); } '
 'if let Some(ref txid) = us.funding.⟦all2⟧ { walk_counterparty_commitment(txid); } res }')

def template_regex(t):
    out = []
    for k, piece in enumerate(re.split(r'⟦(\w+)⟧', t)):
        out.append('(?P<%s>[^{};]+?)' % piece if k % 2 else re.escape(piece))
    return re.compile('^' + ''.join(out) + '$')

def tr(expr, subst, env):
    """substitute the Rust places by plain names, refuse anything else, emit Lean through rs2lean"""
    e = one(expr)
    for a, b in subst: e = e.replace(a, b)
    left = set(re.findall(r'[A-Za-z_][A-Za-z_0-9]*', e)) - set(env) - {'Some', 'None', 'is_none', 'is_some'}
    if left or '.' in e.replace('.is_none()', '').replace('.is_some()', ''):
        fail('expression reads something unexpected (%s): %r' % (sorted(left), one(expr)))
    return Emitter(env=dict(env)).e(parse_expr(e))

CAND = {'current_counterparty_commitment_txid': 'curCp', 'prev_counterparty_commitment_txid': 'prevCp'}

def main(out_path):
    src = open(os.path.join(REPO, SRC)).read()
    _, _, body = find_fn(src, 'get_onchain_failed_outbound_htlcs')
    b = one(strip_comments(body))
    m = template_regex(TEMPLATE).match(b)
    if not m:
        # say where the text leaves the template
        lit = re.split(r'⟦\w+⟧', TEMPLATE); pos = 0; where = 'start'
        for piece in lit:
            i = b.find(piece, pos)
            if i < 0: where = piece[:90]; break
            pos = i + len(piece)
        fail('get_onchain_failed_outbound_htlcs changed shape near: %r' % where)
    g = {k: one(v) for k, v in m.groupdict().items()}
    L = ['/- GENERATED by tools/gen_onchain_failed.py from %s (ChannelMonitor::get_onchain_failed_outbound_htlcs) — do not edit. -/' % SRC,
         'import LdkModel.Generated.Consts', 'namespace Ldk.OnchainFailedGen', 'open Ldk', '']
    def emit(doc, sig, bodytext): L.extend(['/-- %s -/' % doc, 'def %s :=' % sig, '  ' + bodytext, ''])
    emit('a `FundingSpendConfirmation` entry of `onchain_events_awaiting_threshold_conf` is used iff `%s`' % g['buried'],
         'buried (height best : Nat) : Bool',
         tr(g['buried'], [('event.height', 'height'), ('us.best_block.height', 'best')], {'height': 'height', 'best': 'best', 'ANTI_REORG_DELAY': 'ANTI_REORG_DELAY'}))
    emit('a candidate is skipped (`continue`) iff `%s`; `resolved` = its SentHTLCId is in `htlcs_resolved_to_user`' % g['skip'],
         'skipResolved (resolved : Bool) : Bool',
         tr(g['skip'], [('us.htlcs_resolved_to_user.contains(&htlc_id)', 'resolved')], {'resolved': 'resolved'}))
    emit('the `htlcs_resolved_on_chain` entry consulted is the first with `%s`' % g['filter'],
         'resolvedFilter (resolvedIdx confirmedIdx : Option Nat) : Bool',
         tr(g['filter'], [('v.commitment_tx_output_idx', 'resolved_idx'), ('confirmed_htlc.transaction_output_index', 'confirmed_idx')], {'resolved_idx': 'resolvedIdx', 'confirmed_idx': 'confirmedIdx'}))
    emit('found in the confirmed commitment: reported failed at once (dust) iff `%s`' % g['dust'],
         'isDust (confirmedIdx : Option Nat) : Bool',
         tr(g['dust'], [('confirmed_htlc.transaction_output_index', 'confirmed_idx')], {'confirmed_idx': 'confirmedIdx'}))
    emit('found, non-dust, irrevocably resolved on chain: reported failed iff `%s`' % g['preimage'],
         'reportResolved (preimage : Option Nat) : Bool',
         tr(g['preimage'], [('state.payment_preimage', 'preimage')], {'preimage': 'preimage'}))
    L += ['/-- found, non-dust, NOT in `htlcs_resolved_on_chain`: no `else` arm, nothing is inserted -/', 'def reportUnresolved : Bool := false', '',
          '/-- not found in the confirmed commitment: `res.insert(source.clone(), candidate_htlc.payment_hash)` -/', 'def reportNotIncluded : Bool := true', '',
          '/-- found and dust: `res.insert(..)` -/', 'def reportDust : Bool := true', '']
    for k in ('cand1', 'cand2'):
        if g[k] not in CAND: fail('candidate list %s walks us.funding.%s' % (k, g[k]))
    emit('the candidate lists walked, in order: `us.funding.%s`, `us.funding.%s`' % (g['cand1'], g['cand2']),
         'candidates (curCp prevCp : Option Nat) : List (Option Nat)', '[%s, %s]' % (CAND[g['cand1']], CAND[g['cand2']]))
    sub = [('funding.current_counterparty_commitment_txid', 'cur_cp'), ('funding.prev_counterparty_commitment_txid', 'prev_cp'), ('confirmed_txid', 't'),
           ('funding.current_holder_commitment_tx.trust().txid()', 'holder_cur'), ('prev_commitment_tx.trust().txid()', 'holder_prev')]
    # longest first so that `confirmed_txid` inside no other name is hit
    sub.sort(key=lambda x: -len(x[0]))
    emit('arm 1 (HTLCs of `counterparty_claimable_outpoints[confirmed_txid]`) iff `%s`' % g['arm1'],
         'isCounterparty (t : Nat) (curCp prevCp : Option Nat) : Bool', tr(g['arm1'], sub, {'t': 't', 'cur_cp': 'curCp', 'prev_cp': 'prevCp'}))
    emit('arm 2 (current holder commitment, with sources) iff `%s`' % g['arm2'],
         'isHolderCur (t holderCur : Nat) : Bool', tr(g['arm2'], sub, {'t': 't', 'holder_cur': 'holderCur'}))
    emit('arm 3 (previous holder commitment, if there is one) iff `%s`; otherwise the confirmed list is EMPTY' % g['arm3'],
         'isHolderPrev (t holderPrev : Nat) : Bool', tr(g['arm3'], sub, {'t': 't', 'holder_prev': 'holderPrev'}))
    # ---- get_all_current_outbound_htlcs
    _, _, body = find_fn(src, 'get_all_current_outbound_htlcs')
    b2 = one(strip_comments(body))
    m2 = template_regex(TEMPLATE_ALL).match(b2)
    if not m2: fail('get_all_current_outbound_htlcs changed shape: %r' % b2[:400])
    g2 = {k: one(v) for k, v in m2.groupdict().items()}
    emit('get_all_current_outbound_htlcs lists an HTLC (with a source) iff `%s`; `resolved` = its SentHTLCId is in `htlcs_resolved_to_user`' % g2['listed'],
         'listedUnresolved (resolved : Bool) : Bool',
         tr(g2['listed'], [('us.htlcs_resolved_to_user.contains(&htlc_id)', 'resolved')], {'resolved': 'resolved'}))
    for k in ('all1', 'all2'):
        if g2[k] not in CAND: fail('get_all_current_outbound_htlcs walks us.funding.%s' % g2[k])
    emit('get_all_current_outbound_htlcs walks, in order: `us.funding.%s`, `us.funding.%s`' % (g2['all1'], g2['all2']),
         'allCurrentLists (curCp prevCp : Option Nat) : List (Option Nat)', '[%s, %s]' % (CAND[g2['all1']], CAND[g2['all2']]))
    # ---- ChannelManager::read: the closed-channel passes that consume the two monitor functions
    cm = one(strip_comments(open(os.path.join(REPO, 'lightning/src/ln/channelmanager.rs')).read()))
    m3 = re.search(r'for \(channel_id, monitor\) in args\.channel_monitors\.iter\(\) \{ let mut is_channel_closed = true; let counterparty_node_id = monitor\.get_counterparty_node_id\(\); '
                   r'if let Some\(peer_state_mtx\) = per_peer_state\.get\(&counterparty_node_id\) \{ let mut peer_state_lock = peer_state_mtx\.lock\(\)\.unwrap\(\); let peer_state = &mut \*peer_state_lock; '
                   r'is_channel_closed = (?P<closed>[^;{}]+);', cm)
    if not m3: fail('ChannelManager::read: the insert pass over args.channel_monitors (is_channel_closed) changed shape')
    ins = list(re.finditer(r'if (?P<c>[^{};]+) \{ for \(htlc_source, \(htlc, _\)\) in monitor\.get_all_current_outbound_htlcs\(\) \{', cm))
    res = list(re.finditer(r'if (?P<c>[^{};]+) \{ for \(htlc_source, \(htlc, preimage_opt\)\) in monitor\.get_all_current_outbound_htlcs\(\) \{', cm))
    if len(ins) != 1 or len(res) != 1: fail('ChannelManager::read: expected ONE insert pass and ONE claim/fail pass over get_all_current_outbound_htlcs (%d, %d)' % (len(ins), len(res)))
    ins, res = ins[0], res[0]
    m4 = re.search(r'for \(channel_id, monitor\) in args\.channel_monitors\.iter\(\) \{ let \(mut is_channel_closed, mut user_channel_id_opt\) = \(true, None\); let counterparty_node_id = monitor\.get_counterparty_node_id\(\); '
                   r'if let Some\(peer_state_mtx\) = per_peer_state\.get\(&counterparty_node_id\) \{ let mut peer_state_lock = peer_state_mtx\.lock\(\)\.unwrap\(\); let peer_state = &mut \*peer_state_lock; '
                   r'if let Some\(chan\) = peer_state\.channel_by_id\.get\(channel_id\) \{ is_channel_closed = false;', cm)
    if not m4 or not (ins.start() < m4.start() < res.start()) or cm[m4.end():res.start()].count('is_channel_closed =') != 0:
        fail('ChannelManager::read: the claim / fail pass no longer computes is_channel_closed as "true unless channel_by_id has the channel"')
    if not (m3.start() < ins.start() < res.start()): fail('ChannelManager::read: the insert pass no longer precedes the claim / fail pass')
    from rs2lean import match_brace
    k = cm.index('{', ins.start()); ins_block = cm[k:match_brace(cm, k)]
    if ins_block.count('pending_outbounds.insert_from_monitor_on_startup(') != 1 or 'claim_htlc' in ins_block or 'failed_htlcs' in ins_block: fail('ChannelManager::read: the insert pass changed shape')
    k = cm.index('{', res.start()); res_block = cm[k:match_brace(cm, k)]
    mc = re.search(r'HTLCSource::OutboundRoute \{ payment_id, session_priv, path, bolt12_invoice, \.\. \} => \{ if let Some\(preimage\) = preimage_opt \{', res_block)
    mf = re.search(r'for \(htlc_source, payment_hash\) in monitor\.get_onchain_failed_outbound_htlcs\(\) \{', res_block)
    if not mc or res_block.count('pending_outbounds.claim_htlc(') != 1: fail('ChannelManager::read: the claim replay (if let Some(preimage) = preimage_opt => claim_htlc) changed shape')
    if not mf or cm.count('monitor.get_onchain_failed_outbound_htlcs()') != 1: fail('ChannelManager::read: get_onchain_failed_outbound_htlcs is no longer consumed exactly once, inside the closed-channel block')
    k = res_block.index('{', mf.start()); fail_block = res_block[k:match_brace(res_block, k)]
    if fail_block.count('failed_htlcs.push((') != 1 or 'LocalHTLCFailureReason::OnChainTimeout' not in fail_block or ' if ' in fail_block: fail('ChannelManager::read: the on-chain failure loop changed shape (every reported HTLC is pushed to failed_htlcs unconditionally)')
    emit('ChannelManager::read: `is_channel_closed = %s` (`inMap` = the channel is still in the peer\'s channel map)' % one(m3.group('closed')),
         'channelClosed (inMap : Bool) : Bool', tr(m3.group('closed'), [('peer_state.channel_by_id.contains_key(channel_id)', 'in_map')], {'in_map': 'inMap'}))
    emit('first pass: every OutboundRoute HTLC of get_all_current_outbound_htlcs is re-inserted (insert_from_monitor_on_startup) iff `%s`' % one(ins.group('c')),
         'readInserts (closed : Bool) : Bool', tr(ins.group('c'), [('is_channel_closed', 'closed')], {'closed': 'closed'}))
    emit('second pass (after ALL inserts): listed HTLCs with a preimage are claimed (claim_htlc) and every HTLC of get_onchain_failed_outbound_htlcs is failed (failed_htlcs, OnChainTimeout) iff `%s`' % one(res.group('c')),
         'readResolves (closed : Bool) : Bool', tr(res.group('c'), [('is_channel_closed', 'closed')], {'closed': 'closed'}))
    L.append('end Ldk.OnchainFailedGen')
    text = '\n'.join(L) + '\n'
    old = open(out_path).read() if os.path.exists(out_path) else None
    if old != text:
        os.makedirs(os.path.dirname(out_path), exist_ok=True)
        open(out_path, 'w').write(text)
        print('wrote', out_path)
    else:
        print('unchanged', out_path)

if __name__ == '__main__':
    out = os.path.join(os.path.dirname(os.path.abspath(__file__)), '..', 'lean', 'LdkModel', 'Generated', 'OnchainFailed.lean')
    if len(sys.argv) > 1: out = sys.argv[1]
    try:
        main(os.path.normpath(out))
    except TranslateError as e:
        print('TRANSLATE-ERROR gen_onchain_failed.py:', e)
        sys.exit(2)
