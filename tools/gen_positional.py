#!/usr/bin/env python3
"""Regenerate lean/LdkModel/Generated/Positional.lean from /repo: the ORDERED list of top-level positional (non-TLV) write steps and
read steps of the three big hand-written serializers

    FundedChannel    channel.rs         `impl Writeable for FundedChannel::write`      /  `ReadableArgs for FundedChannel::read`
    ChannelManager   channelmanager.rs  `impl Writeable for ChannelManager::write`     /  `ChannelManagerData::read`
    ChannelMonitor   channelmonitor.rs  `write_chanmon_internal`                       /  `<(BlockLocator, ChannelMonitor)>::read`

One step per TOP-LEVEL statement of the function body that touches the stream:
    (kind, name, type, reads-or-writes inside)
kind  `ver`   write_ver_prefix! / read_ver_prefix!
      `val`   one straight-line value:  `<path>.write(writer)?` / `writer.write_all(&…)?`   |   `let x[: T] = Readable::read(reader)?`
      `blk`   a compound statement (for / if / match / `{…}` / a `let` whose initialiser holds a block or several reads) with at
              least one stream access inside; the number of syntactic accesses inside is recorded
      `tlv`   write_tlv_fields! / read_tlv_fields! (the end of the positional part: everything after it is ignored)
name  CANONICAL (`len:` marker, `_count` / `_len` suffix, plural `s` dropped), from: the last field / getter of the written path (`self.context.channel_id` -> channel_id), `len:<coll>` for `(x.len() as u64)`,
      `const` for a constant; the bound variable on the read side (`_`-prefixes / `mut` dropped)
type  the `as T` / literal suffix on the write side, the `let x: T` / `<T as Readable>` annotation on the read side, `` when the
      statement does not say.
Props/C12 `positional_steps_agree` compares the two lists of each object POSITION BY POSITION.  Exits 2 with TRANSLATE-ERROR when a
function cannot be found or split."""
import re, sys, os
sys.path.insert(0, os.path.dirname(__file__))
import gen_tlv_schemas as G
from rs2lean import TranslateError

REPO = os.environ.get('VERIF_REPO', '/repo')
OBJECTS = G.POSITIONAL

def lean_str(s): return '"' + s.replace('\\', '\\\\').replace('"', '\\"') + '"'

def canon(n):
    """canonical step name: `len:` marker, `_count` / `_len` suffix and a plural `s` dropped (pending_inbound_htlc_count, len:pending_inbound_htlcs and
    pending_inbound_htlcs all become pending_inbound_htlc)"""
    if n in ('', '?', 'const', '_'): return n
    n = re.sub(r'^len:', '', n)
    n = re.sub(r'_(count|len)$', '', n)
    n = re.sub(r'_(count|len)_compat$', '_compat', n)
    if n.endswith('s') and not n.endswith('ss'): n = n[:-1]
    return n

def statements(body):
    """top-level statements of a `{ … }` body (comments / strings already blanked)"""
    assert body[0] == '{' and body[-1] == '}'
    s = body[1:-1]
    out, start, d, i, n = [], 0, 0, 0, len(s)
    while i < n:
        c = s[i]
        if c in '([{': d += 1
        elif c in ')]}':
            d -= 1
            if d < 0: raise TranslateError('unbalanced body')
            if d == 0 and c == '}':
                st = s[start:i + 1].strip()
                st0 = re.sub(r'^(#\s*\[[^\]]*\]\s*)+', '', st)
                j = i + 1
                while j < n and s[j].isspace(): j += 1
                nxt = s[j:j + 4]
                if not (nxt.startswith(';') or nxt.startswith('else') or nxt.startswith('.') or nxt.startswith('?') or nxt.startswith(')') or nxt.startswith(',')) \
                   and re.match(r'(for|if|match|while|loop|unsafe|\{|macro_rules\s*!)', st0):
                    out.append(st0); start = i + 1
        elif c == ';' and d == 0:
            st = s[start:i].strip()
            st = re.sub(r'^(#\s*\[[^\]]*\]\s*)+', '', st)
            if st: out.append(st)
            start = i + 1
        i += 1
    tail = s[start:].strip()
    if tail: out.append(tail)
    return out

W_ACCESS = re.compile(r'\.\s*write\s*\(\s*writer\s*\)|writer\s*\.\s*write_all\s*\(|write_legacy_holder_commitment_data\s*\(|serialize_htlc_in_commitment\s*!|\bwrite_tlv_fields\s*!|\bwrite_ver_prefix\s*!|\bwrite_claimable_htlc\s*\(|\.\s*write\s*\(\s*&mut\s+\w+\s*\)')
R_ACCESS = re.compile(r'::\s*read\s*\(\s*(?:&mut\s+)?reader\b|reader\s*\.\s*read_exact\s*\(|\bread_tlv_fields\s*!|\bread_ver_prefix\s*!|\bread_htlc_in_commitment\s*!|\bread_exact\s*\(|::\s*read\s*\(\s*&mut\s+\w+\s*(?:,|\))')

def w_name(expr):
    e = ' '.join(expr.split())
    ty = ''
    m = re.search(r'\bas\s+(u8|u16|u32|u64|usize)\s*\)?$', e)
    if m: ty = m.group(1)
    m = re.match(r'^\(?\s*(.*?)\.len\(\)\s*as\s+(u\d+)', e)
    if m:
        pp = G.parse_path(G.strip_wrappers(m.group(1)))
        segs = [nm for nm, c in pp[0]] if pp else []
        return 'len:' + (G.norm_local(segs[-1]) if segs else '?'), m.group(2)
    m = re.match(r'^(\d+|0x[0-9a-fA-F]+)(u8|u16|u32|u64)$', e)
    if m: return 'const', m.group(2)
    m = re.match(r'^\(?\s*\d+\s+as\s+(u\d+)\s*\)?$', e)
    if m: return 'const', m.group(1)
    if re.match(r'^\[', e): return 'const', ''
    e2 = G.strip_wrappers(re.sub(r'\s+as\s+\w+\s*$', '', e.strip('()')) if ty else e)
    pp = G.parse_path(e2)
    if pp:
        segs = [nm for nm, c in pp[0] if nm not in ('self', 'as_ref', 'unwrap', 'clone', 'borrow', 'lock', 'read', 'iter', 'load', 'unwrap_or', 'map', 'to_u32')]
        if segs: return G.norm_local(segs[-1]), ty
    return '?', ty

def w_step(st):
    k = len(W_ACCESS.findall(st))
    if k == 0: return None
    if re.match(r'write_ver_prefix\s*!', st): return ('ver', '', '', 1)
    if re.match(r'write_tlv_fields\s*!', st): return ('tlv', '', '', 1)
    if re.match(r'macro_rules', st): return None
    compound = '{' in st
    if not compound and k == 1:
        m = re.match(r'^(.*)\.\s*write\s*\(\s*writer\s*\)\s*\?$', st, re.S)
        if m:
            nm, ty = w_name(m.group(1))
            return ('val', nm, ty, 1)
        m = re.match(r'^writer\s*\.\s*write_all\s*\(\s*&?(.*)\)\s*\?$', st, re.S)
        if m:
            inner = ' '.join(m.group(1).split())
            if re.match(r'^\[\s*\d+\s*;\s*\d+\s*\]$', inner): return ('val', 'const', re.sub(r'\s', '', inner), 1)
            inner = re.sub(r'\[\s*\.\.\s*\]$', '', inner)
            inner = re.sub(r'\.\s*to_be_bytes\s*\(\s*\)$', '', inner)
            inner = re.sub(r'\.\s*serialize\s*\(\s*\)$', '', inner)
            m2 = re.match(r'^byte_utils\s*::\s*be48_to_array\s*\((.*)\)$', inner)
            ty = ''
            if m2: inner, ty = m2.group(1), 'u48'
            nm, t2 = w_name(inner)
            return ('val', nm, ty or t2, 1)
        m = re.match(r'^(\w+)\s*\(\s*writer\b', st)
        if m: return ('blk', m.group(1), '', 1)
    # compound: label = loop iterable / scrutinee / first identifier path
    m = re.match(r'^for\s+.*?\bin\s+(.*?)\s*\{', st, re.S) or re.match(r'^(?:if|match|while)\s+(?:let\s+.*?=\s*)?(.*?)\s*\{', st, re.S)
    label = ''
    if m:
        pp = G.parse_path(G.strip_wrappers(' '.join(m.group(1).split())))
        if pp:
            segs = [nm for nm, c in pp[0] if nm not in ('self', 'iter', 'as_ref', 'lock', 'unwrap', 'read', 'keys', 'values', 'is_some', 'is_none', 'and_then')]
            if segs: label = G.norm_local(segs[-1])
    if not label:
        m = re.match(r'^let\s+(?:mut\s+)?(\w+)', st)
        if m: label = G.norm_local(m.group(1))
    if not label and st.startswith('{'):
        ms = list(re.finditer(r'([\w.()\s]+?)\.\s*write\s*\(\s*writer\s*\)', st))
        if ms:
            pp = G.parse_path(G.strip_wrappers(' '.join(ms[-1].group(1).split())))
            if pp and pp[0]: label = G.norm_local([nm for nm, c in pp[0] if nm != 'self'][0])
    return ('blk', label or '?', '', k)

def r_step(st):
    k = len(R_ACCESS.findall(st))
    if k == 0: return None
    if re.search(r'\bread_ver_prefix\s*!', st) and k == 1: return ('ver', '', '', 1)
    if re.match(r'read_tlv_fields\s*!', st): return ('tlv', '', '', 1)
    if re.match(r'macro_rules', st): return None
    m = re.match(r'^let\s+(?:mut\s+)?(\(?[\w\s,]+\)?)\s*(?::\s*([^=]+?))?\s*=\s*(.*)$', st, re.S)
    if m and '{' not in st and k == 1:
        nm = G.norm_local(re.sub(r'[()\s]', '', m.group(1)).lstrip('_')) or '_'
        ty = ' '.join((m.group(2) or '').split())
        m2 = re.search(r'<\s*([\w:<>, \[\];()]+?)\s+as\s+(?:Readable|ReadableArgs[^>]*)>\s*::\s*read', m.group(3))
        if not ty and m2: ty = ' '.join(m2.group(1).split())
        return ('val', nm, ty, 1)
    label = ''
    if m: label = G.norm_local(re.sub(r'[()\s]', '', m.group(1)).lstrip('_'))
    if not label:
        mm = re.match(r'^for\s+.*?\bin\s+(?:0\s*\.\.\s*)?(.*?)\s*\{', st, re.S) or re.match(r'^(?:if|match|while)\s+(?:let\s+.*?=\s*)?(.*?)\s*\{', st, re.S)
        if mm:
            pp = G.parse_path(G.strip_wrappers(' '.join(mm.group(1).split())))
            if pp:
                segs = [nm for nm, c in pp[0]]
                if segs: label = G.norm_local(segs[-1])
    if not label and st.startswith('{'):
        mm = re.search(r'\blet\s+(?:mut\s+)?(\w+)', st)
        if mm: label = G.norm_local(mm.group(1).lstrip('_')) or '_'
    return ('blk', label or '?', '', k)

def extract(name, file, impl_w, fnw, impl_r, fnr):
    cl = G.clean(open(os.path.join(REPO, file)).read())
    sc = G.scopes(cl)
    def body(impl_pat, fn_name):
        for (o, c, h) in sc:
            if re.search(r'\bfn\s+%s\b' % fn_name, h):
                enc = G.enclosing(sc, o)
                if impl_pat is None or any(re.search(impl_pat, hh) for _, _, hh in enc):
                    return cl[o:c + 1] if cl[c] == '}' else cl[o:c]
        return None
    w, r = body(impl_w, fnw), body(impl_r, fnr)
    if not w or not r: raise TranslateError('%s: write / read fn not found' % name)
    w = w[w.index('{'):w.rindex('}') + 1]; r = r[r.index('{'):r.rindex('}') + 1]
    ws, rs = [], []
    for st in statements(w):
        s = w_step(st)
        if s:
            ws.append(s)
            if s[0] == 'tlv': break
    for st in statements(r):
        s = r_step(st)
        if s:
            rs.append(s)
            if s[0] == 'tlv': break
    if len(ws) < 5 or len(rs) < 5 or ws[0][0] != 'ver' or rs[0][0] != 'ver' or ws[-1][0] != 'tlv' or rs[-1][0] != 'tlv':
        raise TranslateError('%s: positional part not delimited by ver prefix … TLV block (%d write steps, %d read steps)' % (name, len(ws), len(rs)))
    return ws, rs

def main(out_path):
    L = ['/- GENERATED by tools/gen_positional.py from channel.rs / channelmanager.rs / channelmonitor.rs — do not edit.',
         '   Top-level positional (non-TLV) write steps and read steps of the three big hand-written serializers, in source order:',
         '   (kind, name, type, number of syntactic stream accesses inside). -/',
         'import LdkModel.Model.TlvFrame', 'namespace Ldk.TlvFrame.Gen', 'open Ldk.TlvFrame', '']
    names = []
    for name, file, impl_w, fnw, impl_r, fnr in OBJECTS:
        ws, rs = extract(name, file, impl_w, fnw, impl_r, fnr)
        for side, steps in (('Written', ws), ('Read', rs)):
            L.append('def pos%s%s : List PosStep := [' % (name, side))
            L.append(',\n'.join('  (%s, %s, %s, %d)' % (lean_str(k), lean_str(canon(n)), lean_str(t.lower().replace(' ', '')), c) for k, n, t, c in steps) + ']')
            L.append('')
        names.append(name)
    L.append('/-- (object, write steps, read steps) -/')
    L.append('def positionalSteps : List (String × List PosStep × List PosStep) := [' + ', '.join('(%s, pos%sWritten, pos%sRead)' % (lean_str(n), n, n) for n in names) + ']')
    L += ['', 'end Ldk.TlvFrame.Gen']
    text = '\n'.join(L) + '\n'
    old = open(out_path).read() if os.path.exists(out_path) else None
    if old != text: open(out_path, 'w').write(text)

if __name__ == '__main__':
    try:
        main(sys.argv[1] if len(sys.argv) > 1 else os.path.join(os.path.dirname(__file__), '..', 'lean', 'LdkModel', 'Generated', 'Positional.lean'))
    except (TranslateError, G.TranslateError) as ex:
        print('TRANSLATE-ERROR gen_positional: %s' % ex)
        sys.exit(2)
