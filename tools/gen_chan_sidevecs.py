#!/usr/bin/env python3
"""Regenerate lean/LdkModel/Generated/ChanSideVecs.lean from /repo/lightning/src/ln/channel.rs: the per-HTLC OPTIONAL VECTORS that
`FundedChannel::write` collects while it walks pending_inbound_htlcs / pending_outbound_htlcs / holding_cell_htlc_updates and writes
as TLVs beside the positional lists, and the loops of `FundedChannel::read` that hand the values back ("k-th entry of the vector
<-> k-th HTLC of the kind that carries it").  One row per vector:

    (tlv type, writer vector, list, kinds in which the writer pushes, reader variable, kinds in which the reader consumes one entry,
     reader rejects left-over entries)

kind = variant of the element (`Variant` or `Variant:Sub`, Sub = removal reason / outcome).  Also generated: the kinds of each list,
which kinds are written at all (RemoteAnnounced inbound HTLCs are skipped) and as which kind a written element is read back
(RemoteRemoved -> Committed, FailMalformedHTLC -> FailHTLC), from the state bytes.  Exits 2 with TRANSLATE-ERROR on a shape change."""
import re, sys, os
sys.path.insert(0, os.path.dirname(__file__))
import gen_tlv_schemas as G
import gen_chan_forget as F
from gen_tlv_schemas import TranslateError

REPO = os.environ.get('VERIF_REPO', '/repo')
SUBS = {'in': {'LocalRemoved': ['FailRelay', 'FailMalformed', 'Fulfill']},
        'out': {'AwaitingRemoteRevokeToRemove': ['Success', 'Failure'], 'AwaitingRemovedRemoteRevoke': ['Success', 'Failure']},
        'hold': {}}
VARIANTS = {'in': F.IN, 'out': F.OUT, 'hold': ['AddHTLC', 'ClaimHTLC', 'FailHTLC', 'FailMalformedHTLC']}
ENUM = {'in': 'InboundHTLCState', 'out': 'OutboundHTLCState', 'hold': 'HTLCUpdateAwaitingACK'}
LISTVAR = {'pending_inbound_htlcs': 'in', 'pending_outbound_htlcs': 'out', 'holding_cell_htlc_updates': 'hold'}
# vectors that are not positional pairings: keyed by htlc_id / written under a test-only switch
EXCLUDED = {43: 'malformed_htlcs (keyed by htlc_id)', 75: 'inbound_committed_update_adds (cfg(test) / verif switch only)'}

def kinds_of(lst, variant=None):
    out = []
    for v in VARIANTS[lst]:
        if variant is not None and v != variant: continue
        subs = SUBS[lst].get(v)
        out += ['%s:%s' % (v, s) for s in subs] if subs else [v]
    return out

def ws(s): return ' '.join(s.split())

def pushes(text): return re.findall(r'\b(\w+)\s*\.\s*push\s*\(', text)

def strip_blocks(text, pat):
    """text with every `{…}` block that follows a match of pat removed; returns (rest, [(match, block)])"""
    out, blocks, pos = '', [], 0
    for m in re.finditer(pat, text):
        if m.start() < pos: continue
        o = text.index('{', m.end() - 1) if text[m.end() - 1] != '{' else m.end() - 1
        c = G.match_close(text, o)
        out += text[pos:m.start()]; blocks.append((m, text[o + 1:c])); pos = c + 1
    return out + text[pos:], blocks

def writer_rows(w):
    """vector -> (list, set of kinds)"""
    rows = {}
    def add(vec, lst, ks):
        if vec in rows and rows[vec][0] != lst: raise TranslateError('writer: vector %s is pushed in two different loops' % vec)
        rows.setdefault(vec, (lst, set()))[1].update(ks)
    m = re.search(r'let\s+mut\s+dropped_inbound_htlcs\s*=\s*0\s*;', w)
    if not m: raise TranslateError('writer: dropped_inbound_htlcs not found')
    rest = w[m.end():]
    first, _, fend = F.block_after(rest, r'for\s+htlc\s+in\s+self\s*\.\s*context\s*\.\s*pending_inbound_htlcs\s*\.\s*iter\s*\(\s*\)\s*\{', 'writer counter loop')
    if pushes(first): raise TranslateError('writer: a push appeared in the dropped_inbound_htlcs counter loop')
    rest = rest[fend:]
    loops = {}
    loops['in'], _, e1 = F.block_after(rest, r'for\s+htlc\s+in\s+self\s*\.\s*context\s*\.\s*pending_inbound_htlcs\s*\.\s*iter\s*\(\s*\)\s*\{', 'writer inbound loop')
    loops['out'], _, e2 = F.block_after(rest[e1:], r'for\s+htlc\s+in\s+self\s*\.\s*context\s*\.\s*pending_outbound_htlcs\s*\.\s*iter\s*\(\s*\)\s*\{', 'writer outbound loop')
    loops['hold'], _, _ = F.block_after(rest[e1 + e2:], r'for\s+update\s+in\s+self\s*\.\s*context\s*\.\s*holding_cell_htlc_updates\s*\.\s*iter\s*\(\s*\)\s*\{', 'writer holding-cell loop')
    skipped = []
    for lst, body in loops.items():
        mpat = r'match\s+&\s*htlc\s*\.\s*state\s*\{' if lst != 'hold' else r'match\s+update\s*\{'
        outside, blocks = strip_blocks(body, mpat)
        if len(blocks) != 1: raise TranslateError('writer %s loop: expected exactly one state match' % lst)
        if lst == 'in':
            # the `continue` guard must come BEFORE anything is pushed
            g = re.search(r'if\s+let\s+([^={]+?)=\s*&?\s*htlc\s*\.\s*state\s*\{\s*continue\s*;\s*\}', outside)
            if not g: raise TranslateError('writer inbound loop: skip guard not found')
            skipped = re.findall(r'InboundHTLCState\s*::\s*(\w+)', g.group(1))
            if pushes(outside[:g.start()]): raise TranslateError('writer inbound loop: a push before the skip guard')
        for vec in pushes(outside): add(vec, lst, [k for k in kinds_of(lst) if k.split(':')[0] not in skipped])
        for pat, arm in G.split_arms(blocks[0][1]):
            vs = re.findall(r'%s\s*::\s*(\w+)' % ENUM[lst], pat)
            if not vs: raise TranslateError('writer %s loop: arm without a variant: %r' % (lst, ws(pat)[:60]))
            for v in vs:
                if v not in VARIANTS[lst]: raise TranslateError('writer %s loop: unknown variant %s' % (lst, v))
            if lst == 'in':
                flat, inner = strip_blocks(arm, r'match\s+removal_reason\s*\{')
                for vec in pushes(flat):
                    for v in vs: add(vec, lst, kinds_of(lst, v))
                for _, ib in inner:
                    for ipat, iarm in G.split_arms(ib):
                        subs = re.findall(r'InboundHTLCRemovalReason\s*::\s*(\w+)', ipat)
                        for vec in pushes(iarm):
                            for v in vs:
                                for s in subs:
                                    if '%s:%s' % (v, s) not in kinds_of(lst, v): raise TranslateError('writer inbound: unknown kind %s:%s' % (v, s))
                                    add(vec, lst, ['%s:%s' % (v, s)])
            elif lst == 'out':
                flat, inner = strip_blocks(arm, r'if\s+let\s+OutboundHTLCOutcome\s*::\s*(\w+)\s*\{[^}]*\}\s*=\s*outcome\s*\{')
                for vec in pushes(flat):
                    for v in vs: add(vec, lst, kinds_of(lst, v))
                for im, ib in inner:
                    for vec in pushes(ib):
                        for v in vs:
                            k = '%s:%s' % (v, im.group(1))
                            if k not in kinds_of(lst, v): raise TranslateError('writer outbound: unknown kind %s' % k)
                            add(vec, lst, [k])
            else:
                for vec in pushes(arm):
                    for v in vs: add(vec, lst, kinds_of(lst, v))
    return rows, skipped

def tlv_list(text, macro):
    m = re.search(r'%s\s*!\s*\(\s*(?:writer|reader)\s*,\s*\{' % macro, text)
    if not m: raise TranslateError('%s! not found' % macro)
    o = m.end() - 1; c = G.match_close(text, o)
    out = {}
    for ent in G.split_top(text[o + 1:c]):
        mm = re.match(r'^\(\s*(\d+)\s*,\s*([\w.]+)\s*,', ws(ent))
        if mm: out[int(mm.group(1))] = mm.group(2)
    return out

def reader_row(r, var):
    """(list, kinds consumed, leftover rejected)"""
    rn = r
    m = re.search(r'if\s+let\s+Some\s*\(\s*(\w+)\s*\)\s*=\s*%s\s*\{' % re.escape(var), rn)
    if m:
        o = m.end() - 1; region = rn[o + 1:G.match_close(rn, o)]
    else:
        # preimages / fulfill_attribution_data: `let mut iter = preimages.into_iter(); let mut …_iter = …; for htlc in … { … } if iter.next().is_some() {…}`
        m = re.search(r'let\s+mut\s+\w+\s*=\s*%s\s*\.\s*(?:into_iter\s*\(\s*\)|map\s*\(\s*Vec\s*::\s*into_iter\s*\))\s*;' % re.escape(var), rn)
        if not m: raise TranslateError('reader: no re-attachment of %s found' % var)
        f = re.search(r'for\s+htlc\s+in\s+\w+\s*\.\s*iter_mut\s*\(\s*\)\s*\{', rn[m.end():])
        if not f or f.start() > 400: raise TranslateError('reader: loop after %s not found' % var)
        o = m.end() + f.end() - 1; c = G.match_close(rn, o)
        itername = re.search(r'let\s+mut\s+(\w+)\s*=\s*%s' % re.escape(var), rn[m.start():m.end()]).group(1)
        tail = rn[c + 1:c + 400]
        region = rn[m.end() + f.start():c + 1] + (tail if re.match(r'\s*if\s+%s\s*\.\s*next\s*\(\s*\)\s*\.\s*is_some' % itername, tail) else '')
    lists = [l for l in LISTVAR if re.search(r'\b%s\b' % l, region)]
    if len(lists) != 1: raise TranslateError('reader: re-attachment of %s walks %r' % (var, lists))
    lst = LISTVAR[lists[0]]
    leftover = bool(re.search(r'\.\s*next\s*\(\s*\)\s*\.\s*is_some\s*\(\s*\)\s*\{\s*return\s+Err', region))
    # kinds
    mm = list(re.finditer(r'match\s+[^{;]+\{', region))
    kinds = set()
    def kinds_from_pat(pat):
        ks = set()
        vs = re.findall(r'%s\s*::\s*(\w+)' % ENUM[lst], pat)
        if lst == 'in':
            subs = re.findall(r'InboundHTLCRemovalReason\s*::\s*(\w+)', pat)
            return vs, subs
        if lst == 'out':
            for piece in pat.split('|'):
                v = re.findall(r'OutboundHTLCState\s*::\s*(\w+)', piece)
                s = re.findall(r'OutboundHTLCOutcome\s*::\s*(\w+)', piece)
                for x in v: ks.update(['%s:%s' % (x, y) for y in s] if s else kinds_of(lst, x))
            return ks, None
        for x in vs: ks.update(kinds_of(lst, x))
        return ks, None
    if lst == 'in':
        outer = re.findall(r'if\s+let\s+InboundHTLCState\s*::\s*(\w+)', region)
        if len(outer) != 1: raise TranslateError('reader %s: expected one `if let InboundHTLCState::…`' % var)
        if mm:
            o = mm[-1].end() - 1; body = region[o + 1:G.match_close(region, o)]
            for pat, arm in G.split_arms(body):
                if ws(pat) == '_':
                    if 'Some' in arm: raise TranslateError('reader %s: `_` arm yields a slot' % var)
                    continue
                subs = re.findall(r'InboundHTLCRemovalReason\s*::\s*(\w+)', pat)
                if 'Some' in arm: kinds.update('%s:%s' % (outer[0], s) for s in subs)
        else: kinds.update(kinds_of(lst, outer[0]))
    elif mm:
        o = mm[-1].end() - 1; body = region[o + 1:G.match_close(region, o)]
        for pat, arm in G.split_arms(body):
            if ws(pat) == '_':
                if re.search(r'Some|next', arm): raise TranslateError('reader %s: `_` arm consumes' % var)
                continue
            if re.search(r'Some|next', arm): kinds.update(kinds_from_pat(pat)[0])
    else:
        g = re.search(r'if\s+let\s+([^=]+?)=\s*htlc\b', region)
        kinds.update(kinds_from_pat(g.group(1))[0] if g else kinds_of(lst))
    for k in kinds:
        if k not in kinds_of(lst): raise TranslateError('reader %s: unknown kind %s' % (var, k))
    if not kinds: raise TranslateError('reader %s: no kind consumes an entry' % var)
    return lst, kinds, leftover

def extract():
    cl = G.clean(open(os.path.join(REPO, 'lightning/src/ln/channel.rs')).read())
    w = F.fn_body(cl, r'impl\s*<[^{;]*>\s*Writeable\s+for\s+FundedChannel\s*<[^{;]*>\s*\{', 'write')
    r = F.fn_body(cl, r'ReadableArgs\s*<[^{;]*>\s*for\s+FundedChannel\s*<[^{;]*>\s*(?:where[^{]*)?\{', 'read')
    wrows, skipped = writer_rows(w)
    wt, rt = tlv_list(w, 'write_tlv_fields'), tlv_list(r, 'read_tlv_fields')
    T = F.extract()
    rows = []
    seen = set()
    for tlv in sorted(wt):
        vec = wt[tlv]
        if vec not in wrows: continue
        seen.add(vec)
        if tlv in EXCLUDED: continue
        if tlv not in rt: raise TranslateError('TLV %d (%s) is written but not read' % (tlv, vec))
        lst, wk = wrows[vec]
        rl, rk, leftover = reader_row(r, rt[tlv])
        if rl != lst: raise TranslateError('TLV %d: written from the %s list, re-attached to the %s list' % (tlv, lst, rl))
        rows.append((tlv, vec, lst, sorted(wk, key=kinds_of(lst).index), rt[tlv], sorted(rk, key=kinds_of(lst).index), leftover))
    for vec in wrows:
        if vec not in seen: raise TranslateError('writer: vector %s is collected but never written as a TLV' % vec)
    if len(rows) < 10: raise TranslateError('only %d side vectors found' % len(rows))
    # written / read-as maps from the state bytes
    hold_w = {}
    hb, _, _ = F.block_after(w, r'for\s+update\s+in\s+self\s*\.\s*context\s*\.\s*holding_cell_htlc_updates\s*\.\s*iter\s*\(\s*\)\s*\{', 'writer holding-cell loop')
    mb, _, _ = F.block_after(hb, r'match\s+update\s*\{', 'writer holding-cell match')
    for pat, arm in G.split_arms(mb):
        vs = re.findall(r'HTLCUpdateAwaitingACK\s*::\s*(\w+)', pat)
        mt = re.search(r'(\d+)u8\s*\.\s*write\s*\(\s*writer\s*\)', arm)
        if not vs or not mt: raise TranslateError('writer holding-cell arm without a byte')
        for v in vs: hold_w[v] = int(mt.group(1))
    hr, _, _ = F.block_after(r, r'holding_cell_htlc_updates\s*\.\s*push\s*\(\s*match\s*<\s*u8\s+as\s+Readable\s*>\s*::\s*read\s*\(\s*reader\s*\)\s*\?\s*\{', 'reader holding-cell match')
    hold_r = F.read_arms(hr, 'HTLCUpdateAwaitingACK', 'reader holding-cell match', VARIANTS['hold'])
    readas = {'in': {}, 'out': {}, 'hold': {}}
    for v in F.IN:
        t = T['wInTag'][v]
        for k in kinds_of('in', v): readas['in'][k] = None if t is None else k.replace(v, T['rInTag'][t], 1)
    for v in F.OUT:
        rv = T['rOutTag'][T['wOutTag'][v]]
        for k in kinds_of('out', v): readas['out'][k] = rv if rv not in SUBS['out'] else (k.replace(v, rv, 1) if ':' in k else None)
    for v in VARIANTS['hold']:
        if v not in hold_w or hold_w[v] not in hold_r: raise TranslateError('holding cell: %s has no byte / reader arm' % v)
        readas['hold'][v] = hold_r[hold_w[v]]
    return rows, readas

def lean_str(s): return '"' + s + '"'
def lean_list(l): return '[' + ', '.join(lean_str(x) for x in l) + ']'

def main(out_path):
    rows, readas = extract()
    L = ['/- GENERATED by tools/gen_chan_sidevecs.py from lightning/src/ln/channel.rs — do not edit.',
         '   The per-HTLC optional vectors FundedChannel::write collects beside the positional HTLC lists and the loops of',
         '   FundedChannel::read that hand the entries back. -/',
         'import LdkModel.Model.ChanSideVecs', 'namespace Ldk.ChanSideVecs.Gen', 'open Ldk.ChanSideVecs', '',
         '/-- (tlv, writer vector, list, kinds in which the writer pushes, reader variable, kinds in which the reader consumes, left-over rejected) -/',
         'def sideRows : List SideRow := [']
    L.append(',\n'.join('  ⟨%d, %s, %s, %s, %s, %s, %s⟩' % (t, lean_str(v), lean_str(l), lean_list(wk), lean_str(rv), lean_list(rk), 'true' if lo else 'false') for t, v, l, wk, rv, rk, lo in rows) + ']')
    L += ['', '/-- (list, kinds of its elements) -/', 'def listKinds : List (String × List String) := [' + ', '.join('(%s, %s)' % (lean_str(l), lean_list(kinds_of(l))) for l in ('in', 'out', 'hold')) + ']', '',
          '/-- (list, kind, the kind it is read back as) for every kind that is written at all (from the state bytes of writer and reader) -/',
          'def readAs : List (String × String × String) := [']
    L.append(',\n'.join('  (%s, %s, %s)' % (lean_str(l), lean_str(k), lean_str(readas[l][k])) for l in ('in', 'out', 'hold') for k in kinds_of(l) if readas[l][k] is not None) + ']')
    L += ['', 'end Ldk.ChanSideVecs.Gen']
    text = '\n'.join(L) + '\n'
    old = open(out_path).read() if os.path.exists(out_path) else None
    if old != text: open(out_path, 'w').write(text)

if __name__ == '__main__':
    try:
        main(sys.argv[1] if len(sys.argv) > 1 else os.path.join(os.path.dirname(__file__), '..', 'lean', 'LdkModel', 'Generated', 'ChanSideVecs.lean'))
    except TranslateError as ex:
        print('TRANSLATE-ERROR gen_chan_sidevecs: %s' % ex)
        sys.exit(2)
