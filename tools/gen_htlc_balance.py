#!/usr/bin/env python3
"""Regenerate lean/LdkModel/Generated/HtlcBalance.lean (C07): the CLASSIFICATION chain at the end of
ChannelMonitorImpl::get_htlc_balance (lightning/src/chain/channelmonitor.rs) — which `Balance` variant an HTLC output of a confirmed
commitment is reported under, arm by arm and in source order:

  if let Some(conf_thresh) = holder_delayed_output_pending           -> <variant>{<height field>: conf_thresh}
  else if <c2: htlc_resolved && !htlc_output_spend_pending>          -> nothing
  else if counterparty_revoked_commitment                            -> (revoked arm, C06)
  else if htlc.offered <==|!=> holder_commitment                     -> if let Some(conf_thresh) = holder_timeout_spend_pending {<variant>} else {<variant>}
  else if let Some(..) = self.payment_preimages.get(..)              -> if let Some((conf_thresh, <flag>)) = htlc_spend_pending {<variant>} else {<variant>}
  else if <c6: !htlc_resolved>                                       -> <variant>
  None

The conditions c2 / c6, the direction operator, the flag literal, the variant and the height expression of every arm are translated;
the skeleton is pinned. Exit 2 with TRANSLATE-ERROR when the shape is no longer recognised.
"""
import re, sys, os
sys.path.insert(0, os.path.dirname(__file__))
from rs2lean import TranslateError, strip_comments

REPO = os.environ.get('VERIF_REPO', '/repo')
SRC = 'lightning/src/chain/channelmonitor.rs'

SKEL = (r'if let Some\(conf_thresh\) = holder_delayed_output_pending \{(?P<b1>.*?)\} else if (?P<c2>[^{]*?) \{(?P<b2>.*?)'
        r'\} else if counterparty_revoked_commitment \{(?P<b3>.*?)\} else if htlc\.offered (?P<dir>==|!=) holder_commitment \{\s*'
        r'if let Some\(conf_thresh\) = holder_timeout_spend_pending \{(?P<b4a>.*?)\} else \{(?P<b4b>.*?)\}\s*'
        r'\} else if let Some\(\(payment_preimage, _\)\) = self\.payment_preimages\.get\(&htlc\.payment_hash\) \{(?P<pre5>.*?)'
        r'if let Some\(\(conf_thresh, (?P<flag>true|false)\)\) = htlc_spend_pending \{(?P<b5a>.*?)\} else \{(?P<b5b>.*?)\}\s*'
        r'\} else if (?P<c6>[^{]*?) \{(?P<b6>.*?)\}\s*None\s*\}')

VARIANT = {'ClaimableAwaitingConfirmations': ('awaiting', 'confirmation_height'), 'MaybeTimeoutClaimableHTLC': ('maybeTimeout', 'claimable_height'),
           'ContentiousClaimable': ('contentious', 'timeout_height'), 'MaybePreimageClaimableHTLC': ('maybePreimage', 'expiry_height')}
HEIGHT = {'conf_thresh': 'conf_thresh', 'htlc.cltv_expiry': 'cltv_expiry'}

def arm(body, what, may_use_conf_thresh):
    rs = re.findall(r'return Some\(Balance::(\w+) \{', body)
    if len(rs) != 1 or rs[0] not in VARIANT:
        raise TranslateError('%s: expected exactly one `return Some(Balance::<known variant> {`, found %r' % (what, rs))
    ctor, field = VARIANT[rs[0]]
    m = re.findall(r'\b%s: ([\w.]+),' % field, body)
    if len(m) != 1 or m[0] not in HEIGHT: raise TranslateError('%s: height field `%s` of %s is %r' % (what, field, rs[0], m))
    if m[0] == 'conf_thresh' and not may_use_conf_thresh: raise TranslateError('%s: conf_thresh is not bound in this arm' % what)
    if not re.search(r'amount_satoshis: htlc\.amount_msat / 1000,', body): raise TranslateError('%s: amount_satoshis is no longer htlc.amount_msat / 1000' % what)
    return '.%s %s' % (ctor, HEIGHT[m[0]]), '%s { %s: %s }' % (rs[0], field, m[0])

def cond(c, what):
    c = ' '.join(c.split())
    toks = re.findall(r'[A-Za-z_]\w*|&&|\|\||!|\(|\)', c)
    if ''.join(toks) != c.replace(' ', ''): raise TranslateError('%s: condition %r has unexpected tokens' % (what, c))
    for t in toks:
        if re.match(r'[A-Za-z_]', t) and t not in ('htlc_resolved', 'htlc_output_spend_pending'):
            raise TranslateError('%s: condition %r mentions %r' % (what, c, t))
    return '(%s)' % c, c

def main(out_path):
    t = strip_comments(open(os.path.join(REPO, SRC)).read())
    i = t.index('fn get_htlc_balance'); j = t.index('pub fn get_claimable_balances', i)
    ms = list(re.finditer(SKEL, t[i:j], re.S))
    if len(ms) != 1: raise TranslateError('get_htlc_balance: the classification chain (delayed output / resolved / revoked / outbound / preimage known / unresolved) was found %d times' % len(ms))
    m = ms[0]
    if 'return' in m.group('b2'): raise TranslateError('get_htlc_balance: the resolved arm returns a balance now')
    if re.findall(r'return Some\(Balance::(\w+)', m.group('b3')) != ['CounterpartyRevokedOutputClaimable']: raise TranslateError('get_htlc_balance: the revoked arm changed')
    if 'return' in m.group('pre5'): raise TranslateError('get_htlc_balance: the preimage arm returns before looking at htlc_spend_pending')
    a1, t1 = arm(m.group('b1'), 'delayed-output arm', True)
    a4a, t4a = arm(m.group('b4a'), 'outbound arm, timeout spend pending', True)
    a4b, t4b = arm(m.group('b4b'), 'outbound arm, nothing pending', False)
    a5a, t5a = arm(m.group('b5a'), 'preimage arm, preimage spend pending', True)
    a5b, t5b = arm(m.group('b5b'), 'preimage arm, otherwise', False)
    a6, t6 = arm(m.group('b6'), 'unresolved arm', False)
    c2, s2 = cond(m.group('c2'), 'arm 2'); c6, s6 = cond(m.group('c6'), 'arm 6')
    L = ['/- GENERATED by tools/gen_htlc_balance.py from %s (get_htlc_balance) — do not edit. -/' % SRC,
         'namespace Ldk.HtlcBalance', '',
         '/-- the `Balance` variants of the non-revoked arms with their height field; `revokedArm` = the arm of a revoked counterparty commitment (C06) -/',
         'inductive Cls', '  | awaiting (confirmation_height : Nat)', '  | contentious (timeout_height : Nat)', '  | maybeTimeout (claimable_height : Nat)',
         '  | maybePreimage (expiry_height : Nat)', '  | revokedArm', 'deriving DecidableEq, Repr, Inhabited', '',
         '/-- get_htlc_balance, the classification chain in source order:',
         '    `if let Some(conf_thresh) = holder_delayed_output_pending` -> %s;' % t1,
         '    `else if %s` -> nothing; `else if counterparty_revoked_commitment` -> revoked arm;' % s2,
         '    `else if htlc.offered %s holder_commitment` -> `if let Some(conf_thresh) = holder_timeout_spend_pending` %s else %s;' % (m.group('dir'), t4a, t4b),
         '    `else if let Some(..) = self.payment_preimages.get(&htlc.payment_hash)` -> `if let Some((conf_thresh, %s)) = htlc_spend_pending` %s else %s;' % (m.group('flag'), t5a, t5b),
         '    `else if %s` -> %s; `None` -/' % (s6, t6),
         'def htlcBalance (holder_delayed_output_pending : Option Nat) (htlc_resolved htlc_output_spend_pending counterparty_revoked_commitment offered holder_commitment : Bool)',
         '    (holder_timeout_spend_pending : Option Nat) (preimage_known : Bool) (htlc_spend_pending : Option (Nat × Bool)) (cltv_expiry : Nat) : Option Cls :=',
         '  match holder_delayed_output_pending with',
         '  | some conf_thresh => some (%s)' % a1,
         '  | none =>',
         '    if %s then none' % c2,
         '    else if counterparty_revoked_commitment then some .revokedArm',
         '    else if (offered %s holder_commitment) then' % m.group('dir'),
         '      match holder_timeout_spend_pending with',
         '      | some conf_thresh => some (%s)' % a4a,
         '      | none => some (%s)' % a4b,
         '    else if preimage_known then',
         '      match htlc_spend_pending with',
         '      | some (conf_thresh, %s) => some (%s)' % (m.group('flag'), a5a),
         '      | _ => some (%s)' % a5b,
         '    else if %s then some (%s)' % (c6, a6),
         '    else none', '', 'end Ldk.HtlcBalance', '']
    new = '\n'.join(L)
    old = open(out_path).read() if os.path.exists(out_path) else None
    if new != old:
        open(out_path, 'w').write(new); print('wrote', out_path)
    else:
        print('unchanged', out_path)

if __name__ == '__main__':
    out = os.path.join(os.path.dirname(os.path.abspath(__file__)), '..', 'lean', 'LdkModel', 'Generated', 'HtlcBalance.lean')
    try:
        main(os.path.normpath(out))
    except TranslateError as e:
        print('TRANSLATE-ERROR gen_htlc_balance.py:', e); sys.exit(2)
