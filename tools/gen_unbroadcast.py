#!/usr/bin/env python3
"""Regenerate lean/LdkModel/Generated/Unbroadcast.lean (C03): the decisions of the LIVE twin of the restart
reconstruction, the macro `fail_unbroadcast_htlcs!` (lightning/src/chain/channelmonitor.rs) — when a commitment
transaction confirms, every outbound HTLC of the two unrevoked counterparty commitments that is not in the confirmed
commitment (or is dust there) is queued as `OnchainEvent::HTLCUpdate { commitment_tx_output_idx: None }` and fails
back after ANTI_REORG_DELAY — translated from the Rust text that is in /repo *now*:

  * when a candidate HTLC counts as present in the confirmed commitment (`matched_htlc`)             -> `fuMatches`;
  * the `counterparty_fulfilled_htlcs` skip                                                          -> `fuSkipFulfilled`;
  * which candidate lists are walked, in order (`$self.funding.{current,prev}_counterparty_commitment_txid`) -> `fuCandidates`;
  * pinned by the template (literal text): `if matched_htlc { continue; }`, no-source candidates are skipped, the retain
    that replaces an older entry of the same source at the same height, the entry pushed (height = the confirmation height,
    `commitment_tx_output_idx: None`), ONE push per surviving candidate;
  * pinned call sites: exactly five, each with `commitment_txid` / `height` and the confirmed list it hands in
    (revoked counterparty: `per_commitment_claimable_data` or EMPTY; counterparty: `per_commitment_claimable_data`;
    holder: CURRENT_WITH_SOURCES iff `current`, else PREV_WITH_SOURCES)                              -> `fuCallSites`.

The whole macro body is matched against a template (comments stripped, whitespace normalised); anything else that
changed is a TRANSLATE-ERROR (exit 2)."""
import re, sys, os
sys.path.insert(0, os.path.dirname(__file__))
from rs2lean import TranslateError, strip_comments, match_brace
from gen_outbound_send import one
from gen_onchain_failed import template_regex, tr, CAND, fail

REPO = os.environ.get('VERIF_REPO', '/repo')
SRC = 'lightning/src/chain/channelmonitor.rs'

TEMPLATE = (
 '{ ($self: expr, $commitment_tx_type: expr, $commitment_txid_confirmed: expr, $commitment_tx_confirmed: expr, $commitment_tx_conf_height: expr, '
 '$commitment_tx_conf_hash: expr, $confirmed_htlcs_list: expr, $logger: expr) => { { '
 'debug_assert_eq!($commitment_tx_confirmed.compute_txid(), $commitment_txid_confirmed); '
 'macro_rules! check_htlc_fails { ($txid: expr, $commitment_tx: expr, $per_commitment_outpoints: expr) => { '
 'if let Some(ref latest_outpoints) = $per_commitment_outpoints { for &(ref htlc, ref source_option) in latest_outpoints.iter() { '
 'if let &Some(ref source) = source_option { '
 'let confirmed_htlcs_iter: &mut dyn Iterator<Item = (&HTLCOutputInCommitment, Option<&HTLCSource>)> = &mut $confirmed_htlcs_list; '
 'let mut matched_htlc = false; for (ref broadcast_htlc, ref broadcast_source) in confirmed_htlcs_iter { '
 'if ⟦match⟧ { matched_htlc = true; break; } } if matched_htlc { continue; } '
 'if ⟦fulfilled⟧ { continue; } '
 '$self.onchain_events_awaiting_threshold_conf.retain(|ref entry| { if entry.height != $commitment_tx_conf_height { return true; } '
 'match entry.event { OnchainEvent::HTLCUpdate { source: ref update_source, .. } => { *update_source != **source }, _ => true, } }); '
 'let entry = OnchainEventEntry { txid: $commitment_txid_confirmed, transaction: Some($commitment_tx_confirmed.clone()), '
 'height: $commitment_tx_conf_height, block_hash: Some(*$commitment_tx_conf_hash), '
 'event: OnchainEvent::HTLCUpdate { source: (**source).clone(), payment_hash: htlc.payment_hash.clone(), '
 'htlc_value_satoshis: htlc.amount_msat / 1000, commitment_tx_output_idx: None, }, }; '
 'log_trace!($logger, "Failing HTLC with payment_hash {} from {} counterparty commitment tx due to broadcast of {} commitment transaction {}, waiting for confirmation (at height {})", '
 '&htlc.payment_hash, $commitment_tx, $commitment_tx_type, $commitment_txid_confirmed, entry.confirmation_threshold()); '
 '$self.onchain_events_awaiting_threshold_conf.push(entry); } } } } } '
 'if let Some(ref txid) = $self.funding.⟦cand1⟧ { check_htlc_fails!(txid, "current", $self.funding.counterparty_claimable_outpoints.get(txid)); } '
 'if let Some(ref txid) = $self.funding.⟦cand2⟧ { check_htlc_fails!(txid, "previous", $self.funding.counterparty_claimable_outpoints.get(txid)); } } } }')

# the log text holds `{}`: template_regex's slot class excludes braces only inside SLOTS, literals are escaped

PER_COMMITMENT = 'per_commitment_claimable_data.iter().map(|(htlc, htlc_source)| (htlc, htlc_source.as_ref().map(|htlc_source| htlc_source.as_ref())) )'
EXPECT_SITES = [  # (commitment_tx_type argument, confirmed list argument, name of the list in the model)
 ('"revoked_counterparty"', PER_COMMITMENT, 'counterpartyConfirmed'),
 ('"revoked counterparty"', '[].iter().map(|reference| *reference)', 'empty'),
 ('"counterparty"', PER_COMMITMENT, 'counterpartyConfirmed'),
 ('current_msg', 'holder_commitment_htlcs!(self, CURRENT_WITH_SOURCES)', 'holderCurrent'),
 ('current_msg', 'holder_commitment_htlcs!(self, PREV_WITH_SOURCES).unwrap()', 'holderPrevious'),
]

def split_args(s):
    out, d, cur = [], 0, ''
    for ch in s:
        if ch in '([{': d += 1
        elif ch in ')]}': d -= 1
        if ch == ',' and d == 0: out.append(one(cur)); cur = ''
        else: cur += ch
    if one(cur): out.append(one(cur))
    return out

def match_paren(s, i):
    d = 0
    for k in range(i, len(s)):
        if s[k] == '(': d += 1
        elif s[k] == ')':
            d -= 1
            if d == 0: return k + 1
    fail('unbalanced parenthesis')

def main(out_path):
    src = open(os.path.join(REPO, SRC)).read()
    if src.count('macro_rules! fail_unbroadcast_htlcs {') != 1: fail('macro fail_unbroadcast_htlcs not found exactly once')
    i = src.index('macro_rules! fail_unbroadcast_htlcs {')
    k = src.index('{', i)
    b = one(strip_comments(src[k:match_brace(src, k)]))
    m = template_regex(TEMPLATE).match(b)
    if not m:
        lit = re.split(r'⟦\w+⟧', TEMPLATE); pos = 0; where = 'start'
        for piece in lit:
            j = b.find(piece, pos)
            if j < 0:
                # narrow down inside the piece
                n = len(piece)
                while n > 20 and b.find(piece[:n], pos) < 0: n -= 10
                where = piece[max(0, n - 60):n + 60]; break
            pos = j + len(piece)
        fail('fail_unbroadcast_htlcs! changed shape near: %r' % where)
    g = {k2: one(v) for k2, v in m.groupdict().items()}
    L = ['/- GENERATED by tools/gen_unbroadcast.py from %s (macro fail_unbroadcast_htlcs!) — do not edit. -/' % SRC,
         'namespace Ldk.UnbroadcastGen', '']
    def emit(doc, sig, bodytext): L.extend(['/-- %s -/' % doc, 'def %s :=' % sig, '  ' + bodytext, ''])
    emit('a candidate HTLC counts as present in the confirmed commitment (`matched_htlc = true`) iff some confirmed entry has `%s`' % g['match'],
         'fuMatches (bIdx : Option Nat) (sameSource bNoSource sameHash sameAmt : Bool) : Bool',
         tr(g['match'], [('broadcast_htlc.transaction_output_index', 'b_idx'), ('Some(&**source) == *broadcast_source', 'same_source'),
                         ('broadcast_source.is_none()', 'b_no_source'), ('broadcast_htlc.payment_hash == htlc.payment_hash', 'same_hash'),
                         ('broadcast_htlc.amount_msat == htlc.amount_msat', 'same_amt')],
            {'b_idx': 'bIdx', 'same_source': 'sameSource', 'b_no_source': 'bNoSource', 'same_hash': 'sameHash', 'same_amt': 'sameAmt'}))
    emit('an unmatched candidate is skipped (`continue`) iff `%s`; `fulfilledEntry` = its entry of `counterparty_fulfilled_htlcs`' % g['fulfilled'],
         'fuSkipFulfilled (fulfilledEntry : Option Nat) : Bool',
         tr(g['fulfilled'], [('$self.counterparty_fulfilled_htlcs.get(&SentHTLCId::from_source(source))', 'fulfilled_entry')], {'fulfilled_entry': 'fulfilledEntry'}))
    L += ['/-- `if matched_htlc { continue; }` (template) -/', 'def fuSkipMatched (matched : Bool) : Bool := matched', '',
          '/-- a surviving candidate is pushed as `HTLCUpdate { commitment_tx_output_idx: None }` at `$commitment_tx_conf_height` (template: unconditional push) -/',
          'def fuQueues : Bool := true', '']
    for k2 in ('cand1', 'cand2'):
        if g[k2] not in CAND: fail('candidate list %s walks $self.funding.%s' % (k2, g[k2]))
    emit('the candidate lists walked, in order: `$self.funding.%s`, `$self.funding.%s`' % (g['cand1'], g['cand2']),
         'fuCandidates {α : Type} (curCp prevCp : α) : List α', '[%s, %s]' % (CAND[g['cand1']], CAND[g['cand2']]))
    # ---- call sites
    s = one(strip_comments(src))
    sites = []
    for mm in re.finditer(r'fail_unbroadcast_htlcs!\(', s):
        e = match_paren(s, mm.end() - 1)
        sites.append(split_args(s[mm.end():e - 1]))
    if len(sites) != len(EXPECT_SITES): fail('expected %d call sites of fail_unbroadcast_htlcs!, found %d' % (len(EXPECT_SITES), len(sites)))
    names = []
    for a, (ty, lst, name) in zip(sites, EXPECT_SITES):
        if len(a) != 8: fail('call site of fail_unbroadcast_htlcs! has %d arguments' % len(a))
        if a[0] != 'self' or a[1] != ty or a[2] != 'commitment_txid' or a[3] != 'commitment_tx' or a[4] != 'height' or a[5] != 'block_hash':
            fail('call site %s of fail_unbroadcast_htlcs! changed its txid / height arguments: %r' % (ty, a[:6]))
        if one(a[6]) != one(lst): fail('call site %s of fail_unbroadcast_htlcs! hands in a different confirmed list: %r' % (ty, a[6]))
        names.append(name)
    if not re.search(r'if current \{ fail_unbroadcast_htlcs!\( self, current_msg, commitment_txid, commitment_tx, height, block_hash, holder_commitment_htlcs!\(self, CURRENT_WITH_SOURCES\), logger \); \} '
                     r'else \{ fail_unbroadcast_htlcs!\( self, current_msg, commitment_txid, commitment_tx, height, block_hash, holder_commitment_htlcs!\(self, PREV_WITH_SOURCES\)\.unwrap\(\), logger \); \}', s):
        fail('the holder call sites are no longer `if current { CURRENT_WITH_SOURCES } else { PREV_WITH_SOURCES }`')
    if not re.search(r'let per_commitment_option = funding_spent\.counterparty_claimable_outpoints\.get\(&commitment_txid\);', s):
        fail('per_commitment_option is no longer funding_spent.counterparty_claimable_outpoints.get(&commitment_txid)')
    L += ['/-- the five call sites, in source order: which confirmed list each hands to the macro (pinned text) -/',
          'def fuCallSites : List String :=', '  [%s]' % ', '.join('"%s"' % n for n in names), '']
    L.append('end Ldk.UnbroadcastGen')
    text = '\n'.join(L) + '\n'
    old = open(out_path).read() if os.path.exists(out_path) else None
    if old != text:
        os.makedirs(os.path.dirname(out_path), exist_ok=True)
        open(out_path, 'w').write(text)
        print('wrote', out_path)
    else:
        print('unchanged', out_path)

if __name__ == '__main__':
    out = os.path.join(os.path.dirname(os.path.abspath(__file__)), '..', 'lean', 'LdkModel', 'Generated', 'Unbroadcast.lean')
    if len(sys.argv) > 1: out = sys.argv[1]
    try:
        main(os.path.normpath(out))
    except TranslateError as e:
        print('TRANSLATE-ERROR gen_unbroadcast.py:', e)
        sys.exit(2)
