-- Root of the `LdkModel` library: imports every property module.
import LdkModel.Props.C01
import LdkModel.Props.C03
import LdkModel.Props.C04
import LdkModel.Props.C05
import LdkModel.Props.C08
import LdkModel.Props.C09
import LdkModel.Props.C13
import LdkModel.Props.C14
import LdkModel.Props.C15
import LdkModel.Props.C16
import LdkModel.Props.C17
import LdkModel.Props.C18
import LdkModel.Props.C19
import LdkModel.Props.C20
