-- Root of the `LdkModel` library: imports every property module.
import LdkModel.Props.C01
import LdkModel.Props.C05
import LdkModel.Props.C08
import LdkModel.Props.C13
import LdkModel.Props.C20
