-- Root of the `LdkModel` library: imports every property module.
import LdkModel.Props.C08
