import LdkModel.Driver.Util
import LdkModel.Model.Bolt11
import LdkModel.Model.Merkle
import LdkModel.Model.OfferMeta
import LdkModel.Model.OfferMirror
import LdkModel.Model.OfferReaders
import LdkModel.Prim.Hmac
namespace Ldk.Driver
open Ldk Ldk.Prim.Bech32

namespace C18

def symStr (p : List U5) : String := String.ofList (p.map symToChar)

def fieldStr (f : Bolt11.Field) : String :=
  toString f.tag.toNat ++ (if f.known then "k" else "u") ++ "=" ++ symStr f.payload

def optNat : Option Nat → String
  | some n => toString n
  | none => "none"

def chars (cs : List Char) : String := String.ofList cs

/-- canonical dump of a parsed `SignedRawBolt11Invoice` -/
def dump (input : List UInt8) (i : Bolt11.SignedRaw) : String :=
  let same := if i.toBytes == input.map Bolt11.toLower then "1" else "0"
  let fields := if i.fields.isEmpty then "-" else ",".intercalate (i.fields.map fieldStr)
  s!"ok same={same} {chars i.hrp.toChars} {optNat i.hrp.amountPico} {if i.hrp.amountOk then 1 else 0} " ++
  s!"{i.timestamp} {fields} {hex (fesToBytes i.sig)} {hex (i.signableHash Ldk.Prim.sha256)}"

def b11 (s : List UInt8) : String :=
  match Bolt11.parseSigned s with
  | .error .panicked => "panic"
  | .error e => "err " ++ e.name
  | .ok i => dump s i

def semOp (s : List UInt8) (sigValid : Bool) : String :=
  match Bolt11.parseSigned s with
  | .error _ => "noparse"
  | .ok i =>
    match Bolt11.fromSigned sigValid i with
    | .ok _ => "ok"
    | .error e => "err " ++ e.name

def hrpOp (s : List UInt8) : String :=
  match Bolt11.parseHrp (s.map (fun b => Char.ofNat b.toNat)) with
  | .error e => "err " ++ e.name
  | .ok h =>
    let cur := chars h.currency.code
    let si := match h.si with | some p => String.singleton p.letter | none => "none"
    s!"ok {cur} {optNat h.rawAmount} {si} {optNat h.amountPico} {optNat h.amountMsat} {if h.amountOk then 1 else 0} {chars h.toChars}"

def currencyOf (s : String) : Option Bolt11.Currency := Bolt11.Currency.ofCode s.toList

def amtOp (cur : String) (m : String) : String :=
  match currencyOf cur with
  | none => "bad-op"
  | some c =>
    match Bolt11.hrpOfAmount c (if m == "none" then none else some (nat! m)) with
    | none => "err InvalidAmount"
    | some h => "ok " ++ chars h.toChars

/-- builder-side verdicts on one number (the translated comparisons of Generated/C18Bounds.lean) -/
def verdict (ok : Bool) (err : String) : String := if ok then "ok" else "err " ++ err

/-- an `x` / `c` payload as ser.rs writes it: announced length (`encoded_int_be_base32_size`), digits -/
def intEnc (v : Nat) : String :=
  s!"{Bolt11.encodedIntBeBase32Size v} {hex (Bolt11.encodeIntBe v)}"

/-- merkle root: list formulation and the verbatim in-place loop must agree -/
def merkle (b : List UInt8) : String :=
  match Merkle.parseStream b with
  | none => "err malformed"
  | some rs =>
    let r1 := Merkle.rootHash Merkle.shaH rs
    let r2 := Merkle.rootHashInPlace Merkle.shaH rs
    let r3 := Merkle.rootHashInPlaceArr Merkle.shaH rs
    if r1 != r2 || r1 != r3 then "model-internal-mismatch" else if r1.isEmpty then "err empty" else hex r1

def digest (tag b : List UInt8) : String :=
  match Merkle.parseStream b with
  | none => "err malformed"
  | some rs =>
    let r := Merkle.rootHash Merkle.shaH rs
    if r.isEmpty then "err empty" else hex (Merkle.sigDigest tag r)

def recordsOf (b : List UInt8) : Option (List UInt8) :=
  (Merkle.parseStream b).map (fun rs => rs.flatMap (·.recordBytes))

def mverify (payer : Bool) (key iv md tlv : List UInt8) : String :=
  match recordsOf tlv with
  | none => "err malformed"
  | some recs =>
    -- the ops only use metadata lengths whose verdict does not depend on the public key
    let v := if payer then OfferMeta.verifyPayer Ldk.Prim.hmacSha256 (fun _ => []) key iv [0] recs md
             else OfferMeta.verifyRecipient Ldk.Prim.hmacSha256 (fun _ => []) key iv [0] recs md
    match v with
    | .err => "err"
    | .okNoKeys => "ok"
    | .okKeys _ => "ok-keys"

/-- secp256k1 evaluations handed in by the harness (`Keypair::from_secret_key`, trusted dependency):
    `-` (none) or `<secret-hex>:<compressed-pubkey-hex>`; an unknown secret has no public key -/
def pubTable (t : String) : List UInt8 → List UInt8 :=
  match t.splitOn ":" with
  | [s, p] => fun h => if h == unhex s then unhex p else []
  | _ => fun _ => []

/-- the whole verdict of verify_recipient_metadata / verify_payer_metadata_inner, including the public
    key comparison (the translated `C18Meta.keysEq` on 33-byte compressed keys) -/
def mkeys (payer : Bool) (key iv md pk : List UInt8) (tbl : String) (tlv : List UInt8) : String :=
  match recordsOf tlv with
  | none => "err malformed"
  | some recs =>
    let v := if payer then OfferMeta.verifyPayer Ldk.Prim.hmacSha256 (pubTable tbl) key iv pk recs md
             else OfferMeta.verifyRecipient Ldk.Prim.hmacSha256 (pubTable tbl) key iv pk recs md
    match v with
    | .err => "err"
    | .okNoKeys => "ok"
    | .okKeys sk => "keys " ++ hex sk

def mhmac (payer : Bool) (key iv md tlv : List UInt8) : String :=
  match recordsOf tlv with
  | none => "err malformed"
  | some recs =>
    let r := if payer then
        (if md.length < OfferMeta.PAYMENT_ID_LEN then none
         else OfferMeta.verifyHmac Ldk.Prim.hmacSha256 key iv (md.drop OfferMeta.PAYMENT_ID_LEN)
                (some (md.take OfferMeta.PAYMENT_ID_LEN)) recs)
      else OfferMeta.verifyHmac Ldk.Prim.hmacSha256 key iv md none recs
    match r with
    | none => "err"
    | some h => hex h

/-- offer verification; in the key-deriving mode the public key of the recomputed HMAC comes from the
    harness table and is compared with the issuer id by the translated `keysEq` -/
def offerVerifyOp (key nonce : List UInt8) (tbl : String) (b : List UInt8) : String :=
  match Merkle.parseStream b with
  | none => "err malformed"
  | some rs =>
    match OfferMeta.offerVerify Ldk.Prim.hmacSha256 (pubTable tbl) key (if nonce.isEmpty then none else some nonce) rs with
    | .err => "err"
    | .okNoKeys => "ok"
    | .okKeys sk => "keys " ++ hex sk

/-- invoice verification by the payer; key-deriving mode as in `offerVerifyOp` -/
def invoiceVerifyOp (key : List UInt8) (tbl : String) (b : List UInt8) : String :=
  match Merkle.parseStream b with
  | none => "err malformed"
  | some rs =>
    match OfferMeta.invoiceVerify Ldk.Prim.hmacSha256 (pubTable tbl) key rs with
    | .err => "err"
    | .okNoKeys => "ok"
    | .okKeys _ => "ok"

/-- rebuild a signed invoice request from the offer bytes / an invoice from the request's or refund's
    bytes with the translated write plan, given the message's own records -/
def mirrorOp (kind : String) (src payer own expOwn sig : List UInt8) : String :=
  let plan := if kind == "req" then C18Mirror.invreqPlan else if kind == "sinv" then C18Mirror.staticInvoicePlan else C18Mirror.invoicePlan
  match OfferMirror.build plan src ⟨payer, own, expOwn, sig⟩ with
  | none => "err malformed"
  | some b => hex b

/-- sign a RE-PARSED unsigned invoice request / invoice (TryFrom<Vec<u8>> then sign): the signed bytes
    under the translated split range, and the verdict "ascending, parses back to the same records" -/
def resignOp (kind : String) (b sig : List UInt8) : String :=
  let p := if kind == "req" then C18Mirror.invreqSplitIn else C18Mirror.invoiceSplitIn
  match OfferMirror.signReparsed p b sig with
  | none => "err malformed"
  | some out => OfferMirror.resignVerdict p b sig ++ " " ++ hex out

/-- `Unsigned*::try_from(b).write()` under the translated split range and write plan -/
def uwriteOp (kind : String) (b : List UInt8) : String :=
  let r := if kind == "req" then OfferMirror.rewriteUnsigned C18Mirror.invreqSplitIn C18Mirror.invreqUnsignedWrite b
           else OfferMirror.rewriteUnsigned C18Mirror.invoiceSplitIn C18Mirror.invoiceUnsignedWrite b
  match r with
  | none => "err malformed"
  | some out => hex out

end C18

def c18b11 : Drv where
  σ := Unit
  init := ()
  step := fun _ ws =>
    match ws with
    | ["b11", s] => ((), C18.b11 (unhex s))
    | ["sem", s, v] => ((), C18.semOp (unhex s) (v == "1"))
    | ["hrp", s] => ((), C18.hrpOp (unhex s))
    | ["amt", cur, m] => ((), C18.amtOp cur m)
    | ["ts", n] => ((), C18.verdict (Bolt11.positiveTimestamp (nat! n)).isSome "TimestampOutOfBounds")
    | ["dlen", n] => ((), C18.verdict (Bolt11.descriptionLenOk (nat! n)) "DescriptionTooLong")
    | ["mlen", n] => ((), C18.verdict (Bolt11.paymentMetadataLenOk (nat! n)) "PaymentMetadataTooLong")
    | ["hops", n] => ((), C18.verdict (C18Bounds.privateRouteHopsOk (nat! n)) "RouteTooLong")
    | ["intenc", v] => ((), C18.intEnc (nat! v))
    | ["chk", h, d] => ((), hex (createChecksum (unhex h) (unhex d)))
    | ["to5", b] => ((), hex (bytesToFes (unhex b)))
    | ["to8", f] => ((), hex (fesToBytes (unhex f)))
    | _ => ((), "bad-op")

def c18b12 : Drv where
  σ := Unit
  init := ()
  step := fun _ ws =>
    match ws with
    | ["merkle", b] => ((), C18.merkle (unhex b))
    | ["digest", t, b] => ((), C18.digest (unhex t) (unhex b))
    | ["mverify", k, key, iv, md, tlv] => ((), C18.mverify (k == "p") (unhex key) (unhex iv) (unhex md) (unhex tlv))
    | ["invverify", key, tbl, b] => ((), C18.invoiceVerifyOp (unhex key) tbl (unhex b))
    | ["offerverify", key, nonce, tbl, b] => ((), C18.offerVerifyOp (unhex key) (unhex nonce) tbl (unhex b))
    | ["mirror", kind, src, payer, own, expOwn, sig] =>
      ((), C18.mirrorOp kind (unhex src) (unhex payer) (unhex own) (unhex expOwn) (unhex sig))
    | ["uwrite", kind, b] => ((), C18.uwriteOp kind (unhex b))
    | ["resign", kind, b, sig] => ((), C18.resignOp kind (unhex b) (unhex sig))
    | ["readers", chain, b] => ((), OfferReaders.readersVerdict chain (unhex b))
    | ["mkeys", k, key, iv, md, pk, tbl, tlv] => ((), C18.mkeys (k == "p") (unhex key) (unhex iv) (unhex md) (unhex pk) tbl (unhex tlv))
    | ["mhmac", k, key, iv, md, tlv] => ((), C18.mhmac (k == "p") (unhex key) (unhex iv) (unhex md) (unhex tlv))
    | _ => ((), "bad-op")

end Ldk.Driver
