import LdkModel.Driver.C03
import LdkModel.Driver.C03Chain
def main (args : List String) : IO UInt32 := Ldk.Driver.runMain [("c03pay", Ldk.Driver.c03), ("c03e2e", Ldk.Driver.c03), ("c03chain", Ldk.Driver.c03chain)] args
