import LdkModel.Driver.C03
def main (args : List String) : IO UInt32 := Ldk.Driver.runMain [("c03pay", Ldk.Driver.c03), ("c03e2e", Ldk.Driver.c03)] args
