import LdkModel.Driver.Util
import LdkModel.Model.TlvFrame
import LdkModel.Generated.TlvSchemas
import LdkModel.Generated.SerPrims
/-! C12 model driver (frame level: version prefix + TLV stream rules over the generated (type, kind) lists).  ops:
    frame <Block> <hex>      `frameDecode` of the TLV stream part of an object (no length prefix): `ok` / `err <DecodeError>`
                             — the verdict predicted from the (type, kind) list alone (payloads opaque)
    lpframe <Block> <hex>    `readTlvFields`: BigSize length ++ stream ++ trailing bytes: `ok <trailing byte count>` / `err …`
    lptrunc <Block> <hex>    same, for a cut inside the payload of a known record: the error kind is decided inside the
                             opaque field decoder, so only `err` (any kind) / `ok <n>` is predicted
    ver <this> <hex>         `readVerPrefix this`: `ok <version> <rest byte count>` / `err …`
    variant <Enum> <id>      `classifyVariant` over the generated variant ids: struct / tuple / skipped / rejected
    colllen <n>              `SerPrims.collLenEncode n` (TRANSLATED CollectionLength writer): hex
    colllen_rd <hex>         `SerPrims.collLenDecode`: `ok <n> <rest byte count>` / `err …`
    bigsize <n>              `SerPrims.bigSizeEncode n` (TRANSLATED BigSize writer): hex
    bigsize_rd <hex>         `SerPrims.bigSizeDecode`: `ok <n> <rest byte count>` / `err …`
    hzd_rd <len> <hex>       `SerPrims.hzdDecode len` (TRANSLATED HighZeroBytesDroppedBigSize reader, whole input = its reader) -/
namespace Ldk.Driver
open Ldk.Codec Ldk.TlvFrame Ldk.TlvFrame.Gen

def findBlock (n : String) : Option FrameSchema := generatedTlvSchemas.find? (·.name == n)

def c12 : Drv where
  σ := Unit
  init := ()
  step := fun _ ws =>
    match ws with
    | ["frame", name, h] =>
      match findBlock name with
      | none => ((), "no-schema")
      | some s =>
        match frameDecode s (unhex h) with
        | .ok _ => ((), "ok")
        | .error e => ((), "err " ++ e.name)
    | ["lpframe", name, h] =>
      match findBlock name with
      | none => ((), "no-schema")
      | some s =>
        match readTlvFields s (unhex h) with
        | .ok (_, rest) => ((), s!"ok {rest.length}")
        | .error e => ((), "err " ++ e.name)
    | ["lptrunc", name, h] =>
      match findBlock name with
      | none => ((), "no-schema")
      | some s =>
        match readTlvFields s (unhex h) with
        | .ok (_, rest) => ((), s!"ok {rest.length}")
        | .error _ => ((), "err")
    | ["ver", this, h] =>
      match readVerPrefix (nat! this) (unhex h) with
      | .ok (v, rest) => ((), s!"ok {v} {rest.length}")
      | .error e => ((), "err " ++ e.name)
    | ["variant", name, id] =>
      match generatedEnums.find? (·.1 == name) with
      | none => ((), "no-enum")
      | some (_, upg, si, ti) =>
        ((), match classifyVariant upg si ti (nat! id) with
          | .struct => "struct" | .tuple => "tuple" | .skipped => "skipped" | .rejected => "rejected")
    | ["colllen", n] => ((), hex (SerPrims.collLenEncode (nat! n)))
    | ["colllen_rd", h] =>
      match SerPrims.collLenDecode (unhex h) with
      | .ok (n, rest) => ((), s!"ok {n} {rest.length}")
      | .error e => ((), "err " ++ e.name)
    | ["bigsize", n] => ((), hex (SerPrims.bigSizeEncode (nat! n)))
    | ["bigsize_rd", h] =>
      match SerPrims.bigSizeDecode (unhex h) with
      | .ok (n, rest) => ((), s!"ok {n} {rest.length}")
      | .error e => ((), "err " ++ e.name)
    | ["hzd_rd", len, h] =>
      match SerPrims.hzdDecode (nat! len) (unhex h) with
      | .ok (n, rest) => ((), s!"ok {n} {rest.length}")
      | .error e => ((), "err " ++ e.name)
    | _ => ((), "bad-op")

end Ldk.Driver
