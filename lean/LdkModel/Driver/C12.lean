import LdkModel.Driver.Util
import LdkModel.Model.TlvFrame
import LdkModel.Generated.TlvSchemas
import LdkModel.Generated.SerPrims
import LdkModel.Model.ChanForget
import LdkModel.Generated.ChanSideVecs
/-! C12 model driver (frame level: version prefix + TLV stream rules over the generated (type, kind) lists).  ops:
    frame <Block> <hex>      `frameDecode` of the TLV stream part of an object (no length prefix): `ok` / `err <DecodeError>`
                             — the verdict predicted from the (type, kind) list alone (payloads opaque)
    lpframe <Block> <hex>    `readTlvFields`: BigSize length ++ stream ++ trailing bytes: `ok <trailing byte count>` / `err …`
    lptrunc <Block> <hex>    same, for a cut inside the payload of a known record: the error kind is decided inside the
                             opaque field decoder, so only `err` (any kind) / `ok <n>` is predicted
    ver <this> <hex>         `readVerPrefix this`: `ok <version> <rest byte count>` / `err …`
    variant <Enum> <id>      `classifyVariant` over the generated variant ids: struct / tuple / skipped / rejected
    colllen <n>              `SerPrims.collLenEncode n` (TRANSLATED CollectionLength writer): hex
    colllen_rd <hex>         `SerPrims.collLenDecode`: `ok <n> <rest byte count>` / `err …`
    bigsize <n>              `SerPrims.bigSizeEncode n` (TRANSLATED BigSize writer): hex
    bigsize_rd <hex>         `SerPrims.bigSizeDecode`: `ok <n> <rest byte count>` / `err …`
    hzd_rd <len> <hex>       `SerPrims.hzdDecode len` (TRANSLATED HighZeroBytesDroppedBigSize reader, whole input = its reader)
    forget_disk <chan>       `ChanForget.readChan (writeChan c)` over the TRANSLATED forget table (Generated/ChanForget.lean): `<chan>` / `err`
    forget_mem <chan>        `ChanForget.forget c` (remove_uncommitted_htlcs_and_mark_paused): `<chan>`
    sidevec <tlv> <elems>    `ChanSideVecs.roundTrip` of the TRANSLATED row of that TLV over kind=value,… (value `-` = None): `ok <elems>` / `err` / `no-row`
    forget_retx <chan>       `recvAll (readChan (writeChan c)) (retransmit c)`: `ok` (and the state is restored) / `refused` / `differs`
                             <chan> = <outbound 0|1> <next_holder_htlc_id> <next_counterparty_htlc_id> <fee rate:State|-> <holding-cell fee n|->
                                      <inbound id:State,…|-> <outbound id:State,…|-> <holding-cell entries> -/
namespace Ldk.Driver
open Ldk.Codec Ldk.TlvFrame Ldk.TlvFrame.Gen


namespace ChanForgetIO
open Ldk.ChanForget

def inName : InSt → String
  | .remoteAnnounced => "RemoteAnnounced" | .awaitingRemoteRevokeToAnnounce => "AwaitingRemoteRevokeToAnnounce"
  | .awaitingAnnouncedRemoteRevoke => "AwaitingAnnouncedRemoteRevoke" | .committed => "Committed" | .localRemoved => "LocalRemoved"
def outName : OutSt → String
  | .localAnnounced => "LocalAnnounced" | .committed => "Committed" | .remoteRemoved => "RemoteRemoved"
  | .awaitingRemoteRevokeToRemove => "AwaitingRemoteRevokeToRemove" | .awaitingRemovedRemoteRevoke => "AwaitingRemovedRemoteRevoke"
def feeName : FeeSt → String
  | .remoteAnnounced => "RemoteAnnounced" | .awaitingRemoteRevokeToAnnounce => "AwaitingRemoteRevokeToAnnounce" | .outbound => "Outbound"
def allIn : List InSt := [.remoteAnnounced, .awaitingRemoteRevokeToAnnounce, .awaitingAnnouncedRemoteRevoke, .committed, .localRemoved]
def allOut : List OutSt := [.localAnnounced, .committed, .remoteRemoved, .awaitingRemoteRevokeToRemove, .awaitingRemovedRemoteRevoke]
def allFee : List FeeSt := [.remoteAnnounced, .awaitingRemoteRevokeToAnnounce, .outbound]

def parsePairs {α : Type} (names : List (String × α)) (s : String) : Option (List (Nat × α)) :=
  if s == "-" then some [] else
  (s.splitOn ",").foldr (fun t acc =>
    match acc, t.splitOn ":" with
    | some l, [i, n] => match names.find? (·.1 == n) with
      | some (_, v) => some ((nat! i, v) :: l)
      | none => none
    | _, _ => none) (some [])

def parseChan (ws : List String) : Option Chan :=
  match ws with
  | [ob, nh, ncp, fee, hfee, inb, outb, hold] =>
    match parsePairs (allIn.map fun v => (inName v, v)) inb, parsePairs (allOut.map fun v => (outName v, v)) outb,
          parsePairs (allFee.map fun v => (feeName v, v)) fee with
    | some i, some o, some f =>
      some { outbound := ob == "1", inb := i, outb := o, fee := f.head?, holdFee := if hfee == "-" then none else some (nat! hfee),
             hold := List.replicate (nat! hold) 0, nextHolder := nat! nh, nextCp := nat! ncp }
    | _, _, _ => none
  | _ => none

def showPairs {α : Type} (nm : α → String) (l : List (Nat × α)) : String :=
  if l.isEmpty then "-" else ",".intercalate (l.map fun h => s!"{h.1}:{nm h.2}")

def showChan (c : Chan) : String :=
  let fee := match c.fee with | some (r, s) => s!"{r}:{feeName s}" | none => "-"
  let hfee := match c.holdFee with | some r => s!"{r}" | none => "-"
  s!"{if c.outbound then 1 else 0} {c.nextHolder} {c.nextCp} {fee} {hfee} {showPairs inName c.inb} {showPairs outName c.outb} {c.hold.length}"

end ChanForgetIO

open Ldk.ChanForget in
def forgetOp (kind : String) (ws : List String) : String :=
  match ChanForgetIO.parseChan ws with
  | none => "bad-chan"
  | some c =>
    if kind == "forget_mem" then ChanForgetIO.showChan (forget c)
    else match readChan c.outbound (writeChan c) with
      | none => "err"
      | some c' =>
        if kind == "forget_disk" then ChanForgetIO.showChan c'
        else match recvAll c' (retransmit c) with
          | none => "refused"
          | some c'' => if c'' == { c with outb := c.outb.map (fun h => (h.1, Gen.mOutReset h.2)) } then "ok" else "differs"

open Ldk.ChanSideVecs in
def sidevecOp (tlv elems : String) : String :=
  match Ldk.ChanSideVecs.Gen.sideRows.find? (·.tlv == nat! tlv) with
  | none => "no-row"
  | some r =>
    let l : List Elem := if elems == "-" then [] else (elems.splitOn ",").map fun t =>
      match t.splitOn "=" with
      | [k, v] => (k, if v == "-" then none else some (nat! v))
      | _ => (t, none)
    match roundTrip Ldk.ChanSideVecs.Gen.readAs r l with
    | none => "err"
    | some out => "ok " ++ (if out.isEmpty then "-" else ",".intercalate (out.map fun e => e.1 ++ "=" ++ (match e.2 with | some v => toString v | none => "-")))

def findBlock (n : String) : Option FrameSchema := generatedTlvSchemas.find? (·.name == n)

def c12 : Drv where
  σ := Unit
  init := ()
  step := fun _ ws =>
    match ws with
    | ["frame", name, h] =>
      match findBlock name with
      | none => ((), "no-schema")
      | some s =>
        match frameDecode s (unhex h) with
        | .ok _ => ((), "ok")
        | .error e => ((), "err " ++ e.name)
    | ["lpframe", name, h] =>
      match findBlock name with
      | none => ((), "no-schema")
      | some s =>
        match readTlvFields s (unhex h) with
        | .ok (_, rest) => ((), s!"ok {rest.length}")
        | .error e => ((), "err " ++ e.name)
    | ["lptrunc", name, h] =>
      match findBlock name with
      | none => ((), "no-schema")
      | some s =>
        match readTlvFields s (unhex h) with
        | .ok (_, rest) => ((), s!"ok {rest.length}")
        | .error _ => ((), "err")
    | ["ver", this, h] =>
      match readVerPrefix (nat! this) (unhex h) with
      | .ok (v, rest) => ((), s!"ok {v} {rest.length}")
      | .error e => ((), "err " ++ e.name)
    | ["variant", name, id] =>
      match generatedEnums.find? (·.1 == name) with
      | none => ((), "no-enum")
      | some (_, upg, si, ti) =>
        ((), match classifyVariant upg si ti (nat! id) with
          | .struct => "struct" | .tuple => "tuple" | .skipped => "skipped" | .rejected => "rejected")
    | ["colllen", n] => ((), hex (SerPrims.collLenEncode (nat! n)))
    | ["colllen_rd", h] =>
      match SerPrims.collLenDecode (unhex h) with
      | .ok (n, rest) => ((), s!"ok {n} {rest.length}")
      | .error e => ((), "err " ++ e.name)
    | ["bigsize", n] => ((), hex (SerPrims.bigSizeEncode (nat! n)))
    | ["bigsize_rd", h] =>
      match SerPrims.bigSizeDecode (unhex h) with
      | .ok (n, rest) => ((), s!"ok {n} {rest.length}")
      | .error e => ((), "err " ++ e.name)
    | ["hzd_rd", len, h] =>
      match SerPrims.hzdDecode (nat! len) (unhex h) with
      | .ok (n, rest) => ((), s!"ok {n} {rest.length}")
      | .error e => ((), "err " ++ e.name)
    | ["sidevec", tlv, elems] => ((), sidevecOp tlv elems)
    | "forget_disk" :: rest => ((), forgetOp "forget_disk" rest)
    | "forget_mem" :: rest => ((), forgetOp "forget_mem" rest)
    | "forget_retx" :: rest => ((), forgetOp "forget_retx" rest)
    | _ => ((), "bad-op")

end Ldk.Driver
