/- Line-protocol plumbing for the model driver (no Mathlib; links as a native executable). -/
namespace Ldk.Driver

structure Drv where
  σ : Type
  init : σ
  /-- one op (already split on spaces) → new state and the canonical one-line answer -/
  step : σ → List String → σ × String

def words (line : String) : List String :=
  (line.trimAscii.toString.splitOn " ").filter (· ≠ "")

def nat! (s : String) : Nat := s.toNat?.getD 0

def hexDigit (c : Char) : Nat :=
  if '0' ≤ c ∧ c ≤ '9' then c.toNat - '0'.toNat
  else if 'a' ≤ c ∧ c ≤ 'f' then c.toNat - 'a'.toNat + 10
  else if 'A' ≤ c ∧ c ≤ 'F' then c.toNat - 'A'.toNat + 10 else 0

def unhex (s : String) : List UInt8 :=
  if s == "-" then [] else
  let rec go : List Char → List UInt8
    | a :: b :: rest => UInt8.ofNat (hexDigit a * 16 + hexDigit b) :: go rest
    | _ => []
  go s.toList

def hexChar (n : Nat) : Char := if n < 10 then Char.ofNat (48 + n) else Char.ofNat (87 + n)

def hex (b : List UInt8) : String :=
  if b.isEmpty then "-" else
  String.ofList (b.foldr (fun x acc => hexChar (x.toNat / 16) :: hexChar (x.toNat % 16) :: acc) [])

partial def loop (h : IO.FS.Stream) (out : IO.FS.Stream) (d : Drv) (s : d.σ) : IO Unit := do
  let line ← h.getLine
  if line.isEmpty then return ()
  let (s', o) := d.step s (words line)
  out.putStrLn o
  loop h out d s'

end Ldk.Driver

namespace Ldk.Driver
/-- entry point shared by the per-property driver executables: `drv_cNN <model> < ops` -/
def runMain (models : List (String × Drv)) (args : List String) : IO UInt32 := do
  match args with
  | [m] =>
    match models.lookup m with
    | some d => loop (← IO.getStdin) (← IO.getStdout) d d.init; return 0
    | none => IO.eprintln s!"unknown model {m}"; return 2
  | _ => IO.eprintln "usage: drv <model> < ops"; return 2
end Ldk.Driver
