import LdkModel.Driver.Util
import LdkModel.Model.ChainSync
/- C20 driver: replays the harness's op lines on the model of lightning-block-sync.
   ops: tree | block <id> <parent> <height> <work> | client <tip> <cached ids…> | best <id> |
        clientinit | hidden <ids…> | sched <failing request indices…> | poll <fingerprint> | init <id:height:p1,p2,-,…>… -/
namespace Ldk.Driver
open Ldk Ldk.ChainSync

structure C20State where
  tree : Tree := []
  client : Option Client := none
  best : Nat := 0
  hidden : List Nat := []
  sched : List Nat := []
  lastInit : Option Client := none

def c20Source (st : C20State) : Source :=
  { tree := st.tree, best := st.best, fails := fun i => st.sched.contains i, hidden := fun h => st.hidden.contains h }

def showNotif : Notif → String
  | .disconnected h ht => s!"D {h} {ht}"
  | .connected h ht => s!"C {h} {ht}"

def showNotifs (ns : List Notif) : String := " ".intercalate (ns.map showNotif)

def parseLocator (s : String) : Locator :=
  match s.splitOn ":" with
  | [h, ht, ps] =>
    { hash := nat! h, height := nat! ht,
      prevs := if ps == "" then [] else (ps.splitOn ",").map (fun p => if p == "-" then none else some (nat! p)) }
  | _ => { hash := 0, height := 0, prevs := [] }

def sortNats (l : List Nat) : List Nat := (l.toArray.qsort (· < ·)).toList

def c20 : Drv where
  σ := C20State
  init := {}
  step := fun st ws =>
    match ws with
    | ["tree"] => ({}, "ok")
    | ["block", i, p, h, w] =>
      ({ st with tree := { hash := nat! i, parent := nat! p, height := nat! h, work := nat! w } :: st.tree }, "ok")
    | "client" :: tip :: cached =>
      match hdrOf st.tree (nat! tip) with
      | some t => ({ st with client := some ⟨t, cached.filterMap (fun x => hdrOf st.tree (nat! x))⟩ }, "ok")
      | none => (st, "bad-op")
    | ["best", b] => ({ st with best := nat! b }, "ok")
    | "hidden" :: ids => ({ st with hidden := ids.map nat! }, "ok")
    | "sched" :: ids => ({ st with sched := ids.map nat! }, "ok")
    | ["clientinit"] => ({ st with client := st.lastInit }, if st.lastInit.isSome then "ok" else "bad-op")
    | ["poll", _] =>
      match st.client with
      | none => (st, "bad-op")
      | some cl =>
        let o := pollBestTip (c20Source st) cl
        let head := match o.result with
          | .error _ => "err"
          | .ok (.common, b) => s!"common - {if b then 1 else 0}"
          | .ok (.better t, b) => s!"better {t.hash} {if b then 1 else 0}"
          | .ok (.worse t, b) => s!"worse {t.hash} {if b then 1 else 0}"
        ({ st with client := some o.client }, (head ++ s!" r{o.reqs} | " ++ showNotifs o.notifs).trimAscii.toString)
    | "init" :: locs =>
      let o := synchronizeListeners (c20Source st) (locs.map parseLocator)
      let head := match o.result with
        | .error _ => s!"err r{o.reqs}"
        | .ok (b, c) => s!"ok {b.hash} r{o.reqs} cache " ++ " ".intercalate ((sortNats (c.map (·.hash))).map toString)
      let li := match o.result with | .ok (b, c) => some (Client.mk b c) | .error _ => none
      ({ st with lastInit := li }, (" | ".intercalate (head :: o.notifs.map showNotifs)).trimAscii.toString)
    | _ => (st, "bad-op")

end Ldk.Driver
