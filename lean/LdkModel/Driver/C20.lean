import LdkModel.Driver.Util
import LdkModel.Model.ChainSync
/- C20 driver: replays the harness's op lines on the model of lightning-block-sync.
   ops: tree | block <id> <parent> <height> <chainwork> <bits> <header.work()> <full 0|1> | net <0|1 = Network::Bitcoin> |
        client <tip> <cached ids…> | best <id> | clientinit | hidden <ids…> |
        sched <k:kind…> (what the source answers to request k: t|p = Err, hash:<id> = another block, pow = PoW fails,
          height / work = claimed height / chainwork off by one, merkle = full block with a wrong merkle root) |
        poll <fingerprint> (answer ends in `| cache <ids of the header cache afterwards>`) | init <id:height:p1,p2,-,…>… (a failed one answers `err <t|p> r<requests>`: the BlockSourceErrorKind)
   The source is an `Adv` (raw answers) run through the translated Validate layer (`Adv.toSource`). -/
namespace Ldk.Driver
open Ldk Ldk.ChainSync

inductive Lie where
  | err (transient : Bool) | other (id : Nat) | pow | height | work | merkle
deriving Repr

structure C20State where
  tree : Tree := []
  fulls : List Nat := []
  bitcoin : Bool := false
  client : Option Client := none
  best : Nat := 0
  hidden : List Nat := []
  sched : List (Nat × Lie) := []
  lastInit : Option Client := none

def rawOf (b : Hdr) (pow : Bool) : RawHdr := ⟨b.hash, b.parent, b.height, b.work, b.bits, b.bwork, pow⟩

/-- the raw answers of the harness's block source: the tree's data unless a lie is scheduled for that request -/
def c20Adv (st : C20State) : Adv :=
  { best := fun k => match st.sched.lookup k with
      | some _ => none
      | none => some st.best,
    header := fun k h => match st.sched.lookup k with
      | some (.err _) => none
      | some (.other x) => (hdrOf st.tree x).map (rawOf · true)
      | some .pow => (hdrOf st.tree h).map (rawOf · false)
      | some .height => (hdrOf st.tree h).map (fun b => { rawOf b true with height := b.height + 1 })
      | some .work => (hdrOf st.tree h).map (fun b => { rawOf b true with chainwork := b.work + 1 })
      | some .merkle => none
      | none => if st.hidden.contains h then none else (hdrOf st.tree h).map (rawOf · true),
    block := fun k h => match st.sched.lookup k with
      | some (.err _) => none
      | some (.other x) => (hdrOf st.tree x).map (fun b => ⟨st.fulls.contains x, b.hash, true, true, true⟩)
      | some .pow => some ⟨false, h, false, true, true⟩
      | some .merkle => some ⟨true, h, true, false, true⟩
      | some _ => none
      | none => if st.hidden.contains h then none else (hdrOf st.tree h).map (fun b => ⟨st.fulls.contains h, b.hash, true, true, true⟩),
    bitcoin := st.bitcoin,
    transient := fun k => match st.sched.lookup k with
      | some (.err tr) => tr
      | _ => false }

def c20Source (st : C20State) : Source := (c20Adv st).toSource st.tree

def parseLie (s : String) : Nat × Lie :=
  match s.splitOn ":" with
  | [k, "t"] => (nat! k, .err true)
  | [k, "p"] => (nat! k, .err false)
  | [k, "hash", x] => (nat! k, .other (nat! x))
  | [k, "pow"] => (nat! k, .pow)
  | [k, "height"] => (nat! k, .height)
  | [k, "work"] => (nat! k, .work)
  | [k, "merkle"] => (nat! k, .merkle)
  | k :: _ => (nat! k, .err false)
  | [] => (0, .err false)

def showNotif : Notif → String
  | .disconnected h ht => s!"D {h} {ht}"
  | .connected h ht => s!"C {h} {ht}"

def showNotifs (ns : List Notif) : String := " ".intercalate (ns.map showNotif)

def parseLocator (s : String) : Locator :=
  match s.splitOn ":" with
  | [h, ht, ps] =>
    { hash := nat! h, height := nat! ht,
      prevs := if ps == "" then [] else (ps.splitOn ",").map (fun p => if p == "-" then none else some (nat! p)) }
  | _ => { hash := 0, height := 0, prevs := [] }

def sortNats (l : List Nat) : List Nat := (l.toArray.qsort (· < ·)).toList

/-- the SpvClient's header cache after the poll: sorted ids, or count + checksum when there are many (as the harness) -/
def showCache (c : Cache) : String :=
  let ids := sortNats (c.map (·.hash))
  if ids.length ≤ 48 then " ".intercalate (ids.map toString) else s!"n{ids.length} s{ids.foldl (· + ·) 0}"

def c20 : Drv where
  σ := C20State
  init := {}
  step := fun st ws =>
    match ws with
    | ["tree"] => ({}, "ok")
    | ["block", i, p, h, w, bits, bw, full] =>
      ({ st with tree := { hash := nat! i, parent := nat! p, height := nat! h, work := nat! w, bits := nat! bits, bwork := nat! bw } :: st.tree,
                 fulls := if full == "1" then nat! i :: st.fulls else st.fulls }, "ok")
    | ["net", b] => ({ st with bitcoin := b == "1" }, "ok")
    | "client" :: tip :: cached =>
      match hdrOf st.tree (nat! tip) with
      | some t => ({ st with client := some ⟨t, cached.filterMap (fun x => hdrOf st.tree (nat! x))⟩ }, "ok")
      | none => (st, "bad-op")
    | ["best", b] => ({ st with best := nat! b }, "ok")
    | "hidden" :: ids => ({ st with hidden := ids.map nat! }, "ok")
    | "sched" :: ids => ({ st with sched := ids.map parseLie }, "ok")
    | ["clientinit"] => ({ st with client := st.lastInit }, if st.lastInit.isSome then "ok" else "bad-op")
    | ["poll", _] =>
      match st.client with
      | none => (st, "bad-op")
      | some cl =>
        let o := pollBestTip (c20Source st) cl
        let head := match o.result with
          | .error e => if e.isTransient then "err t" else "err p"
          | .ok (.common, b) => s!"common - {if b then 1 else 0}"
          | .ok (.better t, b) => s!"better {t.hash} {if b then 1 else 0}"
          | .ok (.worse t, b) => s!"worse {t.hash} {if b then 1 else 0}"
        ({ st with client := some o.client },
          (head ++ s!" r{o.reqs} | " ++ showNotifs o.notifs ++ " | cache " ++ showCache o.client.cache).trimAscii.toString)
    | ["tuple"] =>
      -- delivery order of one connect and one disconnect notification through the tuple adapter
      let ord := fun (n : Notif) => " ".intercalate ((tupleDeliver [n]).map (fun d => toString d.1))
      (st, s!"C {ord (.connected 0 0)} D {ord (.disconnected 0 0)}")
    | "init" :: locs =>
      let o := synchronizeListeners (c20Source st) (locs.map parseLocator)
      let head := match o.result with
        | .error e => "err " ++ (if e.isTransient then "t" else "p") ++ s!" r{o.reqs}"
        | .ok (b, c) => s!"ok {b.hash} r{o.reqs} cache " ++ " ".intercalate ((sortNats (c.map (·.hash))).map toString)
      let li := match o.result with | .ok (b, c) => some (Client.mk b c) | .error _ => none
      ({ st with lastInit := li }, (" | ".intercalate (head :: o.notifs.map showNotifs)).trimAscii.toString)
    | _ => (st, "bad-op")

end Ldk.Driver
