import LdkModel.Driver.C06
import LdkModel.Model.OnchainClaims
import LdkModel.Model.CloseCfg
import LdkModel.Model.ClaimTime
namespace Ldk.Driver
open Ldk Ldk.Onchain

def c07bump : Drv where
  σ := Unit
  init := ()
  step := fun _ ws => ((), bumpStep ws)

def kindOf (s : String) : Option Kind :=
  if s == "S" then some .toSelf else if s == "O" then some .outboundHtlc
  else if s == "I" then some .inboundHtlcPreimage else if s == "U" then some .inboundHtlcUnknown else none

/-- `kind:sat:claimableFrom:contestedFrom:csv|-` -/
def itemOf (s : String) : Option Item :=
  match splitOnChar s ':' with
  | [k, v, f, c, d] => (kindOf k).map fun kind =>
      { kind := kind, sat := nat! v, claimableFrom := nat! f, contestedFrom := nat! c, csv := if d == "-" then none else some (nat! d) }
  | _ => none

def showBalances (l : Ledger) : String :=
  let ts := sortTriples ((balances l).map fun b => match b.cls with
    | .awaitingConfirmations h => (0, h, b.sat)
    | .contentious h => (1, h, b.sat)
    | .maybeTimeout h => (2, h, b.sat)
    | .maybePreimage h => (3, h, b.sat))
  if ts.isEmpty then "-" else
  " ".intercalate (ts.map fun t =>
    let tag := if t.1 == 0 then "A" else if t.1 == 1 then "C" else if t.1 == 2 then "T" else "P"
    s!"{tag}:{t.2.1}:{t.2.2}")

/-- `kind:sat:claimableFrom:contestedFrom:hashId` (the csv comes from the closure configuration; `hashId` = an id of the
    HTLC's payment hash, equal ids = equal hashes, 0 for the balance output) -/
def rawItemOf (s : String) : Option (Item × Nat) :=
  match splitOnChar s ':' with
  | [k, v, f, c, hid] => (kindOf k).map fun kind =>
      ({ kind := kind, sat := nat! v, claimableFrom := nat! f, contestedFrom := nat! c, csv := none }, nat! hid)
  | _ => none

/-- balances, then the value handed out as SpendableOutputs so far -/
def showLedger (l : Ledger) : String := s!"{showBalances l} | {spendableTotal l}"

/-- `kind:amount_msat:cltv` -/
def preHtlcOf (s : String) : Option ClaimTime.PreHtlc :=
  match splitOnChar s ':' with
  | [k, v, c] => (kindOf k).map fun kind => { kind := kind, amountMsat := nat! v, cltv := nat! c }
  | _ => none

/-- the pre-confirmation view in the line format of `showBalances` (`O:0:<amount>` = ClaimableOnChannelClose) -/
def showPreView (v : ClaimTime.PreView) : String :=
  let ts := sortTriples ((4, 0, v.onClose) :: v.htlcs.map fun b => match b.cls with
    | .awaitingConfirmations h => (0, h, b.sat)
    | .contentious h => (1, h, b.sat)
    | .maybeTimeout h => (2, h, b.sat)
    | .maybePreimage h => (3, h, b.sat))
  " ".intercalate (ts.map fun t =>
    let tag := if t.1 == 0 then "A" else if t.1 == 1 then "C" else if t.1 == 2 then "T" else if t.1 == 3 then "P" else "O"
    s!"{tag}:{t.2.1}:{t.2.2}")

/-- `H` = holder HTLC-timeout (pre-signed, nLockTime = cltv), `S` = holder HTLC-success, `R` = timeout claim on the counterparty's
    commitment (CounterpartyReceivedHTLCOutput), `F` = preimage claim on the counterparty's commitment (CounterpartyOfferedHTLCOutput) -/
def claimInputOf (code : String) (cltv : Nat) : Option Pkg.PkgInput :=
  if code == "H" then some (.holderHTLCOutput false cltv) else if code == "S" then some (.holderHTLCOutput true cltv)
  else if code == "R" then some (.counterpartyReceivedHTLCOutput cltv) else if code == "F" then some (.counterpartyOfferedHTLCOutput cltv) else none

def showNats' (xs : List Nat) : String := if xs.isEmpty then "-" else " ".intercalate (xs.map toString)

def showOptNat : Option Nat → String
  | some n => toString n
  | none => "none"

/-- ops:  close <height> <holderClose 0|1|2> <holder our_to_self_delay> <counterparty our_to_self_delay> <item>…
                                      → balances (sorted) `|` spendable so far          (Model/CloseCfg.lean `hclose`)
          claim <idx> <height> <net>  | peer <idx> <height> | block <height> [<scenario tag>]   → the same
          preimage <hashId> [<tag>]   → the same      (`HLedger.provide`: a preimage learned after the commitment confirmed)
          totals                      → `<balances owned> <spendable> <fees> <lost> <entitlement>`
          (holderClose 2 = the COUNTERPARTY's PREVIOUS, not yet revoked commitment confirmed: `CloseCfg.counterpartyPrev`)
          preclose <to_self sat> <kind:amount_msat:cltv>… [s<tag>]   → the pre-confirmation view (Model/ClaimTime.lean `preView`)
          release <H|S|R|F> <cltv> <cur> [<tag>]          → height at which a claim requested at <cur> is first issued (`requestIssueHeight`)
          sched <H|S|R|F> <cltv> <start> <fuel> [<tag>]   → the (re-)issue heights of a single-input claim (`issueHeights`, csh = cltv)
          reissue <H|S|R|F> <cltv> <h> <next> [<tag>]     → `early` iff a claim issued at <h> was re-issued at <next>, before its timer `issueTimer` (else `not-early`)
          goesany <start> <fuel> <cltv:outbound:preimage>… [s<tag>]  → height at which the monitor goes on chain with all these HTLCs pending (`firstOnchain`)
          goes <cltv> <outbound 0|1> <preimage 0|1> <start> <fuel> [<tag>] → height at which the monitor goes on chain (`goesOnchainAt`) -/
def c07close : Drv where
  σ := HLedger
  init := { cfg := default, ledger := { best := 0, entries := [] }, hashes := [] }
  step := fun hl ws =>
    let viaOp := fun (o : Op) => let hl' := hl.step (.op o); (hl', showLedger hl'.ledger)
    match ws with
    | "close" :: h :: hc :: hs :: cs :: items =>
      match items.mapM rawItemOf with
      | some is => let hl' := hclose { holderClose := hc == "1", holderSelected := nat! hs, counterpartySelected := nat! cs, counterpartyPrev := hc == "2" } (nat! h) is; (hl', showLedger hl'.ledger)
      | none => (hl, "bad-op")
    | ["claim", i, h, net] => viaOp (.claim (nat! i) (nat! h) (nat! net))
    | ["peer", i, h] => viaOp (.peerClaim (nat! i) (nat! h))
    | ["block", h] => viaOp (.block (nat! h))
    | ["block", h, _tag] => viaOp (.block (nat! h))
    | ["preimage", hid] => let hl' := hl.step (.provide (nat! hid)); (hl', showLedger hl'.ledger)
    | ["preimage", hid, _tag] => let hl' := hl.step (.provide (nat! hid)); (hl', showLedger hl'.ledger)
    | ["totals"] => let l := hl.ledger; (hl, s!"{balanceTotal l} {spendableTotal l} {feesTotal l} {lostTotal l} {entitlement l}")
    | "preclose" :: t :: hs =>
      match (hs.filter fun x => !x.startsWith "s").mapM preHtlcOf with
      | some ps => (hl, showPreView (ClaimTime.preView (nat! t) ps))
      | none => (hl, "bad-op")
    | "release" :: code :: cltv :: cur :: _ =>
      match claimInputOf code (nat! cltv) with
      | some i => (hl, showOptNat (ClaimTime.requestIssueHeight (nat! cur) [i] 5000))
      | none => (hl, "bad-op")
    | "sched" :: code :: cltv :: start :: fuel :: _ =>
      match claimInputOf code (nat! cltv) with
      | some i => (hl, showNats' (ClaimTime.issueHeights (nat! cltv) [i] (nat! fuel) (nat! start) (nat! start)))
      | none => (hl, "bad-op")
    | "reissue" :: code :: cltv :: h :: next :: _ =>
      match claimInputOf code (nat! cltv) with
      | some i => (hl, if nat! next < ClaimTiming.issueTimer (nat! h) (nat! cltv) [i] then "early" else "not-early")
      | none => (hl, "bad-op")
    | "goesany" :: start :: fuel :: hs =>
      let parse := fun (t : String) => match splitOnChar t ':' with
        | [c, o, p] => some ((nat! c, o == "1", p == "1") : ClaimTime.ScanHtlc)
        | _ => none
      match (hs.filter fun x => !x.startsWith "s").mapM parse with
      | some xs => (hl, showOptNat (ClaimTime.firstOnchain xs (nat! start) (nat! fuel)))
      | none => (hl, "bad-op")
    | "goes" :: cltv :: outb :: pre :: start :: fuel :: _ =>
      (hl, showOptNat (ClaimTime.goesOnchainAt (nat! cltv) (outb == "1") (pre == "1") (nat! start) (nat! fuel)))
    | _ => (hl, (PkgOps.pkgStep ws).getD "bad-op")     -- the package-layer ops (Driver/Packages.lean, shared with C06)

/-! ### c07fee: target feerates / fee-bump trajectories (Generated/Package.lean `computePackageFeerate`,
    `computePackageOutput`; Model/OnchainClaims.lean `extTargets`, `ownFeerates`) -/
open Ldk.Pkg

def showNats (xs : List Nat) : String := if xs.isEmpty then "-" else " ".intercalate (xs.map toString)

/-- `<strategy 0|1|2>:<est>` -/
def extStepOf (s : String) : Option (FeerateStrategy × Nat) :=
  match splitOnChar s ':' with
  | [a, b] => some (strategyOf a, nat! b)
  | _ => none

/-- `<amount>:<weight>:<dust>:<strategy>:<est>` -/
def reissueOf (s : String) : Option Reissue :=
  match splitOnChar s ':' with
  | [a, w, d, st, e] => some { amount := nat! a, weight := nat! w, dust := nat! d, strategy := strategyOf st, est := nat! e }
  | _ => none

def showPf (prev s est : String) : String :=
  if packageFeerateOverflows (nat! prev) (strategyOf s) (nat! est) then "ovf"
  else toString (computePackageFeerate (nat! prev) (strategyOf s) (nat! est))

/-- ops:  pf <feerate_previous> <strategy 0|1|2> <est> [<tag>]     → target feerate (`ovf`: the u32 product overflows)
          po <package_amount> <weight> <dust> <feerate_previous> <strategy> <est>   → `<output> <feerate>` | `none`
          ext <feerate_previous> <strategy:est>… [s<seed>]            → the successive target feerates
          own <feerate_previous> <amount:weight:dust:strategy:est>…  → the feerates of the issued transactions -/
def c07fee : Drv where
  σ := Unit
  init := ()
  step := fun _ ws => ((),
    match ws with
    | ["pf", prev, s, est] => showPf prev s est
    | ["pf", prev, s, est, _tag] => showPf prev s est
    | ["po", amt, w, dust, prev, s, est] =>
      showFee (computePackageOutput (nat! amt) (nat! w) (nat! dust) (nat! prev) (strategyOf s) (nat! est))
    | "ext" :: prev :: steps =>
      match (steps.filter fun t => !t.startsWith "s").mapM extStepOf with   -- a trailing `s<seed>` scenario tag is not a step
      | some ss => showNats (extTargets (nat! prev) ss)
      | none => "bad-op"
    | "own" :: prev :: steps =>
      match steps.mapM reissueOf with
      | some rs => showNats (ownFeerates (nat! prev) rs)
      | none => "bad-op"
    | _ => "bad-op")

end Ldk.Driver
