import LdkModel.Driver.C06
import LdkModel.Model.OnchainClaims
import LdkModel.Model.CloseCfg
namespace Ldk.Driver
open Ldk Ldk.Onchain

def c07bump : Drv where
  σ := Unit
  init := ()
  step := fun _ ws => ((), bumpStep ws)

def kindOf (s : String) : Option Kind :=
  if s == "S" then some .toSelf else if s == "O" then some .outboundHtlc
  else if s == "I" then some .inboundHtlcPreimage else if s == "U" then some .inboundHtlcUnknown else none

/-- `kind:sat:claimableFrom:contestedFrom:csv|-` -/
def itemOf (s : String) : Option Item :=
  match splitOnChar s ':' with
  | [k, v, f, c, d] => (kindOf k).map fun kind =>
      { kind := kind, sat := nat! v, claimableFrom := nat! f, contestedFrom := nat! c, csv := if d == "-" then none else some (nat! d) }
  | _ => none

def showBalances (l : Ledger) : String :=
  let ts := sortTriples ((balances l).map fun b => match b.cls with
    | .awaitingConfirmations h => (0, h, b.sat)
    | .contentious h => (1, h, b.sat)
    | .maybeTimeout h => (2, h, b.sat)
    | .maybePreimage h => (3, h, b.sat))
  if ts.isEmpty then "-" else
  " ".intercalate (ts.map fun t =>
    let tag := if t.1 == 0 then "A" else if t.1 == 1 then "C" else if t.1 == 2 then "T" else "P"
    s!"{tag}:{t.2.1}:{t.2.2}")

/-- `kind:sat:claimableFrom:contestedFrom:hashId` (the csv comes from the closure configuration; `hashId` = an id of the
    HTLC's payment hash, equal ids = equal hashes, 0 for the balance output) -/
def rawItemOf (s : String) : Option (Item × Nat) :=
  match splitOnChar s ':' with
  | [k, v, f, c, hid] => (kindOf k).map fun kind =>
      ({ kind := kind, sat := nat! v, claimableFrom := nat! f, contestedFrom := nat! c, csv := none }, nat! hid)
  | _ => none

/-- balances, then the value handed out as SpendableOutputs so far -/
def showLedger (l : Ledger) : String := s!"{showBalances l} | {spendableTotal l}"

/-- ops:  close <height> <holderClose 0|1> <holder our_to_self_delay> <counterparty our_to_self_delay> <item>…
                                      → balances (sorted) `|` spendable so far          (Model/CloseCfg.lean `hclose`)
          claim <idx> <height> <net>  | peer <idx> <height> | block <height> [<scenario tag>]   → the same
          preimage <hashId> [<tag>]   → the same      (`HLedger.provide`: a preimage learned after the commitment confirmed)
          totals                      → `<balances owned> <spendable> <fees> <lost> <entitlement>` -/
def c07close : Drv where
  σ := HLedger
  init := { cfg := default, ledger := { best := 0, entries := [] }, hashes := [] }
  step := fun hl ws =>
    let viaOp := fun (o : Op) => let hl' := hl.step (.op o); (hl', showLedger hl'.ledger)
    match ws with
    | "close" :: h :: hc :: hs :: cs :: items =>
      match items.mapM rawItemOf with
      | some is => let hl' := hclose { holderClose := hc == "1", holderSelected := nat! hs, counterpartySelected := nat! cs } (nat! h) is; (hl', showLedger hl'.ledger)
      | none => (hl, "bad-op")
    | ["claim", i, h, net] => viaOp (.claim (nat! i) (nat! h) (nat! net))
    | ["peer", i, h] => viaOp (.peerClaim (nat! i) (nat! h))
    | ["block", h] => viaOp (.block (nat! h))
    | ["block", h, _tag] => viaOp (.block (nat! h))
    | ["preimage", hid] => let hl' := hl.step (.provide (nat! hid)); (hl', showLedger hl'.ledger)
    | ["preimage", hid, _tag] => let hl' := hl.step (.provide (nat! hid)); (hl', showLedger hl'.ledger)
    | ["totals"] => let l := hl.ledger; (hl, s!"{balanceTotal l} {spendableTotal l} {feesTotal l} {lostTotal l} {entitlement l}")
    | _ => (hl, "bad-op")

/-! ### c07fee: target feerates / fee-bump trajectories (Generated/Package.lean `computePackageFeerate`,
    `computePackageOutput`; Model/OnchainClaims.lean `extTargets`, `ownFeerates`) -/
open Ldk.Pkg

def showNats (xs : List Nat) : String := if xs.isEmpty then "-" else " ".intercalate (xs.map toString)

/-- `<strategy 0|1|2>:<est>` -/
def extStepOf (s : String) : Option (FeerateStrategy × Nat) :=
  match splitOnChar s ':' with
  | [a, b] => some (strategyOf a, nat! b)
  | _ => none

/-- `<amount>:<weight>:<dust>:<strategy>:<est>` -/
def reissueOf (s : String) : Option Reissue :=
  match splitOnChar s ':' with
  | [a, w, d, st, e] => some { amount := nat! a, weight := nat! w, dust := nat! d, strategy := strategyOf st, est := nat! e }
  | _ => none

def showPf (prev s est : String) : String :=
  if packageFeerateOverflows (nat! prev) (strategyOf s) (nat! est) then "ovf"
  else toString (computePackageFeerate (nat! prev) (strategyOf s) (nat! est))

/-- ops:  pf <feerate_previous> <strategy 0|1|2> <est> [<tag>]     → target feerate (`ovf`: the u32 product overflows)
          po <package_amount> <weight> <dust> <feerate_previous> <strategy> <est>   → `<output> <feerate>` | `none`
          ext <feerate_previous> <strategy:est>… [s<seed>]            → the successive target feerates
          own <feerate_previous> <amount:weight:dust:strategy:est>…  → the feerates of the issued transactions -/
def c07fee : Drv where
  σ := Unit
  init := ()
  step := fun _ ws => ((),
    match ws with
    | ["pf", prev, s, est] => showPf prev s est
    | ["pf", prev, s, est, _tag] => showPf prev s est
    | ["po", amt, w, dust, prev, s, est] =>
      showFee (computePackageOutput (nat! amt) (nat! w) (nat! dust) (nat! prev) (strategyOf s) (nat! est))
    | "ext" :: prev :: steps =>
      match (steps.filter fun t => !t.startsWith "s").mapM extStepOf with   -- a trailing `s<seed>` scenario tag is not a step
      | some ss => showNats (extTargets (nat! prev) ss)
      | none => "bad-op"
    | "own" :: prev :: steps =>
      match steps.mapM reissueOf with
      | some rs => showNats (ownFeerates (nat! prev) rs)
      | none => "bad-op"
    | _ => "bad-op")

end Ldk.Driver
