import LdkModel.Driver.C06
import LdkModel.Model.OnchainClaims
namespace Ldk.Driver
open Ldk Ldk.Onchain

def c07bump : Drv where
  σ := Unit
  init := ()
  step := fun _ ws => ((), bumpStep ws)

def kindOf (s : String) : Option Kind :=
  if s == "S" then some .toSelf else if s == "O" then some .outboundHtlc
  else if s == "I" then some .inboundHtlcPreimage else if s == "U" then some .inboundHtlcUnknown else none

/-- `kind:sat:claimableFrom:contestedFrom:csv|-` -/
def itemOf (s : String) : Option Item :=
  match splitOnChar s ':' with
  | [k, v, f, c, d] => (kindOf k).map fun kind =>
      { kind := kind, sat := nat! v, claimableFrom := nat! f, contestedFrom := nat! c, csv := if d == "-" then none else some (nat! d) }
  | _ => none

def showBalances (l : Ledger) : String :=
  let ts := sortTriples ((balances l).map fun b => match b.cls with
    | .awaitingConfirmations h => (0, h, b.sat)
    | .contentious h => (1, h, b.sat)
    | .maybeTimeout h => (2, h, b.sat)
    | .maybePreimage h => (3, h, b.sat))
  if ts.isEmpty then "-" else
  " ".intercalate (ts.map fun t =>
    let tag := if t.1 == 0 then "A" else if t.1 == 1 then "C" else if t.1 == 2 then "T" else "P"
    s!"{tag}:{t.2.1}:{t.2.2}")

/-- ops:  close <height> <item>…      → balances (sorted)
          claim <idx> <height> <net>  | peer <idx> <height> | block <height> [<scenario tag>]   → balances
          totals                      → `<balances owned> <spendable> <fees> <lost> <entitlement>` -/
def c07close : Drv where
  σ := Ledger
  init := { best := 0, entries := [] }
  step := fun l ws =>
    match ws with
    | "close" :: h :: items =>
      match items.mapM itemOf with
      | some is => let l' := close (nat! h) is; (l', showBalances l')
      | none => (l, "bad-op")
    | ["claim", i, h, net] => let l' := step l (.claim (nat! i) (nat! h) (nat! net)); (l', showBalances l')
    | ["peer", i, h] => let l' := step l (.peerClaim (nat! i) (nat! h)); (l', showBalances l')
    | ["block", h] => let l' := step l (.block (nat! h)); (l', showBalances l')
    | ["block", h, _tag] => let l' := step l (.block (nat! h)); (l', showBalances l')
    | ["totals"] => (l, s!"{balanceTotal l} {spendableTotal l} {feesTotal l} {lostTotal l} {entitlement l}")
    | _ => (l, "bad-op")

end Ldk.Driver
