import LdkModel.Driver.C02
def main (args : List String) : IO UInt32 := Ldk.Driver.runMain [("c02admit", Ldk.Driver.c02admit), ("c02hop", Ldk.Driver.c02hop), ("c02fwd", Ldk.Driver.c02fwd), ("c02close", Ldk.Driver.c02close), ("c02multi", Ldk.Driver.c02multi)] args
