import LdkModel.Driver.C16
def main (args : List String) : IO UInt32 := Ldk.Driver.runMain [("c16fees", Ldk.Driver.c16fees), ("c16router", Ldk.Driver.c16router)] args
