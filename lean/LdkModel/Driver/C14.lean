import LdkModel.Driver.Util
import LdkModel.Model.Onion
/- C14 driver: the model functions of Model/Onion.lean instantiated with ChaCha20 / HMAC-SHA256
   (`Onion.ldk`) and LDK's key derivations.  Ops (hex for bytes, `-` = empty):
     build <L|std> <prng-seed> <assoc-data> <n> (<shared-secret> <payload>)*   → <hop_data> <hmac> | err
     peel <shared-secret> <assoc-data> <hmac> <hop_data>                   → fwd … | final … | err <Kind>
     failbuild <shared-secret> <code> <data>                               → <packet>
     failwrap <shared-secret> <packet>                                     → <packet>
     faildecode <n> <shared-secret>* <packet>                              → attributed k code data | unattributable | …
     failbuildx / failwrapx / faildecodex: the same with attribution data (hold times) — executable model only
   The payload TLV pretty-printer below is presentation only (the model treats payloads as opaque
   length-framed byte strings). -/
namespace Ldk.Driver
open Ldk Ldk.Onion

def beNat (l : List UInt8) : Nat := l.foldl (fun acc x => acc * 256 + x.toNat) 0

def readBigSize : List UInt8 → Option (Nat × List UInt8)
  | [] => none
  | x :: rest =>
    if x.toNat < 0xfd then some (x.toNat, rest)
    else
      let w := if x.toNat = 0xfd then 2 else if x.toNat = 0xfe then 4 else 8
      if rest.length < w then none else some (beNat (rest.take w), rest.drop w)

/-- TLV records of a stream (fuel-bounded); `none` on a framing error -/
def tlvRecords : Nat → List UInt8 → Option (List (Nat × List UInt8))
  | 0, _ => none
  | _, [] => some []
  | fuel + 1, b =>
    match readBigSize b with
    | none => none
    | some (t, r1) =>
      match readBigSize r1 with
      | none => none
      | some (l, r2) =>
        if r2.length < l then none else
        (tlvRecords fuel (r2.drop l)).map ((t, r2.take l) :: ·)

def optHex : Option (List UInt8) → String
  | none => "none"
  | some b => hex b

/-- canonical text of a hop payload: the fields LDK's `InboundOnionPayload` keeps -/
def showPayload (final : Bool) (payload : List UInt8) : String :=
  match readBigSize payload with
  | none => "unparsed"
  | some (_, body) =>
    match tlvRecords 4096 body with
    | none => "unparsed"
    | some recs =>
      let get (t : Nat) := recs.lookup t
      let num (t : Nat) : String := match get t with | none => "none" | some v => toString (beNat v)
      if !final then s!"amt={num 2} cltv={num 4} scid={num 6}"
      else
        let secret := (get 8).map (·.take 32)
        let total := match get 8 with | none => "none" | some v => toString (beNat (v.drop 32))
        let custom := recs.filter (fun r => r.1 ≥ 65536 ∧ r.1 ≠ 5482373484)
        let cs := if custom.isEmpty then "none" else ",".intercalate (custom.map fun r => s!"{r.1}:{hex r.2}")
        s!"amt={num 2} cltv={num 4} secret={optHex secret} total={total} meta={optHex (get 16)} keysend={optHex (get 5482373484)} custom={cs}"

def showPeel : Except PeelErr Peeled → String
  | .error .badHmac => "err BadHmac"
  | .error .badPayload => "err BadPayload"
  | .ok (.final p) => s!"final {showPayload true p}"
  | .ok (.forward p nh nd) => s!"fwd {showPayload false p} {hex nh} {hex nd}"

def showFail : FailDecoded → String
  | .attributed k c d => s!"attributed {k} {c} {hex d}"
  | .unreadable k => s!"unreadable {k}"
  | .noCode k => s!"unreadable {k}"   -- the sender learns the same from both (NodeFailure of hop k, no code)
  | .unattributable => "unattributable"

/-- serialized AttributionData (hold times ‖ hmacs) or `none` -/
def attrOf (s : String) : Option Attr :=
  if s == "none" then none else
  let b := unhex s
  some ⟨b.take (MAX_HOPS * HOLD_TIME_LEN), b.drop (MAX_HOPS * HOLD_TIME_LEN)⟩

def pairsOf : List String → List (String × String)
  | a :: b :: rest => (a, b) :: pairsOf rest
  | _ => []

def c14 : Drv where
  σ := Unit
  init := ()
  step := fun _ ws =>
    match ws with
    | "build" :: l :: seed :: ad :: n :: rest =>
      let hops := (pairsOf rest).map fun (ss, p) => hopOfSecret (unhex ss) (unhex p)
      if hops.length ≠ nat! n then ((), "bad-op") else
      match build ldk (unhex ad) (noiseOfSeed ldk (unhex seed) (if l == "std" then ONION_DATA_LEN else nat! l)) hops with
      | none => ((), "err")
      | some (d, h) => ((), s!"{hex d} {hex h}")
    | ["peel", ss, ad, h, d] =>
      ((), showPeel (peel ldk bigSizeFrame (keysOfSecret (unhex ss)) (unhex ad) (unhex d) (unhex h)))
    | ["failbuild", ss, code, data] =>
      ((), hex (buildFailure ldk (failKeysOfSecret (unhex ss)) (nat! code) (unhex data)))
    | ["failwrap", ss, pkt] =>
      ((), hex (wrapFailure ldk (failKeysOfSecret (unhex ss)) (unhex pkt)))
    | ["failbuildx", ss, code, data, hold] =>
      let (p, a) := buildFailureX ldk (failKeysXOfSecret (unhex ss)) (nat! code) (unhex data) (nat! hold)
      ((), s!"{hex p} {hex (a.holdTimes ++ a.hmacs)}")
    | ["failwrapx", ss, pkt, attr, hold] =>
      let (p, a) := relayFailureX ldk (failKeysXOfSecret (unhex ss)) (unhex pkt) (attrOf attr) (nat! hold)
      ((), s!"{hex p} {hex (a.holdTimes ++ a.hmacs)}")
    | "faildecodex" :: n :: rest =>
      if rest.length ≠ nat! n + 2 then ((), "bad-op") else
      let keys := (rest.take (nat! n)).map fun ss => failKeysXOfSecret (unhex ss)
      let (r, holds) := decodeFailureX ldk keys (unhex (rest.getD (nat! n) "-")) (attrOf (rest.getD (nat! n + 1) "none"))
      let hs := if holds.isEmpty then "none" else ",".intercalate (holds.map toString)
      ((), s!"{showFail r} holds={hs}")
    | ["fulfilwrapx", ss, attr, hold] =>
      let a := fulfillAttr ldk (failKeysXOfSecret (unhex ss)) (attrOf attr) (nat! hold)
      ((), hex (a.holdTimes ++ a.hmacs))
    | "fulfildecodex" :: n :: rest =>
      if rest.length ≠ nat! n + 1 then ((), "bad-op") else
      let keys := (rest.take (nat! n)).map fun ss => failKeysXOfSecret (unhex ss)
      match attrOf (rest.getD (nat! n) "none") with
      | none => ((), "bad-op")
      | some a =>
        let holds := decodeFulfillAttr ldk keys a
        ((), "holds=" ++ (if holds.isEmpty then "none" else ",".intercalate (holds.map toString)))
    | "faildecode" :: n :: rest =>
      if rest.length ≠ nat! n + 1 then ((), "bad-op") else
      let keys := (rest.take (nat! n)).map fun ss => failKeysOfSecret (unhex ss)
      ((), showFail (decodeFailure ldk keys (unhex (rest.getLast?.getD "-"))))
    | _ => ((), "bad-op")

end Ldk.Driver
