import LdkModel.Driver.Util
import LdkModel.Model.Onion
import LdkModel.Generated.OnionFail
import LdkModel.Generated.OnionPayloads
import LdkModel.Model.OnionInstr
import LdkModel.Generated.OnionBlinded
import LdkModel.Model.OnionFwdInfo
import LdkModel.Generated.OnionBlame
import LdkModel.Generated.OnionInbFail
/- C14 driver: the model functions of Model/Onion.lean instantiated with ChaCha20 / HMAC-SHA256
   (`Onion.ldk`) and LDK's key derivations.  Ops (hex for bytes, `-` = empty):
     build <L|std> <prng-seed> <assoc-data> <n> (<shared-secret> <payload>)*   → <hop_data> <hmac> | err
     peel <shared-secret> <assoc-data> <hmac> <hop_data>                   → fwd … | final … | err <Kind>
     failbuild <shared-secret> <code> <data>                               → <packet>
     failwrap <shared-secret> <packet>                                     → <packet>
     faildecode <n> <shared-secret>* <packet>                              → attributed k code data | unattributable | …
     failbuildx <ss> <code> <data> <hold>            → <packet> <attribution data>      (GENERATED buildFailurePacket)
     failwrapx <ss> <packet> <attr|none> <hold>      → <packet> <attribution data|none> wire=<update_fail_htlc wire length>
                                                       (GENERATED relayFailurePacket: process_failure_packet + crypt_failure_packet)
     faildecodex <n> <ss>* <packet> <attr|none>      → attributed k code data holds=…
     fulfilwrapx <ss> <attr|none> <hold>             → <attribution data>   (GENERATED processFulfillAttributionData)
     fulfildecodex <n> <ss>* <attr>                  → holds=…              (GENERATED decodeFulfillAttributionData)
     failchainx <n> <ss>* <k> <code> <dlen> <seed> <attr|legacy> <hold_k>,…,<hold_0>
         the whole way back of a failure of `dlen` data bytes (byte i = seed + 7·i mod 256) from hop k, built with
         (`attr`) or without (`legacy`: a failing node that does not support attribution data) attribution data,
         relayed by hops k-1 … 0, decoded by the sender; answer = lengths / attribution data kept at each relay /
         wire lengths / SHA-256 digests of the final packet and attribution data / decoded hop, code, data digest, hold times
     fwdfail <intro|inside|none> <ss> reason <code> <data> | fwdfail <…> <ss> down <pkt> <attr|none> <hold>
         → pkt <packet> <attribution data> | malformed <code> <sha256_of_onion>     (GENERATED getHtlcForwardFailure)
     faildecodeb <num_blinded_hops> <u> <n> <show hop 0|1> <ss>* <pkt>  → within <loop index> | attributed k code data | …
         the sender's loop for a path whose first u hops have a RouteHop and the rest are blinded (GENERATED decodeFailureB)
     payload <variant> <nf> (<field> <hex|none>)* <nt> (<type> <hex>)*   → <serialized payload> inc=<0|1>
         the GENERATED encoder of that payload kind (Generated/OnionPayloads.lean) on the serialized field values and the
         user's custom TLVs; inc = would the encoder's debug TLV-order check pass
     customnew <n> (<type> <hex>)*                                        → ok <sorted tlvs> | err   (RecipientCustomTlvs::new)
     payloaddec <payload> <update_add blinding point 0|1> <fwd|recv|dummy|na> <show invreq 0|1>
         the receiving side (`readInstr`): framing, record-level decode_tlv_stream_with_custom_tlv_decode!, the reader's
         generated VALUE encodings, the translated kind decision → the instruction VALUES
     instr forward <scid> <amt> <cltv> | instr receive <amt> <cltv> <secret|none> <total> <meta|none> <keysend|none> <nt> (<type> <hex>)*
     instr blindedForward <enc> <bp|none> | instr blindedReceive <amt> <total> <cltv> <enc> <bp|none> <keysend|none> <invreq|none> <nt> (<type> <hex>)*
         → the serialized hop payload `HopInstr.encode` writes for these VALUES (decimal integers; generated constructors
           and generated value encodings: HighZeroBytesDroppedBigSize etc. are applied by the MODEL)
     fwdblind <fwd|tfwd|bfwd> <payload intro point|none> <update_add blinding point|none> <override (TLV 8)|none> <derived next point|none>
         → none next=none | blinded <inbound point> <override|none> <intro|node> next=<outgoing blinding point|none>
           (GENERATED fwdBlinded = create_fwd_pending_htlc_info's `blinded:` field, nextBlindingPoint = channelmanager's outgoing point)
     fwdchain <first path key> <n> (<override|none> <derived|none>)*  → one `blinded …`/`none` per hop, `|`-separated, then final=<point handed to the recipient>
           (relayBlinded: the generated per-hop functions chained over the forwarding hops of a (concatenated) blinded tail)
     blame <code> <is_final 0|1> <update_ok 0|1>  → scid=<none|self|next> perm=<0|1>
           (GENERATED blameDecision, failing hop a RouteHop: which channel the sender names, payment_failed_permanently)
     inbfail <update_add has blinding point 0|1> <hmac|blindedcheck> <code>  → malformed <code> | relay
           (GENERATED inboundFailure: decode_incoming_update_add_htlc_onion's answer at the decodeMalformed / blindedForwardCheck sites)
   The payload TLV pretty-printer below is presentation only (the model treats payloads as opaque
   length-framed byte strings). -/
namespace Ldk.Driver
open Ldk Ldk.Onion Ldk.OnionPayload

def beNat (l : List UInt8) : Nat := l.foldl (fun acc x => acc * 256 + x.toNat) 0

def readBigSize : List UInt8 → Option (Nat × List UInt8)
  | [] => none
  | x :: rest =>
    if x.toNat < 0xfd then some (x.toNat, rest)
    else
      let w := if x.toNat = 0xfd then 2 else if x.toNat = 0xfe then 4 else 8
      if rest.length < w then none else some (beNat (rest.take w), rest.drop w)

/-- TLV records of a stream (fuel-bounded); `none` on a framing error -/
def tlvRecords : Nat → List UInt8 → Option (List (Nat × List UInt8))
  | 0, _ => none
  | _, [] => some []
  | fuel + 1, b =>
    match readBigSize b with
    | none => none
    | some (t, r1) =>
      match readBigSize r1 with
      | none => none
      | some (l, r2) =>
        if r2.length < l then none else
        (tlvRecords fuel (r2.drop l)).map ((t, r2.take l) :: ·)

def optHex : Option (List UInt8) → String
  | none => "none"
  | some b => hex b

/-- canonical text of a hop payload: the fields LDK's `InboundOnionPayload` keeps -/
def showPayload (final : Bool) (payload : List UInt8) : String :=
  match readBigSize payload with
  | none => "unparsed"
  | some (_, body) =>
    match tlvRecords 4096 body with
    | none => "unparsed"
    | some recs =>
      let get (t : Nat) := recs.lookup t
      let num (t : Nat) : String := match get t with | none => "none" | some v => toString (beNat v)
      if !final then s!"amt={num 2} cltv={num 4} scid={num 6}"
      else
        let secret := (get 8).map (·.take 32)
        let total := match get 8 with | none => "none" | some v => toString (beNat (v.drop 32))
        let custom := recs.filter (fun r => r.1 ≥ 65536 ∧ r.1 ≠ 5482373484)
        let cs := if custom.isEmpty then "none" else ",".intercalate (custom.map fun r => s!"{r.1}:{hex r.2}")
        s!"amt={num 2} cltv={num 4} secret={optHex secret} total={total} meta={optHex (get 16)} keysend={optHex (get 5482373484)} custom={cs}"

def showPeel : Except PeelErr Peeled → String
  | .error .badHmac => "err BadHmac"
  | .error .badPayload => "err BadPayload"
  | .ok (.final p) => s!"final {showPayload true p}"
  | .ok (.forward p nh nd) => s!"fwd {showPayload false p} {hex nh} {hex nd}"

def showFail : FailDecoded → String
  | .attributed k c d => s!"attributed {k} {c} {hex d}"
  | .unreadable k => s!"unreadable {k}"
  | .noCode k => s!"unreadable {k}"   -- the sender learns the same from both (NodeFailure of hop k, no code)
  | .unattributable => "unattributable"

/-- serialized AttributionData (hold times ‖ hmacs) or `none` -/
def attrOf (s : String) : Option Attr :=
  if s == "none" then none else
  let b := unhex s
  some ⟨b.take (MAX_HOPS * HOLD_TIME_LEN), b.drop (MAX_HOPS * HOLD_TIME_LEN)⟩

def showAttr : Option Attr → String
  | none => "none"
  | some a => hex (a.holdTimes ++ a.hmacs)

def pairsOf : List String → List (String × String)
  | a :: b :: rest => (a, b) :: pairsOf rest
  | _ => []


def showRecs (l : List Rec) : String :=
  if l.isEmpty then "none" else ",".intercalate (l.map fun r => s!"{r.1}:{hex r.2}")

def recsOf (ws : List String) : List Rec := (pairsOf ws).map fun (t, v) => (nat! t, unhex v)

def showNum : Option (List UInt8) → String
  | none => "none"
  | some v => toString (OnionPayload.beNat v)

def showNat : Option Nat → String
  | none => "none"
  | some n => toString n

/-- canonical text of what the receiving hop learns from a decoded payload (`readInstr`: framing, record loop, VALUE
    decoders of the reader's generated encoding table, translated kind decision) -/
def showInstr (kind : InKind) (i : HopInstr) (showInv : Bool) : String :=
  match kind, i with
  | .dummy, _ => "kind=dummy"
  | _, .forward scid amt cltv => s!"kind=forward amt={amt} cltv={cltv} scid={scid}"
  | _, .receive amt cltv pd md ks custom =>
    s!"kind=receive amt={amt} cltv={cltv} secret={optHex (pd.map (·.1))} total={showNat (pd.map (·.2))} meta={optHex md} keysend={optHex ks} custom={showRecs custom}"
  | _, .blindedForward _ _ => "kind=blindedForward"
  | _, .trampolineEntrypoint _ _ _ _ _ => "kind=trampolineEntrypoint"
  | _, .blindedReceive amt total cltv _ _ ks ir custom =>
    let inv := if showInv then optHex (ir.map Prim.sha256) else "hidden"
    s!"kind=blindedReceive amt={amt} cltv={cltv} total={total} keysend={optHex ks} invreq={inv} custom={showRecs custom}"

def optBytes (s : String) : Option (List UInt8) := if s == "none" then none else some (unhex s)

def showBlinded : Option BlindedForward → String
  | none => "none"
  | some b => s!"blinded {hex b.inbound_blinding_point} {match b.next_blinding_override with | none => "none" | some o => hex o} {match b.failure with | .fromIntroductionNode => "intro" | .fromBlindedNode => "node"}"

def c14 : Drv where
  σ := Unit
  init := ()
  step := fun _ ws =>
    match ws with
    | "build" :: l :: seed :: ad :: n :: rest =>
      let hops := (pairsOf rest).map fun (ss, p) => hopOfSecret (unhex ss) (unhex p)
      if hops.length ≠ nat! n then ((), "bad-op") else
      match build ldk (unhex ad) (noiseOfSeed ldk (unhex seed) (if l == "std" then ONION_DATA_LEN else nat! l)) hops with
      | none => ((), "err")
      | some (d, h) => ((), s!"{hex d} {hex h}")
    | ["peel", ss, ad, h, d] =>
      ((), showPeel (peel ldk bigSizeFrame (keysOfSecret (unhex ss)) (unhex ad) (unhex d) (unhex h)))
    | ["failbuild", ss, code, data] =>
      ((), hex (buildFailure ldk (failKeysOfSecret (unhex ss)) (nat! code) (unhex data)))
    | ["failwrap", ss, pkt] =>
      ((), hex (wrapFailure ldk (failKeysOfSecret (unhex ss)) (unhex pkt)))
    | ["failbuildx", ss, code, data, hold] =>
      let p := buildFailurePacket ldk (failKeysXOfSecret (unhex ss)) (nat! code) (unhex data) (nat! hold)
      ((), s!"{hex p.data} {showAttr p.attr}")
    | ["failwrapx", ss, pkt, attr, hold] =>
      let p := relayFailurePacket ldk (failKeysXOfSecret (unhex ss)) none ⟨unhex pkt, attrOf attr⟩ (some (nat! hold))
      ((), s!"{hex p.data} {showAttr p.attr} wire={updateFailHtlcWireLen p}")
    | "failchainx" :: n :: rest =>
      if rest.length ≠ nat! n + 6 then ((), "bad-op") else
      let keys := (rest.take (nat! n)).map fun ss => failKeysXOfSecret (unhex ss)
      let arg (i : Nat) : String := rest.getD (nat! n + i) ""
      let k := nat! (arg 0)
      let data := (List.range (nat! (arg 2))).map fun i => UInt8.ofNat (nat! (arg 3) + 7 * i)
      let holds := ((arg 5).splitOn ",").map nat!     -- hold_k, hold_{k-1}, …, hold_0
      match keys[k]? with
      | none => ((), "bad-op")
      | some fk =>
        let p0 : FailPkt :=
          if arg 4 == "legacy" then ⟨buildFailure ldk fk.base (nat! (arg 1)) data, none⟩
          else buildFailurePacket ldk fk (nat! (arg 1)) data (holds.getD 0 0)
        -- hops k-1 … 0 relay
        let (p, kept, wires) := (List.range k).foldl (fun (st : FailPkt × List String × List String) j =>
            let hop := k - 1 - j
            let q := relayFailurePacket ldk (keys.getD hop fk) none st.1 (some (holds.getD (j + 1) 0))
            (q, st.2.1 ++ [if q.attr.isSome then "1" else "0"], st.2.2 ++ [toString (updateFailHtlcWireLen q)]))
          (p0, [], [])
        let (r, hs) := decodeFailureX ldk keys p.data p.attr
        let dec := match r with
          | .attributed h c d => s!"attributed {h} {c} dlen={d.length} ddigest={hex (Prim.sha256 d)}"
          | other => showFail other
        let csv (l : List String) := if l.isEmpty then "none" else ",".intercalate l
        ((), s!"len0={p0.data.length} attr0={if p0.attr.isSome then 1 else 0} wire0={updateFailHtlcWireLen p0} len={p.data.length} kept={csv kept} wire={csv wires} digest={hex (Prim.sha256 p.data)} adigest={match p.attr with | none => "none" | some a => hex (Prim.sha256 (a.holdTimes ++ a.hmacs))} dec={dec} holds={csv (hs.map toString)}")
    | "faildecodex" :: n :: rest =>
      if rest.length ≠ nat! n + 2 then ((), "bad-op") else
      let keys := (rest.take (nat! n)).map fun ss => failKeysXOfSecret (unhex ss)
      let (r, holds) := decodeFailureX ldk keys (unhex (rest.getD (nat! n) "-")) (attrOf (rest.getD (nat! n + 1) "none"))
      let hs := if holds.isEmpty then "none" else ",".intercalate (holds.map toString)
      ((), s!"{showFail r} holds={hs}")
    | ["fulfilwrapx", ss, attr, hold] =>
      let a := processFulfillAttributionData ldk (failKeysXOfSecret (unhex ss)) (attrOf attr) (nat! hold)
      ((), hex (a.holdTimes ++ a.hmacs))
    | "fulfildecodex" :: n :: rest =>
      if rest.length ≠ nat! n + 1 then ((), "bad-op") else
      let keys := (rest.take (nat! n)).map fun ss => failKeysXOfSecret (unhex ss)
      match attrOf (rest.getD (nat! n) "none") with
      | none => ((), "bad-op")
      | some a =>
        let holds := decodeFulfillAttributionData ldk keys a
        ((), "holds=" ++ (if holds.isEmpty then "none" else ",".intercalate (holds.map toString)))
    | "payload" :: variant :: nf :: rest =>
      let nf := nat! nf
      let fields := pairsOf (rest.take (2 * nf))
      match rest.drop (2 * nf) with
      | nt :: trest =>
        if trest.length ≠ 2 * nat! nt then ((), "bad-op") else
        let f (name : String) : Option (List UInt8) :=
          match fields.lookup name with
          | some "none" => none
          | some h => some (unhex h)
          | none => none
        match OutPayload.ofFields variant f (recsOf trest) with
        | none => ((), "bad-op")
        | some p => ((), s!"{hex (encodePayload p.records)} inc={if strictIncB p.out.checkedTypes then 1 else 0}")
      | _ => ((), "bad-op")
    | "customnew" :: n :: rest =>
      if rest.length ≠ 2 * nat! n then ((), "bad-op") else
      match recipientCustomTlvsNew (recsOf rest) with
      | none => ((), "err")
      | some c => ((), s!"ok {showRecs c}")
    | ["payloaddec", payload, ubp, inner, showInv] =>
      let inn : BlindedInner := if inner == "fwd" then .forward else if inner == "dummy" then .dummy else .receive
      match readInstr (unhex payload) (ubp == "1") inn with
      | .error .framing => ((), "err framing")
      | .error .invalidValue => ((), "err InvalidValue")
      | .error .unknownRequired => ((), "err UnknownRequiredFeature")
      | .ok (kind, i) => ((), showInstr kind i (showInv == "1"))
    | ["instr", "forward", scid, amt, cltv] => ((), hex (HopInstr.forward (nat! scid) (nat! amt) (nat! cltv)).encode)
    | "instr" :: "receive" :: amt :: cltv :: secret :: total :: md :: ks :: nt :: rest =>
      if rest.length ≠ 2 * nat! nt then ((), "bad-op") else
      let pd := (optBytes secret).map fun s => (s, nat! total)
      ((), hex (HopInstr.receive (nat! amt) (nat! cltv) pd (optBytes md) (optBytes ks) (recsOf rest)).encode)
    | ["instr", "blindedForward", enc, bp] => ((), hex (HopInstr.blindedForward (unhex enc) (optBytes bp)).encode)
    | "instr" :: "blindedReceive" :: amt :: total :: cltv :: enc :: bp :: ks :: ir :: nt :: rest =>
      if rest.length ≠ 2 * nat! nt then ((), "bad-op") else
      ((), hex (HopInstr.blindedReceive (nat! amt) (nat! total) (nat! cltv) (unhex enc) (optBytes bp) (optBytes ks) (optBytes ir) (recsOf rest)).encode)
    | "fwdfail" :: mode :: ss :: rest =>
      let bf : Option BlindedFailure := if mode == "intro" then some .fromIntroductionNode else if mode == "inside" then some .fromBlindedNode else none
      let e : Option OnionError := match rest with
        | ["reason", code, data] => some (.reason (nat! code) (unhex data))
        | ["down", pkt, attr, hold] => some (.lightningError ⟨unhex pkt, attrOf attr⟩ (some (nat! hold)))
        | _ => none
      match e with
      | none => ((), "bad-op")
      | some e =>
        match getHtlcForwardFailure ldk bf e (failKeysXOfSecret (unhex ss)) with
        | .failHtlc p => ((), s!"pkt {hex p.data} {showAttr p.attr}")
        | .failMalformed c sha => ((), s!"malformed {c} {hex sha}")
    | "faildecodeb" :: nb :: u :: n :: showHop :: rest =>
      if rest.length ≠ nat! n + 1 then ((), "bad-op") else
      let keys := (rest.take (nat! n)).map fun ss => failKeysOfSecret (unhex ss)
      let hops := pathHops (keys.take (nat! u)) (keys.drop (nat! u))
      match decodeFailureB ldk (nat! nb) hops (unhex (rest.getLast?.getD "-")) with
      | .withinBlindedPath i => ((), s!"within {i}")
      | .plain (.attributed h c d) => ((), if showHop == "1" then showFail (.attributed h c d) else s!"attributed ? {c} {hex d}")
      | .plain d => ((), showFail d)
    | ["fwdblind", kind, intro, msgbp, ovr, derived] =>
      let h : Option FwdHop := if kind == "fwd" then some .forward else if kind == "tfwd" then some .trampolineForward else if kind == "bfwd" then some (.blindedForward (optBytes intro) (optBytes ovr)) else none
      match h with
      | none => ((), "bad-op")
      | some h =>
        let b := fwdBlinded h (optBytes msgbp)
        let nx := match nextBlindingPoint (fun _ => optBytes derived) b with | none => "none" | some x => hex x
        ((), s!"{showBlinded b} next={nx}")
    | "fwdchain" :: e0 :: n :: rest =>
      if rest.length ≠ 2 * nat! n then ((), "bad-op") else
      let hops := (pairsOf rest).map fun (o, d) => ({ derive := fun _ => optBytes d, next_blinding_override := optBytes o } : BlindedHopSpec)
      let fin := match relayFinalKey (some (unhex e0)) none hops with | none => "none" | some x => hex x
      ((), " | ".intercalate ((relayBlinded (some (unhex e0)) none hops).map showBlinded) ++ s!" | final={fin}")
    | ["blame", code, fin, upd] =>
      let b := blameDecision (nat! code) (fin == "1") true (upd == "1")
      let sc := match b.short_channel_id with | none => "none" | some .routeHop => "self" | some .failingHop => if fin == "1" then "self" else "next"
      ((), s!"scid={sc} perm={if b.payment_failed_permanently then 1 else 0}")
    | ["inbfail", bp, site, code] =>
      let st : Option InboundFailSite := if site == "hmac" then some (.decodeMalformed (nat! code)) else if site == "blindedcheck" then some .blindedForwardCheck else none
      match st with
      | none => ((), "bad-op")
      | some st =>
        match inboundFailure (bp == "1") st with
        | .malformed _ c => ((), s!"malformed {c}")
        | .relay _ _ => ((), "relay")
    | "faildecode" :: n :: rest =>
      if rest.length ≠ nat! n + 1 then ((), "bad-op") else
      let keys := (rest.take (nat! n)).map fun ss => failKeysOfSecret (unhex ss)
      ((), showFail (decodeFailure ldk keys (unhex (rest.getLast?.getD "-"))))
    | _ => ((), "bad-op")

end Ldk.Driver
