import LdkModel.Driver.C01
def main (args : List String) : IO UInt32 := Ldk.Driver.runMain [("c01txb", Ldk.Driver.c01txb)] args
