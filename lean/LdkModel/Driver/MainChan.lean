import LdkModel.Driver.Chan
def main (args : List String) : IO UInt32 := Ldk.Driver.runMain [("chan", Ldk.Driver.chan), ("mongate", Ldk.Driver.mongate)] args
