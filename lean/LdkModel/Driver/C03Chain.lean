import LdkModel.Driver.Util
import LdkModel.Model.OnchainFailed
import LdkModel.Model.Unbroadcast
namespace Ldk.Driver
open Ldk.OnchainFailed Ldk.Unbroadcast

/-! c03chain: the restart reconstruction `ChannelMonitor::get_onchain_failed_outbound_htlcs` recomputed by
    Model/OnchainFailed.lean on the monitor view the real node had (dumped by `verif_onchain_failed_view`; txids and
    HTLC sources interned to small numbers by the harness).
    op:  ocf <best> <fsc|-> <aw> <curCp|-> <prevCp|-> <cpc> <cpp> <holderCurTxid> <hcur> <holderPrevTxid|-> <hprev> <rtu> <roc>
           aw  = `txid:height:isFundingSpend01,...` | `-`      (onchain_events_awaiting_threshold_conf, in order)
           cpc / cpp / hcur / hprev = `src@idx,...` | `-`      (`x` = no source / no output index)
           rtu = `src,...` | `-`                                roc = `idx:hasPreimage01,...` | `-`
         answer: `failed <src,...|->` (sorted, without duplicates: the Rust result is a map)
         acur <curCp|-> <prevCp|-> <cpc> <cpp> <rtu>   (`get_all_current_outbound_htlcs`): `listed <src,...|->`
         rout <persisted parts> <sources listed with a preimage> <inMap01 of the channel> <1 iff the payment has another part on an OPEN channel> <the 13 ocf fields>
           (`ChannelManager::read` for one payment: `outcome sent|failed|pending` = restartOutcome)
         fub <confirmed txid> <curCp|-> <prevCp|-> <cpc> <cpp> <holderCurTxid> <hcur> <holderPrevTxid|-> <hprev> <ful>
           (the live `fail_unbroadcast_htlcs!` check when the transaction confirms; lists are `src@idx@hash@amt,...` | `-`,
            ful = sources in counterparty_fulfilled_htlcs): `queued <src,...|->` = queuedOnConfirm (sorted, no duplicates)
    `reset` answers `ok`. -/

def optNat (s : String) : Option Nat := if s == "-" || s == "x" then none else some (nat! s)

def csvOf (s : String) : List String := if s == "-" then [] else (s.splitOn ",").filter (· ≠ "")

def parseHtlcs (s : String) : List Htlc :=
  (csvOf s).map fun w => match w.splitOn "@" with
    | [a, b] => { src := optNat a, outIdx := optNat b }
    | _ => { src := none, outIdx := none }

def parseBHtlcs (s : String) : List BHtlc :=
  (csvOf s).map fun w => match w.splitOn "@" with
    | [a, b, h, v] => { src := optNat a, outIdx := optNat b, hash := nat! h, amt := nat! v }
    | _ => { src := none, outIdx := none, hash := 0, amt := 0 }

def parseAw (s : String) : List Awaiting :=
  (csvOf s).map fun w => match w.splitOn ":" with
    | [t, h, k] => { txid := nat! t, height := nat! h, isFundingSpend := k == "1" }
    | _ => { txid := 0, height := 0, isFundingSpend := false }

def parseRoc (s : String) : List Resolved :=
  (csvOf s).map fun w => match w.splitOn ":" with
    | [i, p] => { outIdx := optNat i, preimage := if p == "1" then some 0 else none }
    | _ => { outIdx := none, preimage := none }

def insertSorted (x : Nat) : List Nat → List Nat
  | [] => [x]
  | y :: ys => if x < y then x :: y :: ys else if x == y then y :: ys else y :: insertSorted x ys

def sortDedup (l : List Nat) : List Nat := l.foldl (fun acc x => insertSorted x acc) []

def c03chain : Drv where
  σ := Unit
  init := ()
  step := fun _ ws =>
    match ws with
    | ["reset"] => ((), "ok")
    | ["ocf", best, fsc, aw, cur, prev, cpc, cpp, hct, hc, hpt, hp, rtu, roc] =>
      let m : Mon :=
        { best := nat! best
          fundingSpendConfirmed := optNat fsc
          awaiting := parseAw aw
          curCp := optNat cur
          prevCp := optNat prev
          cpCur := parseHtlcs cpc
          cpPrev := parseHtlcs cpp
          holderCurTxid := nat! hct
          holderCur := parseHtlcs hc
          holderPrev := (optNat hpt).map (fun t => (t, parseHtlcs hp))
          resolvedToUser := (csvOf rtu).map (fun x => nat! x)
          resolvedOnChain := parseRoc roc }
      let r := sortDedup (onchainFailed m)
      ((), "failed " ++ (if r.isEmpty then "-" else String.intercalate "," (r.map toString)))
    | ["rout", persisted, pre, inMap0, extraOpen, best, fsc, aw, cur, prev, cpc, cpp, hct, hc, hpt, hp, rtu, roc] =>
      let m : Mon :=
        { best := nat! best
          fundingSpendConfirmed := optNat fsc
          awaiting := parseAw aw
          curCp := optNat cur
          prevCp := optNat prev
          cpCur := parseHtlcs cpc
          cpPrev := parseHtlcs cpp
          holderCurTxid := nat! hct
          holderCur := parseHtlcs hc
          holderPrev := (optNat hpt).map (fun t => (t, parseHtlcs hp))
          resolvedToUser := (csvOf rtu).map (fun x => nat! x)
          resolvedOnChain := parseRoc roc }
      -- the theorems' ChanView is PER PAYMENT: the monitor's lists restricted to the payment's own sources (decisions about a source
      -- never depend on other sources: find is by source, the resolved filter by output index, both kept)
      let parts := (csvOf persisted).map (fun x => nat! x)
      let mine (h : Htlc) : Bool := match h.src with | some s => parts.contains s | none => true
      let m : Mon := { m with cpCur := m.cpCur.filter mine, cpPrev := m.cpPrev.filter mine, holderCur := m.holderCur.filter mine,
                              holderPrev := m.holderPrev.map (fun p => (p.1, p.2.filter mine)) }
      let emptyMon : Mon := { m with curCp := none, prevCp := none, cpCur := [], cpPrev := [], fundingSpendConfirmed := none, awaiting := [] }
      let vs : List ChanView := { inMap := inMap0 == "1", mon := m, preimages := (csvOf pre).map (fun x => nat! x) } ::
        (if extraOpen == "1" then [{ inMap := true, mon := emptyMon, preimages := [] }] else [])
      let o := match restartOutcome ((csvOf persisted).map (fun x => nat! x)) vs with
        | .sent => "sent" | .failed => "failed" | .pending => "pending"
      ((), "outcome " ++ o)
    | ["acur", cur, prev, cpc, cpp, rtu] =>
      let m : Mon :=
        { best := 0
          fundingSpendConfirmed := none
          awaiting := []
          curCp := optNat cur
          prevCp := optNat prev
          cpCur := parseHtlcs cpc
          cpPrev := parseHtlcs cpp
          holderCurTxid := 0
          holderCur := []
          holderPrev := none
          resolvedToUser := (csvOf rtu).map (fun x => nat! x)
          resolvedOnChain := [] }
      let r := sortDedup (allCurrentOutbound m)
      ((), "listed " ++ (if r.isEmpty then "-" else String.intercalate "," (r.map toString)))
    | ["fub", t, cur, prev, cpc, cpp, hct, hc, hpt, hp, ful] =>
      let v : LiveView :=
        { curCp := optNat cur
          prevCp := optNat prev
          cpCur := parseBHtlcs cpc
          cpPrev := parseBHtlcs cpp
          holderCurTxid := nat! hct
          holderCur := parseBHtlcs hc
          holderPrev := (optNat hpt).map (fun t => (t, parseBHtlcs hp))
          fulfilled := (csvOf ful).map (fun x => nat! x) }
      let r := sortDedup (queuedOnConfirm v (nat! t))
      ((), "queued " ++ (if r.isEmpty then "-" else String.intercalate "," (r.map toString)))
    | _ => ((), "bad-op")

end Ldk.Driver
