import LdkModel.Driver.Util
import LdkModel.Model.Noise
import LdkModel.Model.Framing
import LdkModel.Model.PeerMsgs
import LdkModel.Model.EphKey
import LdkModel.Prim.Sha256
import LdkModel.Prim.Hkdf
import LdkModel.Prim.ChaChaPoly
/- C15 model driver: the abstract `Noise.Crypto` of the theorems instantiated with the executable
   SHA-256 / HKDF / ChaCha20-Poly1305 of `Prim/`; ECDH outputs come from the op line (trusted).

   model c15cipher (PeerChannelEncryptor through `verif_hooks::noise::Enc`):
     act1  <responder_static_pub> <ie_pub> <ss>                       → act one hex
     pact1 <our_static_pub> <act1> <ss(static,ie)|-> <re_pub> <ss(re,ie)|->  → act two hex | err
     pact2 <act2> <our_static_pub> <ss(ie,re)|-> <ss(static,re)|->    → act3 | err       (sets side A keys)
     pact3 <act3> <ss(re,their_static)|->                             → node_id | err    (sets side B keys)
     keys <A|B>            → sk sn sck rk rn rck   (used by the vector checks below)
     enc  <A|B> <msg>      → frame hex | err          dech <A|B> <18 bytes> → length | err
     decm <A|B> <box>      → plaintext hex | err
   model c15peer (two PeerManagers, or the harness speaking through `Enc` to one PeerManager):
     pconn                          → ok          (fresh in-sync sender/receiver, fresh gate)
     f init <len>                   → frame length (directive: plaintext = type ‖ zeros)
     f ping <ponglen> <byteslen>    → frame length (directive: PeerMsgs.encodePing)
     f pong <byteslen>              → frame length (directive: PeerMsgs.encodePong)
     f msg <type> <len> <seed>      → frame length (directive: generated payload)
     f raw <hex>                    → frame length (directive)
     run <corrupt_offset|-> <xor> <chunk sizes, comma separated>
                                    → n=<messages handed to the custom handler> d=<digest> <open|disc>
                                      (PeerMsgs.nodeRun over the decrypted sequence: decode, Init gate, Ping / Pong arms)
     replies                        → plaintext lengths of the messages the node built itself during the last
                                      `run` (pongs, decode-failure warnings), comma separated, `-` = none
     rcr <n>                        → wire length of a reply_channel_range carrying n short channel ids
     runc <chunk sizes>             → calls=<handler methods the dispatch table names for the messages passed up, in order|-> <open|disc>
                                      (same nodeRun; the recording handlers of the harness must have seen exactly these calls)
     eph <seed hex> <k>             → the ephemeral SECRET key of the k-th get_ephemeral_key call (k from 0) of a
                                      PeerManager created with that `ephemeral_random_data`: EphKey.runConns with
                                      SHA-256 over the translated preimage (Generated/PeerEph.lean)
     gate <hex>                     → one gateStep on a plaintext message (state kept): init|up|up+disc|ignored|disc
-/
namespace Ldk.Driver
open Ldk Ldk.Noise Ldk.Framing Ldk.PeerMsgs

/-- secp256k1 field prime -/
def secpP : Nat := 2 ^ 256 - 2 ^ 32 - 977

def powMod (b e m : Nat) : Nat := Id.run do
  let mut r := 1
  let mut base := b % m
  let mut ex := e
  for _ in [0:260] do
    if ex % 2 == 1 then r := (r * base) % m
    base := (base * base) % m
    ex := ex / 2
  return r

def beNat (b : Bytes) : Nat := b.foldl (fun acc x => acc * 256 + x.toNat) 0

/-- `PublicKey::from_slice` on 33 bytes: prefix 02/03, x < p, x³ + 7 a square mod p -/
def validPub33 (b : Bytes) : Bool :=
  b.length == 33 && (b.head? == some 2 || b.head? == some 3) &&
  (let x := beNat (b.drop 1)
   x < secpP && (let y2 := (x * x % secpP * x + 7) % secpP
                 y2 == 0 || powMod y2 ((secpP - 1) / 2) secpP == 1))

/-- the concrete primitives.  `ecdh` / `pubOf` are not used by the driver (shared secrets and
    public keys arrive on the op line). -/
def concrete : Crypto where
  aeadSeal := Prim.ChaChaPoly.seal
  aeadOpen := Prim.ChaChaPoly.open
  hkdf2 := Prim.hkdf2
  hash := Prim.sha256
  ecdh := fun _ _ => []
  pubOf := fun _ => []
  validPub := validPub33

structure C15St where
  iHS : HS := { h := [], ck := [] }
  rP2 : Option ResponderPostTwo := none
  sndA : Sender := { sk := [], sn := 0, sck := [] }
  rcvA : Receiver := Receiver.start [] []
  sndB : Sender := { sk := [], sn := 0, sck := [] }
  rcvB : Receiver := Receiver.start [] []
  -- c15peer
  psnd : Sender := { sk := [], sn := 0, sck := [] }
  prcv : Receiver := Receiver.start [] []
  stream : List Bytes := []     -- frames, newest first
  gate : Gate := Gate.start
  lastReplies : List Bytes := []

def ssArg (s : String) : Bytes → Bytes := fun _ => unhex s

/-- fixed transport keys of the c15peer model (the real session keys are not visible to the
    harness; the byte-level behaviour does not depend on their value) -/
def peerKey : Bytes := (List.range 32).map (fun i => UInt8.ofNat (i * 7 + 1))
def peerCk : Bytes := (List.range 32).map (fun i => UInt8.ofNat (i * 5 + 3))

/-- generated payload, same formula in harness/src/bin/c15.rs -/
def genPayload (len seed : Nat) : Bytes :=
  (List.range len).map (fun i => UInt8.ofNat (seed + i * 31 + i / 256))

def typed (ty len : Nat) : Bytes := be16 ty ++ List.replicate (len - 2) 0

/-- which `wire::Message` variant a type id decodes to: the table of `wire::do_read` (generated,
    `PeerGate.wireVariant`), and for ids outside it the harness' custom reader, which takes
    `t ≥ 32768 ∧ t % 4 < 2`; everything else is `Message::Unknown` -/
def classify (t : Nat) : PeerGate.MK :=
  match PeerGate.wireVariant t with
  | some k => k
  | none => if t ≥ 32768 && t % 4 < 2 then .Custom else .Unknown

/-- `wire::read` on the non-control messages the harness sends: a channel_announcement / node_announcement /
    channel_update too short to hold its leading 64-byte signature fails with ShortRead
    (`is_gossip_msg` ⇒ warning, peer kept); everything else the harness sends decodes or is
    `Message::Unknown` -/
def otherDecode (m : Bytes) : Decoded :=
  if (msgType m == 256 || msgType m == 257 || msgType m == 258) && m.length < 2 + 64 then .bogusGossip
  else .ok

def digestStep (h : Nat) (x : Nat) : Nat := (h * 1000003 + x) % 2305843009213693951

def digestMsg (h : Nat) (m : Bytes) : Nat :=
  m.foldl (fun acc b => digestStep acc (b.toNat + 1)) (digestStep h (1000 + m.length))

def xorAt (b : Bytes) (off : Nat) (x : UInt8) : Bytes :=
  match b.drop off with
  | [] => b
  | y :: rest => b.take off ++ (y ^^^ x) :: rest

def cutBy : Bytes → List Nat → List Bytes
  | [], _ => []
  | _, [] => []
  | b, n :: ns => b.take n :: cutBy (b.drop n) ns

def splitCommas (s : String) : List Nat :=
  if s == "-" then [] else (s.splitOn ",").map nat!

def side (st : C15St) (a : String) : Sender × Receiver :=
  if a == "A" then (st.sndA, st.rcvA) else (st.sndB, st.rcvB)
def setSnd (st : C15St) (a : String) (s : Sender) : C15St :=
  if a == "A" then { st with sndA := s } else { st with sndB := s }
def setRcv (st : C15St) (a : String) (r : Receiver) : C15St :=
  if a == "A" then { st with rcvA := r } else { st with rcvB := r }

def pushFrame (st : C15St) (m : Bytes) : C15St × String :=
  match send concrete st.psnd m with
  | none => (st, "err")
  | some (f, s1) => ({ st with psnd := s1, stream := f :: st.stream }, toString f.length)

def c15step (st : C15St) (ws : List String) : C15St × String :=
  let c := concrete
  match ws with
  | ["act1", rs, ie, ss] =>
    let (act, hs) := getActOne c (unhex rs) (unhex ie) (unhex ss)
    ({ st with iHS := hs }, hex act)
  | ["pact1", ourPub, act, ss1, rePub, ss2] =>
    match processActOne c (unhex ourPub) (unhex act) (unhex rePub) (ssArg ss1) (ssArg ss2) with
    | none => (st, "err")
    | some (act2, rp) => ({ st with rP2 := some rp }, hex act2)
  | ["pact2", act2, ourPub, ssE, ssS] =>
    match processActTwo c st.iHS (unhex act2) (unhex ourPub) (ssArg ssE) (ssArg ssS) with
    | none => (st, "err")
    | some (act3, k) =>
      ({ st with sndA := Sender.ofKeys k, rcvA := Receiver.ofKeys k }, hex act3)
  | ["pact3", act3, ss] =>
    match st.rP2 with
    | none => (st, "err")
    | some rp =>
      match processActThree c rp (unhex act3) (ssArg ss) with
      | none => (st, "err")
      | some (id, k) =>
        ({ st with sndB := Sender.ofKeys k, rcvB := Receiver.ofKeys k }, hex id)
  | ["keys", a] =>
    let (s, r) := side st a
    (st, s!"{hex s.sk} {s.sn} {hex s.sck} {hex r.rk} {r.rn} {hex r.rck}")
  | ["enc", a, m] =>
    match send c (side st a).1 (unhex m) with
    | none => (st, "err")
    | some (f, s1) => (setSnd st a s1, hex f)
  | ["dech", a, b] =>
    match decryptLengthHeader c (side st a).2 (unhex b) with
    | none => (st, "err")
    | some (len, r1) => (setRcv st a r1, toString len)
  | ["decm", a, b] =>
    match decryptMessage c (side st a).2 (unhex b) with
    | none => (st, "err")
    | some (m, r1) => (setRcv st a r1, hex m)
  | ["pconn"] =>
    ({ st with psnd := { sk := peerKey, sn := 0, sck := peerCk },
               prcv := Receiver.start peerKey peerCk, stream := [], gate := Gate.start }, "ok")
  | ["f", "init", len] => pushFrame st (typed 16 (nat! len))
  | ["f", "ping", pl, bl] => pushFrame st (encodePing (nat! pl) (nat! bl))
  | ["f", "pong", bl] => pushFrame st (encodePong (nat! bl))
  | ["f", "msg", ty, len, seed] => pushFrame st (be16 (nat! ty) ++ genPayload (nat! len) (nat! seed))
  | ["f", "raw", h] => pushFrame st (unhex h)
  | ["run", off, x, sizes] =>
    let bytes := st.stream.reverse.flatten
    let bytes := if off == "-" then bytes else xorAt bytes (nat! off) (UInt8.ofNat (nat! x))
    let (delivered, r) := recvChunks c st.prcv (cutBy bytes (splitCommas sizes))
    let evs := nodeRun classify (fun _ => true) otherDecode st.gate delivered
    let ups := upsOf evs
    let dropped := r.isNone || evs.contains .disc
    let d := ups.foldl digestMsg 7
    ({ st with stream := [], lastReplies := repliesOf evs },
     s!"n={ups.length} d={d} {if dropped then "disc" else "open"}")
  | ["runc", sizes] =>
    let bytes := st.stream.reverse.flatten
    let (delivered, r) := recvChunks c st.prcv (cutBy bytes (splitCommas sizes))
    let evs := nodeRun classify (fun _ => true) otherDecode st.gate delivered
    let calls := (upsOf evs).flatMap (fun m => (PeerGate.dispatch (classify (msgType m)) (msgType m % 2 == 0)).calls)
    let dropped := r.isNone || evs.contains .disc
    ({ st with stream := [], lastReplies := repliesOf evs },
     s!"calls={if calls.isEmpty then "-" else ",".intercalate calls} {if dropped then "disc" else "open"}")
  | ["replies"] =>
    (st, if st.lastReplies.isEmpty then "-"
         else ",".intercalate (st.lastReplies.map (fun r => toString r.length)))
  | ["rcr", n] => (st, toString (replyChannelRangeLen (nat! n)))
  | ["gate", m] =>
    let (g1, o) := gateStep classify (fun _ => true) st.gate (unhex m)
    ({ st with gate := g1 }, match o with
      | .initOk => "init" | .passUp _ => "up" | .passUpDisc _ => "up+disc" | .ignored => "ignored" | .disconnect => "disc")
  | ["eph", seed, k] =>
    let ks := EphKey.runConns Prim.sha256 (unhex seed) EphKey.EphSt.fresh (List.replicate (nat! k + 1) EphKey.ConnOp.hook)
    (st, match ks[nat! k]? with | some key => hex key | none => "err")
  | _ => (st, "bad-op")

def c15cipher : Drv where
  σ := C15St
  init := {}
  step := c15step

def c15peer : Drv where
  σ := C15St
  init := {}
  step := c15step

/-! BOLT-8 appendix A test vectors (the hex is copied from the tests of
    lightning/src/ln/peer_channel_encryptor.rs; shared secrets are the ECDH outputs of the vector
    keys).  Tests, labelled as tests. -/
section Vectors
private def rsPub := "028d7500dd4c12685d1f568b4c2b5048e8534b873319f3a8daa612b469132ec7f7"
private def lsPub := "034f355bdcb7cc0af728ef3cceb9615d90684bb5b2ca5f859ab0f0b704075871aa"
private def iePub := "036360e856310ce5d294e8be33fc807077dc56ac80d95d9cd4ddbd21325eff73f7"
private def rePub := "02466d7fcae563e5cb09a0d1870bb580344804617879a14949cf22285f1bae3f27"
private def ss1 := "1e2fb3c8fe8fb9f262f649f64d26ecf0f2c0a805a767cf02dc2d77a6ef1fdcc3"
private def ss2 := "c06363d6cc549bcb7913dbb9ac1c33fc1158680c89e972000ecd06b36c472e47"
private def ss3 := "b36b6d195982c5be874d6d542dc268234379e1ae4ff1709402135b7de5cf0766"
private def act1 := "00036360e856310ce5d294e8be33fc807077dc56ac80d95d9cd4ddbd21325eff73f70df6086551151f58b8afe6c195782c6a"
private def act2 := "0002466d7fcae563e5cb09a0d1870bb580344804617879a14949cf22285f1bae3f276e2470b93aac583c9ef6eafca3f730ae"
private def act3 := "00b9e3a702e93e3a9948c2ed6e5fd7590a6e1c3a0344cfc9d5b57357049aa22355361aa02e55a8fc28fef5bd6d71ad0c38228dc68b1c466263b47fdf31e560e139ba"
private def kSk := "969ab31b4d288cedf6218839b27a3e2140827047f2c0f01bf5c04435d43511a9"
private def kRk := "bb9020b8965f4df047e07f955f3c4b88418984aadc5cdb35096b9ea8fa5c3442"
private def kCk := "919219dbb2920afa8db80f9a51787a840bcf111ed8d588caf9ab4be716e42b01"

private def runOps (ops : List (List String)) : List String :=
  (ops.foldl (fun (acc : C15St × List String) op =>
    let (s, o) := c15step acc.1 op; (s, o :: acc.2)) (({} : C15St), [])).2.reverse

#guard runOps [["act1", rsPub, iePub, ss1], ["pact2", act2, lsPub, ss2, ss3], ["keys", "A"]]
  = [act1, act3, s!"{kSk} 0 {kCk} {kRk} 0 {kCk}"]
#guard runOps [["pact1", rsPub, act1, ss1, rePub, ss2], ["pact3", act3, ss3], ["keys", "B"]]
  = [act2, lsPub, s!"{kRk} 0 {kCk} {kSk} 0 {kCk}"]
-- bad version / bad key serialization / bad MAC vectors
#guard runOps [["pact1", rsPub, "01" ++ (act1.drop 2).toString, ss1, rePub, ss2]] = ["err"]
#guard runOps [["pact1", rsPub, "0004" ++ (act1.drop 4).toString, "-", rePub, "-"]] = ["err"]
#guard runOps [["pact1", rsPub, (act1.dropEnd 1).toString ++ "b", ss1, rePub, ss2]] = ["err"]
#guard validPub33 (unhex rsPub) && validPub33 (unhex iePub) && !validPub33 (unhex ("04" ++ (iePub.drop 2).toString))

/-- "hello" frames number 0, 1, 500, 501, 1000, 1001 under the vector keys -/
private def helloFrames : List String := Id.run do
  let mut s : Sender := { sk := unhex kSk, sn := 0, sck := unhex kCk }
  let mut out := []
  for i in [0:1002] do
    let (f, s1) := frame concrete s "hello".toUTF8.toList
    s := s1
    if i == 0 || i == 1 || i == 500 || i == 501 || i == 1000 || i == 1001 then out := hex f :: out
  return out.reverse
#guard helloFrames = [
  "cf2b30ddf0cf3f80e7c35a6e6730b59fe802473180f396d88a8fb0db8cbcf25d2f214cf9ea1d95",
  "72887022101f0b6753e0c7de21657d35a4cb2a1f5cde2650528bbc8f837d0f0d7ad833b1a256a1",
  "178cb9d7387190fa34db9c2d50027d21793c9bc2d40b1e14dcf30ebeeeb220f48364f7a4c68bf8",
  "1b186c57d44eb6de4c057c49940d79bb838a145cb528d6e8fd26dbe50a60ca2c104b56b60e45bd",
  "4a2f3cc3b5e78ddb83dcb426d9863d9d9a723b0337c89dd0b005d89f8d3c05c52b76b29b740f09",
  "2ecd8c8a5629d0d02ab457a0fdd0f7b90a192cd46be5ecb6ca570bfc5e268338b1a16cf4ef2d36"]
end Vectors

end Ldk.Driver
