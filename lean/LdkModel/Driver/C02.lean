import LdkModel.Driver.Util
import LdkModel.Model.Forward
import LdkModel.Model.ForwardClose
import LdkModel.Model.ForwardMulti
import LdkModel.Generated.Blinded
import LdkModel.Model.RaaBlock
namespace Ldk.Driver
open Ldk Ldk.Forward

/-- `admit <height> <inAmt> <inCltv> <outAmt> <outCltv> <feeBase> <feeProp> <delta>` → `ok` / `err <class>` -/
def c02admit : Drv where
  σ := Unit
  init := ()
  step := fun _ ws =>
    match ws with
    | ["admit", h, ia, ic, oa, oc, fb, fp, d] =>
      match admitFwd ⟨nat! fb, nat! fp, nat! d⟩ (nat! h) (nat! ia) (nat! ic) (nat! oa) (nat! oc) with
      | .ok _ => ((), "ok")
      | .error e => ((), if reasonClass e == "other" then "err other" else "err " ++ reasonClass e ++ " " ++ e.name)
    | _ => ((), "bad-op")

/-- `hop <best> <flags> <acceptPriv> <prevPublic> <scid> <inAmt> <inCltv> <outAmt> <outCltv> <kind…>` with kind
    `chan <announce> <live> <enabled> <connected> <scidPrivacy> <alias> <cpMin> <feeProp> <feeBase> <delta> <hasPrev> <pProp>
    <pBase> <pDelta>` | `phantom` | `intercept` | `unknown`  →  `reject <Reason>` | `forward <amt> <cltv>` |
    `intercept <inbound> <expected> <expiry>` | `phantom <amt> <cltv>`;
    `release <inbound> <expected> <expiry> <amt>` (`forward_intercepted_htlc(.., amt)`) → `offer <amt> <cltv>` -/
def c02hop : Drv where
  σ := Unit
  init := ()
  step := fun _ ws =>
    let b (w : String) : Bool := w == "1"
    let answer (best fl ap pp scid ia ic oa oc : String) (hop : NextHop) : String :=
      let o := outcome ⟨nat! fl, b ap⟩ (nat! best) hop ⟨b pp, nat! scid, nat! ia, nat! ic, nat! oa, nat! oc⟩
      match o with
      | .reject r => "reject " ++ r.name
      | .forward a c => s!"forward {a} {c}"
      | .intercepted i e x => s!"intercept {i} {e} {x}"
      | .phantomRecv a c => s!"phantom {a} {c}"
    match ws with
    | ["hop", best, fl, ap, pp, scid, ia, ic, oa, oc, "chan", an, lv, en, cn, sp, al, mn, fp, fb, d, hp, pfp, pfb, pd] =>
      let prev : Option FwdGen.Cfg := if b hp then some ⟨nat! pfp, nat! pfb, nat! pd⟩ else none
      ((), answer best fl ap pp scid ia ic oa oc (.chan ⟨b an, b lv, b en, b cn, b sp, nat! al, nat! mn, ⟨nat! fp, nat! fb, nat! d⟩, prev⟩))
    | ["hop", best, fl, ap, pp, scid, ia, ic, oa, oc, "phantom"] => ((), answer best fl ap pp scid ia ic oa oc .phantom)
    | ["hop", best, fl, ap, pp, scid, ia, ic, oa, oc, "intercept"] => ((), answer best fl ap pp scid ia ic oa oc .interceptScid)
    | ["hop", best, fl, ap, pp, scid, ia, ic, oa, oc, "unknown"] => ((), answer best fl ap pp scid ia ic oa oc .unknown)
    -- `blinded <inAmt> <inCltv> <feeBase> <feeProp> <delta> <htlcMin> <maxCltv> <unknownFeatures>`: check_blinded_forward
    | ["blinded", ia, ic, fb, fp, d, mn, mx, uf] =>
      match BlindedGen.checkBlindedForward (nat! ia) (nat! ic) ⟨nat! d, nat! fp, nat! fb⟩ ⟨nat! mx, nat! mn⟩ (b uf) with
      | some (a, c) => ((), s!"forward {a} {c}")
      | none => ((), "reject blinded")
    | ["release", i, e, x, amt] =>
      match releaseIntercepted (.intercepted (nat! i) (nat! e) (nat! x)) (nat! amt) with
      | some (a, c) => ((), s!"offer {a} {c}")
      | none => ((), "offer -")
    | _ => ((), "bad-op")

/-- `fc <seen: hc|la|committed|rm-ok|rm-fail> <heldExists> <sent> <cHas> <bHas> <observed: drop|keep>`: one forwarded HTLC on the
    outbound channel at the instant the forwarding node force-closes it.  The answer validates the observation against the
    generated selection of `force_shutdown` and the model's invariant: `ok`, or what the model allows. -/
def c02close : Drv where
  σ := Unit
  init := ()
  step := fun _ ws =>
    let b (w : String) : Bool := w == "1"
    -- tokens starting with `@` are case tags (scenario / position), not part of the op
    let ws := ws.filter (fun w => !w.startsWith "@")
    match ws with
    | ["fc", seen, held, sent, cHas, bHas, observed] =>
      let v? : Option FwdClose.Seen := match seen with
        | "hc" => some .holdingCell | "la" => some .awaitingRemoteRevokeToAdd | "committed" => some .committed
        | "rm-ok" => some (.removing true) | "rm-fail" => some (.removing false) | _ => none
      match v? with
      | none => ((), "bad-op")
      | some v =>
        let allowed := v.decisions (b held)
        let okDecision := allowed.contains (observed == "drop")
        let okObs := v.consistent (b sent) (b cHas) (b bHas)
        if okDecision && okObs then ((), "ok")
        else ((), s!"MISMATCH allowed={allowed.map (fun d => if d then "drop" else "keep")} observation-consistent={okObs}")
    -- `onchain <n> <accepted> <source:hashId:amountMsat,…>`: the downstream channel (n forwarded HTLCs) is on chain and the next hop's
    -- preimage spends of these HTLC outputs (accepted = on ITS commitment) are seen by the forwarder's monitor before the manager
    -- drains the events; answer: the sources the N-machine claims upstream (`chainSee`, `drainEvents`, then `sendFulfilUp` for all)
    | ["onchain", n, acc, claims] =>
      let cs : List FwdMulti.Claim := (claims.splitOn ",").filterMap fun t =>
        match t.splitOn ":" with
        | [k, h, a] => some ⟨b acc, nat! k, nat! h, nat! a, 1 + nat! h⟩
        | _ => none
      let ids := List.range (nat! n)
      let m := FwdMulti.mrunTab (FwdMulti.minit (nat! n)) ([.chainSee cs, .drainEvents] ++ ids.map fun i => FwdMulti.MOp.sendFulfilUp i)
      let got := ids.filter fun i => (m.hs i).up == .fulfilSent
      let ok := FwdMulti.coherent m
      ((), "claimed " ++ (if got.isEmpty then "-" else ",".intercalate (got.map toString)) ++ (if ok then "" else " INCOHERENT"))
    | _ => ((), "bad-op")

structure FwdSt where
  s : St := {}
  inAmt : Nat := 0
  outAmt : Nat := 0

def showUpd : Upd → String | .notYet => "n" | .handedToWatch => "h" | .durable => "d"
def showRaa : Raa → String | .notYet => "n" | .blocked => "b" | .handedToWatch => "h" | .durable => "d"
def showUp : Up → String | .pending => "p" | .fulfilSent => "f" | .failSent => "x"
def showPre (s : St) : String :=
  if s.upPreimageDurable then "d" else if s.upPreimageHandedToWatch then "h" else "n"

def stateLine (s : St) : String :=
  s!"pre={showPre s} cs={showUpd s.downCsUpdate} raa={showRaa s.downRaaUpdate} up={showUp s.up}"

def showInt (i : Int) : String := if i < 0 then "-" ++ toString i.natAbs else toString i.natAbs

/-- one forwarded HTLC at node B: the ops are what the harness observed happening to / at B, the answer is the
    model's view of the monitor-update gating after the op; B's own upstream sends are validated against the
    guards of `Forward.step` -/
def c02fwd : Drv where
  σ := FwdSt
  init := {}
  step := fun st ws =>
    -- tokens starting with `@` are case tags (scenario / position), not part of the op
    let ws := ws.filter (fun w => !w.startsWith "@")
    let go (op : Op) : FwdSt × String := let s' := Forward.step st.s op; ({ st with s := s' }, stateLine s')
    match ws with
    | ["init", ia, oa] => let st' : FwdSt := { s := Forward.init, inAmt := nat! ia, outAmt := nat! oa }; (st', stateLine st'.s)
    | ["sync", b] => go (.setSync (b == "1"))
    | ["recvFulfilDown"] => go .recvFulfilDown
    | ["recvFailDown"] => go .recvFailDown
    | ["recvCsDown"] => go .recvCsDown
    | ["recvRaaDown"] => go .recvRaaDown
    | ["complete", "up"] => go (.complete .up)
    | ["complete", "downCs"] => go (.complete .downCs)
    | ["complete", "downRaa"] => go (.complete .downRaa)
    | ["handUpOther"] => go .handUpOther
    | ["complete", "upOther"] => go .completeUpOther
    | ["crash", lost] => go (.crash (lost == "1"))
    | ["restart", sy] => go (.restart (sy == "1"))
    | ["chainPreimage"] => go .chainPreimage
    | ["chainTimeout", d] => go (.chainTimeout (nat! d))
    | ["other"] => (st, stateLine st.s)
    | ["sendUp", "fulfil"] =>
      let s' := Forward.step st.s .sendFulfilUp
      if st.s.up == .pending && s'.up == .fulfilSent then ({ st with s := s' }, "ok " ++ stateLine s')
      else (st, "NOT-ENABLED sendFulfilUp in " ++ stateLine st.s)
    | ["sendUp", "fail"] =>
      let s' := Forward.step st.s .sendFailUp
      if st.s.up == .pending && s'.up == .failSent then ({ st with s := s' }, "ok " ++ stateLine s')
      else (st, "NOT-ENABLED sendFailUp in " ++ stateLine st.s)
    | ["resendUp", "fulfil"] => (st, if st.s.up == .fulfilSent then "ok" else "NOT-ENABLED resend fulfil in " ++ stateLine st.s)
    | ["resendUp", "fail"] => (st, if st.s.up == .failSent then "ok" else "NOT-ENABLED resend fail in " ++ stateLine st.s)
    | ["final"] =>
      let s := st.s
      let settled := s.up != .pending && (s.downRaaUpdate == .durable)
      (st, s!"final up={showUp s.up} settled={if settled then 1 else 0} delta={showInt (deltaWorst st.inAmt st.outAmt s)}")
    | _ => (st, "bad-op")

structure MultiSt where
  m : RaaBlock.BlockMap := RaaBlock.BlockMap.empty

/-- two inbound edges, one outbound edge (downstream channel id 1): the state is the blocker map driven by the GENERATED
    `registerOnFulfil` / `release`; `raa <handed|parked>` / `flush <flies|stays>` validate what the real node did with the
    downstream `revoke_and_ack` update against the generated `held` (via `RaaBlock.raaParked`): while a blocker of a claim whose
    preimage update has not completed is registered, the update must not reach chain::Watch -/
def c02multi : Drv where
  σ := MultiSt
  init := {}
  step := fun st ws =>
    let ws := ws.filter (fun w => !w.startsWith "@")
    let blockers := fun (m : RaaBlock.BlockMap) => " ".intercalate ((RaaBlock.BlockMap.get m 1).map toString)
    match ws with
    | ["minit"] => ({}, "ok")
    | ["crashed"] => (st, "ok")
    | ["fulfil", b] => ({ m := RaaBlock.stepEv st.m (.fulfil 1 (nat! b)) }, "ok")
    | ["rel", b] => ({ m := RaaBlock.stepEv st.m (.release 1 (nat! b)) }, "ok")
    -- `reldup <b>`: FreeDuplicateClaimImmediately (generated releaseDuplicate); `evheld <chan> <cp> <c:p,...>`: generated pending-events disjunct
    | ["reldup", b] => let m' := RaaBlockGen.releaseDuplicate st.m 1 (nat! b); ({ m := m' }, "blockers " ++ blockers m')
    | ["evheld", c, cp, evs] =>
      let l : List (Option (Nat × Nat)) := (evs.splitOn ",").map fun t => match t.splitOn ":" with | [a, b] => some (nat! a, nat! b) | _ => none
      (st, if RaaBlockGen.held st.m (nat! c) || RaaBlockGen.heldByEvents l (nat! c) (nat! cp) then "held" else "free")
    | ["raa", obs] =>
      if RaaBlock.raaParked st.m 1 && obs == "handed" then (st, s!"MISMATCH revoke_and_ack update handed to chain::Watch while blockers [{blockers st.m}] are registered") else (st, "ok")
    | ["flush", obs] =>
      if RaaBlock.raaParked st.m 1 && obs == "flies" then (st, s!"MISMATCH parked revoke_and_ack update released while blockers [{blockers st.m}] are registered") else (st, "ok")
    | _ => (st, "bad-op")

end Ldk.Driver
