/- C05, holder side on real nodes whose ChannelMonitor went on chain BY ITSELF (model `c05h`, harness bin c05h).
   op `hg <fundingSpendSeen> <lockdown> <holderTxSigned> <isManualBroadcast> <fundingSeenOnchain> <persistCompleted> <chanCur>`:
   a commitment_signed accepted by a live channel whose monitor has the given REAL flags (hook monitor_close_flags), through
   `HolderGate.step` with the GENERATED refusal rule inside.
   Answer: `nfua=<GENERATED no_further_updates_allowed on the flags> mon=<monitor's holder number after> released=<0|1> held=<-|number:frozen>`.
   op `trig <kind> <isManualBroadcast> <fundingSeenOnchain>`: the monitor decides to go on chain (kind: timeout = block_confirmed,
   queue1 / queue0 = queue_latest_holder_commitment_txn_for_broadcast(require_funding_seen = true / false)) through the
   corresponding `HolderGate.step` event: `signed=<holder_tx_signed after> queued=<a signature was requested> nfua=<..>`. -/
import LdkModel.Model.HolderGate
import LdkModel.Generated.RaaRelease
import LdkModel.Driver.Util
namespace Ldk.Driver
open Ldk

def b01 (b : Bool) : String := if b then "1" else "0"

def c05hStep : List String → String
  | ["hg", sp, lk, sg, man, seen, pc, cur] =>
    let f : HolderGate.Flags := { fundingSpendSeen := sp == "1", lockdownFromOffchain := lk == "1", holderTxSigned := sg == "1",
                                  isManualBroadcast := man == "1", fundingSeenOnchain := seen == "1" }
    let s0 : HolderGate.Sys := { HolderGate.Sys.init (nat! cur) with flags := f }
    match HolderGate.step s0 (.csRecv (pc == "1")) with
    | none => "disabled"
    | some s => s!"nfua={b01 (HolderGate.noFurtherUpdatesAllowed f)} mon={s.monCur} released={s.released.length} held={match s.inflight with | none => "-" | some (n, fr) => s!"{n}:{b01 fr}"}"
  | ["trig", kind, man, seen] =>
    let s0 := HolderGate.Sys.initF 10 (man == "1") (seen == "1")
    let ev : Option HolderGate.Ev := match kind with
      | "timeout" => some .htlcTimeout
      | "queue1" => some (.goOnChain true)
      | "queue0" => some (.goOnChain false)
      | _ => none
    match ev.bind (HolderGate.step s0) with
    | none => "bad-op"
    | some s => s!"signed={b01 s.flags.holderTxSigned} queued={b01 (!s.signReq.isEmpty)} nfua={b01 (HolderGate.noFurtherUpdatesAllowed s.flags)}"
  -- `rel <next_transaction_number>`: the index get_last_revoke_and_ack releases (GENERATED releaseIdx)
  | ["rel", next] => s!"idx={RaaRelease.releaseIdx (nat! next)}"
  -- `reest <next_transaction_number> <msg.next_remote_commitment_number>`: channel_reestablish's required_revoke decision (GENERATED)
  | ["reest", next, msgN] =>
    match RaaRelease.requiredRevoke (nat! msgN) (RaaRelease.ourCommitmentTransaction (nat! next)) with
    | .none => "none"
    | .retransmit => s!"retransmit idx={RaaRelease.releaseIdx (nat! next)}"
    | .error => "error"
  | _ => "bad-op"

def c05h : Drv := { σ := Unit, init := (), step := fun _ ws => ((), c05hStep ws) }

end Ldk.Driver
