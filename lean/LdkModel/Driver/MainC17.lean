import LdkModel.Driver.C17
def main (args : List String) : IO UInt32 := Ldk.Driver.runMain [("c17", Ldk.Driver.c17)] args
