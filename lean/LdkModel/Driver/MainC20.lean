import LdkModel.Driver.C20
def main (args : List String) : IO UInt32 := Ldk.Driver.runMain [("c20", Ldk.Driver.c20)] args
