import LdkModel.Driver.C10
def main (args : List String) : IO UInt32 := Ldk.Driver.runMain [("c10", Ldk.Driver.c10)] args
