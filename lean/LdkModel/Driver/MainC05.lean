import LdkModel.Driver.C05
def main (args : List String) : IO UInt32 := Ldk.Driver.runMain [("c05", Ldk.Driver.c05)] args
