import LdkModel.Driver.C15
def main (args : List String) : IO UInt32 := Ldk.Driver.runMain [("c15cipher", Ldk.Driver.c15cipher), ("c15peer", Ldk.Driver.c15peer)] args
