import LdkModel.Driver.C15
import LdkModel.Driver.C15Write
def main (args : List String) : IO UInt32 := Ldk.Driver.runMain [("c15cipher", Ldk.Driver.c15cipher), ("c15peer", Ldk.Driver.c15peer), ("c15write", Ldk.Driver.c15write)] args
