import LdkModel.Driver.Util
import LdkModel.Model.RaaGate
import LdkModel.Model.HolderGate
namespace Ldk.Driver
open Ldk Ldk.Chan Ldk.RaaGuard

def parseInSt (s : String) : Option InState :=
  if s == "RemoteAnnounced" then some .remoteAnnounced
  else if s == "AwaitingRemoteRevokeToAnnounce" then some .awaitingRemoteRevokeToAnnounce
  else if s == "AwaitingAnnouncedRemoteRevoke" then some .awaitingAnnouncedRemoteRevoke
  else if s == "Committed" then some .committed
  else if s == "LocalRemoved" then some (.localRemoved false) else none

def parseOutSt (s : String) : Option OutState :=
  if s == "LocalAnnounced" then some .localAnnounced
  else if s == "Committed" then some .committed
  else if s == "RemoteRemoved" then some (.remoteRemoved false)
  else if s == "AwaitingRemoteRevokeToRemove" then some (.awaitingRemoteRevokeToRemove false)
  else if s == "AwaitingRemovedRemoteRevoke" then some (.awaitingRemovedRemoteRevoke false) else none

/-- C05 op `raag <cpNext> <bits> <inbound states> <outbound states>`: the GENERATED guard chain and state step of
    `revoke_and_ack` (Generated/RaaGuard.lean) on what the harness read from the real channel (hook
    `channel_raa_guard_inputs`: 14 bits) followed by the 4 message-dependent bits (secret parses, matches the announced
    point, signer validates, store accepts).  Answer: `err <kind> <text>` or `ok cp=<number after> idx=<number of the
    CommitmentSecret step>`. -/
def raagAnswer (cp bits inb outb : String) : String :=
  let b := bits.toList.map (· == '1')
  let g (k : Nat) := b.getD k false
  let ins := if inb == "-" then some [] else (inb.splitOn ",").mapM parseInSt
  let outs := if outb == "-" then some [] else (outb.splitOn ",").mapM parseOutSt
  match ins, outs with
  | some ins, some outs =>
    if b.length != 18 then "bad-op" else
    let i : In :=
      { quiescent := g 0, channelReady := g 1, peerDisconnected := g 2, bothSidesShutdown := g 3,
        lastSentClosingFeeSome := g 4, localShutdownSent := g 5, remoteShutdownSent := g 6, monitorUpdateInProgress := g 7,
        localStfuSent := g 8, remoteStfuSent := g 9, expectingPeerCommitmentSigned := g 10, pendingUpdateFeeSome := g 11,
        awaitingRemoteRevoke := g 12, cpCurrentPointSome := g 13, secretValid := g 14, secretMatchesPoint := g 15,
        signerValidates := g 16, storeAccepts := g 17, inb := ins, outb := outs }
    match check i with
    | some e => s!"err {e.kind} {e.text.replace " " "_"}"
    | none =>
      let st : St Unit := { awaitingRemoteRevoke := i.awaitingRemoteRevoke, cpNext := nat! cp, cpCurPoint := none, cpNextPoint := none }
      let st' := accept st ()
      s!"ok cp={st'.cpNext} idx={monitorIdx st.cpNext}"
  | _, _ => "bad-op"

/-- C05 op `hgate <spendSeen> <lockdown> <signed> <persistCompleted> <chanCur> <channel already closed by the manager>`: a commitment_signed accepted by a channel whose
    monitor has the given flags, through `HolderGate.step` (generated refusal rule inside).  Answer:
    `mon=<monitor's holder number after> released=<0|1> held=<- | number:frozen>` -/
def hgateAnswer (sp lk sg pc cur closed : String) : String :=
  let s0 : HolderGate.Sys := { HolderGate.Sys.init (nat! cur) with
    flags := { fundingSpendSeen := sp == "1", lockdownFromOffchain := lk == "1", holderTxSigned := sg == "1" },
    chanClosed := closed == "1" }
  match HolderGate.step s0 (.csRecv (pc == "1")) with
  | none => "disabled"
  | some s => s!"mon={s.monCur} released={s.released.length} held={match s.inflight with | none => "-" | some (n, fr) => s!"{n}:{if fr then 1 else 0}"}"

end Ldk.Driver
