import LdkModel.Driver.C11
def main (args : List String) : IO UInt32 := Ldk.Driver.runMain [("c11", Ldk.Driver.c11)] args
