import LdkModel.Driver.C11
import LdkModel.Driver.C11F
def main (args : List String) : IO UInt32 := Ldk.Driver.runMain [("c11", Ldk.Driver.c11), ("c11f", Ldk.Driver.c11f)] args
