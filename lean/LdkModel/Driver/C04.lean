import LdkModel.Driver.Util
import LdkModel.Model.InboundPay
import LdkModel.Prim.Sha256
import LdkModel.Prim.Hmac
import LdkModel.Prim.ChaCha20
namespace Ldk.Driver
open Ldk Ldk.InboundPay

/-- `apply_chacha20(key, nonce16, data)`: IETF ChaCha20, block counter = LE32(nonce[..4]), nonce = nonce[4..] -/
def applyChacha20 (key iv data : Bytes) : Bytes :=
  let c := (iv.take 4).foldr (fun x acc => acc * 256 + x.toNat) 0
  Ldk.Prim.chacha20Xor key (iv.drop 4) c data

/-- the concrete primitives the real code uses (validated byte for byte by the c04secret run) -/
def realCrypto : PayCrypto where
  mac := Ldk.Prim.hmacSha256
  enc := applyChacha20
  hash := Ldk.Prim.sha256

def optNat (s : String) : Option Nat := if s == "none" then none else some (nat! s)
def optBytes (s : String) : Option Bytes := if s == "none" then none else some (unhex s)
def showOptBytes : Option Bytes → String | none => "none" | some b => hex b
def showOptNat : Option Nat → String | none => "none" | some n => toString n

/-- c04secret: create / create_from_hash / create_for_spontaneous_payment / verify with the real primitives.
    ops: keys <info> <ldk> <user> <spont> <meta>
         create <min|none> <delta> <rand32> <now> <cltv|none> <md|none>
         createhash <min|none> <hash> <delta> <rand32> <now> <cltv|none> <md|none>
         createspont <min|none> <delta> <now> <cltv|none>
         verify <hash> <secret> <total> <md|none> <now> -/
def c04secret : Drv where
  σ := Keys
  init := ⟨[], [], [], [], []⟩
  step := fun k ws =>
    let C := realCrypto
    match ws with
    | ["keys", a, b, c, d, e] => (⟨unhex a, unhex b, unhex c, unhex d, unhex e⟩, "ok")
    | ["create", mn, delta, rand, now, cltv, md] =>
      match create C k (optNat mn) (nat! delta) (unhex rand) (nat! now) (optNat cltv) (optBytes md) with
      | some (h, s, m) => (k, s!"ok {hex h} {hex s} {showOptBytes m}")
      | none => (k, "err")
    | ["createhash", mn, h, delta, rand, now, cltv, md] =>
      match createFromHash C k (optNat mn) (unhex h) (nat! delta) (unhex rand) (nat! now) (optNat cltv) (optBytes md) with
      | some (s, m) => (k, s!"ok {hex s} {showOptBytes m}")
      | none => (k, "err")
    | ["createspont", mn, delta, now, cltv] =>
      match createSpontaneous C k (optNat mn) (nat! delta) (nat! now) (optNat cltv) with
      | some s => (k, s!"ok {hex s}")
      | none => (k, "err")
    | ["verify", h, s, total, md, now] =>
      match verify C k (unhex h) (unhex s) (nat! total) (optBytes md) (nat! now) with
      | .ok r => (k, s!"ok {showOptBytes r.preimage} {showOptNat r.minFinalCltv} {showOptBytes r.metadata}")
      | .error e => (k, "err " ++ e.name)
    | _ => (k, "bad-op")

def insertNat (x : Nat) : List Nat → List Nat
  | [] => [x]
  | y :: ys => if x ≤ y then x :: y :: ys else y :: insertNat x ys
def sortNat (l : List Nat) : List Nat := l.foldr insertNat []

/-- canonical one-line rendering of a step's outputs: inconsistent, claimable, fails (sorted),
    fulfils (sorted), claimed; `none` when empty -/
def showOuts (os : List Out) (why : FailReason := default) : String :=
  let inc := if os.contains .inconsistent then ["inconsistent"] else []
  let cl := os.filterMap fun | .claimable a k d => some s!"claimable:{a}:{k}:{d}" | _ => none
  let fails := (sortNat (os.filterMap fun | .failPart i => some i | _ => none)).map (s!"fail:{·}")
  let fuls := (sortNat (os.filterMap fun | .fulfilPart i => some i | _ => none)).map (s!"fulfil:{·}")
  let cd := os.filterMap fun | .claimed a k t => some s!"claimed:{a}:{k}:{t}" | _ => none
  let all := inc ++ cl ++ fails ++ (if fails.isEmpty then [] else ["why:" ++ why.name]) ++ fuls ++ cd
  if all.isEmpty then "none" else " ".intercalate all

/-- c04mpp: the accumulator of one payment hash.
    ops: new | part <id> <value> <intended> <skim|none> <total> <cltv> <tag> <evenTlv 0|1> | tick | block <h> |
         claim <known 0|1> | claimdone | failback |
         admit <allow_underpay 0|1> <onion_amt> <amt> <skim|none>   (stateless: the amount test of
           create_recv_pending_htlc_info, translated; `ok` = the HTLC goes on to the accumulator, `low` = refused)
    answers: claimable:<amount>:<skimmed>:<deadline>  claimed:<amount>:<skimmed>:<sender_intended_total>
             why:<LocalHTLCFailureReason> after the fail:<id> tokens (the reason the HTLCs of this step were failed with) -/
def c04mpp : Drv where
  σ := Mpp
  init := Mpp.init
  step := fun s ws =>
    let go (op : Op) : Mpp × String := let r := step s op; (r.1, showOuts r.2 (stepWhy s op))
    match ws with
    | ["new"] => (Mpp.init, "ok")
    | ["part", i, v, n, k, t, c, g, e] => go (.part (nat! i) (nat! v) (nat! n) (optNat k) (nat! t) (nat! c) (nat! g) (e == "1"))
    | ["recv", i, v, n, k, t, c, g, e, oc, h, al, ks, pd, vok, mc] =>
      -- the whole receive path (Model.receive = runStages over the stage order generated from the Rust text) on the CURRENT
      -- accumulator; the state is left as it is (the `part` line that follows carries the change)
      let ksv : Option Nat := if ks == "none" then none else if ks == "ok" then some 1 else some 2
      let inp : RecvIn := ⟨(nat! i), (nat! v), (nat! n), optNat k, (nat! t), (nat! c), (nat! g), e == "1", (nat! oc), (nat! h), al == "1", ksv, pd == "1", 1, vok == "1", optNat mc⟩
      let r := receive (fun p => p) inp s
      (s, match r.2.2 with | some why => showOuts r.2.1 why | none => showOuts r.2.1 (stepWhy s inp.op))
    | ["restart"] => (restartState s, "none")
    | ["routing", ks, pd] =>
      -- ks: none | ok (the onion's keysend preimage hashes to the payment hash) | bad; pd: 1 = the onion carries payment_data
      let r := match ks with
        | "none" => MppGen.recvRouting (fun p => p) none (pd == "1") 1
        | "ok" => MppGen.recvRouting (fun p => p) (some 1) (pd == "1") 1
        | _ => MppGen.recvRouting (fun p => p) (some 2) (pd == "1") 1
      (s, match r with | .keysend => "keysend" | .invoice => "invoice" | .refused why => "err " ++ why.name)
    | ["mincltv", h, m, c] => (s, if MppGen.recvCltvBelowMin (nat! h) (nat! m) (nat! c) then "soon" else "ok")
    | ["admit", al, o, a, k] => (s, if MppGen.recvAmountTooLow (al == "1") (nat! o) (nat! a) (optNat k) then "low" else "ok")
    | ["tick"] => go .tick
    | ["block", h] => go (.block (nat! h))
    | ["claim", kn] => go (.claim (kn == "1"))
    | ["claimdone"] => go .claimDone
    | ["failback"] => go .failBack
    | _ => (s, "bad-op")

end Ldk.Driver
