import LdkModel.Driver.Util
import LdkModel.Model.ChainView
/- Driver for model `c11`: the ChainView monitor model on abstract deliveries.
   every line is prefixed by the monitor index (0|1)
   ops:  reset <best>                      new monitor born at <best>, empty catalog        -> ok
         tx <id> <kind>:<csv|-> ...        catalog entry (events the tx makes the monitor queue) -> ok
         block <h> <ids…> | conf <h> <ids…> | best <h> | disc <h> | unconf <id>
            -> best=<b> aw=<t.kind.height.threshold,…|-> mat=<t.class,…|->   (both sorted)
   claims layer (late-preimage scenarios):
         out <oid> <parent tx> <preimage|-> <holder 0|1>   tracked output                    -> ok
         spend <tx> <oid…>                                 outputs the transaction spends    -> ok
         lout <oid> <parent tx>                            output whose claim is time-locked -> ok
         initclaim <oid> <creation> | initlocked <oid>     bookkeeping present before the first op -> ok
         pre <p>                                           provide_payment_preimage          -> as block/conf/…
         usnap                                             remember the state (before a run of unconf ops) -> ok
         upred <h> <ids…>   the CLOSED FORM the theorems give for unconfirming <ids> (fork point <h>) from the
                            remembered state: unconfirmedTo / unconfirmedClaims / handler entries <= h; and
                            whether replaying the ids from the remembered state (unconfOps / cUnconfOps) ends there
            -> best=… aw=… mat=… claims=… haw=… pre=… lk=… closed=<true|false>
         cv [label]   -> claims=<oid.creation,…|-> haw=<tx.height,…|-> pre=<p,…|-> lk=<oid,…|->   (sorted) -/
namespace Ldk.Driver
open Ldk Ldk.ChainView

structure C11State where
  cat : List (Nat × List Ev) := []
  outs : List (Nat × OutInfo) := []
  spends : List (Nat × List Nat) := []
  locked : List (Nat × Nat) := []
  cs : CSt := cinit 0
  /-- the state when the last `usnap` was given (before a run of `unconf` ops) -/
  snap : CSt := cinit 0

def C11State.st (s : C11State) : St := s.cs.st
def C11State.K (s : C11State) : ClaimCat := { outs := s.outs, spends := fun t => (s.spends.lookup t).getD [], locked := s.locked }

def c11Cat (l : List (Nat × List Ev)) : Catalog := fun t => (l.lookup t).getD []

def parseEv (w : String) : Ev :=
  match w.splitOn ":" with
  | [k, c] => { kind := nat! k, csv := if c == "-" then none else some (nat! c) }
  | _ => { kind := 99, csv := none }

/-- irrevocable-conclusion class of an event kind: 0 funding_spend_confirmed, 1 htlcs_resolved_on_chain,
    2 spendable_txids_confirmed, 3 promoted alternative funding -/
def evClass (k : Nat) : Nat := if k == 2 then 0 else if k == 1 then 2 else if k == 4 then 3 else 1

def lexLe : List Nat → List Nat → Bool
  | [], _ => true
  | _ :: _, [] => false
  | a :: as, b :: bs => if a < b then true else if b < a then false else lexLe as bs

def showKeys (ks : List (List Nat)) : String :=
  if ks.isEmpty then "-" else
  ",".intercalate ((ks.mergeSort lexLe).map (fun k => ".".intercalate (k.map toString)))

def showSt (s : St) : String :=
  s!"best={s.best} aw={showKeys (s.awaiting.map (fun e => [e.txid, e.ev.kind, e.height, e.threshold]))} mat={showKeys (s.matured.map (fun e => [e.txid, evClass e.ev.kind]))}"

def dedup (l : List (List Nat)) : List (List Nat) := l.foldl (fun acc k => if acc.contains k then acc else acc ++ [k]) []

def showC (s : CSt) : String :=
  s!"claims={showKeys (s.claims.map (fun c => [c.out, c.creation]))} haw={showKeys (dedup (s.hAw.map (fun e => [e.txid, e.height])))} pre={showKeys (s.pre.map (fun p => [p]))} lk={showKeys (s.locked.map (fun o => [o]))}"

def c11Step (s : C11State) (ws : List String) : C11State × String :=
  let goC (op : COp) : C11State × String :=
    let cs' := ChainView.cstep (c11Cat s.cat) s.K s.cs op
    ({ s with cs := cs' }, showSt cs'.st)
  let go (op : Op) : C11State × String := goC (.chain op)
  match ws with
  | ["reset", b] => ({ cat := [], cs := cinit (nat! b) }, "ok")
  | "tx" :: id :: evs => ({ s with cat := (nat! id, evs.map parseEv) :: s.cat }, "ok")
  | ["out", o, par, p, hold] =>
    ({ s with outs := s.outs ++ [(nat! o, { parent := nat! par, needs := if p == "-" then none else some (nat! p), holder := hold == "1" })] }, "ok")
  | "spend" :: t :: os => ({ s with spends := (nat! t, os.map nat!) :: s.spends }, "ok")
  | ["lout", o, par] => ({ s with locked := s.locked ++ [(nat! o, nat! par)] }, "ok")
  | ["initlocked", o] => ({ s with cs := { s.cs with locked := s.cs.locked ++ [nat! o] } }, "ok")
  | ["initclaim", o, c] => ({ s with cs := { s.cs with claims := s.cs.claims ++ [{ out := nat! o, creation := nat! c }] } }, "ok")
  | ["pre", p] => goC (.preimage (nat! p))
  | "cv" :: _ => (s, showC s.cs)
  | ["usnap"] => ({ s with snap := s.cs }, "ok")
  | "upred" :: h :: ids =>
    let hh := nat! h
    let us := ids.map nat!
    let st' := unconfirmedTo s.snap.st hh
    let c' : CSt := { s.snap with st := st', claims := unconfirmedClaims s.snap.claims s.snap.hAw hh,
                                  hAw := s.snap.hAw.filter (fun e => decide (e.height ≤ hh)), locked := s.cs.locked }
    let r := ChainView.crun (c11Cat s.cat) s.K s.snap (cUnconfOps us)
    let closed := decide (ChainView.run (c11Cat s.cat) s.snap.st (unconfOps us) = st') && decide (r.st = st') &&
      decide (r.claims = c'.claims) && decide (r.hAw = c'.hAw) && decide (r.pre = c'.pre)
    (s, s!"{showSt st'} {showC c'} closed={closed}")
  | "block" :: h :: ids => go (.blockConnected (nat! h) (ids.map nat!))
  | "conf" :: h :: ids => go (.txsConfirmed (nat! h) (ids.map nat!))
  | ["best", h] => go (.bestBlock (nat! h))
  | ["disc", h] => go (.blocksDisconnected (nat! h))
  | ["unconf", t] => go (.txUnconfirmed (nat! t))
  | _ => (s, "bad-op")

/-- two monitors (one per channel party); every line starts with the monitor index `0` or `1` -/
def c11 : Drv where
  σ := C11State × C11State
  init := ({}, {})
  step := fun s ws =>
    match ws with
    | "0" :: r => let (a, o) := c11Step s.1 r; ((a, s.2), o)
    | "1" :: r => let (b, o) := c11Step s.2 r; ((s.1, b), o)
    | _ => (s, "bad-op")

end Ldk.Driver
