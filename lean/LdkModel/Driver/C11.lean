import LdkModel.Driver.Util
import LdkModel.Model.ChainView
/- Driver for model `c11`: the ChainView monitor model on abstract deliveries.
   every line is prefixed by the monitor index (0|1)
   ops:  reset <best>                      new monitor born at <best>, empty catalog        -> ok
         tx <id> <kind>:<csv|-> ...        catalog entry (events the tx makes the monitor queue) -> ok
         block <h> <ids…> | conf <h> <ids…> | best <h> | disc <h> | unconf <id>
            -> best=<b> aw=<t.kind.height.threshold,…|-> mat=<t.class,…|->   (both sorted) -/
namespace Ldk.Driver
open Ldk Ldk.ChainView

structure C11State where
  cat : List (Nat × List Ev) := []
  st : St := init 0

def c11Cat (l : List (Nat × List Ev)) : Catalog := fun t => (l.lookup t).getD []

def parseEv (w : String) : Ev :=
  match w.splitOn ":" with
  | [k, c] => { kind := nat! k, csv := if c == "-" then none else some (nat! c) }
  | _ => { kind := 99, csv := none }

/-- irrevocable-conclusion class of an event kind: 0 funding_spend_confirmed, 1 htlcs_resolved_on_chain,
    2 spendable_txids_confirmed, 3 promoted alternative funding -/
def evClass (k : Nat) : Nat := if k == 2 then 0 else if k == 1 then 2 else if k == 4 then 3 else 1

def lexLe : List Nat → List Nat → Bool
  | [], _ => true
  | _ :: _, [] => false
  | a :: as, b :: bs => if a < b then true else if b < a then false else lexLe as bs

def showKeys (ks : List (List Nat)) : String :=
  if ks.isEmpty then "-" else
  ",".intercalate ((ks.mergeSort lexLe).map (fun k => ".".intercalate (k.map toString)))

def showSt (s : St) : String :=
  s!"best={s.best} aw={showKeys (s.awaiting.map (fun e => [e.txid, e.ev.kind, e.height, e.threshold]))} mat={showKeys (s.matured.map (fun e => [e.txid, evClass e.ev.kind]))}"

def c11Step (s : C11State) (ws : List String) : C11State × String :=
  let go (op : Op) : C11State × String :=
    let st' := ChainView.step (c11Cat s.cat) s.st op
    ({ s with st := st' }, showSt st')
  match ws with
  | ["reset", b] => ({ cat := [], st := init (nat! b) }, "ok")
  | "tx" :: id :: evs => ({ s with cat := (nat! id, evs.map parseEv) :: s.cat }, "ok")
  | "block" :: h :: ids => go (.blockConnected (nat! h) (ids.map nat!))
  | "conf" :: h :: ids => go (.txsConfirmed (nat! h) (ids.map nat!))
  | ["best", h] => go (.bestBlock (nat! h))
  | ["disc", h] => go (.blocksDisconnected (nat! h))
  | ["unconf", t] => go (.txUnconfirmed (nat! t))
  | _ => (s, "bad-op")

/-- two monitors (one per channel party); every line starts with the monitor index `0` or `1` -/
def c11 : Drv where
  σ := C11State × C11State
  init := ({}, {})
  step := fun s ws =>
    match ws with
    | "0" :: r => let (a, o) := c11Step s.1 r; ((a, s.2), o)
    | "1" :: r => let (b, o) := c11Step s.2 r; ((s.1, b), o)
    | _ => (s, "bad-op")

end Ldk.Driver
