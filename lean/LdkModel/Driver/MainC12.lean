import LdkModel.Driver.C12
def main (args : List String) : IO UInt32 := Ldk.Driver.runMain [("c12", Ldk.Driver.c12)] args
