import LdkModel.Driver.Util
import LdkModel.Model.Codec
import LdkModel.Generated.MsgSchemas
import LdkModel.Model.MsgSchemasHand
import LdkModel.Model.MsgCustom
import LdkModel.Generated.WireTypes
/-! C13 model driver.  ops:
    dec <MsgName> <hex>    decode with the generated schema of <MsgName>; `ok <hex of re-encoding>` / `err <DecodeError>`
    wire <hex>             wireRead over the generated dispatch table; `ok <Name> <id> <re-encoding>` /
                           `ok Unknown <id> ignore|disconnect` (peerDispatch) / `err <DecodeError>`
                           custom codecs (Model/MsgCustom.lean) append the parsed structure to the `ok` line:
                           (Unsigned)NodeAnnouncement ` a=<descriptor type bytes, comma separated> x=<len excess_address_data> e=<len excess_data>`,
                           QueryShortChannelIds / ReplyChannelRange ` n=<number of ids>`; OnionMessage ` h=<len hop_data>`; Init: nothing
    bigsize <hex>          BigSize.decode; `ok <n> <rest hex>` / `err <DecodeError>`
    bigenc <n>             BigSize.encode -/
namespace Ldk.Driver
open Ldk.Codec Ldk.Codec.Gen

/-- the dispatch table of `wire::do_read` restricted to the messages the model has a `Schema` for (macro-declared and
    hand-written with a TLV stream; the `TailSchema` gossip messages are compared at message level only) -/
def wireTable : List (Nat × Schema) :=
  wireDispatch.filterMap fun n =>
    match (generatedSchemas ++ Hand.handSchemas).find? (fun s => s.name == n), wireTypes.lookup n with
    | some s, some t => some (t, s)
    | _, _ => none

/-- answer of the custom decoders of Model/MsgCustom.lean; `none` = not one of them -/
def customDec (name : String) (b : Bytes) : Option (Except String (String × String)) :=
  let nodeAnn (hdr : List FieldTy) : Except String (String × String) :=
    match Custom.decodeNodeAnn sockAddrKinds hdr b with
    | .ok m => .ok (hex (Custom.encodeNodeAnn sockAddrKinds hdr m), " a=" ++ ",".intercalate (m.addresses.map fun a => toString a.id) ++
        s!" x={m.excessAddr.length} e={m.excess.length}")
    | .error e => .error e.name
  let scid (rules : ScidRules) (hdr : List FieldTy) : Except String (String × String) :=
    match Custom.decodeScidMsg rules hdr b with
    | .ok (m, _) => .ok (hex (Custom.encodeScidMsg rules hdr m), s!" n={m.scids.length}")
    | .error e => .error e.name
  if name == "UnsignedNodeAnnouncement" then some (nodeAnn Custom.nodeAnnHeader)
  else if name == "NodeAnnouncement" then some (nodeAnn Custom.nodeAnnSignedHeader)
  else if name == "QueryShortChannelIds" then some (scid queryShortChannelIdsRules Custom.queryScidHeader)
  else if name == "ReplyChannelRange" then some (scid replyChannelRangeRules Custom.replyRangeHeader)
  else if name == "Init" then
    some (match Custom.decodeInit b with
      | .ok m => .ok (hex (Custom.encodeInit m), "")
      | .error e => .error e.name)
  else if name == "OnionMessage" then
    some (match Custom.decodeOnionMsg b with
      | .ok (m, _) => .ok (hex (Custom.encodeOnionMsg m), s!" h={Custom.hopLenOf m.packet}")
      | .error e => .error e.name)
  else none

/-- wire ids of the custom-decoder messages that `wire::do_read` dispatches -/
def customWire : List (Nat × String) :=
  wireDispatch.filterMap fun n =>
    if Custom.customNames.contains n then (wireTypes.lookup n).map (·, n) else none

def c13 : Drv where
  σ := Unit
  init := ()
  step := fun _ ws =>
    match ws with
    | ["dec", name, h] =>
      match (generatedSchemas ++ Hand.handSchemas).find? (fun s => s.name == name) with
      | some s =>
        match s.decode (unhex h) with
        | .ok v => ((), "ok " ++ hex (s.encode v))
        | .error e => ((), "err " ++ e.name)
      | none =>
        match Hand.tailSchemas.find? (fun s => s.name == name) with
        | none =>
          if name == "ErrorMessage" || name == "WarningMessage" then
            match Hand.decodeErrorMsg (unhex h) with
            | .ok (cid, d) => ((), "ok " ++ hex (Hand.encodeErrorMsg cid d))
            | .error e => ((), "err " ++ e.name)
          else if name == "Ping" then
            match Hand.decodePing (unhex h) with
            | .ok (pl, bl) => ((), "ok " ++ hex (Hand.encodePing pl bl))
            | .error e => ((), "err " ++ e.name)
          else if name == "Pong" then
            match Hand.decodePong (unhex h) with
            | .ok bl => ((), "ok " ++ hex (Hand.encodePong bl))
            | .error e => ((), "err " ++ e.name)
          else match customDec name (unhex h) with
            | some (.ok (re, suffix)) => ((), "ok " ++ re ++ suffix)
            | some (.error e) => ((), "err " ++ e)
            | none => ((), "no-schema")
        | some s =>
          match s.decode (unhex h) with
          | .ok (vs, ex) => ((), "ok " ++ hex (s.encode vs ex))
          | .error e => ((), "err " ++ e.name)
    | ["wire", h] =>
      match (match readUint 2 (unhex h) with
             | .ok (t, r) => (customWire.lookup t).bind fun n => (customDec n r).map fun ans => (t, n, ans)
             | .error _ => none) with
      | some (t, n, .ok (re, _)) => ((), s!"ok {n} {t} " ++ re)   -- same line format as the schema messages
      | some (_, _, .error e) => ((), "err " ++ e)
      | none =>
      match wireRead wireTable (unhex h) with
      | .error e => ((), "err " ++ e.name)
      | .ok (.known t name v) =>
        match wireTable.lookup t with
        | some s => ((), s!"ok {name} {t} " ++ hex (s.encode v))
        | none => ((), "bad-table")
      | .ok (.unknown t) =>
        ((), s!"ok Unknown {t} " ++ (match peerDispatch (.unknown t) with | .ignore => "ignore" | .disconnect => "disconnect" | .handle => "handle"))
    | ["bigsize", h] =>
      match BigSize.decode (unhex h) with
      | .ok (n, r) => ((), s!"ok {n} " ++ hex r)
      | .error e => ((), "err " ++ e.name)
    | ["bigenc", n] => ((), hex (BigSize.encode (nat! n)))
    | _ => ((), "bad-op")

end Ldk.Driver
