import LdkModel.Driver.Util
import LdkModel.Model.Codec
import LdkModel.Generated.MsgSchemas
import LdkModel.Model.MsgSchemasHand
import LdkModel.Model.MsgCustom
import LdkModel.Generated.WireTypes
import LdkModel.Model.MsgBitcoin
import LdkModel.Model.Int64
import LdkModel.Generated.TlvLoop
import LdkModel.Model.TlvProbe
/-! C13 model driver.  ops:
    dec <MsgName> <hex>    decode with the generated schema of <MsgName>; `ok <hex of re-encoding>` / `err <DecodeError>`
    wire <hex>             wireRead over the generated dispatch table; `ok <Name> <id> <re-encoding>` /
                           `ok Unknown <id> ignore|disconnect` (peerDispatch) / `err <DecodeError>`
                           custom codecs (Model/MsgCustom.lean) append the parsed structure to the `ok` line:
                           (Unsigned)NodeAnnouncement ` a=<descriptor type bytes, comma separated> x=<len excess_address_data> e=<len excess_data>`,
                           QueryShortChannelIds / ReplyChannelRange ` n=<number of ids>`; OnionMessage ` h=<len hop_data>`; Init: nothing
                           bitcoin-consensus / blinded-path messages (Model/MsgBitcoin.lean): TxAddInput ` t=none` | ` t=<inputs>,<outputs>,<witness elements>`,
                           TxSignatures ` w=<elements per witness, comma separated>`, RevokeAndACK ` p=<hops per path, comma separated>`
    tx <hex>               Btc.decodeTx (bitcoin consensus decoding as LDK's `Readable for Transaction` maps its errors);
                           `ok <re-encoding> <rest hex> <inputs>,<outputs>,<witness elements>` / `err <DecodeError>`
    wit <hex>              Btc.decodeWitness; `ok <re-encoding> <rest hex> <size()>` / `err ..`
    cs <hex>               Btc.CompactSize.decode; `ok <n> <rest hex>` / `err ..`
    i64 <hex>              readI64 (two's complement); `ok <decimal> <rest hex>` / `err ..`
    bigsize <hex>          BigSize.decode; `ok <n> <rest hex>` / `err <DecodeError>`
    bigenc <n>             BigSize.encode
    tlvp <hex>             tlvProbeSchema (Model/TlvProbe.lean: required TLVs 2, 6; optional 3, 9) over a bare TLV stream;
                           `ok <a> <b|-> <c> <d|->` / `err ..`
    tlvpe <a> <b|-> <c> <d|->  encodeTlvs over tlvProbeSchema (also through TlvSrc.encodeTlvStreamSrc, the translated `encode_tlv_stream!`); hex
    wlvec <n> <hex>            FieldTy.chunks n decode (WithoutLength<Vec<T>>, n-byte elements) + TlvSrc.wlVecLoopSrc; `ok <count> <hex>`
    every Schema decode (ops dec, tlvp) is ALSO run through TlvSrc.schemaDecodeSrc, the reader built from the decisions translated from
    util/ser_macros.rs / util/ser.rs (Generated/TlvLoop.lean, proved equal: Props/C13Tlv tlv_loop_is_source); ` src-differs` is appended
    when the two disagree -/
namespace Ldk.Driver
open Ldk.Codec Ldk.Codec.Gen

/-- the dispatch table of `wire::do_read` restricted to the messages the model has a `Schema` for (macro-declared and
    hand-written with a TLV stream; the `TailSchema` gossip messages are compared at message level only) -/
def wireTable : List (Nat × Schema) :=
  wireDispatch.filterMap fun n =>
    match (generatedSchemas ++ Hand.handSchemas).find? (fun s => s.name == n), wireTypes.lookup n with
    | some s, some t => some (t, s)
    | _, _ => none

/-- answer of the custom decoders of Model/MsgCustom.lean; `none` = not one of them -/
def customDec (name : String) (b : Bytes) : Option (Except String (String × String)) :=
  let nodeAnn (hdr : List FieldTy) : Except String (String × String) :=
    match Custom.decodeNodeAnn sockAddrKinds hdr b with
    | .ok m => .ok (hex (Custom.encodeNodeAnn sockAddrKinds hdr m), " a=" ++ ",".intercalate (m.addresses.map fun a => toString a.id) ++
        s!" x={m.excessAddr.length} e={m.excess.length}")
    | .error e => .error e.name
  let scid (rules : ScidRules) (hdr : List FieldTy) : Except String (String × String) :=
    match Custom.decodeScidMsg rules hdr b with
    | .ok (m, _) => .ok (hex (Custom.encodeScidMsg rules hdr m), s!" n={m.scids.length}")
    | .error e => .error e.name
  if name == "UnsignedNodeAnnouncement" then some (nodeAnn Custom.nodeAnnHeader)
  else if name == "NodeAnnouncement" then some (nodeAnn Custom.nodeAnnSignedHeader)
  else if name == "QueryShortChannelIds" then some (scid queryShortChannelIdsRules Custom.queryScidHeader)
  else if name == "ReplyChannelRange" then some (scid replyChannelRangeRules Custom.replyRangeHeader)
  else if name == "Init" then
    some (match Custom.decodeInit b with
      | .ok m => .ok (hex (Custom.encodeInit m), "")
      | .error e => .error e.name)
  else if name == "OnionMessage" then
    some (match Custom.decodeOnionMsg b with
      | .ok (m, _) => .ok (hex (Custom.encodeOnionMsg m), s!" h={Custom.hopLenOf m.packet}")
      | .error e => .error e.name)
  else if name == "TxAddInput" then
    some (match Btc.decodeTxAddInput b with
      | .ok m => .ok (hex (Btc.encodeTxAddInput m), " t=" ++ (match m.prevtx with
          | none => "none"
          | some t => s!"{t.inputs.length},{t.outputs.length},{(t.inputs.map (·.2.length)).sum}"))
      | .error e => .error e.name)
  else if name == "TxSignatures" then
    some (match Btc.decodeTxSignatures b with
      | .ok m => .ok (hex (Btc.encodeTxSignatures m), " w=" ++ ",".intercalate (m.witnesses.map fun w => toString w.length))
      | .error e => .error e.name)
  else if name == "RevokeAndACK" then
    some (match Btc.decodeRevokeAndAck b with
      | .ok m => .ok (hex (Btc.encodeRevokeAndAck m), " p=" ++ ",".intercalate (m.paths.map fun p => toString p.hops.len))
      | .error e => .error e.name)
  else none

/-- answer of the decoders of Model/MsgSchemasHand.lean that are not a `Schema`: the `TailSchema` gossip messages, ErrorMessage /
    WarningMessage / Ping / Pong; `none` = not one of them -/
def handDec (name : String) (b : Bytes) : Option (Except String (String × String)) :=
  match Hand.tailSchemas.find? (fun s => s.name == name) with
  | some s =>
    some (match s.decode b with
      | .ok (vs, ex) => .ok (hex (s.encode vs ex), "")
      | .error e => .error e.name)
  | none =>
    if name == "ErrorMessage" || name == "WarningMessage" then
      some (match Hand.decodeErrorMsg b with
        | .ok (cid, d) => .ok (hex (Hand.encodeErrorMsg cid d), "")
        | .error e => .error e.name)
    else if name == "Ping" then
      some (match Hand.decodePing b with
        | .ok (pl, bl) => .ok (hex (Hand.encodePing pl bl), "")
        | .error e => .error e.name)
    else if name == "Pong" then
      some (match Hand.decodePong b with
        | .ok bl => .ok (hex (Hand.encodePong bl), "")
        | .error e => .error e.name)
    else none

/-- every decoder that is not a plain `Schema` -/
def otherDec (name : String) (b : Bytes) : Option (Except String (String × String)) :=
  match handDec name b with
  | some r => some r
  | none => customDec name b

/-- wire ids of the messages `wire::do_read` dispatches whose decoder is not a plain `Schema` -/
def customWire : List (Nat × String) :=
  wireDispatch.filterMap fun n =>
    if Custom.customNames.contains n || Btc.btcNames.contains n || Hand.customNames.contains n || Hand.tailSchemas.any (fun s => s.name == n)
    then (wireTypes.lookup n).map (·, n) else none

/-- every dispatched arm of `wire::do_read` has a model decoder: a `Schema` in `wireTable` or one of `customWire` -/
def wireModelled : Bool := wireDispatch.all fun n =>
  (wireTypes.lookup n).any fun t => (wireTable.lookup t).isSome || (customWire.lookup t).isSome

/-- `Schema.decode` (the hand-written loop the theorems of Props/C13 are about), cross-checked with the translated reader -/
def schemaDec (s : Schema) (b : Bytes) : Res MsgVal × String :=
  let r := s.decode b
  (r, if TlvSrc.schemaDecodeSrc s b == r then "" else " src-differs")

def c13 : Drv where
  σ := Unit
  init := ()
  step := fun _ ws =>
    match ws with
    | ["dec", name, h] =>
      match (generatedSchemas ++ Hand.handSchemas).find? (fun s => s.name == name) with
      | some s =>
        match schemaDec s (unhex h) with
        | (.ok v, d) => ((), "ok " ++ hex (s.encode v) ++ d)
        | (.error e, d) => ((), "err " ++ e.name ++ d)
      | none =>
        match otherDec name (unhex h) with
        | some (.ok (re, suffix)) => ((), "ok " ++ re ++ suffix)
        | some (.error e) => ((), "err " ++ e)
        | none => ((), "no-schema")
    | ["wire", h] =>
      match (match readUint 2 (unhex h) with
             | .ok (t, r) => (customWire.lookup t).bind fun n => (otherDec n r).map fun ans => (t, n, ans)
             | .error _ => none) with
      | some (t, n, .ok (re, _)) => ((), s!"ok {n} {t} " ++ re)   -- same line format as the schema messages
      | some (_, _, .error e) => ((), "err " ++ e)
      | none =>
      match wireRead wireTable (unhex h) with
      | .error e => ((), "err " ++ e.name)
      | .ok (.known t name v) =>
        match wireTable.lookup t with
        | some s => ((), s!"ok {name} {t} " ++ hex (s.encode v))
        | none => ((), "bad-table")
      | .ok (.unknown t) =>
        ((), s!"ok Unknown {t} " ++ (match peerDispatch (.unknown t) with | .ignore => "ignore" | .disconnect => "disconnect" | .handle => "handle"))
    | ["tx", h] =>
      match Btc.decodeTx (unhex h) with
      | .ok (t, r) => ((), s!"ok {hex (Btc.encodeTx t)} {hex r} {t.inputs.length},{t.outputs.length},{(t.inputs.map (·.2.length)).sum}")
      | .error e => ((), "err " ++ e.name)
    | ["wit", h] =>
      match Btc.decodeWitness (unhex h) with
      | .ok (w, r) => ((), s!"ok {hex (Btc.encodeWitness w)} {hex r} {Btc.witnessSize w}")
      | .error e => ((), "err " ++ e.name)
    | ["cs", h] =>
      match Btc.CompactSize.decode (unhex h) with
      | .ok (n, r) => ((), s!"ok {n} " ++ hex r)
      | .error e => ((), "err " ++ e.name)
    | ["i64", h] =>
      match readI64 (unhex h) with
      | .ok (i, r) => ((), s!"ok {i} " ++ hex r)
      | .error e => ((), "err " ++ e.name)
    | ["bigsize", h] =>
      match BigSize.decode (unhex h) with
      | .ok (n, r) => ((), s!"ok {n} " ++ hex r)
      | .error e => ((), "err " ++ e.name)
    | ["bigenc", n] => ((), hex (BigSize.encode (nat! n)))
    | ["tlvpe", a, b, c, d] =>
      let o := fun (x : String) => if x == "-" then none else some (Val.nat (nat! x))
      let vals := [o a, o b, o c, o d]
      let e := encodeTlvs tlvProbeSchema.tlvs vals
      ((), hex e ++ (if TlvSrc.encodeTlvStreamSrc tlvProbeSchema.tlvs vals == e then "" else " src-differs"))
    | ["tlvp", h] =>
      match schemaDec tlvProbeSchema (unhex h) with
      | (.ok v, d) => ((), "ok " ++ " ".intercalate (v.tlvs.map fun o => match o with | some (.nat n) => toString n | _ => "-") ++ d)
      | (.error e, d) => ((), "err " ++ e.name ++ d)
    | ["wlvec", n, h] =>
      -- `WithoutLength<Vec<T>>` over n-byte elements: the model's `.chunks n` decoder, cross-checked with the loop translated from
      -- util/ser.rs (Props/C13Tlv without_length_vec_is_source)
      let n := nat! n
      let b := unhex h
      let r := (FieldTy.chunks n).decode b
      let src := (TlvSrc.wlVecLoopSrc n (b.length + 1) [] b).map (fun l => (TlvSrc.bytesVec l, ([] : Bytes)))
      let d := if src == r then "" else " src-differs"
      match r with
      | .ok (v, _) => ((), s!"ok {v.len} " ++ hex ((FieldTy.chunks n).encode v) ++ d)
      | .error e => ((), "err " ++ e.name ++ d)
    | _ => ((), "bad-op")

end Ldk.Driver
