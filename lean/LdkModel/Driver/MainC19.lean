import LdkModel.Driver.C19
def main (args : List String) : IO UInt32 := Ldk.Driver.runMain [("c19kv", Ldk.Driver.c19kv), ("c19mup", Ldk.Driver.c19mup), ("c19mt", Ldk.Driver.c19mt)] args
