import LdkModel.Driver.Util
import LdkModel.Model.Sweeper
namespace Ldk.Driver
open Ldk Ldk.Sweeper

def splitOnCh (s : String) (c : Char) : List String := s.splitOn (String.singleton c)

def showSweepStatus : Status → String
  | .initial none => "I:-"
  | .initial (some d) => s!"I:{d}"
  | .firstConf l t => s!"F:{l}:{t}"
  | .threshold l t h => s!"T:{l}:{t}:{h}"

def showSweeper (s : State) : String :=
  s!"{s.best} |" ++ String.join (s.outputs.map fun o => s!" {o.id}:{showSweepStatus o.status}")

/-- `<txid>:<id>,<id>…` -/
def sweepTxOf (s : String) : Option Tx :=
  match splitOnCh s ':' with
  | [t, ins] => some { id := nat! t, inputs := (splitOnCh ins ',').map (nat! ·) }
  | _ => none

/-- ops (answer = `<best> | <id>:<status>…`, status `I:<delay|->` / `F:<latest broadcast height>:<tx>` / `T:<lbh>:<tx>:<confirmation height>`):
      new <best>                      fresh sweeper at height <best>, the next sweep transaction is number 1
      track <id> <delay|->            Model/Sweeper.lean `track`
      sweep [<tag>]                   `sweep`: `tx <n> <inputs sorted>… | state` or `none | state`
      conf <h> <tx>…                  Confirm::transactions_confirmed (`txsConfirmed`), <tx> = `<n>:<id>,<id>…`
      best <h>                        Confirm::best_block_updated (`bestBlockUpdated`)
      connect <h> <tx>…               Listen::filtered_block_connected (`blockConnected`)
      disc <fork height>              Listen::blocks_disconnected (`blocksDisconnected`)
      unconf <n>                      Confirm::transaction_unconfirmed (`transactionUnconfirmed`) -/
def c07sweep : Drv where
  σ := State
  init := { best := 0, outputs := [], nextTx := 1 }
  step := fun s ws =>
    let ret := fun (s' : State) => (s', showSweeper s')
    match ws with
    | ["new", b] => ret { best := nat! b, outputs := [], nextTx := 1 }
    | ["track", id, d] => ret (track s (nat! id) (if d == "-" then none else some (nat! d)))
    | "sweep" :: _ =>
      match sweep s with
      | (s', some tx) => (s', s!"tx {tx.id}" ++ String.join ((sortNats tx.inputs).map fun i => s!" {i}") ++ " | " ++ showSweeper s')
      | (s', none) => (s', "none | " ++ showSweeper s')
    | "conf" :: h :: txs =>
      match txs.mapM sweepTxOf with
      | some ts => ret (txsConfirmed s (nat! h) ts)
      | none => (s, "bad-op")
    | ["best", h] => ret (bestBlockUpdated s (nat! h))
    | "connect" :: h :: txs =>
      match txs.mapM sweepTxOf with
      | some ts => ret (blockConnected s (nat! h) ts)
      | none => (s, "bad-op")
    | ["disc", f] => ret (blocksDisconnected s (nat! f))
    | ["unconf", t] => ret (transactionUnconfirmed s (nat! t))
    | _ => (s, "bad-op")
where
  sortNats (xs : List Nat) : List Nat := xs.foldl (fun acc x => (acc.filter (· ≤ x)) ++ [x] ++ (acc.filter (· > x))) []

end Ldk.Driver
