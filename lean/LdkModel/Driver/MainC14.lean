import LdkModel.Driver.C14
def main (args : List String) : IO UInt32 := Ldk.Driver.runMain [("c14", Ldk.Driver.c14)] args
