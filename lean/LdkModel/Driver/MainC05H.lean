import LdkModel.Driver.C05H
def main (args : List String) : IO UInt32 := Ldk.Driver.runMain [("c05h", Ldk.Driver.c05h)] args
