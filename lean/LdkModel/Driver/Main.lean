import LdkModel.Driver.C08
open Ldk.Driver

def models : List (String × Drv) := [("c08", c08)]

def main (args : List String) : IO UInt32 := do
  match args with
  | [m] =>
    match models.lookup m with
    | some d => loop (← IO.getStdin) (← IO.getStdout) d d.init; return 0
    | none => IO.eprintln s!"unknown model {m}"; return 2
  | _ => IO.eprintln "usage: ldkdriver <model> < ops"; return 2
