import LdkModel.Driver.C06
def main (args : List String) : IO UInt32 := Ldk.Driver.runMain [("c06bump", Ldk.Driver.c06bump), ("c06justice", Ldk.Driver.c06justice), ("c06scope", Ldk.Driver.c06scope)] args
