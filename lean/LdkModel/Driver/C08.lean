import LdkModel.Driver.Util
import LdkModel.Model.Timing
namespace Ldk.Driver
open Ldk

def showRes : Except FailReason Unit → String
  | .ok _ => "ok"
  | .error e => "err " ++ e.name

/-- final-hop acceptance as composed in create_recv_pending_htlc_info: cltv mismatch first, then
    the expiry-too-soon test (amount checks follow and are not exercised by this model). -/
def finalHop (h onionCltv htlcCltv : Nat) : Except FailReason Unit :=
  if finalIncorrectCltv onionCltv htlcCltv then .error .finalIncorrectCLTVExpiry
  else if finalExpiryTooSoon h htlcCltv then .error .paymentClaimBuffer
  else .ok ()

def c08 : Drv where
  σ := Unit
  init := ()
  step := fun _ ws =>
    match ws with
    | ["cltv", h, o, i, d] => ((), showRes (checkIncomingHtlcCltv (nat! h) (nat! o) (nat! i) (nat! d)))
    | ["peelfwd", h, o, i] => ((), showRes (checkIncomingHtlcCltv (nat! h) (nat! o) (nat! i) MIN_CLTV_EXPIRY_DELTA))
    | ["peelfinal", h, oc, hc] => ((), showRes (finalHop (nat! h) (nat! oc) (nat! hc)))
    | ["trigger", h, c, ob, pre] => ((), toString (shouldBroadcastFor (nat! h) (nat! c) (ob == "1") (pre == "1")))
    | ["deadline", c] => ((), toString (claimDeadline (nat! c)))
    | ["mpptimeout", h, c] => ((), toString (mppOnchainTimeout (nat! h) (nat! c)))
    | ["e2e_close", oc] => ((), toString (Timing.outboundTrigger (nat! oc)))
    | ["e2e_failback", ic] => ((), toString (nat! ic - LATENCY_GRACE_PERIOD_BLOCKS))
    | ["threshold", h] => ((), toString (confirmationThreshold (nat! h) none))
    | _ => ((), "bad-op")

end Ldk.Driver
