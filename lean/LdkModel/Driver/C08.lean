import LdkModel.Driver.Util
import LdkModel.Model.Timing
import LdkModel.Model.NodeStep
namespace Ldk.Driver
open Ldk

def showRes : Except FailReason Unit → String
  | .ok _ => "ok"
  | .error e => "err " ++ e.name

/-- final-hop acceptance as composed in create_recv_pending_htlc_info: cltv mismatch first, then
    the expiry-too-soon test (amount checks follow and are not exercised by this model). -/
def finalHop (h onionCltv htlcCltv : Nat) : Except FailReason Unit :=
  if finalIncorrectCltv onionCltv htlcCltv then .error .finalIncorrectCLTVExpiry
  else if finalExpiryTooSoon h htlcCltv then .error .paymentClaimBuffer
  else .ok ()

def parseExit (n : String) : Option BbuExit := BbuExit.all.find? (fun x => x.name == n)

/-- event token: `b:<h>:<exit>:<cConf>:<tConf>` | `p` | `d` | `r` (round 6: forward_intercepted_htlc) -/
def parseEv (w : String) : Option NodeStep.Ev :=
  match w.splitOn ":" with
  | ["p"] => some .preimage
  | ["d"] => some .downCommitted
  | ["r"] => some .released
  | ["b", h, x, c, t] => (parseExit x).map (fun x => .block (nat! h) x (c == "1") (t == "1"))
  | _ => none

/-- `node <inCltv> <outCltv> <monBest> <inCell> <outLive> <upResponsive> ev…`: run `NodeStep.run`, print the log -/
def nodeRun (ic oc best cell live resp : String) (evs : List String) : String :=
  match evs.mapM parseEv with
  | none => "bad-op"
  | some es =>
    let s0 : NodeStep.St := { inCltv := nat! ic, outCltv := nat! oc, monBest := nat! best, inCell := cell == "1",
                              outLive := live == "1", upResponsive := resp == "1" }
    let log := (NodeStep.run s0 es).2
    if log.isEmpty then "-" else " ".intercalate (log.map (fun (h, a) => toString h ++ ":" ++ a.name))

/-- (round 6) `noderel <inCltv> <outCltv> <monBest> ev…`: the forward starts HELD as an intercepted HTLC (pending_intercepted_htlcs);
    the events may release it (`r`: forward_intercepted_htlc; a no-op once the node has given the HTLC up), commit it downstream
    (`d`) and deliver heights: `NodeStep.run`, print the log -/
def nodeRelRun (ic oc best : String) (evs : List String) : String :=
  match evs.mapM parseEv with
  | none => "bad-op"
  | some es =>
    let s0 : NodeStep.St := { inCltv := nat! ic, outCltv := nat! oc, monBest := nat! best, inCell := false, outLive := false,
                              intercepted := true }
    -- the HTLC-timeout broadcast is not observed by this e2e family (the run stops at the commitment broadcast): not printed
    let log := (NodeStep.run s0 es).2.filter (fun p => p.2 != NodeStep.Act.broadcastTimeout)
    if log.isEmpty then "-" else " ".intercalate (log.map (fun (h, a) => toString h ++ ":" ++ a.name))

/-- `<set>:<weOffered>:<cltv>:<pre>` -/
def parseMonHtlc (w : String) : Option Timing.MonHtlc :=
  match w.splitOn ":" with
  | [s, o, c, p] =>
    (([.holderCurrent, .counterpartyCurrent, .counterpartyPrev] : List ScanSet).find? (fun x => x.name == s)).map
      (fun s => { set := s, weOffered := o == "1", cltv := nat! c, preimage := p == "1" })
  | _ => none

def c08 : Drv where
  σ := Unit
  init := ()
  step := fun _ ws =>
    match ws with
    | ["cltv", h, o, i, d] => ((), showRes (checkIncomingHtlcCltv (nat! h) (nat! o) (nat! i) (nat! d)))
    | ["peelfwd", h, o, i] => ((), showRes (checkIncomingHtlcCltv (nat! h) (nat! o) (nat! i) MIN_CLTV_EXPIRY_DELTA))
    | ["peelfinal", h, oc, hc] => ((), showRes (finalHop (nat! h) (nat! oc) (nat! hc)))
    | ["trigger", h, c, ob, pre] => ((), toString (shouldBroadcastFor (nat! h) (nat! c) (ob == "1") (pre == "1")))
    | ["deadline", c] => ((), toString (claimDeadline (nat! c)))
    | ["mpptimeout", h, c] => ((), toString (mppOnchainTimeout (nat! h) (nat! c)))
    | ["e2e_close", oc] => ((), toString (Timing.outboundTrigger (nat! oc)))
    | ["e2e_failback", ic] => ((), toString (nat! ic - LATENCY_GRACE_PERIOD_BLOCKS))
    | "node" :: ic :: oc :: best :: cell :: live :: resp :: evs => ((), nodeRun ic oc best cell live resp evs)
    | "noderel" :: ic :: oc :: best :: evs => ((), nodeRelRun ic oc best evs)
    | ["bbuexit", x] => ((), match parseExit x with | some x => toString x.isOk ++ " " ++ toString x.returnsTimedOut | none => "bad-op")
    | "icpt" :: out :: hs =>
      -- answered by the nodeStep ACTION (mgrIntercept inside `run`) and by Timing.interceptHold; they must agree
      let heights := hs.map (fun h => nat! h)
      let s0 : NodeStep.St := { inCltv := nat! out + MIN_CLTV_EXPIRY_DELTA, outCltv := nat! out, monBest := 0, inCell := false,
                                outLive := false, intercepted := true }
      let viaRun := ((NodeStep.run s0 (NodeStep.plainBlocks heights)).2.find? (fun p => p.2 == NodeStep.Act.interceptTimeout)).map (·.1)
      let viaHold := Timing.interceptHold (nat! out) heights
      ((), if viaRun != viaHold then "model-mismatch" else match viaRun with | some h => toString h | none => "none")
    | "monscan" :: c :: a :: h :: xs =>
      ((), match xs.mapM parseMonHtlc with
           | some l => toString (Timing.monShouldBroadcast (c == "1") (a == "1") (nat! h) l)
           | none => "bad-op")
    | ["swept", l] => ((), match Timing.FwdLoc.all.find? (fun x => reprStr x == l || (match x with
          | .intercepted => "intercepted" | .trampolineAwaiting => "trampolineAwaiting" | .holdingCell => "holdingCell"
          | .commitment s => "commitment:" ++ s.name) == l) with
        | some x => toString (Timing.sweptBy x) | none => "bad-op")
    | ["preempt", ic, h] => ((), toString (earlyFailBack (nat! h) (nat! ic)))
    | "tramp" :: h :: cs => ((), toString (trampolineTimedOut (nat! h) (cs.map (fun c => nat! c))))
    | ["threshold", h] => ((), toString (confirmationThreshold (nat! h) none))
    | _ => ((), "bad-op")

end Ldk.Driver
