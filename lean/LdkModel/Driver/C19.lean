import LdkModel.Driver.Util
import LdkModel.Model.KvStore
import LdkModel.Model.MonPersister
import LdkModel.Model.FsStore
import LdkModel.Model.FsFault
/-! C19 model drivers.
  `c19kv`  — the map store with the validity rules (`Kv.KvOp.apply`) against FilesystemStore(V2).
  `c19mup` — `MonP.start/stepEv/cleanupStale/archive/readAll` (the functions of the theorems) against
             the real MonitorUpdatingPersister over a recording, fault-injecting KVStoreSync. -/
namespace Ldk.Driver
open Ldk Ldk.Kv Ldk.MonP

/-- strings travel as hex of their UTF-8 bytes (`-` = empty) -/
def unhexStr (s : String) : String :=
  (String.fromUTF8? ⟨(unhex s).toArray⟩).getD "?"

def hexStr (s : String) : String := hex s.toUTF8.toList

def strLe (a b : String) : Bool := !(decide (b < a))
def sortStrs (l : List String) : List String := l.mergeSort strLe

def joinOr (sep : String) (l : List String) : String := if l.isEmpty then "-" else sep.intercalate l

def showKey (k : Key) : String := hexStr k.1 ++ "/" ++ hexStr k.2.1 ++ "/" ++ hexStr k.2.2

def showKvErr : KvErr → String := KvErr.name

/-- answer lines of the file-level model (`Fs.step`), same canonical form as the harness -/
def showFsAns : Fs.FsAns (List UInt8) → String
  | .ok => "ok"
  | .value v => "val " ++ hex v
  | .tornValue => "torn"
  | .names l => "names " ++ joinOr "," (sortStrs (l.map hexStr))
  | .err e => "err " ++ e.name
  | .errBadEntry => "err Other:Failed_to_list_keys"

def showPath (k : Key) : String := "/".intercalate ([k.1, k.2.1, k.2.2].filter (fun c => !c.isEmpty))

structure KvSt where
  /-- `use_empty_ns_dir`: false = FilesystemStore (v1), true = FilesystemStoreV2 -/
  ue : Bool := false
  st : Fs.St (List UInt8) := Fs.fresh []
  /-- issued, not yet executed async operations, by script id -/
  pend : List (Nat × Fs.Pending (List UInt8)) := []

def dashStr (s : String) : String := if s == "-" then "" else unhexStr s

/-- `c19kv`: the FILE-LEVEL model (`Fs.step`, `Fs.issue`, `Fs.exec`, `Fs.listAll` — the functions of
    `fs_refines_map`, `crash_never_tears`, `async_last_issued_wins`, `async_any_interleaving`) against FilesystemStore(V2):
    sync calls, planted artifacts + restart, the directory contents, async issue / completion orders. -/
def c19kv : Drv where
  σ := KvSt
  init := {}
  step := fun s ws =>
    let run (op : KvOp (List UInt8)) := let r := Fs.step s.ue s.st op; ({ s with st := r.1 }, showFsAns r.2)
    let mkOp (ws : List String) : Option (KvOp (List UInt8)) :=
      match ws with
      | ["w", p, sn, k, v] => some (.write (unhexStr p, unhexStr sn, unhexStr k) (unhex v))
      | ["d", p, sn, k, lz] => some (.remove (unhexStr p, unhexStr sn, unhexStr k) (lz == "1"))
      | _ => none
    match ws with
    | ["reset", v] => ({ ue := Fs.layoutOf (v == "v2"), st := Fs.fresh [], pend := [] }, "ok")
    | ["restart"] => ({ s with st := Fs.fresh s.st.fs, pend := [] }, "ok")
    | ["plant", d1, d2, n, v] =>
      ({ s with st := { s.st with fs := s.st.fs.put (dashStr d1, dashStr d2, unhexStr n) (.data (unhex v)) } }, "ok")
    | ["r", p, sn, k] => run (.read (unhexStr p, unhexStr sn, unhexStr k))
    | ["l", p, sn] => run (.list (unhexStr p) (unhexStr sn))
    | ["la"] => (s, match Fs.listAll s.ue s.st.fs with
                    | some l => "all " ++ joinOr "," (sortStrs (l.map showKey))
                    | none => "err Other:Failed_to_list_keys")
    | ["fs"] => (s, "files " ++ joinOr "," (sortStrs (s.st.fs.keys.map showPath)))
    | "ai" :: id :: rest =>
      (match mkOp rest with
       | none => (s, "bad-op")
       | some op =>
         match Fs.mutOf s.ue op with
         | none => (s, showFsAns (Fs.step s.ue s.st op).2)         -- rejected at issue time
         | some (d, b) => let i := Fs.issue s.st d b
                          ({ s with st := i.1, pend := (nat! id, i.2) :: s.pend }, "issued"))
    | ["ax", id] =>
      (match s.pend.find? (fun e => e.1 == nat! id) with
       | none => (s, "bad-op")
       | some e =>
         -- the body as its two steps (`async_any_interleaving`): prep outside the lock, commit under it
         let s2 := Fs.commit2 (Fs.prep2 { st := s.st } e.2) e.2
         ({ s with st := s2.st, pend := s.pend.filter (fun e' => e'.1 != nat! id) }, "ok"))
    | "sk" :: kind :: rest =>
      -- a SYNC call (issue + body at once) under a fault kind: `c` callback's first mutating op fails, `e` failure
      -- before the lock, `d` the directory fsync after the rename / unlink fails (`Fs.execK`, theorem faulty_history_old_or_new)
      (match mkOp rest with
       | none => (s, "bad-op")
       | some op =>
         match Fs.mutOf s.ue op with
         | none => (s, showFsAns (Fs.step s.ue s.st op).2)
         | some (d, b) =>
           let i := Fs.issue s.st d b
           let k : Fs.FKind := if kind == "c" then .cb else if kind == "e" then .early else if kind == "d" then .dirSync else .none
           let r := Fs.execK i.1 i.2 k
           ({ s with st := r.1 }, if r.2 then "ok" else "err io"))
    | ["axf", id, fault] =>
      -- the body under an injected I/O fault (`Fs.execF`, the function of `async_faulty_last_ok_wins` /
      -- `async_faulty_any_history`; `ai` = `Fs.issue`, so a script of ai/axf lines is an `AEv` history): result and
      -- version bookkeeping by the translated `lockedWrite`
      (match s.pend.find? (fun e => e.1 == nat! id) with
       | none => (s, "bad-op")
       | some e =>
         let r := Fs.execF s.st e.2 (fault == "1")
         ({ s with st := r.1, pend := s.pend.filter (fun e' => e'.1 != nat! id) }, if r.2 then "ok" else "err io"))
    | _ =>
      match mkOp ws with
      | some op => run op
      | none => (s, "bad-op")

/-! ### c19mup -/

abbrev DSt := List Nat   -- the abstract monitor state of the driver: ids of the updates applied
abbrev DUpd := Nat

def plainKey (k : Key) : String := k.1 ++ "/" ++ k.2.1 ++ "/" ++ k.2.2

def showVal : PVal DSt DUpd → String
  | .mon s _ m => ":s" ++ (if s then "1" else "0") ++ ":m" ++ Nat.repr m.id
  | .upd id _ => ":u" ++ Nat.repr id
  | .junk _ => ":junk"

def showOp : POp DSt DUpd → String
  | .write k v => "w:" ++ plainKey k ++ showVal v
  | .read k => "r:" ++ plainKey k
  | .remove k lz => "d:" ++ plainKey k ++ ":" ++ (if lz then "1" else "0")
  | .list p sn => "l:" ++ p ++ "/" ++ sn

def showOps (tr : List (Entry DSt DUpd)) : String := joinOr " " (tr.map (fun e => showOp e.op))

def csvNats (s : String) : List Nat := if s == "-" then [] else (s.splitOn ",").map nat!

def optNat (s : String) : Option Nat := if s == "-" then none else some (nat! s)

/-- `MonitorName::from_str` accepts `<64 hex>` or `<64 hex>_<u16>` -/
def isHex64 (s : String) : Bool := s.length == 64 && s.toList.all (fun c => c.isDigit || ('a' ≤ c && c ≤ 'f') || ('A' ≤ c && c ≤ 'F'))
def monNameOk (s : String) : Bool :=
  match s.splitOn "_" with
  | [a] => isHex64 a
  | [a, b] => isHex64 a && (match b.toNat? with | some n => decide (n < 65536) && b.toList.all Char.isDigit | none => false)
  | _ => false

structure MupSt where
  cfg : Cfg DSt DUpd := { maxPending := 0, apply := fun st u => st ++ [u], nameOk := monNameOk }
  sc : Sched := okSched
  name : String := ""
  run : Run DSt DUpd := { w := { store := [] }, mem := ⟨0, []⟩, started := false, alive := false, applied := [], completed := 0 }

def status (b : Bool) : String := if b then "Completed" else "UnrecoverableError"

/-- is the abstract state of a recovered monitor what the in-memory one was at that id? (the theorem
    `persister_recovers` says so; the driver re-checks it on the concrete run and would print BADSTATE) -/
def stateOk (r : Run DSt DUpd) (m : Mon DSt) : Bool :=
  (List.range (r.applied.length + 1)).any (fun n => let s := snapAt (St := DSt) { maxPending := 0, apply := fun st u => st ++ [u], nameOk := fun _ => true } ⟨0, []⟩ r.applied n
    decide (s.st = m.st) && (decide (s.id = m.id) || n == 0))

def c19mup : Drv where
  σ := MupSt
  init := {}
  step := fun s ws =>
    let since (w : World DSt DUpd) := showOps (w.trace.drop s.run.w.trace.length)
    match ws with
    | ["init", n, name, crash, failAt, failEff, noEff] =>
      let ne := csvNats noEff
      let c := (optNat crash).getD (10 ^ 18)
      ({ cfg := { s.cfg with maxPending := nat! n }, sc := crashSched c (optNat failAt) (failEff == "1") (fun i => !ne.contains i),
         name := name, run := { w := { store := [] }, mem := ⟨0, []⟩, started := false, alive := false, applied := [], completed := 0 } }, "ok")
    | ["inject", p, sn, k, kind, id] =>
      let v : PVal DSt DUpd := if kind == "upd" then .upd (nat! id) (nat! id) else if kind == "mon" then .mon true k ⟨nat! id, []⟩ else .junk 0
      let p' := if p == "-" then "" else p
      let sn' := if sn == "-" then "" else sn
      ({ s with run := { s.run with w := { s.run.w with store := s.run.w.store.put (p', sn', k) v } } }, "ok")
    | ["new", id, _] =>
      let r := start s.cfg s.sc s.name s.run.w.store ⟨nat! id, []⟩
      ({ s with run := r }, status r.started ++ " | " ++ showOps r.w.trace)
    | ["upd", uid, asFull, _] =>
      let r := stepEv s.cfg s.sc s.name s.run (.update (nat! uid) (nat! uid) (asFull == "1"))
      let st := if !s.run.alive then "dead" else if r.applied.length == s.run.applied.length then "panic" else status r.alive
      ({ s with run := r }, st ++ " | " ++ since r.w)
    | ["full", _] =>
      let r := stepEv s.cfg s.sc s.name s.run .full
      ({ s with run := r }, (if !s.run.alive then "dead" else status r.alive) ++ " | " ++ since r.w)
    | ["cleanup", lz, _] =>
      let c := cleanupStale s.cfg s.sc (lz == "1") s.run.w
      ({ s with run := { s.run with w := c.1 } }, (if c.2 then "ok" else "err") ++ " | " ++ since c.1)
    | ["archive", _] =>
      let w := archive s.cfg s.sc s.run.w s.name
      ({ s with run := { s.run with w := w } }, "- | " ++ since w)
    | ["recover", _] =>
      let r := readAll s.cfg okSched { store := s.run.w.store }
      (s, match r.2 with
          | .error e => e.name
          | .ok l => "ok " ++ joinOr "," (sortStrs (l.map (fun x => x.1 ++ ":" ++ Nat.repr x.2.id ++
                        (if x.1 == s.name && !stateOk s.run x.2 then ":BADSTATE" else "")))))
    | ["recoverm", m, _] =>
      -- r6: recovery through a persister constructed with ANOTHER maximum_pending_updates (reader ≠ writer)
      let r := readAll { s.cfg with maxPending := nat! m } okSched { store := s.run.w.store }
      (s, if Ldk.Persist.recoveryReadsMaxPending then "read-path-consults-maximum_pending_updates (not modelled)" else
          match r.2 with
          | .error e => e.name
          | .ok l => "ok " ++ joinOr "," (sortStrs (l.map (fun x => x.1 ++ ":" ++ Nat.repr x.2.id ++
                        (if x.1 == s.name && !stateOk s.run x.2 then ":BADSTATE" else "")))))
    | ["keys", _] => (s, "keys " ++ joinOr "," (sortStrs (s.run.w.store.keys.map plainKey)))
    | _ => (s, "bad-op")

end Ldk.Driver

namespace Ldk.Driver
/-- `c19mt` (8-thread stress of the filesystem stores) has no model side: the harness alone checks it
    (validated, not proved) and emits no op lines. -/
def c19mt : Drv where
  σ := Unit
  init := ()
  step := fun _ _ => ((), "bad-op")
end Ldk.Driver
