import LdkModel.Driver.C18
def main (args : List String) : IO UInt32 := Ldk.Driver.runMain [("c18b11", Ldk.Driver.c18b11), ("c18b12", Ldk.Driver.c18b12)] args
