import LdkModel.Driver.C04
def main (args : List String) : IO UInt32 := Ldk.Driver.runMain [("c04secret", Ldk.Driver.c04secret), ("c04mpp", Ldk.Driver.c04mpp)] args
