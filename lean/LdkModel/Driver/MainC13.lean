import LdkModel.Driver.C13
def main (args : List String) : IO UInt32 := Ldk.Driver.runMain [("c13", Ldk.Driver.c13)] args
