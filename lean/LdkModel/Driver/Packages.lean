/- Shared by the C06 and C07 drivers: the package-layer ops.  The harness records, through the read-only hook
   `verif_hooks::pkgtrace`, every call of OnchainTxHandler::update_claims_view_from_matched_txn (state before, matched transactions,
   state + bump candidates before the bump loop, what generate_claim issued) and every aggregation in
   update_claims_view_from_requests; the model (Model/Packages.lean — the definitions the theorems are about) must reproduce them.

     pkgblock <conf> <cur> <pending> <claimable> <events> <locked> <txs> <issued>
              → `<pending> <claimable> <events> <locked> <bump candidates> accept=<blockOk> wf=<wfB of the state before> <issued-ok | issued-BAD:…>`
     pkgagg <cur> <requests>     → `<requests after the aggregation loop>`
     pkgweight <anchors> <dest script len> <actual weight of the broadcast tx> <kind+…>   → `ge …` iff package_weight ≥ actual

   Formats (as written by PackageTemplate::verif_dump / OnchainTxHandler::verif_pkg_dump; lists joined by `;`, `-` = empty):
     package   `<MP|MU|U>,<counterparty_spendable_height>,<feerate_previous>,<height_timer>,<txid8:vout~kind+…|->`
     kind      `RO` | `RH<offered>` | `CO<cltv>` | `CR<cltv>` | `HH<preimage>.<cltv>.<free>` | `HF`
     pending   `<id8>,<package>`      claimable `<txid8:vout>=<id8>@<height>`      locked `<locktime>/<package>`
     events    `C/<id8>/<txid8>/<height>` | `X/<txid8>/<height>/<package>`         txs `<txid8>/<txid8:vout+…>`
     issued    `<id8>=<new timer>` -/
import LdkModel.Driver.Util
import LdkModel.Model.Packages
namespace Ldk.Driver.PkgOps
open Ldk Ldk.Driver Ldk.Pkg Ldk.PkgLayer Ldk.Packages

def splitC (s : String) (c : Char) : List String := s.splitOn (String.singleton c)
def listOf' (s : String) : List String := if s == "-" then [] else splitC s ';'
def unhexNat (s : String) : Nat := s.toList.foldl (fun a c => a * 16 + hexDigit c) 0
def hex8 (n : Nat) : String :=
  String.ofList ((List.range 8).reverse.map fun i => hexChar ((n / 16 ^ i) % 16))
def joinOr (sep : String) (l : List String) : String := if l.isEmpty then "-" else sep.intercalate l

def memberOf (s : String) : Option Member :=
  if s == "RO" then some { kind := .revokedOutput }
  else if s == "HF" then some { kind := .holderFundingOutput }
  else if s.startsWith "RH" then some { kind := .revokedHTLCOutput, offered := (s.drop 2).toString == "1" }
  else if s.startsWith "CO" then some { kind := .counterpartyOfferedHTLCOutput (nat! (s.drop 2).toString) }
  else if s.startsWith "CR" then some { kind := .counterpartyReceivedHTLCOutput (nat! (s.drop 2).toString) }
  else if s.startsWith "HH" then
    match splitC (s.drop 2).toString '.' with
    | [p, c, f] => some { kind := .holderHTLCOutput (p == "1") (nat! c), freeHtlcs := f == "1" }
    | _ => none
  else none

def showMember (m : Member) : String :=
  match m.kind with
  | .revokedOutput => "RO"
  | .revokedHTLCOutput => s!"RH{if m.offered then 1 else 0}"
  | .counterpartyOfferedHTLCOutput c => s!"CO{c}"
  | .counterpartyReceivedHTLCOutput c => s!"CR{c}"
  | .holderHTLCOutput p c => s!"HH{if p then 1 else 0}.{c}.{if m.freeHtlcs || m.freeCommits then 1 else 0}"
  | .holderFundingOutput => "HF"

def mallOf (s : String) : Option Malleability :=
  if s == "MP" then some (.malleable .pinnable) else if s == "MU" then some (.malleable .unpinnable)
  else if s == "U" then some .untractable else none
def showMall : Malleability → String
  | .malleable .pinnable => "MP"
  | .malleable .unpinnable => "MU"
  | .untractable => "U"

def pkgOfFields : List String → Option (Package String)
  | [m, csh, fr, t, ins] => do
    let mall ← mallOf m
    let inputs ← (if ins == "-" then [] else splitC ins '+').mapM fun e =>
      match splitC e '~' with
      | [o, k] => (memberOf k).map fun mem => (o, mem)
      | _ => none
    pure { inputs := inputs, mall := mall, spendable := nat! csh, feerate := nat! fr, timer := nat! t }
  | _ => none
def pkgOf (s : String) : Option (Package String) := pkgOfFields (splitC s ',')
def showPkg (p : Package String) : String :=
  s!"{showMall p.mall},{p.spendable},{p.feerate},{p.timer},{joinOr "+" (p.inputs.map fun e => s!"{e.1}~{showMember e.2}")}"

def pendingOf (s : String) : Option (List (Nat × Package String)) :=
  (listOf' s).mapM fun e => match splitC e ',' with
    | id :: rest => (pkgOfFields rest).map fun p => (unhexNat id, p)
    | _ => none
def showPending (l : List (Nat × Package String)) : String := joinOr ";" (l.map fun e => s!"{hex8 e.1},{showPkg e.2}")

def claimableOf (s : String) : Option (List (String × Nat × Nat)) :=
  (listOf' s).mapM fun e => match splitC e '=' with
    | [o, r] => (match splitC r '@' with | [id, h] => some (o, unhexNat id, nat! h) | _ => none)
    | _ => none
def showClaimable (l : List (String × Nat × Nat)) : String := joinOr ";" (l.map fun e => s!"{e.1}={hex8 e.2.1}@{e.2.2}")

def eventsOf (s : String) : Option (List (Ev String)) :=
  (listOf' s).mapM fun e => match splitC e '/' with
    | ["C", id, tx, h] => some (.claim (unhexNat id) (unhexNat tx) (nat! h))
    | ["X", tx, h, p] => (pkgOf p).map fun pk => .contentious pk (unhexNat tx) (nat! h)
    | _ => none
def showEvents (l : List (Ev String)) : String := joinOr ";" (l.map fun e => match e with
    | .claim id tx h => s!"C/{hex8 id}/{hex8 tx}/{h}"
    | .contentious p tx h => s!"X/{hex8 tx}/{h}/{showPkg p}")

def lockedOf (s : String) : Option (List (Nat × Package String)) :=
  (listOf' s).mapM fun e => match splitC e '/' with
    | [lt, p] => (pkgOf p).map fun pk => (nat! lt, pk)
    | _ => none
def showLocked (l : List (Nat × Package String)) : String := joinOr ";" (l.map fun e => s!"{e.1}/{showPkg e.2}")

def txsOf (s : String) : Option (List (Tx String)) :=
  (listOf' s).mapM fun e => match splitC e '/' with
    | [tx, ins] => some { txid := unhexNat tx, inputs := splitC ins '+' }
    | _ => none

def insertById (x : Nat × Package String) : List (Nat × Package String) → List (Nat × Package String)
  | [] => [x]
  | y :: ys => if x.1 ≤ y.1 then x :: y :: ys else y :: insertById x ys
def sortById (l : List (Nat × Package String)) : List (Nat × Package String) := l.foldr insertById []

def showHandler (h : Handler String) : String :=
  s!"{showPending h.pending} {showClaimable h.claimable} {showEvents h.events} {showLocked h.locked}"

/-- the package-layer ops; `none` = not one of them -/
def pkgStep (ws : List String) : Option String :=
  match ws with
  | ["pkgblock", conf, cur, pd, cl, ev, lk, txs, issued] =>
    some <| match pendingOf pd, claimableOf cl, eventsOf ev, lockedOf lk, txsOf txs with
    | some pending, some claimable, some events, some locked, some ts =>
      let h : Handler String := { pending := pending, claimable := claimable, events := events, locked := locked }
      let r := matchedTxn (nat! conf) (nat! cur) (fun _ => true) h ts
      let bad := (listOf' issued).filterMap fun e => match splitC e '=' with
        | [id, t] =>
          -- what the real generate_claim issued must be a candidate that passes the model's guard, with the model's new timer
          (match r.issued.find? fun i => i.id == unhexNat id with
           | some i => if i.timer == nat! t then none else some s!"{id}:timer-{i.timer}"
           | none => some s!"{id}:not-issuable")
        | _ => some "parse"
      s!"{showHandler r.mid} {showPending (sortById r.cands)} accept={if blockOk (nat! conf) h ts then 1 else 0} wf={if h.wfB then 1 else 0} {if bad.isEmpty then "issued-ok" else "issued-BAD:" ++ ",".intercalate bad}"
    | _, _, _, _, _ => "bad-op"
  | ["pkgagg", cur, reqs] =>
    some <| match (listOf' reqs).mapM pkgOf with
    | some rs => joinOr ";" ((aggregate (nat! cur) rs).map showPkg)
    | none => "bad-op"
  | ["pkgweight", anchors, destLen, actual, kinds] =>
    some <| match (splitC kinds '+').mapM memberOf with
    | some ms =>
      let p : Package String := { inputs := ms.map fun m => ("", m), mall := .untractable, spendable := 0, feerate := 0, timer := 0 }
      let predicted := p.weight (anchors == "1") (nat! destLen)
      if nat! actual ≤ predicted then "ge" else s!"UNDER predicted={predicted}"
    | none => "bad-op"
  | _ => none

end Ldk.Driver.PkgOps
