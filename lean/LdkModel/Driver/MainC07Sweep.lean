import LdkModel.Driver.C07Sweep
def main (args : List String) : IO UInt32 := Ldk.Driver.runMain [("c07sweep", Ldk.Driver.c07sweep)] args
