import LdkModel.Driver.Util
import LdkModel.Model.Secrets
namespace Ldk.Driver
open Ldk.Secrets

/-- c05: the revocation-secret store with the code's parameters (B = 48, SHA-256).
    ops:  new | provide <idx> <secret-hex> | get <idx> | min | build <seed-hex> <idx> | ser |
          reload (read(write(store))) | load <hex> (Readable::read of arbitrary well-sized bytes) -/
def c05 : Drv where
  σ := Store Bytes
  init := Store.new Params48
  step := fun st ws =>
    let P := Params48
    match ws with
    | ["new"] => (Store.new P, "ok")
    | ["provide", i, s] =>
      match provideSecret P st (nat! i) (unhex s) with
      | some st' => (st', "ok")
      | none => (st, "err")
    | ["get", i] =>
      let idx := nat! i
      if getSecretAsserts P st idx then (st, "panic") else
      match getSecret P st idx with
      | some s => (st, "some " ++ hex s)
      | none => (st, "none")
    | ["min"] => (st, toString (getMinSeenSecret P st))
    | ["build", seed, i] => (st, hex (buildCommitmentSecret P (unhex seed) (nat! i)))
    | ["ser"] => (st, hex (serialize st))
    | ["reload"] =>
      match deserialize (P.B + 1) (serialize st) with
      | some st' => (st', "ok")
      | none => (st, "err")
    | ["load", h] =>
      match deserialize (P.B + 1) (unhex h) with
      | some st' => (st', "ok")
      | none => (st, "err")
    | _ => (st, "bad-op")

end Ldk.Driver
