import LdkModel.Driver.Util
import LdkModel.Model.TxBuilder
import LdkModel.Model.Closing
namespace Ldk.Driver
open Ldk Ldk.TxB

def chanTy (s : String) : ChanType :=
  if s == "a" then { anchors := true, zeroFee := false }
  else if s == "z" then { anchors := false, zeroFee := true }
  else { anchors := false, zeroFee := false }

def parseDirs (ws : List String) : List HTLCAmountDirection :=
  ws.map fun w => { outbound := w.startsWith "o", amount_msat := nat! (w.drop 1).toString }
def parseHtlcs (ws : List String) : List HtlcIn :=
  ws.map fun w => { offered := w.startsWith "o", amount_msat := nat! (w.drop 1).toString }

def natList (l : List Nat) : String := " ".intercalate (l.map toString)

def insertSorted (x : Nat) : List Nat → List Nat
  | [] => [x]
  | y :: ys => if x ≤ y then x :: y :: ys else y :: insertSorted x ys
def sortNat (l : List Nat) : List Nat := l.foldr insertSorted []

def c01txb : Drv where
  σ := Unit
  init := ()
  step := fun _ ws =>
    match ws with
    | "stats" :: l :: f :: chan :: vth :: addl :: feerate :: spike :: lim :: maxdust ::
        c0 :: c1 :: c2 :: c3 :: c4 :: c5 :: c6 :: ty :: _n :: hs =>
      let dirs := parseDirs hs
      let cons : ChannelConstraints := {
        holder_dust_limit_satoshis := nat! c0, counterparty_selected_channel_reserve_satoshis := nat! c1,
        counterparty_dust_limit_satoshis := nat! c2, holder_selected_channel_reserve_satoshis := nat! c3,
        counterparty_htlc_minimum_msat := nat! c4, counterparty_max_htlc_value_in_flight_msat := nat! c5,
        counterparty_max_accepted_htlcs := nat! c6 }
      let limf : Option Nat := if lim == "-" then none else some (nat! lim)
      let t := chanTy ty
      let loc := l == "1"
      let dustLimit := if loc then cons.holder_dust_limit_satoshis else cons.counterparty_dust_limit_satoshis
      match get_next_commitment_stats loc (f == "1") (nat! chan) (nat! vth) dirs (nat! addl) (nat! feerate) (spike == "1") limf dustLimit t with
      | none => ((), "err")
      | some s =>
        let a := get_available_balances (f == "1") (nat! chan) (nat! vth) dirs (nat! feerate) limf (nat! maxdust) cons t
        ((), s!"ok {s.holder_balance_msat} {s.counterparty_balance_msat} {s.dust_exposure_msat} | {a.inbound_capacity_msat} {a.outbound_capacity_msat} {a.next_outbound_htlc_limit_msat} {a.next_outbound_htlc_minimum_msat} {a.dust_exposure_msat}")
    | "build" :: l :: f :: chan :: vts :: feerate :: dust :: ty :: _n :: hs =>
      let t := chanTy ty
      match buildCommitment (l == "1") (f == "1") (nat! chan) (nat! vts) (parseHtlcs hs) (nat! feerate) (nat! dust) t with
      | none => ((), "panic")
      | some b =>
        ((), s!"ok {b.toBroadcaster} {b.toCountersignatory} {b.commitTxFeeSat} | {natList (sortNat (b.nondust.map (·.amount_msat)))} | {natList (sortNat (outputValues t (nat! chan) b))}")
    -- cooperative close (translated build_closing_transaction / fee limits / weight)
    | ["close", vts, chan, dust, funder, fee, skip] =>
      let v : Closing.View := { valueToSelfMsat := nat! vts, chanValueSat := nat! chan, dust := nat! dust, isFunder := funder == "1", minFee := 0, maxFee := 0 }
      match Closing.closingTx v (nat! fee) (skip == "1") with
      | none => ((), "err")
      | some (h, c, u) => ((), s!"ok {h} {c} {u} | {natList (sortNat ([h, c].filter (· > 0)))}")
    | ["climits", funder, estMin, estNormal, target, fr, fc, chan, vts, rlen, la, lb] =>
      let w := Closing.get_closing_transaction_weight (nat! rlen) (some (nat! la)) (some (nat! lb))
      let bounded (x : Nat) := Nat.max x FEERATE_FLOOR_SATS_PER_KW   -- LowerBoundedFeeEstimator
      let t : Option Nat := if target == "-" then none else some (nat! target)
      let r := Closing.calculate_closing_fee_limits (funder == "1") (bounded (nat! estMin)) (bounded (nat! estNormal)) t (nat! fr) w (nat! fc) (nat! chan) (nat! vts)
      ((), s!"{r.1} {r.2} {w}")
    | _ => ((), "bad-op")

end Ldk.Driver
