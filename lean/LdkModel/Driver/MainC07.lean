import LdkModel.Driver.C07
def main (args : List String) : IO UInt32 := Ldk.Driver.runMain [("c07bump", Ldk.Driver.c07bump), ("c07close", Ldk.Driver.c07close), ("c07fee", Ldk.Driver.c07fee)] args
