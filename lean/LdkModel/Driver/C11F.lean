import LdkModel.Driver.Util
import LdkModel.Model.FundConf
/- Driver for model `c11f` (C11, manager/channel side): the funding-scope confirmation state machine of
   Model/FundConf.lean on the calls a chain client makes on the ChannelManager.
   ops:  reset <minDepth> <best> <mainTxid> <mainConfHeight> <candTxid…>   ready channel, candidates unconfirmed -> ok
         conf <h> <ids…> | best <h> | block <h> <ids…> | rblock <h> <ids…> | disc <h> | unconf <id>
            -> locks=<id,…|->          (the splice_locked this call produced; also remembered for `obs`)
         obs [label]
            -> best=<b> rel=<id@h,…|-> locked=<id,…|-> closed=<0|1>    (rel sorted; locked = since the last obs)
         preset <minDepth> <best> <mainTxid>     channel AWAITING channel_ready, funding unconfirmed (Model Pre) -> ok
            then the same calls -> readys=<n>;  obs -> best=<b> rel=… ready=<n since last obs> scid=<0|1> closed=<0|1> -/
namespace Ldk.Driver
open Ldk Ldk.FundConf

structure C11FState where
  c : Chan := { minDepth := 0, main := { txid := 0 } }
  locks : List Nat := []
  /-- `some p`: the channel is one awaiting channel_ready (set by `preset`) -/
  pre : Option Pre := none
  readys : Nat := 0

def showIds (l : List Nat) : String := if l.isEmpty then "-" else ",".intercalate (l.map toString)

def insertPair (p : Nat × Nat) : List (Nat × Nat) → List (Nat × Nat)
  | [] => [p]
  | q :: r => if p.1 < q.1 || (p.1 == q.1 && p.2 ≤ q.2) then p :: q :: r else q :: insertPair p r

def showRel (l : List (Nat × Nat)) : String :=
  let s := l.foldr insertPair []
  if s.isEmpty then "-" else ",".intercalate (s.map (fun p => s!"{p.1}@{p.2}"))

def c11fApply (s : C11FState) (o : Op) : C11FState × String :=
  match s.pre with
  | some p =>
    let (p', n) := FundConf.preStep p o
    ({ s with pre := some p', readys := s.readys + n }, s!"readys={n}")
  | none =>
    let (c', l) := FundConf.step s.c o
    ({ s with c := c', locks := s.locks ++ l }, s!"locks={showIds l}")

def c11fStep (s : C11FState) : List String → C11FState × String
  | "reset" :: md :: b :: mt :: mh :: cs =>
    ({ c := { minDepth := nat! md, best := nat! b,
              main := { txid := nat! mt, confHeight := nat! mh, confIn := nat! mh != 0, scid := nat! mh != 0 },
              cands := cs.map (fun t => { txid := nat! t }) }, locks := [] }, "ok")
  | ["preset", md, b, mt] =>
    ({ pre := some { minDepth := nat! md, best := nat! b, main := { txid := nat! mt } } }, "ok")
  | "conf" :: h :: ids => c11fApply s (.conf (nat! h) (ids.map nat!))
  | ["best", h] => c11fApply s (.best (nat! h))
  | "block" :: h :: ids => c11fApply s (.block (nat! h) (ids.map nat!))
  | "rblock" :: h :: ids => c11fApply s (.rblock (nat! h) (ids.map nat!))
  | ["disc", h] => c11fApply s (.disc (nat! h))
  | ["unconf", t] => c11fApply s (.unconf (nat! t))
  | "obs" :: _ =>
    match s.pre with
    | some p =>
      ({ s with readys := 0 },
       s!"best={p.best} rel={showRel (preRelevant p)} ready={s.readys} scid={if p.main.scid && !p.closed then 1 else 0} closed={if p.closed then 1 else 0}")
    | none =>
    ({ s with locks := [] },
     s!"best={s.c.best} rel={showRel (relevantTxids s.c)} locked={showIds s.locks} closed={if s.c.closed then 1 else 0}")
  | _ => (s, "bad-op")

def c11f : Drv := { σ := C11FState, init := {}, step := c11fStep }
end Ldk.Driver
