import LdkModel.Driver.C08
def main (args : List String) : IO UInt32 := Ldk.Driver.runMain [("c08", Ldk.Driver.c08)] args
