import LdkModel.Driver.Util
import LdkModel.Model.Channel
import LdkModel.Model.ChanPersist
import LdkModel.Model.ChanReest
import LdkModel.Model.ChanRaa
import LdkModel.Model.RecvAdmit
import LdkModel.Proofs.Channel.Guarded
import LdkModel.Model.MonGate
import LdkModel.Model.TxBuilder
import LdkModel.Model.Closing
import LdkModel.Model.SendLimit
import LdkModel.Driver.RaaGateOp
namespace Ldk.Driver
open Ldk Ldk.Chan

def natsOf (s : String) : List Nat := if s == "-" then [] else (s.splitOn ",").map nat!

def showSt : InState → String
  | .remoteAnnounced => "RemoteAnnounced" | .awaitingRemoteRevokeToAnnounce => "AwaitingRemoteRevokeToAnnounce"
  | .awaitingAnnouncedRemoteRevoke => "AwaitingAnnouncedRemoteRevoke" | .committed => "Committed"
  | .localRemoved f => if f then "LocalRemovedFulfill" else "LocalRemovedFail"
def showOSt : OutState → String
  | .localAnnounced => "LocalAnnounced" | .committed => "Committed" | .remoteRemoved ok => s!"RemoteRemoved{ok}"
  | .awaitingRemoteRevokeToRemove ok => s!"AwaitingRemoteRevokeToRemove{ok}" | .awaitingRemovedRemoteRevoke ok => s!"AwaitingRemovedRemoteRevoke{ok}"

def showCommit (c : Commit) : String :=
  let hs := (sortH c.htlcs).map (fun h => (if h.1 then "o" else "i") ++ toString h.2.1 ++ ":" ++ toString h.2.2)
  s!"bal={c.builderBalance} htlcs={",".intercalate hs}"

def lastCs : List Msg → Option Commit
  | [] => none
  | m :: ms => match lastCs ms with
    | some c => some c
    | none => match m with | .cs c => some c | _ => none

def msgKind : Msg → String
  | .add _ _ => "add" | .fulfill _ => "fulfill" | .fail _ => "fail" | .cs _ => "cs" | .raa => "raa" | .fee _ => "fee"

structure ChanParams where
  feerate : Nat
  dust : Nat
  ty : TxB.ChanType
  funderIsA : Bool
  /-- the send-check parameters of the two nodes (directive `sendcfg`), when known -/
  cfgA : Option SendCfg := none
  cfgB : Option SendCfg := none
  deriving Inhabited

def insPair (x : Bool × Nat) : List (Bool × Nat) → List (Bool × Nat)
  | [] => [x]
  | y :: ys => if (x.1 == false && y.1 == true) || (x.1 == y.1 && x.2 ≤ y.2) then x :: y :: ys else y :: insPair x ys

def showDirs (l : List TxB.HTLCAmountDirection) : String :=
  let nd := (l.map (fun h => (h.outbound, h.amount_msat))).foldr insPair []
  if nd.isEmpty then "-" else ",".intercalate (nd.map (fun h => (if h.1 then "o" else "i") ++ toString h.2))

/-- the transaction the signer `x` built for its peer, through the commitment-builder model of C01 -/
def showBuilt (p : ChanParams) (total : Nat) (xIsA : Bool) (c : Commit) : String :=
  let htlcs : List TxB.HtlcIn := c.htlcs.map (fun h => { offered := h.1, amount_msat := h.2.2 })
  match TxB.buildCommitment false (xIsA == p.funderIsA) (total / 1000) c.builderBalance htlcs c.feerate p.dust p.ty with
  | none => "panic"
  | some b =>
    let nd := (b.nondust.map (fun h => (h.offered, h.amount_msat))).foldr insPair []
    let nds := if nd.isEmpty then "-" else ",".intercalate (nd.map (fun h => (if h.1 then "o" else "i") ++ toString h.2))
    s!"{b.toBroadcaster} {b.toCountersignatory} {nds}"

/-- `chan`: the two-party protocol monitor. Every op answers `ok …` or `disabled` (not a protocol run). -/
def chan : Drv where
  σ := Option (Sys × ChanParams)
  init := none
  step := fun st0 ws =>
    let st := st0.map (·.1)
    let p := (st0.map (·.2)).getD default
    let ret (r : Option Sys × String) : Option (Sys × ChanParams) × String := (r.1.map (fun s => (s, p)), r.2)
    match ws, st with
    | ["init", va, vb, feerate, dust, ty, funder], _ =>
      let t : TxB.ChanType := if ty == "a" then { anchors := true, zeroFee := false }
        else if ty == "z" then { anchors := false, zeroFee := true } else { anchors := false, zeroFee := false }
      let prm : ChanParams := { feerate := nat! feerate, dust := nat! dust, funderIsA := funder == "a", ty := t }
      let s0 := Sys.init (nat! va) (nat! vb) (nat! feerate)
      let s0 : Sys := if funder == "a" then s0 else { s0 with a := { s0.a with isFunder := false }, b := { s0.b with isFunder := true } }
      (some (s0, prm), "ok")
    | ["commit", x, adds, fu, fa], some s => ret
      (let e := Ev.commit (x == "a") (natsOf adds) (natsOf fu) (natsOf fa)
       match stepG s e with
       | none => (some s, "disabled")
       | some s' =>
         -- the adds of the batch under the REAL admission check on the model's state (when the nodes' parameters are known)
         let unchecked := match p.cfgA, p.cfgB with
           | some ca, some cb => (stepChecked ca cb s e).isNone
           | _, _ => false
         (some s', "ok " ++ (match lastCs (if x == "a" then s'.pendA else s'.pendB) with | some c => showBuilt p s'.total (x == "a") c | none => "?")
           ++ (if unchecked then " NOT-ADMITTED-BY-MODEL-LIMIT" else "")))
    | "sendcfg" :: x :: chanSat :: lim :: maxd :: c0 :: c1 :: c2 :: c3 :: c4 :: c5 :: c6 :: _, some s =>
      let cons : TxB.ChannelConstraints := { holder_dust_limit_satoshis := nat! c0, counterparty_selected_channel_reserve_satoshis := nat! c1, counterparty_dust_limit_satoshis := nat! c2, holder_selected_channel_reserve_satoshis := nat! c3, counterparty_htlc_minimum_msat := nat! c4, counterparty_max_htlc_value_in_flight_msat := nat! c5, counterparty_max_accepted_htlcs := nat! c6 }
      let c : SendCfg := { chanValueSat := nat! chanSat, limitingFeerate := if lim == "-" then none else some (nat! lim), maxDustExposureMsat := nat! maxd, ty := p.ty, cons := cons }
      (some (s, if x == "a" then { p with cfgA := some c } else { p with cfgB := some c }), "ok")
    | ["stats", x], some s => ret <|
      let n := if x == "a" then s.a else s.b
      (some s, s!"v={n.statsValueToSelf} htlcs={showDirs n.statsHtlcs}")
    | ["lim", x], some s => ret <|
      let n := if x == "a" then s.a else s.b
      (match (if x == "a" then p.cfgA else p.cfgB) with
       | none => (some s, "nocfg")
       | some c => match n.availableBalances c with
         | none => (some s, "err")
         | some a =>
           -- the stand-alone sender caps of Generated/RecvAdmit.lean (the ones `sender_limit_admitted_by_receiver_partial` is about)
           -- must bound the limit the whole translated get_available_balances reports on this state
           let prm : RecvAdmit.Params := RecvAdmit.senderParams c.cons
           let outs := n.statsHtlcs.filter (fun h => h.outbound)
           let lim := a.next_outbound_htlc_limit_msat
           let mn := a.next_outbound_htlc_minimum_msat
           if lim > RecvAdmit.senderInFlightCap prm ((outs.map (fun h => h.amount_msat)).sum) || (lim > 0 && !RecvAdmit.senderCountOk prm outs.length)
              || lim > RecvAdmit.senderReserveCap prm n.statsValueToSelf then (some s, "LIMIT-EXCEEDS-GENERATED-SENDER-CAP")
           -- an amount the generated send_htlc comparisons admit at the reported minimum must pass the generated direct refusals of the
           -- PEER's update_add_htlc (zero amount, its htlc_minimum_msat, the next HTLC id, a block-height CLTV): `real_send_check_admitted_by_receiver_partial`
           else if sendAmountOk mn mn lim && !RecvAdmit.recvAddPrechecks (RecvAdmit.peerParams c.cons) mn n.nextOutId n.nextOutId 0 then (some s, "MINIMUM-REFUSED-BY-GENERATED-RECEIVER-PRECHECKS")
           else (some s, s!"{a.next_outbound_htlc_limit_msat} {a.next_outbound_htlc_minimum_msat}"))
    | ["release", x], some s => ret
      (match stepG s (.release (x == "a")) with | none => (some s, "disabled") | some s' => (some s', "ok"))
    | ["raa", x], some s => ret
      (match stepG s (.sendRaa (x == "a")) with | none => (some s, "disabled") | some s' => (some s', "ok"))
    | ["recv", y], some s => ret <|
      let q := if y == "a" then s.qba else s.qab
      -- a revoke_and_ack: the rewrites GENERATED from FundedChannel::revoke_and_ack (Model/ChanRaa.lean) must give the node the protocol model's step gives
      let n := if y == "a" then s.a else s.b
      if (match q.head? with | some .raa => n.onRaaG != n.onRaa | _ => false) then (some s, "GENERATED-RAA-DIFFERS") else
      (match stepG s (.recv (y == "a")) with
       | none => (some s, "disabled")
       | some s' => (some s', s!"ok {(q.head?.map msgKind).getD "?"} {if s'.agreed && s'.feeAgreed then "agree" else "DISAGREE"}"))
    | ["fee", x, f], some s => ret
      (match stepG s (.fee (x == "a") (nat! f)) with | none => (some s, "disabled") | some s' => (some s', "ok"))
    | ["disconnect"], some s => ret
      (match stepG s .disconnect with | none => (some s, "disabled") | some s' => (some s', "ok"))
    -- C01: node x is persisted and reloaded (Model/ChanPersist.lean: `Node.written` over the generated writer tables); the peer pauses
    | ["restart", x], some s => ret
      (match stepR s (.restart (x == "a")) with | none => (some s, "disabled") | some s' => (some s', "ok"))
    | ["reest", y], some s => ret
      -- the decisions GENERATED from channel_reestablish (Model/ChanReest.lean) must give what the protocol model's step gives
      (let gen := if y == "a" then s.a.reestablishG s.b.csRecv s.b.raaRecv else s.b.reestablishG s.a.csRecv s.a.raaRecv
       let mdl := if y == "a" then s.a.reestablish s.b.csRecv s.b.raaRecv else s.b.reestablish s.a.csRecv s.a.raaRecv
       if gen != mdl then (some s, "GENERATED-REESTABLISH-DIFFERS") else
       match stepG s (.reest (y == "a")) with | none => (some s, "disabled") | some s' => (some s', "ok"))
    | ["dump", x], some s => ret <|
      let n := if x == "a" then s.a else s.b
      (some s, s!"v={n.valueToSelf} in=[{",".intercalate (n.inb.map (fun h => s!"{h.id}:{h.amt}:{showSt h.st}"))}] out=[{",".intercalate (n.outb.map (fun h => s!"{h.id}:{h.amt}:{showOSt h.st}"))}] awaiting={n.awaitingRaa}")
    -- cooperative close at the current state (C01): both nodes' closing_negotiation_ready, then the whole closing_signed
    -- exchange between the funder and the fundee, each building from its OWN value_to_self_msat
    | ["coopclose", chanSat, dustA, dustB, minA, maxA, minB, maxB], some s => ret <|
      let rdy (n : Node) := Closing.closing_negotiation_ready n.inb n.outb n.pendingFee true
      if !(rdy s.a && rdy s.b) then (some s, "notready") else
      let va : Closing.View := { valueToSelfMsat := s.a.valueToSelf, chanValueSat := nat! chanSat, dust := nat! dustA, isFunder := s.a.isFunder, minFee := nat! minA, maxFee := nat! maxA }
      let vb : Closing.View := { valueToSelfMsat := s.b.valueToSelf, chanValueSat := nat! chanSat, dust := nat! dustB, isFunder := s.b.isFunder, minFee := nat! minB, maxFee := nat! maxB }
      let (f, n) := if s.a.isFunder then (va, vb) else (vb, va)
      let o := Closing.negotiate f n
      let ms := ",".intercalate (o.msgs.map (fun m => s!"{m.fee}:{(m.range.map (fun r => s!"{r.1}:{r.2}")).getD "-"}"))
      let orient (t : Closing.Tx) : Nat × Nat := if s.a.isFunder then t else Closing.flip t    -- (to a, to b)
      let sh (b : Option (Nat × Closing.Tx)) := match b with | none => "-" | some (fee, t) => s!"{fee}/{(orient t).1}/{(orient t).2}"
      let bA := if s.a.isFunder then o.bF else o.bN
      let bB := if s.a.isFunder then o.bN else o.bF
      (some s, s!"msgs={ms} a={sh bA} b={sh bB} err={match o.err with | none => "-" | some .warn => "warn" | some .close => "close"}")
    | ["bal", x], some s => ret <|
      let n := if x == "a" then s.a else s.b
      (some s, s!"{n.valueToSelf}")
    -- C05: the generated guard chain of revoke_and_ack on the real channel's atoms (stateless; Driver/RaaGateOp.lean)
    | ["raag", cp, bits, inb, outb], _ => (st0, raagAnswer cp bits inb outb)
    | ["hgate", sp, lk, sg, pc, cur, closed], _ => (st0, hgateAnswer sp lk sg pc cur closed)
    | _, _ => (st0, "bad-op")

def parseKind (s : String) : MonGate.Kind :=
  if s == "HolderCommitmentTXInfo" || s == "HolderCommitment" then .holderCommitment
  else if s == "CounterpartyCommitmentTXInfo" || s == "CounterpartyCommitment" then .counterpartyCommitment
  else if s == "CommitmentSecret" then .commitmentSecret
  else if s == "PaymentPreimage" then .preimage
  else if s == "ChannelForceClosed" then .forceClosed else .other

def showOut : MonGate.Gate.Out → Option String
  | .handed id _ => some s!"h{id}"
  | .raa => some "raa" | .cs => some "cs" | .ready => some "ready" | .readyResent => some "ready"
  | _ => none

def b01 (b : Bool) : String := if b then "1" else "0"

/-- the gate state in the format of the hook `channel_monitor_gate_dump` (blocked: ids only) + what left since the last dump -/
def showGate (c : MonGate.Gate.Chan) (rel : List MonGate.Gate.Out) : String :=
  let bl := if c.blocked.isEmpty then "-" else ",".intercalate (c.blocked.map toString)
  let hs := rel.filterMap (fun o => match o with | .handed id _ => some (toString id) | _ => none)
  let r := rel.filterMap (fun o => match o with | .handed _ _ => none | o => showOut o)
  s!"paused={b01 c.paused} raa={b01 c.pend.raa} cs={b01 c.pend.cs} rdy={b01 c.pend.ready} adds={c.pend.adds.length} fw={c.pend.fwds.length} fl={c.pend.fails.length} ff={c.pend.fulfills.length} latest={c.latest} blocked={bl} disc={b01 c.disconnected} hand={if hs.isEmpty then "-" else ",".intercalate hs} msgs={if r.isEmpty then "-" else ",".intercalate r}"

structure MgSt where
  mons : List (String × MonGate.St) := []
  gates : List (String × MonGate.Gate.Chan × List MonGate.Gate.Out) := []
  /-- fresh tokens for held items -/
  tok : Nat := 0

/-- `mongate`: one event monitor per key "n<node>c<chan>": ops `upd key id kinds inprogress`, `done key id`, `cs key`, `raa key`;
    one channel-side gate model (Model/MonGate.lean, `Gate`) per key: ops `g* key …` (each = one `Gate.step`) and `gdump key` -/
def mongate : Drv where
  σ := MgSt
  init := {}
  step := fun st ws =>
    let get (k : String) := (st.mons.lookup k).getD MonGate.St.init
    let put (k : String) (v : MonGate.St) := (k, v) :: st.mons.filter (fun p => p.1 != k)
    let go (k : String) (e : MonGate.Ev) : MgSt × String :=
      match MonGate.step (get k) e with
      | none => (st, "violation")
      | some v => ({ st with mons := put k v }, "ok")
    let gput (k : String) (v : MonGate.Gate.Chan × List MonGate.Gate.Out) := (k, v) :: st.gates.filter (fun p => p.1 != k)
    let gop (k : String) (op : MonGate.Gate.Op) (ntok : Nat) : MgSt × String :=
      match st.gates.lookup k with
      | none => (st, "no-gate")
      | some (c, rel) =>
        let r := MonGate.Gate.step c op
        ({ st with gates := gput k (r.1, rel ++ r.2), tok := st.tok + ntok }, "ok")
    let t (s : String) := s == "1"
    match ws with
    | ["upd", k, id, kinds, ip] => go k (.update (nat! id) ((kinds.splitOn ",").map parseKind) (ip == "1"))
    | ["done", k, id] => go k (.done (nat! id))
    | ["cs", k] => go k .releaseCs
    | ["raa", k] => go k .releaseRaa
    | ["ginit", k, latest] => ({ st with gates := gput k (MonGate.Gate.Chan.init (nat! latest), []) }, "ok")
    | ["ginitp", k, latest] =>
      -- a channel whose INITIAL monitor persist is InProgress: paused, the ChainMonitor reports id `latest` pending
      ({ st with gates := gput k ({ MonGate.Gate.Chan.init (nat! latest) with paused := true, cmPending := [nat! latest] }, []) }, "ok")
    | ["gcs", k, nc, ar, ip] => gop k (.csRecv (t nc) (t ar) (t ip)) 0
    | ["graa", k, freed, rc, hold, na, nf, nl, nu, ip] =>
      let b := st.tok
      gop k (.raaRecv (t freed) (t rc) (t hold) (List.range' b (nat! na)) (List.range' (b + nat! na) (nat! nf))
        (List.range' (b + nat! na + nat! nf) (nat! nl)) (List.range' (b + nat! na + nat! nf + nat! nl) (nat! nu)) (t ip)) (nat! na + nat! nf + nat! nl + nat! nu)
    | ["gclaim", k, ub, ip] => gop k (.claim (t ub) (t ip)) 0
    | ["gsend", k, ip] => gop k (.send (t ip)) 0
    | ["gother", k, ip] => gop k (.other (t ip)) 0
    | ["gdone", k, id] => gop k (.complete (nat! id)) 0
    | ["gunblock", k, ip] => gop k (.unblock (t ip)) 0
    | ["gconfirm", k] => gop k .confirm 0
    | ["gdisc", k] => gop k .disconnect 0
    | ["greest", k, nr, ncs, rc] => gop k (.reestablish (t nr) (t ncs) (nat! rc)) 0
    | ["gdump", k] =>
      match st.gates.lookup k with
      | none => (st, "no-gate")
      | some (c, rel) => ({ st with gates := gput k (c, []) }, showGate c rel)
    | _ => (st, "bad-op")

end Ldk.Driver
