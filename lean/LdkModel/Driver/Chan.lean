import LdkModel.Driver.Util
import LdkModel.Model.Channel
import LdkModel.Proofs.Channel.Guarded
import LdkModel.Model.MonGate
import LdkModel.Model.TxBuilder
namespace Ldk.Driver
open Ldk Ldk.Chan

def natsOf (s : String) : List Nat := if s == "-" then [] else (s.splitOn ",").map nat!

def showSt : InState → String
  | .remoteAnnounced => "RemoteAnnounced" | .awaitingRemoteRevokeToAnnounce => "AwaitingRemoteRevokeToAnnounce"
  | .awaitingAnnouncedRemoteRevoke => "AwaitingAnnouncedRemoteRevoke" | .committed => "Committed"
  | .localRemoved f => if f then "LocalRemovedFulfill" else "LocalRemovedFail"
def showOSt : OutState → String
  | .localAnnounced => "LocalAnnounced" | .committed => "Committed" | .remoteRemoved ok => s!"RemoteRemoved{ok}"
  | .awaitingRemoteRevokeToRemove ok => s!"AwaitingRemoteRevokeToRemove{ok}" | .awaitingRemovedRemoteRevoke ok => s!"AwaitingRemovedRemoteRevoke{ok}"

def showCommit (c : Commit) : String :=
  let hs := (sortH c.htlcs).map (fun h => (if h.1 then "o" else "i") ++ toString h.2.1 ++ ":" ++ toString h.2.2)
  s!"bal={c.builderBalance} htlcs={",".intercalate hs}"

def lastCs : List Msg → Option Commit
  | [] => none
  | m :: ms => match lastCs ms with
    | some c => some c
    | none => match m with | .cs c => some c | _ => none

def msgKind : Msg → String
  | .add _ _ => "add" | .fulfill _ => "fulfill" | .fail _ => "fail" | .cs _ => "cs" | .raa => "raa" | .fee _ => "fee"

structure ChanParams where
  feerate : Nat
  dust : Nat
  ty : TxB.ChanType
  funderIsA : Bool
  deriving Inhabited

def insPair (x : Bool × Nat) : List (Bool × Nat) → List (Bool × Nat)
  | [] => [x]
  | y :: ys => if (x.1 == false && y.1 == true) || (x.1 == y.1 && x.2 ≤ y.2) then x :: y :: ys else y :: insPair x ys

/-- the transaction the signer `x` built for its peer, through the commitment-builder model of C01 -/
def showBuilt (p : ChanParams) (total : Nat) (xIsA : Bool) (c : Commit) : String :=
  let htlcs : List TxB.HtlcIn := c.htlcs.map (fun h => { offered := h.1, amount_msat := h.2.2 })
  match TxB.buildCommitment false (xIsA == p.funderIsA) (total / 1000) c.builderBalance htlcs c.feerate p.dust p.ty with
  | none => "panic"
  | some b =>
    let nd := (b.nondust.map (fun h => (h.offered, h.amount_msat))).foldr insPair []
    let nds := if nd.isEmpty then "-" else ",".intercalate (nd.map (fun h => (if h.1 then "o" else "i") ++ toString h.2))
    s!"{b.toBroadcaster} {b.toCountersignatory} {nds}"

/-- `chan`: the two-party protocol monitor. Every op answers `ok …` or `disabled` (not a protocol run). -/
def chan : Drv where
  σ := Option (Sys × ChanParams)
  init := none
  step := fun st0 ws =>
    let st := st0.map (·.1)
    let p := (st0.map (·.2)).getD default
    let ret (r : Option Sys × String) : Option (Sys × ChanParams) × String := (r.1.map (fun s => (s, p)), r.2)
    match ws, st with
    | ["init", va, vb, feerate, dust, ty, funder], _ =>
      let t : TxB.ChanType := if ty == "a" then { anchors := true, zeroFee := false }
        else if ty == "z" then { anchors := false, zeroFee := true } else { anchors := false, zeroFee := false }
      let prm : ChanParams := { feerate := nat! feerate, dust := nat! dust, funderIsA := funder == "a", ty := t }
      let s0 := Sys.init (nat! va) (nat! vb) (nat! feerate)
      let s0 : Sys := if funder == "a" then s0 else { s0 with a := { s0.a with isFunder := false }, b := { s0.b with isFunder := true } }
      (some (s0, prm), "ok")
    | ["commit", x, adds, fu, fa], some s => ret
      (match stepG s (.commit (x == "a") (natsOf adds) (natsOf fu) (natsOf fa)) with
       | none => (some s, "disabled")
       | some s' => (some s', "ok " ++ (match lastCs (if x == "a" then s'.pendA else s'.pendB) with | some c => showBuilt p s'.total (x == "a") c | none => "?")))
    | ["release", x], some s => ret
      (match stepG s (.release (x == "a")) with | none => (some s, "disabled") | some s' => (some s', "ok"))
    | ["raa", x], some s => ret
      (match stepG s (.sendRaa (x == "a")) with | none => (some s, "disabled") | some s' => (some s', "ok"))
    | ["recv", y], some s => ret <|
      let q := if y == "a" then s.qba else s.qab
      (match stepG s (.recv (y == "a")) with
       | none => (some s, "disabled")
       | some s' => (some s', s!"ok {(q.head?.map msgKind).getD "?"} {if s'.agreed && s'.feeAgreed then "agree" else "DISAGREE"}"))
    | ["fee", x, f], some s => ret
      (match stepG s (.fee (x == "a") (nat! f)) with | none => (some s, "disabled") | some s' => (some s', "ok"))
    | ["disconnect"], some s => ret
      (match stepG s .disconnect with | none => (some s, "disabled") | some s' => (some s', "ok"))
    | ["reest", y], some s => ret
      (match stepG s (.reest (y == "a")) with | none => (some s, "disabled") | some s' => (some s', "ok"))
    | ["dump", x], some s => ret <|
      let n := if x == "a" then s.a else s.b
      (some s, s!"v={n.valueToSelf} in=[{",".intercalate (n.inb.map (fun h => s!"{h.id}:{h.amt}:{showSt h.st}"))}] out=[{",".intercalate (n.outb.map (fun h => s!"{h.id}:{h.amt}:{showOSt h.st}"))}] awaiting={n.awaitingRaa}")
    | ["bal", x], some s => ret <|
      let n := if x == "a" then s.a else s.b
      (some s, s!"{n.valueToSelf}")
    | _, _ => (st0, "bad-op")

def parseKind (s : String) : MonGate.Kind :=
  if s == "HolderCommitmentTXInfo" || s == "HolderCommitment" then .holderCommitment
  else if s == "CounterpartyCommitmentTXInfo" || s == "CounterpartyCommitment" then .counterpartyCommitment
  else if s == "CommitmentSecret" then .commitmentSecret
  else if s == "PaymentPreimage" then .preimage
  else if s == "ChannelForceClosed" then .forceClosed else .other

/-- `mongate`: one monitor per key "n<node>c<chan>"; ops `upd key id kinds inprogress`, `done key id`, `cs key`, `raa key` -/
def mongate : Drv where
  σ := List (String × MonGate.St)
  init := []
  step := fun st ws =>
    let get (k : String) := (st.lookup k).getD MonGate.St.init
    let put (k : String) (v : MonGate.St) := (k, v) :: st.filter (fun p => p.1 != k)
    let go (k : String) (e : MonGate.Ev) : List (String × MonGate.St) × String :=
      match MonGate.step (get k) e with
      | none => (st, "violation")
      | some v => (put k v, "ok")
    match ws with
    | ["upd", k, id, kinds, ip] => go k (.update (nat! id) ((kinds.splitOn ",").map parseKind) (ip == "1"))
    | ["done", k, id] => go k (.done (nat! id))
    | ["cs", k] => go k .releaseCs
    | ["raa", k] => go k .releaseRaa
    | _ => (st, "bad-op")

end Ldk.Driver
