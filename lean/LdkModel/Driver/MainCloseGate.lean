import LdkModel.Driver.CloseGate
def main (args : List String) : IO UInt32 := Ldk.Driver.runMain [("closegate", Ldk.Driver.closegate)] args
