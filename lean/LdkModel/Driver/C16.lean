/- C16 model driver.  `c16fees`: the generated fee helpers and the fee recurrence on the op lines the
   harness produced from the real functions.  `c16router`: `routeValid` (proved equivalent to the
   specification `RouteOK`, Props/C16.lean) on every route the real `find_route` returned, the fee
   recurrence re-run on each returned path, and the reference single-path search on router failures.

   ops (c16fees):  fees <amt> <base> <prop>            -> some <n> | none
                   feessat <amt> <base> <prop>         -> <n>
                   maxhtlc <kind> <a> <b> <shift>      -> <n>     kind: exact adv total inf hint unknown
                   recompute <value> <n> (<base> <prop> <min>)*   -> ok <ret> <fee_msat>* | panic
                   maxfinal <pow> <n> (<base> <prop> <max|-> <used>)*  -> ok <idx> <value> | err <idx> | panic
   ops (c16router): route <req> X <k> <scid>* B <k> <idx>* G <n> (<chan>)* R <k> (<nhops> (<scid> <node> <fee> <cltv> <blinded>)*)*
                                                       -> valid|invalid <clause>  recur=eq|ne|skip
                   noroute <req> X <k> <scid>* B <k> <idx>* G <n> (<chan>)*     -> ref=found | ref=none
                   matchscid <alias|-> <scid|-> <hint_scid>   -> 0|1   (generated `matches_an_scid`)
                   sortfh <recommended> U <k> (<scid> <dir> <msat>)* C <n> (<payment scid> <dir> <limit>)*  -> sorted <remaining limit>*
                   select <final> <collected value>*   -> err no-path|insufficient | kept <v>* over <n> out <v>*|panic
     <req>  = <payer> <payee> <amt> <maxfee|-> <maxcltv> <maxpaths> <maxlen> <finalcltv> <hasfirst> <mpp> <satpow> <scorer> <seed>
              (the last four are replay information for the harness, ignored here)
     <chan> = <kind> <scid> - <src> <dst> <enabled> <htlcmin> <htlcmax|-> <cap_msat|-> <base> <prop> <cltv>
              kind: p PublicHop, f FirstHop, h PrivateHop, b Blinded, o OneHopBlinded; htlcmax `-` = none;
              a FirstHop gives the raw ChannelDetails ids instead: f <outbound_scid_alias|-> <short_channel_id|-> …;
              all fields are the RAW data (the generated candidate_* tables decide what the router reads) -/
import LdkModel.Driver.Util
import LdkModel.Model.RouteValid
import LdkModel.Model.RouteSelect
namespace Ldk.Driver
open Ldk Ldk.Router Ldk.RouteFees Ldk.RouteValid Ldk.RouteSelect

def optNat (s : String) : Option Nat := if s == "-" then none else some (nat! s)

def parseFeeHops : Nat → List String → List FeeHop → Option (List FeeHop)
  | 0, [], acc => some acc.reverse
  | n + 1, b :: p :: m :: rest, acc => parseFeeHops n rest ({ base := nat! b, prop := nat! p, htlcMin := nat! m } :: acc)
  | _, _, _ => none

/-- `(<base> <prop> <htlc_max|-> <used>)*`: private-hop candidates (capacity through the generated table) -/
def parseMHops : Nat → List String → List MHop → Option (List MHop)
  | 0, [], acc => some acc.reverse
  | n + 1, b :: p :: mx :: u :: rest, acc =>
    parseMHops n rest ({ base := nat! b, prop := nat! p,
                         cap := candidate_capacity .privateHop .unknown ((optNat mx).getD 0) (mx == "-"), used := nat! u } :: acc)
  | _, _, _ => none

def natsStr (l : List Nat) : String := String.join (l.map fun n => " " ++ toString n)

def c16fees : Drv where
  σ := Unit
  init := ()
  step := fun _ ws =>
    match ws with
    | ["fees", a, b, p] =>
      ((), match compute_fees (nat! a) (nat! b) (nat! p) with
           | some f => "some " ++ toString f
           | none => "none")
    | ["feessat", a, b, p] => ((), toString (compute_fees_saturating (nat! a) (nat! b) (nat! p)))
    | ["maxhtlc", kind, a, b, sh] =>
      let cap : Option EffectiveCapacity :=
        if kind == "exact" then some (.exactLiquidity (nat! a))
        else if kind == "adv" then some (.advertisedMaxHTLC (nat! a))
        else if kind == "total" then some (.total (nat! a) (nat! b))
        else if kind == "inf" then some .infinite
        else if kind == "hint" then some (.hintMaxHTLC (nat! a))
        else if kind == "unknown" then some .unknown
        else none
      ((), match cap with
           | some c => toString (max_htlc_from_capacity c (nat! sh))
           | none => "bad-op")
    | "recompute" :: v :: n :: rest =>
      ((), match parseFeeHops (nat! n) rest [] with
           | none => "bad-op"
           | some hops =>
             match recompute (nat! v) hops with
             | some res => "ok " ++ toString res.ret ++ natsStr res.fees
             | none => "panic")
    | "maxfinal" :: pow :: n :: rest =>
      ((), match parseMHops (nat! n) rest [] with
           | none => "bad-op"
           | some hops =>
             match maxFinalValue (nat! pow) hops with
             | .ok i v => "ok " ++ toString i ++ " " ++ toString v
             | .err i => "err " ++ toString i
             | .panic => "panic")
    | _ => ((), "bad-op")

/-! ### c16router -/

def takeNats : Nat → List String → List Nat → Option (List Nat × List String)
  | 0, ws, acc => some (acc.reverse, ws)
  | n + 1, w :: ws, acc => takeNats n ws (nat! w :: acc)
  | _, _, _ => none

/-- the ChannelDetails record behind an `f` candidate of an op line: ids, current minimum / limit and the counterparty's
    static minimum are on the line; the other (decoy) fields are the harness's pure functions of the limit
    (harness/src/bin/c16.rs `channel_details`: counterparty maximum 3·limit+11, outbound capacity 2·limit+7, channel value
    limit/500+8 sat, inbound capacity 42; u64-saturating there, irrelevant unless a FirstHop arm starts reading them) -/
def detailsOf (alias scid : Option Nat) (mn limit : Nat) (cpMin : Option Nat) : FirstHopDetails :=
  { next_outbound_htlc_minimum_msat := mn, next_outbound_htlc_limit_msat := limit,
    outbound_capacity_msat := Nat.min (limit * 2 + 7) U64_MAX, inbound_capacity_msat := 42, channel_value_satoshis := limit / 500 + 8,
    inbound_htlc_minimum_msat := none, inbound_htlc_maximum_msat := none, is_announced := false,
    short_channel_id := scid, outbound_scid_alias := alias,
    counterparty_outbound_htlc_minimum_msat := cpMin, counterparty_outbound_htlc_maximum_msat := some (Nat.min (limit * 3 + 11) U64_MAX) }

/-- `(<scid> <direction 0|1> <msat>)*` -/
def takeTriples : Nat → List String → List (Nat × Bool × Nat) → Option (List (Nat × Bool × Nat) × List String)
  | 0, ws, acc => some (acc.reverse, ws)
  | n + 1, a :: b :: c :: ws, acc => takeTriples n ws ((nat! a, b == "1", nat! c) :: acc)
  | _, _, _ => none

def parseChans : Nat → List String → List Chan → Option (List Chan × List String)
  | 0, ws, acc => some (acc.reverse, ws)
  | n + 1, k :: s :: alt :: a :: b :: e :: mn :: mx :: cap :: base :: prop :: cltv :: rest, acc =>
    let kind : Option CandidateKind :=
      if k == "p" then some .publicHop else if k == "f" then some .firstHop else if k == "h" then some .privateHop
      else if k == "b" then some .blinded else if k == "o" then some .oneHopBlinded else none
    -- a first hop comes with the raw ChannelDetails: <outbound_scid_alias|-> <short_channel_id|-> … <next minimum> <next limit>
    -- <counterparty static minimum|->; the candidate is what the model's `firstHopChan` (translated FirstHop arms) makes of it
    if k == "f" then
      match firstHopChan (detailsOf (optNat s) (optNat alt) (nat! mn) ((optNat mx).getD 0) (optNat cap)) (nat! a) (nat! b) (e == "1") with
      | some c => parseChans n rest (c :: acc)
      | none => none
    else
    let ids : Option (Nat × Option Nat) := some (nat! s, none)
    match kind, ids with
    | some kind, some (scid, alt) =>
      parseChans n rest ({ scid := scid, src := nat! a, dst := nat! b, enabled := e == "1", htlcMin := nat! mn,
                           htlcMax := (optNat mx).getD 0, cap := optNat cap, base := nat! base, prop := nat! prop,
                           cltv := nat! cltv, kind := kind, alt := alt, unbounded := mx == "-" } :: acc)
    | _, _ => none
  | _, _, _ => none

def parseHops : Nat → List String → List RHop → Option (RPath × List String)
  | 0, ws, acc => some (acc.reverse, ws)
  | n + 1, s :: nd :: f :: c :: b :: rest, acc =>
    parseHops n rest ({ scid := nat! s, node := nat! nd, fee := nat! f, cltv := nat! c, blinded := b == "1" } :: acc)
  | _, _, _ => none

def parsePaths : Nat → List String → List RPath → Option (Route × List String)
  | 0, ws, acc => some (acc.reverse, ws)
  | n + 1, k :: rest, acc =>
    match parseHops (nat! k) rest [] with
    | some (path, rest') => parsePaths n rest' (path :: acc)
    | none => none
  | _, _, _ => none

/-- `<req> X <k> <scid>* B <k> <idx>* G <n> <chan>*` → (params, graph, remaining tokens) -/
def parseReq (ws : List String) : Option (Params × Graph × List String) :=
  match ws with
  | payer :: payee :: amt :: maxfee :: maxcltv :: maxpaths :: maxlen :: finalcltv :: hasfirst :: _mpp :: _sat :: _scorer :: _seed :: "X" :: k :: rest =>
    match takeNats (nat! k) rest [] with
    | some (excl, "B" :: kb :: restb) =>
      match takeNats (nat! kb) restb [] with
      | some (exclB, "G" :: n :: rest') =>
        match parseChans (nat! n) rest' [] with
        | some (g, rest'') =>
          some ({ payer := nat! payer, payee := nat! payee, amount := nat! amt, maxFee := optNat maxfee,
                  maxCltv := nat! maxcltv, maxPaths := nat! maxpaths, maxLen := nat! maxlen,
                  finalCltv := nat! finalcltv, excluded := excl, hasFirst := hasfirst == "1",
                  excludedBlinded := exclB }, g, rest'')
        | none => none
      | _ => none
    | _ => none
  | _ => none

def c16router : Drv where
  σ := Unit
  init := ()
  step := fun _ ws =>
    match ws with
    | "route" :: rest =>
      ((), match parseReq rest with
           | some (p, g, "R" :: k :: rest') =>
             match parsePaths (nat! k) rest' [] with
             | some (r, []) => verdict g p r ++ " recur=" ++ recurrenceVerdict g p r
             | _ => "bad-op"
           | _ => "bad-op")
    | "noroute" :: rest =>
      ((), match parseReq rest with
           | some (p, g, []) => if singlePathExists g p then "ref=found" else "ref=none"
           | _ => "bad-op")
    | ["matchscid", a, s, h] => ((), if matches_an_scid (optNat a) (optNat s) (nat! h) then "1" else "0")
    | "sortfh" :: r :: "U" :: m :: rest =>
      -- C16-r6: sort_first_hop_channels — the remaining limits (translated) in the order of the TRANSLATED comparator
      ((), match takeTriples (nat! m) rest [] with
           | some (used, "C" :: k :: rest') =>
             match takeTriples (nat! k) rest' [] with
             | some (chans, []) => "sorted" ++ natsStr (sortFirstHops (nat! r) used chans)
             | _ => "bad-op"
           | _ => "bad-op")
    | "select" :: f :: vals =>
      -- C16-r6: get_route steps (5)–(7) on collected path values in step (6)'s order (translated statements); the first kept path is reduced
      ((), match selectPaths (nat! f) (vals.map fun v => nat! v) with
           | .error e => "err " ++ e
           | .ok (kept, over) => "kept" ++ natsStr kept ++ " over " ++ toString over ++ " out" ++
               (match reduceFirst kept over with | some out => natsStr out | none => " panic"))
    | ["pubcap", hmax, sats] =>
      -- the TRANSLATED DirectedChannelInfo::effective_capacity and the translated max_htlc_from_capacity at saturation power 0
      let cap := directed_channel_effective_capacity (nat! hmax) (optNat sats)
      ((), (match cap with
            | .total c m => "total " ++ toString c ++ " " ++ toString m
            | .advertisedMaxHTLC a => "adv " ++ toString a
            | _ => "other") ++ " max " ++ toString (max_htlc_from_capacity cap 0))
    | ["firsthop", mn, lim, cpmin, cpmax, outcap, incap, vsat, inmin, inmax, ann, scid, alias] =>
      -- the accessors of the FirstHop candidate of this ChannelDetails, from the TRANSLATED arms
      let d : FirstHopDetails :=
        { next_outbound_htlc_minimum_msat := nat! mn, next_outbound_htlc_limit_msat := nat! lim, outbound_capacity_msat := nat! outcap,
          inbound_capacity_msat := nat! incap, channel_value_satoshis := nat! vsat, inbound_htlc_minimum_msat := optNat inmin,
          inbound_htlc_maximum_msat := optNat inmax, is_announced := ann == "1", short_channel_id := optNat scid,
          outbound_scid_alias := optNat alias, counterparty_outbound_htlc_minimum_msat := optNat cpmin,
          counterparty_outbound_htlc_maximum_msat := optNat cpmax }
      let o := fun (x : Option Nat) => match x with | some n => toString n | none => "-"
      let fees := candidate_fees .firstHop 0 0
      ((), "min " ++ toString (first_hop_htlc_minimum_msat d) ++ " cap " ++
           (match first_hop_effective_capacity d with | .exactLiquidity l => "exact " ++ toString l | _ => "other") ++
           " scid " ++ o (first_hop_short_channel_id d) ++ " gscid " ++ o (first_hop_globally_unique_scid d) ++
           " fees " ++ toString fees.1 ++ " " ++ toString fees.2 ++ " cltv " ++ toString (candidate_cltv_expiry_delta .firstHop 0))
    | _ => ((), "bad-op")

end Ldk.Driver
