import LdkModel.Driver.Util
import LdkModel.Model.Punish
import LdkModel.Model.JusticeChain
import LdkModel.Generated.Package
import LdkModel.Driver.Packages
import LdkModel.Model.ScopeData
namespace Ldk.Driver
open Ldk Ldk.Secrets Ldk.Punish Ldk.Pkg

/-! ### shared by the C06 and C07 drivers: the bump / timer / locktime ops -/

def splitOnChar (s : String) (c : Char) : List String := s.splitOn (String.singleton c)

def strategyOf (s : String) : FeerateStrategy :=
  if s == "0" then .retryPrevious else if s == "1" then .highestOfPreviousOrNew else .forceBump

/-- `ro` | `rh` | `co:<cltv>` | `cr:<cltv>` | `hh:<0|1>:<cltv>` | `hf` -/
def pkgInputOf (s : String) : Option PkgInput :=
  match splitOnChar s ':' with
  | ["ro"] => some .revokedOutput
  | ["rh"] => some .revokedHTLCOutput
  | ["co", c] => some (.counterpartyOfferedHTLCOutput (nat! c))
  | ["cr", c] => some (.counterpartyReceivedHTLCOutput (nat! c))
  | ["hh", p, c] => some (.holderHTLCOutput (p == "1") (nat! c))
  | ["hf"] => some .holderFundingOutput
  | _ => none

def showFee : Option (Nat × Nat) → String
  | none => "none"
  | some (f, r) => s!"{f} {r}"

/-- ops:  bump <weight> <input_amounts> <dust_limit> <previous_feerate> <strategy 0|1|2> <est>
          fee <input_amounts> <weight> <est>
          timer <current_height> <counterparty_spendable_height> <input>…   → `<height_timer> <locktime>` -/
def bumpStep (ws : List String) : String :=
  match ws with
  | ["bump", w, inp, dust, prev, s, est] =>
    showFee (feerateBump (nat! w) (nat! inp) (nat! dust) (nat! prev) (strategyOf s) (nat! est))
  | ["fee", inp, w, est] => showFee (computeFeeFromSpentAmounts (nat! inp) (nat! w) (nat! est))
  | "timer" :: h :: csh :: ins =>
    match ins.mapM pkgInputOf with
    | none => "bad-op"
    | some inputs => s!"{getHeightTimer (nat! h) (nat! csh) inputs} {packageLocktime (nat! h) inputs}"
  | _ => "bad-op"

def c06bump : Drv where
  σ := Unit
  init := ()
  step := fun _ ws => ((), bumpStep ws)

/-- insertion sort of `(tag, a, b)` triples, lexicographic -/
def tripleLe (x y : Nat × Nat × Nat) : Bool :=
  x.1 < y.1 || (x.1 == y.1 && (x.2.1 < y.2.1 || (x.2.1 == y.2.1 && x.2.2 ≤ y.2.2)))
def insertTriple (x : Nat × Nat × Nat) : List (Nat × Nat × Nat) → List (Nat × Nat × Nat)
  | [] => [x]
  | y :: ys => if tripleLe x y then x :: y :: ys else y :: insertTriple x ys
def sortTriples (xs : List (Nat × Nat × Nat)) : List (Nat × Nat × Nat) := xs.foldr insertTriple []

/-! ### c06justice: the monitor of Model/Punish.lean over symbolic secrets (a free term algebra:
    `flip` and `hash` are constructors, so distinct derivations are distinct) with the code's 48 bits -/

inductive SymSecret where
  | zero | seed | flip (b : Nat) (s : SymSecret) | hash (s : SymSecret)
  deriving DecidableEq

def P48sym : Params SymSecret := { B := Ldk.Generated.SECRET_INDEX_BITS, zero := .zero, flip := .flip, H := .hash }

/-- `amt_msat:offered:cltv:idx` (`idx` = `-` for dust) -/
def htlcOf (s : String) : Option Htlc :=
  match splitOnChar s ':' with
  | [a, o, c, i] => some { amtMsat := nat! a, offered := o == "1", cltv := nat! c, outIdx := if i == "-" then none else some (nat! i) }
  | _ => none

/-- `sat:K` with `K` ∈ L (to_local) H (htlc) R (to_remote) A (anchor) -/
def outOf (s : String) : Option (Nat × OutKind) :=
  match splitOnChar s ':' with
  | [v, "L"] => some (nat! v, .toLocal)
  | [v, "H"] => some (nat! v, .htlc)
  | [v, "R"] => some (nat! v, .toRemote)
  | [v, "A"] => some (nat! v, .anchor)
  | _ => none

def listOf {α : Type} (f : String → Option α) (s : String) : Option (List α) :=
  if s == "-" then some [] else (splitOnChar s ',').mapM f

def showOutpoints (os : List Outpoint) : String :=
  let ts := sortTriples (os.map fun o => match o with | .commit v => (0, 0, v) | .second k v => (1, k, v))
  if ts.isEmpty then "-" else
  " ".intercalate (ts.map fun t => if t.1 == 0 then s!"c{t.2.2}" else s!"s{t.2.1}:{t.2.2}")

/-- `c<vout>` | `s<k>:<vout>` -/
def outpointOf (s : String) : Option Outpoint :=
  if s.startsWith "c" then some (.commit (nat! ((s.drop 1).toString)))
  else if s.startsWith "s" then
    match splitOnChar ((s.drop 1).toString) ':' with
    | [k, v] => some (.second (nat! k) (nat! v))
    | _ => none
  else none

/-- `C` | `S<k>` | `J<outpoint>+<outpoint>…` -/
def btxOf (s : String) : Option Justice.BTx :=
  if s == "C" then some .commit
  else if s.startsWith "S" then some (.second (nat! ((s.drop 1).toString)))
  else if s.startsWith "J" then ((splitOnChar ((s.drop 1).toString) '+').mapM outpointOf).map .justice
  else none

def outpointKey : Outpoint → Nat × Nat × Nat
  | .commit v => (0, 0, v)
  | .second k v => (1, k, v)

/-- `claimable_outpoints` as `outpoint@creation_height …`, sorted by outpoint -/
def showClaims (W : Justice.World) (st : Justice.St) : String :=
  let es := W.allOutpoints.filterMap fun X => (st.claim X).map fun c => (outpointKey X, c.created)
  let keys := sortTriples (es.map (·.1))
  if keys.isEmpty then "-" else
  " ".intercalate (keys.map fun t =>
    let name := if t.1 == 0 then s!"c{t.2.2}" else s!"s{t.2.1}:{t.2.2}"
    match es.find? (fun e => e.1 == t) with
    | some e => s!"{name}@{e.2}"
    | none => name)

structure JusticeState where
  mon : Mon SymSecret
  chain : Option (Justice.World × Justice.St)

/-- ops:  reset
          commit <n> <htlc,…|->                  (provide_latest_counterparty_commitment_tx)
          secret <n>                             (provide_secret with the sender's secret of n)
          confirm <n> <out,…> <v+v,…|->          (the cheater's tx of number n confirms, then the listed
                                                  second-stage txs) → claimed outpoints, sorted
          data <n>                               → the HTLC list still stored for n
          chain <tip> <n> <out,…> <i+i,…|->      start the chain model of Model/JusticeChain.lean at height <tip> for the
                                                  revoked commitment n; the last argument lists EVERY second-stage
                                                  transaction the cheater holds, input by input (the commitment output
                                                  the input spends, `x` for any other input)
          conn <tx,…|->                          a block is connected (`C`, `S<k>`, `J<outpoint>+…`) → `claimable_outpoints`
          disc <newTip>                          blocks above <newTip> are disconnected → `claimable_outpoints`
          rebc | reload                          → `claimable_outpoints` -/
def c06justice : Drv where
  σ := JusticeState
  init := { mon := Mon.new P48sym, chain := none }
  step := fun s ws =>
    let P := P48sym
    let m := s.mon
    let chainStep (op : Justice.Op) : JusticeState × String :=
      match s.chain with
      | none => (s, "no-chain")
      | some (W, st) =>
        match Justice.step W st op with
        | some (st', _) => ({ s with chain := some (W, st') }, showClaims W st')
        | none => (s, "rejected")
    match ws with
    | ["reset"] => ({ mon := Mon.new P, chain := none }, "ok")
    | ["commit", n, hs] =>
      match listOf htlcOf hs with
      | some htlcs => ({ s with mon := provideCommitment m (nat! n) htlcs }, "ok")
      | none => (s, "bad-op")
    | ["secret", n] =>
      match provideSecret P m (nat! n) (secretOf P .seed (nat! n)) with
      | some m' => ({ s with mon := m' }, "ok")
      | none => (s, "err")
    | ["confirm", n, outs, second] =>
      match listOf outOf outs, listOf (fun t => some ((splitOnChar t '+').map nat!)) second with
      | some os, some sec =>
        let b : Body := { outputs := os, htlcs := [] }
        (s, showOutpoints (punish P m (nat! n) (b.tx (secretOf P .seed (nat! n))) sec))
      | _, _ => (s, "bad-op")
    | ["data", n] =>
      match m.claimable.get (nat! n) with
      | none => (s, "none")
      | some d => (s, if d.isEmpty then "-" else ",".intercalate (d.map fun (h, _) =>
          s!"{h.amtMsat}:{if h.offered then 1 else 0}:{h.cltv}:{match h.outIdx with | some i => toString i | none => "-"}"))
    | ["chain", tip, n, outs, second] =>
      match listOf outOf outs, listOf (fun t => some ((splitOnChar t '+').map fun i => if i == "x" then none else some (nat! i))) second with
      | some os, some sec =>
        let b : Body := { outputs := os, htlcs := [] }
        let W := Justice.World.ofMonitor P m (nat! n) (b.tx (secretOf P .seed (nat! n))) sec Ldk.BREAKDOWN_TIMEOUT
        ({ s with chain := some (W, Justice.St.init (nat! tip)) }, showOutpoints W.allOutpoints)
      | _, _ => (s, "bad-op")
    | ["conn", txs] =>
      match listOf btxOf txs with
      | some ts => chainStep (.connect ts)
      | none => (s, "bad-op")
    | ["disc", n] => chainStep (.disconnect (nat! n))
    | ["rebc"] => chainStep .rebroadcast
    | ["reload"] => chainStep .reload
    | _ => (s, (PkgOps.pkgStep ws).getD "bad-op")     -- the package-layer ops (Driver/Packages.lean)

/-! ### c06scope: the per-FundingScope commitment data of Model/ScopeData.lean (pending splices) -/

/-- `funding/txid/htlc,…|-[/commitment number/per-commitment point id/feerate]` -/
def ctxOf (s : String) : Option ScopeData.CTx :=
  match splitOnChar s '/' with
  | [f, t, hs] => (listOf htlcOf hs).map fun l => { funding := nat! f, txid := nat! t, htlcs := l }
  | [f, t, hs, n, p, fr] => (listOf htlcOf hs).map fun l =>
      { funding := nat! f, txid := nat! t, htlcs := l, num := nat! n, point := nat! p, feerate := nat! fr }
  | _ => none

def showHtlcs (l : List Htlc) : String :=
  if l.isEmpty then "-" else ",".intercalate (l.map fun h =>
    s!"{h.amtMsat}:{if h.offered then 1 else 0}:{h.cltv}:{match h.outIdx with | some i => toString i | none => "-"}")

def insertByKey (x : Nat × List Htlc) : List (Nat × List Htlc) → List (Nat × List Htlc)
  | [] => [x]
  | y :: ys => if x.1 ≤ y.1 then x :: y :: ys else y :: insertByKey x ys

/-- `F<funding>[<txid>=<htlcs>;…] …`, the locked scope first, entries sorted by txid -/
def showScopes (m : ScopeData.Mon) : String :=
  " ".intercalate (m.scopes.map fun s =>
    s!"F{s.funding}[{";".intercalate ((s.claimable.foldr insertByKey []).map fun e => s!"{e.1}={showHtlcs e.2}")}]")

/-- ops:  sreset <funding>                      a fresh monitor
          scommit <funding/txid/htlcs> …        update_counterparty_commitment_data (one transaction per scope)
          sreneg <funding/txid/htlcs>           renegotiated_funding
          spromote <funding>                    promote_funding                                  → `ok` | `err`
          sverify <funding/txid/htlcs/n/p/f> …  verify_matching_commitment_transactions (state unchanged) → `ok` | `err <message>`
          sdump                                 → every scope's stored lists
          sconfirm <funding> <txid> <sat,…>     → output indices of the HTLC claims when that commitment confirms -/
def c06scope : Drv where
  σ := ScopeData.Mon
  init := ScopeData.Mon.init 0
  step := fun m ws =>
    let app (r : Option ScopeData.Mon) : ScopeData.Mon × String := match r with | some m' => (m', "ok") | none => (m, "err")
    match ws with
    | ["reset"] => (ScopeData.Mon.init 0, "ok")
    | ["sreset", f] => (ScopeData.Mon.init (nat! f), "ok")
    | "scommit" :: txs =>
      match txs.mapM ctxOf with
      | some ts => app (ScopeData.step m (.commit ts))
      | none => (m, "bad-op")
    | ["sreneg", t] =>
      match ctxOf t with
      | some alt => app (ScopeData.step m (.reneg alt))
      | none => (m, "bad-op")
    | ["spromote", f] => app (ScopeData.step m (.promote (nat! f)))
    | "sverify" :: txs =>
      match txs.mapM ctxOf with
      | some ts => (m, match ScopeData.verifyMatching m ts with | none => "ok" | some e => "err " ++ e.replace " " "_")
      | none => (m, "bad-op")
    | ["sdump"] => (m, showScopes m)
    | ["sconfirm", f, t, outs] =>
      let tx : List (TxOut Unit) := (splitOnChar outs ',').map fun v => { sat := nat! v, spk := .htlc }
      let vs := (ScopeData.htlcClaimsOn m (nat! f) (nat! t) tx).filterMap fun o => match o with | .commit v => some v | _ => none
      (m, if vs.isEmpty then "-" else ",".intercalate ((sortTriples (vs.map fun v => (0, 0, v))).map fun t => toString t.2.2))
    | _ => (m, "bad-op")

end Ldk.Driver
