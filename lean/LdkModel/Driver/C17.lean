/- C17 driver: replays the harness's op lines on the gossip model (Model/Gossip.lean).
   ops (all integers decimal; booleans 0/1):
     reset
     ca <scid> <n1> <n2> <sameBtc> <chainOk> <verify> <sN1> <sN2> <sB1> <sB2> <utxo: n | u | v<sats>> <now>
     cp <scid> <cap | -> <recv> <n1> <n2>
     cu <scid> <dir> <disabled> <ts> <cltv> <min> <max> <base> <prop> <chainOk> <dontFwd> <verify> <signer>
     na <node> <ts> <payload> <verify> <sigOk>
     fc <scid> <now>      fn <id> <now>      pr <t>
     rgs <latestSeen> <now | -> <dCltv> <dMin> <dBase> <dProp> <dMax>
         N <k> (<node> <flag>)^k  A <k> (<scid> <cap | -> <n1> <n2>)^k  U <k> (<scid> <flags> <cltv> <min> <base> <prop> <max>)^k
                          a rapid-gossip-sync snapshot (RapidGossipSync::update_network_graph_no_std)
     dump                 dumpp   (persisted part only: no tombstones)
   asynchronous UTXO lookups (Model/GossipAsync.lean; every op above passes the pending-lookup layer first):
     ca … <utxo: a<fid>> <now>   the lookup answers UtxoResult::Async with the fresh future <fid>
     rs <fid> <u | v<sats>>      UtxoFuture::resolve
     pc <now>                    check_resolved_futures; answer = the queued broadcasts of accepted signed replays
     tm                          too_many_checks_pending
   The model run is `Gossip.Impl` (every decision = generated code), see Model/Gossip.lean. -/
import LdkModel.Driver.Util
import LdkModel.Model.GossipAsync
namespace Ldk.Driver
open Ldk Ldk.Gossip
open Ldk.Gossip.Impl (RgsNode RgsAnn RgsUpd)

def c17ShowOutcome : Outcome → String
  | .accept => "ok"
  | .reject r => "err " ++ r.name ++ " " ++ r.action
  | .done => "done"

def c17B (b : Bool) : String := if b then "1" else "0"
def c17Opt (o : Option Nat) : String := match o with | some v => toString v | none => "-"

def c17Dir : Option UpdInfo → String
  | none => "-"
  | some u => s!"{u.lastUpdate}/{c17B u.enabled}/{u.cltv}/{u.htlcMin}/{u.htlcMax}/{u.feeBase}/{u.feeProp}/{c17B u.hasMsg}"

def c17Chan (p : Nat × ChanInfo) : String :=
  let c := p.2
  s!"{p.1}:{c.node1}:{c.node2}:{c17Opt c.capacity}:{c.recvTime}:{c17B c.hasMsg}:{c17Dir c.d12}:{c17Dir c.d21}"

def c17Node (p : Nat × NodeInfo) : String :=
  let ann := match p.2.ann with
    | none => "-"
    | some a => s!"{a.lastUpdate}/{a.payload}/{c17B a.relayed}"
  s!"{p.1}:[{",".intercalate (p.2.channels.keys.map toString)}]:{ann}"

def c17Dump (g : Graph) (tomb : Bool) : String :=
  let cs := " ".intercalate (g.channels.l.map c17Chan)
  let ns := " ".intercalate (g.nodes.l.map c17Node)
  let base := s!"C {cs} | N {ns}"
  if tomb then
    let rc := " ".intercalate (g.removedChannels.l.map (fun p => s!"{p.1}@{p.2}"))
    let rn := " ".intercalate (g.removedNodes.l.map (fun p => s!"{p.1}@{p.2}"))
    s!"{base} | RC {rc} | RN {rn}"
  else base

def c17Utxo (s : String) : Utxo :=
  if s == "n" then .noLookup else if s == "u" then .unknownTx else .value (nat! (s.drop 1).toString)

def c17b (s : String) : Bool := s == "1"

def c17Parse : List String → Option Op
  | ["ca", scid, n1, n2, sb, ch, vf, s1, s2, s3, s4, ux, now] =>
    some (.msg (.chanAnn { scid := nat! scid, n1 := nat! n1, n2 := nat! n2, sameBtc := c17b sb, chainOk := c17b ch, verify := c17b vf, sigN1 := c17b s1, sigN2 := c17b s2, sigB1 := c17b s3, sigB2 := c17b s4, utxo := c17Utxo ux, now := nat! now }))
  | ["cp", scid, cap, recv, n1, n2] =>
    some (.chanPartial (nat! scid) (if cap == "-" then none else some (nat! cap)) (nat! recv) (nat! n1) (nat! n2))
  | ["cu", scid, dir, dis, ts, cltv, mn, mx, fb, fp, ch, df, vf, signer] =>
    some (.msg (.chanUpd { scid := nat! scid, dir := c17b dir, disabled := c17b dis, ts := nat! ts, cltv := nat! cltv, htlcMin := nat! mn, htlcMax := nat! mx, feeBase := nat! fb, feeProp := nat! fp, chainOk := c17b ch, dontForward := c17b df, verify := c17b vf, signer := nat! signer }))
  | ["na", node, ts, pl, vf, so] =>
    some (.msg (.nodeAnn { node := nat! node, ts := nat! ts, payload := nat! pl, verify := c17b vf, sigOk := c17b so }))
  | ["fc", scid, now] => some (.failPermanent (nat! scid) (nat! now))
  | ["fn", id, now] => some (.nodeFailPermanent (nat! id) (nat! now))
  | ["pr", t] => some (.pruneAt (nat! t))
  | _ => none

def c17Nodes : Nat → List String → Option (List RgsNode × List String)
  | 0, r => some ([], r)
  | k + 1, n :: f :: r => (c17Nodes k r).map (fun p => (⟨nat! n, nat! f⟩ :: p.1, p.2))
  | _, _ => none
def c17Anns : Nat → List String → Option (List RgsAnn × List String)
  | 0, r => some ([], r)
  | k + 1, s :: c :: a :: b :: r =>
    (c17Anns k r).map (fun p => (⟨nat! s, if c == "-" then none else some (nat! c), nat! a, nat! b⟩ :: p.1, p.2))
  | _, _ => none
def c17Upds : Nat → List String → Option (List RgsUpd × List String)
  | 0, r => some ([], r)
  | k + 1, s :: f :: c :: mn :: fb :: fp :: mx :: r =>
    (c17Upds k r).map (fun p => (⟨nat! s, nat! f, nat! c, nat! mn, nat! fb, nat! fp, nat! mx⟩ :: p.1, p.2))
  | _, _ => none

def c17Snapshot : List String → Option Impl.Snapshot
  | latest :: now :: dc :: dm :: db :: dp :: dx :: "N" :: k :: r =>
    match c17Nodes (nat! k) r with
    | some (ns, "A" :: k2 :: r2) =>
      match c17Anns (nat! k2) r2 with
      | some (as, "U" :: k3 :: r3) =>
        match c17Upds (nat! k3) r3 with
        | some (us, []) =>
          some { latestSeen := nat! latest, now := if now == "-" then none else some (nat! now), nodes := ns, anns := as,
                 dCltv := nat! dc, dMin := nat! dm, dBase := nat! db, dProp := nat! dp, dMax := nat! dx, upds := us }
        | _ => none
      | _ => none
    | _ => none
  | _ => none

def c17Event : Msg → String
  | .chanAnn a => s!"A{a.scid}"
  | .nodeAnn n => s!"N{n.node}/{n.ts}"
  | .chanUpd u => s!"U{u.scid}/{c17B u.dir}/{u.ts}"

/-- a `ca` line whose utxo token is `a<fid>` -/
def c17ParseAsync : List String → Option (ChanAnn × Nat)
  | ["ca", scid, n1, n2, sb, ch, vf, s1, s2, s3, s4, ux, now] =>
    if ux.startsWith "a" then
      some ({ scid := nat! scid, n1 := nat! n1, n2 := nat! n2, sameBtc := c17b sb, chainOk := c17b ch, verify := c17b vf, sigN1 := c17b s1, sigN2 := c17b s2, sigB1 := c17b s3, sigB2 := c17b s4, utxo := .unknownTx, now := nat! now },
            nat! (ux.drop 1).toString)
    else none
  | _ => none

def c17 : Drv where
  σ := Async.State
  init := Async.State.empty
  step := fun st ws =>
    match ws with
    | ["reset"] => (Async.State.empty, "-")
    | ["dump"] => (st, c17Dump st.g true)
    | ["dumpp"] => (st, c17Dump st.g false)
    | ["tm"] => (st, c17B (Async.tooMany st))
    | ["rs", fid, ux] => ((Async.step st (.resolve (nat! fid) (c17Utxo ux))).1, "done")
    | ["pc", now] =>
      let r := Async.process st (nat! now)
      ((Async.step st (.process (nat! now))).1, " ".intercalate ("done" :: r.2.map c17Event))
    | "rgs" :: rest =>
      match c17Snapshot rest with
      | some s => let r := Impl.applySnapshot st.g s; ({ st with g := r.1 }, c17ShowOutcome r.2)
      | none => (st, "bad-op")
    | _ =>
      match c17ParseAsync ws with
      | some (a, fid) => let r := Async.step st (.annAsync a fid); (r.1, c17ShowOutcome r.2)
      | none =>
        match c17Parse ws with
        | some op => let r := Async.step st (.base op); (r.1, c17ShowOutcome r.2)
        | none => (st, "bad-op")

end Ldk.Driver
