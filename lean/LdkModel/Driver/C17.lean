/- C17 driver: replays the harness's op lines on the gossip model (Model/Gossip.lean).
   ops (all integers decimal; booleans 0/1):
     reset
     ca <scid> <n1> <n2> <sameBtc> <chainOk> <verify> <sN1> <sN2> <sB1> <sB2> <utxo: n | u | v<sats>> <now>
     cp <scid> <cap | -> <recv> <n1> <n2>
     cu <scid> <dir> <disabled> <ts> <cltv> <min> <max> <base> <prop> <chainOk> <dontFwd> <verify> <signer>
     na <node> <ts> <payload> <verify> <sigOk>
     fc <scid> <now>      fn <id> <now>      pr <t>      tc / tn = non-permanent failures
     rl ca|cu <excess> / rl na <excess> <excessAddr>   relay expression of handle_*   gc <start> / gn <start|->   get_next_*
     rgs <latestSeen> <now | -> <dCltv> <dMin> <dBase> <dProp> <dMax>
         N <k> (<node> <flag>)^k  A <k> (<scid> <cap | -> <n1> <n2>)^k  U <k> (<scid> <flags> <cltv> <min> <base> <prop> <max>)^k
                          a rapid-gossip-sync snapshot (RapidGossipSync::update_network_graph_no_std)
     dump                 dumpp   (persisted part only: no tombstones)
   asynchronous UTXO lookups (Model/GossipAsync.lean; every op above passes the pending-lookup layer first):
     ca … <utxo: a<fid>> <now>   the lookup answers UtxoResult::Async with the fresh future <fid>
     rs <fid> <u | v<sats>>      UtxoFuture::resolve
     pc <now>                    check_resolved_futures; answer = the queued broadcasts of accepted signed replays
     tm                          too_many_checks_pending
     unordered                   from here to the next `reset` the dumps print each node's channel list sorted (phases with
                                 asynchronous lookups); otherwise in ARRIVAL order (Model/GossipOrder.lean)
     restart                     NetworkGraph::read(NetworkGraph::write(g)) (Model/GossipPersist.lean): the graph without
                                 tombstones and without pending lookups, or `err InvalidValue`
   The model run is `Gossip.Impl` (every decision = generated code), see Model/Gossip.lean. -/
import LdkModel.Driver.Util
import LdkModel.Model.GossipAsync
import LdkModel.Model.GossipPersist
import LdkModel.Model.GossipOrder
import LdkModel.Model.GossipRelay
namespace Ldk.Driver
open Ldk Ldk.Gossip
open Ldk.Gossip.Impl (RgsNode RgsAnn RgsUpd)

def c17ShowOutcome : Outcome → String
  | .accept => "ok"
  | .reject r => "err " ++ r.name ++ " " ++ r.action
  | .done => "done"

def c17B (b : Bool) : String := if b then "1" else "0"
def c17Opt (o : Option Nat) : String := match o with | some v => toString v | none => "-"

def c17Dir : Option UpdInfo → String
  | none => "-"
  | some u => s!"{u.lastUpdate}/{c17B u.enabled}/{u.cltv}/{u.htlcMin}/{u.htlcMax}/{u.feeBase}/{u.feeProp}/{c17B u.hasMsg}"

def c17Chan (p : Nat × ChanInfo) : String :=
  let c := p.2
  s!"{p.1}:{c.node1}:{c.node2}:{c17Opt c.capacity}:{c.recvTime}:{c17B c.hasMsg}:{c17Dir c.d12}:{c17Dir c.d21}"

def c17Node (o : Option Order.OMap) (p : Nat × NodeInfo) : String :=
  let ann := match p.2.ann with
    | none => "-"
    | some a => s!"{a.lastUpdate}/{a.payload}/{c17B a.relayed}"
  let chans := match o with
    | some om => (om.get p.1).getD []
    | none => p.2.channels.keys
  s!"{p.1}:[{",".intercalate (chans.map toString)}]:{ann}"

def c17Dump (g : Graph) (o : Option Order.OMap) (tomb : Bool) : String :=
  let cs := " ".intercalate (g.channels.l.map c17Chan)
  let ns := " ".intercalate (g.nodes.l.map (c17Node o))
  let base := s!"C {cs} | N {ns}"
  if tomb then
    let rc := " ".intercalate (g.removedChannels.l.map (fun p => s!"{p.1}@{p.2}"))
    let rn := " ".intercalate (g.removedNodes.l.map (fun p => s!"{p.1}@{p.2}"))
    s!"{base} | RC {rc} | RN {rn}"
  else base

/-- `w<sats>` = the lookup answers a TxOut of <sats> paying to ANOTHER script (script identities: 1 = the one the
    lookup returned, 0 = the expected 2-of-2 of the announced bitcoin keys); `v<sats>` = paying to the expected one -/
def c17Utxo (s : String) : Utxo :=
  if s == "n" then .noLookup else if s == "u" then .unknownTx
  else if s.startsWith "w" then Impl.utxoOfTxOut (nat! (s.drop 1).toString) 1 0
  else Impl.utxoOfTxOut (nat! (s.drop 1).toString) 0 0

/-- a `ca` line whose lookup answered a TxOut with another script: the library's refusal carries its own text -/
def c17WrongScript : List String → Bool
  | ["ca", _, _, _, _, _, _, _, _, _, _, ux, _] => ux.startsWith "w"
  | _ => false
def c17Answer (ws : List String) (op : Op) (o : Outcome) : String :=
  let out := c17ShowOutcome o
  -- the signed handlers of P2PGossipSync answer Ok(relay): `ok` = forward to peers, `ok-norelay` = accepted, not forwarded
  -- (the op lines carry no excess data: the relay expressions are evaluated at length 0 here, at other lengths by `rl`)
  let out := match op, o with
    | .msg m, .accept => if Impl.msgVerify m && !Impl.relayExpr m Impl.noExcess Impl.noExcess then "ok-norelay" else out
    | _, _ => out
  if c17WrongScript ws then out.replace "UtxoUnknownTx" "UtxoScriptMismatch" else out

def c17b (s : String) : Bool := s == "1"

def c17Parse : List String → Option Op
  | ["ca", scid, n1, n2, sb, ch, vf, s1, s2, s3, s4, ux, now] =>
    some (.msg (.chanAnn { scid := nat! scid, n1 := nat! n1, n2 := nat! n2, sameBtc := c17b sb, chainOk := c17b ch, verify := c17b vf, sigN1 := c17b s1, sigN2 := c17b s2, sigB1 := c17b s3, sigB2 := c17b s4, utxo := c17Utxo ux, now := nat! now }))
  | ["cp", scid, cap, recv, n1, n2] =>
    some (.chanPartial (nat! scid) (if cap == "-" then none else some (nat! cap)) (nat! recv) (nat! n1) (nat! n2))
  | ["cu", scid, dir, dis, ts, cltv, mn, mx, fb, fp, ch, df, vf, signer] =>
    some (.msg (.chanUpd { scid := nat! scid, dir := c17b dir, disabled := c17b dis, ts := nat! ts, cltv := nat! cltv, htlcMin := nat! mn, htlcMax := nat! mx, feeBase := nat! fb, feeProp := nat! fp, chainOk := c17b ch, dontForward := c17b df, verify := c17b vf, signer := nat! signer }))
  | ["na", node, ts, pl, vf, so] =>
    some (.msg (.nodeAnn { node := nat! node, ts := nat! ts, payload := nat! pl, verify := c17b vf, sigOk := c17b so }))
  | ["pr", t] => some (.pruneAt (nat! t))
  | _ => none

def c17Nodes : Nat → List String → Option (List RgsNode × List String)
  | 0, r => some ([], r)
  | k + 1, n :: f :: r => (c17Nodes k r).map (fun p => (⟨nat! n, nat! f⟩ :: p.1, p.2))
  | _, _ => none
def c17Anns : Nat → List String → Option (List RgsAnn × List String)
  | 0, r => some ([], r)
  | k + 1, s :: c :: a :: b :: r =>
    (c17Anns k r).map (fun p => (⟨nat! s, if c == "-" then none else some (nat! c), nat! a, nat! b⟩ :: p.1, p.2))
  | _, _ => none
def c17Upds : Nat → List String → Option (List RgsUpd × List String)
  | 0, r => some ([], r)
  | k + 1, s :: f :: c :: mn :: fb :: fp :: mx :: r =>
    (c17Upds k r).map (fun p => (⟨nat! s, nat! f, nat! c, nat! mn, nat! fb, nat! fp, nat! mx⟩ :: p.1, p.2))
  | _, _ => none

def c17Snapshot : List String → Option Impl.Snapshot
  | latest :: now :: dc :: dm :: db :: dp :: dx :: "N" :: k :: r =>
    match c17Nodes (nat! k) r with
    | some (ns, "A" :: k2 :: r2) =>
      match c17Anns (nat! k2) r2 with
      | some (as, "U" :: k3 :: r3) =>
        match c17Upds (nat! k3) r3 with
        | some (us, []) =>
          some { latestSeen := nat! latest, now := if now == "-" then none else some (nat! now), nodes := ns, anns := as,
                 dCltv := nat! dc, dMin := nat! dm, dBase := nat! db, dProp := nat! dp, dMax := nat! dx, upds := us }
        | _ => none
      | _ => none
    | _ => none
  | _ => none

def c17Event : Msg → String
  | .chanAnn a => s!"A{a.scid}"
  | .nodeAnn n => s!"N{n.node}/{n.ts}"
  | .chanUpd u => s!"U{u.scid}/{c17B u.dir}/{u.ts}"

/-- a `ca` line whose utxo token is `a<fid>` -/
def c17ParseAsync : List String → Option (ChanAnn × Nat)
  | ["ca", scid, n1, n2, sb, ch, vf, s1, s2, s3, s4, ux, now] =>
    if ux.startsWith "a" then
      some ({ scid := nat! scid, n1 := nat! n1, n2 := nat! n2, sameBtc := c17b sb, chainOk := c17b ch, verify := c17b vf, sigN1 := c17b s1, sigN2 := c17b s2, sigB1 := c17b s3, sigB2 := c17b s4, utxo := .unknownTx, now := nat! now },
            nat! (ux.drop 1).toString)
    else none
  | _ => none

structure C17St where
  a : Async.State
  /-- arrival order of each node's channels (maintained while `ordered`) -/
  o : Order.OMap
  ordered : Bool

def C17St.init : C17St := ⟨Async.State.empty, SMap.empty, true⟩
def C17St.ord (st : C17St) : Option Order.OMap := if st.ordered then some st.o else none
/-- install the new async state, updating the arrival orders (`moved` = a replaced SCID) -/
def C17St.next (st : C17St) (a' : Async.State) (moved : Option Nat) : C17St :=
  { st with a := a', o := Order.after st.o moved a'.g }

def c17 : Drv where
  σ := C17St
  init := C17St.init
  step := fun st ws =>
    match ws with
    | ["reset"] => (C17St.init, "-")
    | ["unordered"] => ({ st with ordered := false }, "-")
    | ["dump"] => (st, c17Dump st.a.g st.ord true)
    | ["dumpp"] => (st, c17Dump st.a.g st.ord false)
    | ["tm"] => (st, c17B (Async.tooMany st.a))
    | ["restart"] =>
      match Persist.restart st.a.g with
      | some g' => ({ st with a := ⟨g', [], []⟩ }, "ok")
      | none => (st, "err InvalidValue")
    | ["rs", fid, ux] => (st.next (Async.step st.a (.resolve (nat! fid) (c17Utxo ux))).1 none, "done")
    | ["pc", now] =>
      let r := Async.process st.a (nat! now)
      (st.next (Async.step st.a (.process (nat! now))).1 none, " ".intercalate ("done" :: r.2.map c17Event))
    | "rgs" :: rest =>
      match c17Snapshot rest with
      | some s => let r := Impl.applySnapshot st.a.g s; (st.next { st.a with g := r.1 } none, c17ShowOutcome r.2)
      | none => (st, "bad-op")
    | ["rl", "ca", e] => (st, c17B (Impl.relayOfKind .chanAnn (nat! e) 0))
    | ["rl", "cu", e] => (st, c17B (Impl.relayOfKind .chanUpd (nat! e) 0))
    | ["rl", "na", e, ea] => (st, c17B (Impl.relayOfKind .nodeAnn (nat! e) (nat! ea)))
    | ["gc", start] =>
      match Impl.nextChanAnn st.a.g (nat! start) with
      | some (k, c) => (st, s!"{k} {c17B (Impl.servedUpdates c).1} {c17B (Impl.servedUpdates c).2}")
      | none => (st, "none")
    | ["gn", start] =>
      match Impl.nextNodeAnn st.a.g (if start == "-" then none else some (nat! start)) with
      | some (k, _) => (st, s!"{k}")
      | none => (st, "none")
    | [k, x, now] =>
      -- fc / fn = permanent, tc / tn = non-permanent payment failure through handle_network_update
      let u : Option Impl.NetUpd :=
        if k == "fc" then some (.channelFailure (nat! x) true) else if k == "tc" then some (.channelFailure (nat! x) false)
        else if k == "fn" then some (.nodeFailure (nat! x) true) else if k == "tn" then some (.nodeFailure (nat! x) false) else none
      match u with
      | none => (st, "bad-op")
      | some u =>
        match Impl.netUpdateOp u (nat! now) with
        | some op => let r := Async.step st.a (.base op); (st.next r.1 (Order.movedScid st.a.g op r.2), c17ShowOutcome r.2)
        | none => (st, "done")
    | _ =>
      match c17ParseAsync ws with
      | some (a, fid) => let r := Async.step st.a (.annAsync a fid); (st.next r.1 none, c17ShowOutcome r.2)
      | none =>
        match c17Parse ws with
        | some op =>
          let r := Async.step st.a (.base op)
          (st.next r.1 (Order.movedScid st.a.g op r.2), c17Answer ws op r.2)
        | none => (st, "bad-op")

end Ldk.Driver
