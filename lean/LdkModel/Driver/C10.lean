import LdkModel.Driver.Util
import LdkModel.Model.Restart
import LdkModel.Model.Reconstruct
import LdkModel.Model.EventReplay
import LdkModel.Model.InterceptRegen
namespace Ldk.Driver
open Ldk.Restart

def csv (l : List Nat) : String := if l.isEmpty then "-" else ",".intercalate (l.map toString)
def uncsv (s : String) : List Nat := if s == "-" then [] else (s.splitOn ",").map nat!

def showOutcome : Outcome → String
  | .err => "err"
  | .closed r c => s!"closed:{csv r}:{c}"
  | .resumed r => s!"resumed:{csv r}"

/-- ten tokens per channel: latestId unblockedId holder cp revokedCp inflight monId monHolder monCp monMinSecret -/
def parseWorlds : List String → Option (List World)
  | [] => some []
  | l :: u :: h :: c :: s :: fl :: mi :: mh :: mc :: ms :: rest =>
    (parseWorlds rest).map (fun ws =>
      { mgr := { latestId := nat! l, unblockedId := nat! u, inFlight := uncsv fl, nums := ⟨nat! h, nat! c, nat! s⟩ },
        mon := { id := nat! mi, nums := ⟨nat! mh, nat! mc, nat! ms⟩ } } :: ws)
  | _ => none

def showRef (r : HtlcRef) : String := s!"{r.chan}:{r.id}"
def refs (s : String) : List HtlcRef :=
  if s == "-" then [] else (s.splitOn ",").map (fun x => match x.splitOn ":" with
    | [c, i] => ⟨nat! c, nat! i⟩
    | _ => ⟨0, 0⟩)
def showRefs (l : List HtlcRef) : String := if l.isEmpty then "-" else ",".intercalate (l.map showRef)
/-- group (chan, id) pairs into a decode map keyed by channel, keeping first-occurrence order -/
def toDecodeMap (l : List HtlcRef) : List (Nat × List Nat) :=
  l.foldl (fun m r => if m.any (fun e => e.1 == r.chan) then m.map (fun e => if e.1 == r.chan then (e.1, e.2 ++ [r.id]) else e)
    else m ++ [(r.chan, [r.id])]) []

def showState (st : St) : String :=
  let m := st.curMgr
  let mon := (st.world st.watch).mon
  s!"{m.latestId} {m.unblockedId} {csv m.inFlight} {m.nums.holder} {m.nums.cp} {m.nums.secret} {mon.nums.holder} {mon.nums.cp} {mon.nums.secret}"


/-! reconstruction layer (Model/Reconstruct.lean) -/
def parseSrc (s : String) : Option Src :=
  match s.splitOn "." with
  | [a, b] =>
    if a.startsWith "p" then some (.prev (nat! (a.replace "p" "")) (nat! b))
    else if a.startsWith "r" then some (.route (nat! (a.replace "r" "")) (nat! b)) else none
  | _ => none
def parseSrcs (s : String) : List Src := if s == "-" then [] else (s.splitOn ",").filterMap parseSrc
def showSrc : Src → String
  | .prev c i => s!"p{c}.{i}"
  | .route p k => s!"r{p}.{k}"
def parseMonHtlcs (s : String) : List MonHtlc :=
  if s == "-" then [] else (s.splitOn ",").filterMap (fun x => match x.splitOn ":" with
    | [a, b] => (parseSrc a).map (fun src => ⟨src, b == "1"⟩)
    | _ => none)
def parseWorldTok (s : String) : Option World :=
  match s.splitOn "/" with
  | [l, u, h, c, sc, fl, mi, mh, mc, ms] =>
    some { mgr := { latestId := nat! l, unblockedId := nat! u, inFlight := uncsv fl, nums := ⟨nat! h, nat! c, nat! sc⟩ },
           mon := { id := nat! mi, nums := ⟨nat! mh, nat! mc, nat! ms⟩ } }
  | _ => none
def parseChans : List String → Option (List ChanW × List String)
  | id :: w :: be :: mon :: onch :: pend :: drop :: rest =>
    if rest.length % 7 == 1 || rest.length == 0 then
      (if rest.length ≤ 1 then some ([], rest) else parseChans rest).map (fun r =>
        ({ id := nat! id, world := parseWorldTok w, monHtlcs := parseMonHtlcs mon, onchainFailed := parseSrcs onch,
           balancesEmpty := be == "1", mgrPending := parseSrcs pend, mgrDropped := parseSrcs drop } :: r.1, r.2))
    else none
  | rest => some ([], rest)
def parsePays (s : String) : List (Nat × PayRec) :=
  if s == "-" then [] else (s.splitOn ",").filterMap (fun x => match x.splitOn ":" with
    | [i, st, a, pr] => some (nat! i, { state := if st == "F" then .fulfilled else if st == "A" then .abandoned else .retryable,
                                         privs := if pr == "-" then [] else (pr.splitOn ";").map nat!, autoRetry := a == "1" })
    | _ => none)
def sortStr (l : List String) : List String := (l.toArray.qsort (· < ·)).toList
def joinOr (l : List String) : String := if l.isEmpty then "-" else ",".intercalate (sortStr l)
def sortNat (l : List Nat) : List Nat := (l.toArray.qsort (· < ·)).toList
def showRecon (n : NodeW) (ids : List Nat) : String :=
  let cl := (claims n).map (fun c => s!"{showSrc c.src}@{c.downstream}:{if c.downstreamClosed then 1 else 0}")
  let fl := (fails n).map (fun f => s!"{showSrc f.1}:{match f.2 with | .channelClosed => "C" | .onChainTimeout => "O"}")
  let st := paysAfter n
  let routeIds := (n.chans.flatMap (fun c => routesOf (c.monHtlcs.map (·.src)))).map (·.1)
  let all := (sortNat (ids ++ routeIds)).eraseDups
  let ps := all.filterMap (fun i => (st.get i).map (fun p =>
    let prs := sortNat p.privs
    s!"{i}:{match p.state with | .retryable => "R" | .fulfilled => "F" | .abandoned => "A"}:{if prs.isEmpty then "-" else ";".intercalate (prs.map toString)}"))
  let ids (l : List Nat) : String := if l.isEmpty then "-" else ";".intercalate ((sortNat l).map toString)
  let ns := st.evs.filterMap (fun e => match e with | .sent p => some p | _ => none)
  let nf := st.evs.filterMap (fun e => match e with | .failed p => some p | _ => none)
  s!"claims={joinOr cl} fails={joinOr fl} pays={joinOr ps} evs=s{ids ns},f{ids nf}"
def showBg (w : World) : String :=
  let ev := bgEvents w
  let muc := ev.filterMap (fun e => match e with | .updatesComplete h => some h | _ => none)
  let rg := ev.filterMap (fun e => match e with | .regenerated i => some i | _ => none)
  let first := match muc with | h :: _ => s!"muc:{h}" | [] => if rg.isEmpty then "none" else s!"regen:{csv (sortNat rg)}"
  s!"{first} unblock:{if ev.contains .attemptUnblock then 1 else 0}"

/-! event re-delivery (Model/EventReplay.lean) -/
def parseEOp (s : String) : Option EOp :=
  if s == "close" then some .close else if s == "timeout" then some .timeout else if s == "persist" then some .persist
  else if s == "crash" then some .crash else if s.startsWith "h" then some (.handle (nat! (s.replace "h" ""))) else none
def showQEv (e : QEv) : String := (if e.terminal then "F" else "P") ++ (if e.release then "*" else "")
def showE (s : ESt) : String :=
  let b (x : Bool) : String := if x then "1" else "0"
  s!"part={b s.live.part} queue={if s.live.queue.isEmpty then "-" else ",".intercalate (s.live.queue.map showQEv)} resolved={b s.resolved} handledT={b s.handledTerminal}"

/-! re-delivery of Event::HTLCIntercepted (Model/InterceptRegen.lean) -/
def optNat (s : String) : Option Nat := if s == "-" then none else some (nat! s)
def parseIOp (s : String) : Option IOp :=
  if s == "p" then some .persist else if s == "c" then some .crash else if s == "cr" then some .crashRebuild
  else if s.startsWith "h" then some (.handle (nat! (s.drop 1).toString))
  else if s.startsWith "r" then some (.resolve (nat! (s.drop 1).toString))
  else if s.startsWith "b" then some (.blocks (nat! (s.drop 1).toString))
  else if s.startsWith "i" then
    match (s.drop 1).toString.splitOn ":" with
    | [id, hash, ia, oa, cltv, scid] => some (.intercept (nat! id) ⟨nat! hash, optNat ia, nat! oa, nat! cltv, optNat scid⟩)
    | _ => none
  else none
def showIcEv (e : IcEv) : String :=
  s!"{e.interceptId}/{e.requestedNextHopScid}/{e.paymentHash}/{e.inboundAmountMsat}/{e.expectedOutboundAmountMsat}/{match e.outgoingHtlcExpiry with | some x => toString x | none => "-"}"
def showI (s : ISt) : String :=
  s!"held={joinOr ((heldIds s.live).map toString)} queue={joinOr (s.live.queue.map showIcEv)} told={joinOr (s.told.map toString)}"

/-- c10.  ops:
      icpt (i<id>:<hash>:<incoming amt|->:<outgoing amt>:<outgoing cltv>:<forward scid|-> | h<k> | r<id> | b<height> | p | c | cr)*  → `held=<ids> queue=<id/scid/hash/in/out/expiry,..> told=<ids>` (sorted)
          (Restart.irun: intercepted HTLCs held by a forwarding node; i = intercepted, h = handler accepts k HTLCIntercepted events, r = forwarded / failed by the application, b = best block becomes <height> (expiry sweep),
           p = manager written, c = crash + restart on the production reload path, cr = on the reconstruct-from-monitors path: held map empty until the HTLCs are decoded again = i tokens)
      evlife (close | timeout | h<k> | persist | crash)*  → `part=0/1 queue=<P|F[*],..> resolved=0/1 handledT=0/1`
          (Restart.erun failHtlcPushes: one single-part payment over a channel that is closed on chain; P = PaymentPathFailed, F = PaymentFailed,
           * = carries the ReleasePaymentComplete completion action)
      reload <n> (<latestId> <unblockedId> <holder> <cp> <revokedCp> <inflight> <monId> <monHolder> <monCp> <monMinSecret>)*n
          → `err` | `ok <outcome per channel>`          (Restart.reloadNode: the startup decision)
      init <key> <baseId> <holder> <cp> <secret> | upd <key> <dHolder> <dCp> <dSecret> <blocked> | jump <key> <dHolder> <dCp> <dSecret> | release <key> |
      complete <key> <k> | notify <key> | persist <key> | crash <key> <d>     (Restart.step on the run state of channel <key>)
      reconcile <queued forwards chan:id,..> <awaiting decode chan:id,..> <outbound HTLC previous hops of closed channels' monitors>
          → `<forwards kept> | <awaiting decode kept>`      (Restart.reconcile / Restart.dedupDecode)
      spendconf <matured 0/1> <pending FundingSpendConfirmation height | -> <best height> <number of HTLCs the real function failed>
          → `ok confs=<n>` | `INCONSISTENT`      (ClosedMon.confirmedForReload / confirmations)
      spendfail <matured> <height | -> <best> <a|d|o0|o1> <resolved to user 0/1> → true | false      (Restart.failedOnReload for one outbound HTLC)
      recon <n> (<chan id> <world l/u/h/c/s/inflight/mi/mh/mc/ms | -> <monitor balances empty 0/1> <monitor HTLCs src:pre,..> <on-chain failed srcs> <channel pending srcs> <channel dropped srcs>)*n <payments id:R|F|A:auto:privs;..>
          → `claims=.. fails=.. pays=.. evs=s<payments;..>,f<payments;..>`     (Restart.claims / fails / paysAfter; src = p<inbound chan>.<htlc id> | r<payment>.<session key>)
      bgev <latestId> <unblockedId> <inflight> <monId> → `muc:<id> | regen:<ids> | none` `unblock:0/1`     (Restart.bgEvents of a resumed channel)
      state <key> → `<latest> <watch> <in-flight> <chan nums> <nums of the monitor at watch>` -/
def c10 : Drv where
  σ := List (String × St)
  init := []
  step := fun sts ws =>
    let upd (k : String) (f : St → St) : List (String × St) × String :=
      match sts.lookup k with
      | some st => ((k, f st) :: sts.filter (fun p => p.1 != k), "ok")
      | none => (sts, "no-such-key")
    match ws with
    | "reload" :: n :: rest =>
      match parseWorlds rest with
      | some wl =>
        if wl.length != nat! n then (sts, "bad-op") else
        match reloadNode wl with
        | none => (sts, "err")
        | some rs => (sts, "ok " ++ " ".intercalate (rs.map showOutcome))
      | none => (sts, "bad-op")
    | "icpt" :: rest =>
      match rest.mapM parseIOp with
      | some ops => (sts, showI (irun ops))
      | none => (sts, "bad-op")
    | "evlife" :: rest =>
      match rest.mapM parseEOp with
      | some ops => (sts, showE (erun failHtlcPushes ops))
      | none => (sts, "bad-op")
    | "recon" :: nch :: rest =>
      match parseChans rest with
      | some (cs, [pays]) =>
        if cs.length != nat! nch then (sts, "bad-op") else
        let pl := parsePays pays
        let n : NodeW := { chans := cs, queue := [], pays := fun i => pl.lookup i }
        (sts, showRecon n (pl.map (·.1)))
      | _ => (sts, "bad-op")
    | ["bgev", l, u, fl, mi] =>
      (sts, showBg { mgr := { latestId := nat! l, unblockedId := nat! u, inFlight := uncsv fl, nums := ⟨0, 0, 0⟩ }, mon := { id := nat! mi, nums := ⟨0, 0, 0⟩ } })
    | ["reconcile", q, dq, mons] =>
      (sts, s!"{showRefs (reconcile (refs q) (refs mons))} | {showRefs (decodeRefs (dedupDecode (toDecodeMap (refs dq)) (refs mons)))}")
    | ["spendconf", mt, sh, best, nfailed] =>
      -- the real get_onchain_failed_outbound_htlcs returned `nfailed` HTLCs for a monitor in this state: a non-empty answer
      -- requires the funding spend to count as confirmed; the model's verdict is printed alongside
      let m : ClosedMon := ⟨mt == "1", if sh == "-" then none else some (nat! sh), nat! best⟩
      (sts, if nat! nfailed > 0 && !m.confirmedForReload then "INCONSISTENT" else s!"ok confs={m.confirmations}")
    | ["spendfail", mt, sh, best, pos, r] =>
      let m : ClosedMon := ⟨mt == "1", if sh == "-" then none else some (nat! sh), nat! best⟩
      let p : Option HtlcPos := match pos with
        | "a" => some .absent | "d" => some .dust | "o0" => some (.output false) | "o1" => some (.output true) | _ => none
      (sts, match p with | some p => toString (failedOnReload m p (r == "1")) | none => "bad-op")
    | ["init", k, b, h, c, s] => ((k, St.init (nat! b) ⟨nat! h, nat! c, nat! s⟩) :: sts.filter (fun p => p.1 != k), "ok")
    | ["upd", k, dh, dc, ds, bl] => upd k (fun st => step st (.update ⟨nat! dh, nat! dc, nat! ds⟩ (bl == "1")))
    | ["jump", k, dh, dc, ds] => upd k (fun st => step st (.jump ⟨nat! dh, nat! dc, nat! ds⟩))
    | ["release", k] => upd k (fun st => step st .release)
    | ["complete", k, x] => upd k (fun st => step st (.complete (nat! x)))
    | ["notify", k] => upd k (fun st => step st .notify)
    | ["persist", k] => upd k (fun st => step st .persistManager)
    | ["crash", k, d] => upd k (fun st => step st (.crash (nat! d)))
    | ["state", k] =>
      match sts.lookup k with
      | some st => (sts, showState st)
      | none => (sts, "no-such-key")
    | _ => (sts, "bad-op")

end Ldk.Driver
