/- Driver `closegate` (C09): the closing_signed gate.
     cgready <state u32> <nin> <nout> <fee>      → `none` (not a ChannelState) | `ready=<0|1>` : decode + closingReadyState + closingReady
     cginit <key> <state u32> <nin> <nout> <fee> <last> <outb> <expcs> <parked> <timer>   (directive: start state of a channel)
     cgop <key> lshut <upd> <ip> | rshut <upd> <ip> | done | disc | reco | poll | recv | tick
                                                 → `mon= disc= lsh= rsh= last= parked= timer= ready= out=<a,b|->` after CloseGate.step
   All answers come from Model/CloseGate.lean / Generated/CloseGate.lean, the definitions Props/C09.lean is about. -/
import LdkModel.Driver.Util
import LdkModel.Model.CloseGate
namespace Ldk.Driver
open Ldk.CloseGate Ldk.CloseGate.Gen

def cgB (s : String) : Bool := s == "1"
def cgN (b : Bool) : String := if b then "1" else "0"

def cgOut : Out → String
  | .closingSigned => "closingsigned" | .parked => "parked" | .refused => "refused" | .timeout => "timeout"

def cgShow (c : Chan) (outs : List Out) : String :=
  s!"mon={cgN c.inProgress} disc={cgN c.disconnected} lsh={cgN (isLocalShutdownSent c.v c.f)} rsh={cgN (isRemoteShutdownSent c.v c.f)} last={cgN c.lastSent} parked={cgN c.parked} timer={cgN c.timerOn} ready={cgN c.ready} out={if outs.isEmpty then "-" else ",".intercalate (outs.map cgOut)}"

def cgParseOp : List String → Option Op
  | ["lshut", u, i] => some (.localShutdown (cgB u) (cgB i))
  | ["rshut", u, i] => some (.remoteShutdown (cgB u) (cgB i))
  | ["done"] => some .monitorDone
  | ["disc"] => some .disconnect
  | ["reco"] => some .reconnect
  | ["poll"] => some .poll
  | ["recv"] => some (.recv false false)
  | ["tick"] => some .tick
  | _ => none

def closegate : Drv where
  σ := List (String × Chan)
  init := []
  step st ws :=
    match ws with
    | ["cgready", u, nin, nout, fee] =>
      match decode (nat! u) with
      | none => (st, "none")
      | some (v, f) => (st, s!"ready={cgN (closingReady (nat! nin == 0) (nat! nout == 0) (!cgB fee) (closingReadyState v f))}")
    | ["cginit", key, u, nin, nout, fee, last, outb, expcs, parked, timer] =>
      match decode (nat! u) with
      | none => (st, "bad-state")
      | some (v, f) =>
        let c : Chan := { v := v, f := f, nIn := nat! nin, nOut := nat! nout, fee := cgB fee, lastSent := cgB last, outbound := cgB outb,
                          expCs := cgB expcs, parked := cgB parked, timerOn := cgB timer }
        ((key, c) :: st.filter (·.1 != key), "ok")
    | "cgop" :: key :: rest =>
      match st.lookup key, cgParseOp rest with
      | some c, some op =>
        let r := Ldk.CloseGate.step c op
        ((key, r.1) :: st.filter (·.1 != key), cgShow r.1 r.2)
      | _, _ => (st, "bad-op")
    | _ => (st, "bad-op")

end Ldk.Driver
