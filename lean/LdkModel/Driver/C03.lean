import LdkModel.Driver.Util
import LdkModel.Model.OutboundPay
import LdkModel.Model.OutboundFee
import LdkModel.Model.OutboundRetry
import LdkModel.Model.OutboundProbe
namespace Ldk.Driver
open Ldk.OutboundPay

/-! c03pay / c03e2e: the `OutboundPayments` state machine.
    ops:  reset | send <id> <parts> | await <id> <ticks> | invoice <id> <parts> | claim <id> <part> <onchain01> |
          finalize <id> <part> | fail <id> <part> <auto01> <perm01> | abandon <id> <reason> |
          retry <id> <parts> <now01> | sweep <autoIds> | tick | insert <id> <part> | handle | persist | restore |
          restart <id:part:res,...>   (res = p | c | f<auto01><perm01>) | list |
          seq <op> ; <op> ; ...   (several ops, one answer: what they pushed in order) |
          recent   (`ChannelManager::list_recent_payments`: `ID:Pending|Fulfilled|Abandoned|AwaitingInvoice`) |
          check <id=parts;id=x;...> <autoIds>   (check_retry_payments: observed router calls, then the retain) |
          sendr <id> <parts> <results> <noSecret01>   (one send call: per-path results `o|m|e|b` = Ok /
             Err(MonitorUpdateInProgress) / other Err / path refused by the parameter check, comma separated) |
          retryr <id> <parts> <now01> <results> <noSecret01>   (one find_route_and_send_payment call after the route was found) |
          chain <op> ; <op> ; ...   (like `seq`, for ONE send call and the retries handle_pay_route_err chains to it:
             the answer ends with `chain=ok` iff every op but the last announced a follow-up retry and the last did not) |
          amtall <msat> | amts <part:msat,...>   (directives: the path amount of every part / of the listed parts) |
          amounts   (`ID:pending_amt_msat:total_msat` of every Retryable entry) |
          unsettled <autoIds>   (the auto-retryable ids that check_retry_payments would still retry: `pending < total`)
          fee new <id> <max|-> | fee ins <id> <part> <pathFee> | fee rem <id> <part>   (the fee ledger of payment <id>,
             Model/OutboundFee.lean: create_pending_payment / PendingOutboundPayment::insert / ::remove — the last two act
             only while the payment is Retryable in the main model, as in the Rust code; usable inside `seq` / `chain`,
             where they answer nothing) |
          strategy <id> <-|aN>   (the payment was created with retry_strategy None / Some(Retry::Attempts(N)): from then on the
             driver keeps its `attempts.count` (Model/OutboundRetry.lean) and checks every `now` flag of a retry op and every
             `auto` flag of a fail op against the generated gate; a disagreement appends ` gate=bad` to the answer) |
          probe <id> <part> <o|m|e|b>   (send_probe with the per-path result: `probe ok` / `probe err`; the entry lives in the same map) |
          pfail <id> <part> <auto01> <perm01>   (fail_htlc for a probe's HTLC: `ok` + `probeok:ID:PART` / `probefail:ID:PART` and
             whatever else the model pushes for the id) |
          feepaid <id>   (`feepaid ID <msat|none>`: what PaymentSent.fee_paid_msat reports = the ledger's pending fee)
    `<parts>`/`<autoIds>` = comma separated naturals or `-`.
    answer:  `ok|dup|panic` followed by the pushed events (`sent:ID failed:ID:Reason pathok:ID:PART pathfail:ID:PART`),
    stably sorted by payment id (the real map is a HashMap).  `list` prints `ID:State:nparts[:ticks]` sorted by id. -/

def csvNats (s : String) : List Nat :=
  if s == "-" then [] else (s.splitOn ",").map nat!

def reasonName : Reason → String
  | .recipientRejected => "RecipientRejected" | .userAbandoned => "UserAbandoned"
  | .retriesExhausted => "RetriesExhausted" | .paymentExpired => "PaymentExpired"
  | .routeNotFound => "RouteNotFound" | .unexpectedError => "UnexpectedError"
  | .invoiceRequestExpired => "InvoiceRequestExpired"

def reasonOf (s : String) : Reason :=
  match s with
  | "RecipientRejected" => .recipientRejected | "UserAbandoned" => .userAbandoned
  | "RetriesExhausted" => .retriesExhausted | "PaymentExpired" => .paymentExpired
  | "RouteNotFound" => .routeNotFound | "InvoiceRequestExpired" => .invoiceRequestExpired
  | _ => .unexpectedError

def showEv : Ev → String
  | .sent i => s!"sent:{i}"
  | .failed i r => s!"failed:{i}:{reasonName r}"
  | .pathOk i p => s!"pathok:{i}:{p}"
  | .pathFailed i p => s!"pathfail:{i}:{p}"

/-- stable insertion sort by payment id -/
def sortEvs (evs : List Ev) : List Ev :=
  evs.foldl (fun acc e =>
    let (lo, hi) := acc.span (fun x => x.id ≤ e.id)
    lo ++ e :: hi) []

def showOut (o : Out) : String :=
  let st := if o.panic then "panic" else if o.dup then "dup" else "ok"
  String.intercalate " " (st :: (sortEvs o.evs).map showEv ++
    (if o.tried.isEmpty then [] else ["tried=" ++ String.intercalate "," (o.tried.map toString)]))

def dedup (ps : List Nat) : List Nat := ps.foldl (fun acc p => if acc.contains p then acc else acc ++ [p]) []

def showEntry (e : PayId × PState) : Option String :=
  match e.2 with
  | .absent => none
  | .preHtlc t => some s!"{e.1}:PreHtlc:0:{t}"
  | .retryable ps _ _ => some s!"{e.1}:Retryable:{(dedup ps).length}"
  | .fulfilled ps t => some s!"{e.1}:Fulfilled:{(dedup ps).length}:{t}"
  | .abandoned ps _ => some s!"{e.1}:Abandoned:{(dedup ps).length}"

def sortEntries (es : List (PayId × PState)) : List (PayId × PState) :=
  es.foldl (fun acc e =>
    let (lo, hi) := acc.span (fun x => x.1 ≤ e.1)
    lo ++ e :: hi) []

def parseRes (s : String) : Res :=
  match s.toList with
  | ['c'] => .claimed
  | ['f', a, p] => .failed (a == '1') (p == '1')
  | _ => .pending

def parseView (s : String) : List (PayId × PartId × Res) :=
  if s == "-" then [] else
  (s.splitOn ",").map fun item =>
    match item.splitOn ":" with
    | [i, p, r] => (nat! i, nat! p, parseRes r)
    | _ => (0, 0, .pending)

/-- run several ops, concatenating what they push and what `sendr` / `retryr` hand to send_payment_along_path
    (dup/panic are or-ed) -/
def runOps (s : State) (ops : List Op) : State × Out :=
  ops.foldl (fun (acc : State × Out) op =>
    let r := step acc.1 op
    (r.1, { evs := acc.2.evs ++ r.2.evs, dup := acc.2.dup || r.2.dup, panic := acc.2.panic || r.2.panic,
            tried := acc.2.tried ++ (match op with | .sendR _ _ _ | .retryR _ _ _ _ => r.2.tried | _ => []) })) (s, {})

/-- one send call and its chained retries: every op but the last announces the follow-up, the last does not -/
def chainOk (s : State) : List Op → Bool
  | [] => true
  | [op] => !(step s op).2.retryNext
  | op :: rest => (step s op).2.retryNext && chainOk (step s op).1 rest

def pathInOf (s : String) : PathIn :=
  match s with
  | "o" => .ok | "m" => .mip | "e" => .err | _ => .bad

def csvPaths (parts res : String) : List (PartId × PathIn) :=
  if parts == "-" then [] else (csvNats parts).zip ((res.splitOn ",").map pathInOf)

/-- `check_retry_payments`: the router calls observed (`id=parts` route found, `id=x` no route), then the retain -/
def parseCheck (s : String) : List Op :=
  if s == "-" then [] else
  (s.splitOn ";").map fun item =>
    match item.splitOn "=" with
    | [i, "x"] => Op.abandon (nat! i) .routeNotFound
    | [i, ps] => Op.retry (nat! i) (csvNats ps) true
    | _ => Op.handle

/-- a driver op: an op of the main model or a fee-ledger op -/
inductive DOp
  | m (op : Op)
  | feeNew (id : PayId) (max : Option Nat)
  | feeIns (id : PayId) (p : PartId) (f : Nat)
  | feeRem (id : PayId) (p : PartId)
  | strategy (id : PayId) (s : OutboundRetry.Strategy)

abbrev Fees := List (PayId × OutboundFee.Ledger)

structure DState where
  st : State := OutboundPay.init
  fees : Fees := []
  retry : List (PayId × OutboundRetry.RetrySt) := []

def isRetryable : PState → Bool
  | .retryable _ _ _ => true
  | _ => false

def setFee (fs : Fees) (id : PayId) (l : OutboundFee.Ledger) : Fees := (id, l) :: fs.filter (·.1 != id)

/-- the fee side of a driver op: `insert` / `remove` adjust the fee fields only in `Retryable` -/
def feeStep (d : DState) : DOp → Fees
  | .m _ | .strategy _ _ => d.fees
  | .feeNew id mx => setFee d.fees id (OutboundFee.Ledger.new mx)
  | .feeIns id p f =>
    match d.fees.lookup id with
    | some l => if isRetryable (get d.st.cur id) then setFee d.fees id (l.insert p f) else d.fees
    | none => d.fees
  | .feeRem id p =>
    match d.fees.lookup id with
    | some l => if isRetryable (get d.st.cur id) then setFee d.fees id (l.remove p) else d.fees
    | none => d.fees

def parseOp (ws : List String) : Option (List Op) :=
  match ws with
  | ["send", i, ps] => some [.send (nat! i) (csvNats ps)]
  | ["await", i, t] => some [.await (nat! i) (nat! t)]
  | ["invoice", i, ps] => some [.invoice (nat! i) (csvNats ps)]
  | ["claim", i, p, oc] => some [.claim (nat! i) (nat! p) (oc == "1")]
  | ["finalize", i, p] => some [.finalize (nat! i) (nat! p)]
  | ["fail", i, p, a, pm] => some [.fail (nat! i) (nat! p) (a == "1") (pm == "1")]
  | ["abandon", i, r] => some [.abandon (nat! i) (reasonOf r)]
  | ["retry", i, ps, n] => some [.retry (nat! i) (csvNats ps) (n == "1")]
  | ["sweep", a] => some [.sweep (csvNats a)]
  | ["tick"] => some [.tick]
  | ["insert", i, p] => some [.insert (nat! i) (nat! p)]
  | ["sendr", i, ps, rs, ns] => some [.sendR (nat! i) (csvPaths ps rs) (ns == "1")]
  | ["retryr", i, ps, n, rs, ns] => some [.retryR (nat! i) (csvPaths ps rs) (n == "1") (ns == "1")]
  | ["handle"] => some [.handle]
  | ["persist"] => some [.persist]
  | ["restore"] => some [.restore]
  | ["restart", v] => some (restartOps (parseView v))
  | ["check", items, autos] => some (parseCheck items ++ [.sweep (csvNats autos)])
  | _ => none

def splitSemi (ws : List String) : List (List String) :=
  let (cur, acc) := ws.foldl (fun (st : List String × List (List String)) w =>
    if w == ";" then ([], st.2 ++ [st.1]) else (st.1 ++ [w], st.2)) ([], [])
  (acc ++ [cur]).filter (· ≠ [])

def parseDOp (ws : List String) : Option (List DOp) :=
  match ws with
  | ["fee", "new", i, mx] => some [.feeNew (nat! i) (if mx == "-" then none else some (nat! mx))]
  | ["fee", "ins", i, p, f] => some [.feeIns (nat! i) (nat! p) (nat! f)]
  | ["fee", "rem", i, p] => some [.feeRem (nat! i) (nat! p)]
  | ["strategy", i, "-"] => some [.strategy (nat! i) .manual]
  | ["strategy", i, a] => some [.strategy (nat! i) (.attempts (nat! (String.ofList (a.toList.drop 1))))]
  | _ => (parseOp ws).map fun ops => ops.map DOp.m

def parseSeq (ws : List String) : Option (List DOp) :=
  (splitSemi ws).foldl (fun acc sub => match acc, parseDOp sub with
    | some a, some b => some (a ++ b)
    | _, _ => none) (some [])

def mainOps (ops : List DOp) : List Op := ops.filterMap fun o => match o with | .m op => some op | _ => none

/-- does the `now` flag of a retry op / the `auto` flag of a fail op agree with the generated gate applied to the
    driver's own attempt count? (payments without a `strategy` directive are not checked) -/
def gateOk (d : DState) : Op → Bool
  | .retryR id _ now _ | .retry id _ now =>
    match d.retry.lookup id, get d.st.cur id with
    | some r, .retryable _ _ _ => r.isRetryableNow 0 == now
    | _, _ => true
  | .fail id p auto _ =>
    match d.retry.lookup id, get d.st.cur id with
    | some r, .retryable ps _ _ => if ps.contains p then r.isAutoRetryableNow 0 == auto else true
    | _, _ => true
  | _ => true

/-- the retry side of a main-model op: a retry op on a Retryable payment is one find_route_and_send_payment call
    (`RetrySt.call`); afterwards an entry that left `Retryable` in the main model has left it here too -/
def retryStep (d : DState) (op : Op) (out : Out) (st' : State) : List (PayId × OutboundRetry.RetrySt) :=
  let upd : PayId → Nat → List (PayId × OutboundRetry.RetrySt) := fun id amtNew =>
    match d.retry.lookup id, get d.st.cur id with
    | some r, .retryable _ pe to =>
      if out.panic then d.retry else
      let a := if OutboundSendGen.retryOverflows amtNew pe to then OutboundRetry.Answer.overflow else .route
      (id, (r.call 0 a).1) :: d.retry.filter (fun e => e.1 != id)
    | _, _ => d.retry
  let rs : List (PayId × OutboundRetry.RetrySt) := match op with
    | .retryR id paths _ _ => upd id (sumAmt d.st.amt (paths.map (·.1)))
    | .retry id parts _ => upd id (sumAmt d.st.amt parts)
    | _ => d.retry
  rs.map fun (e : PayId × OutboundRetry.RetrySt) => (e.1, { e.2 with retryable := e.2.retryable && isRetryable (get st'.cur e.1) })

/-- run driver ops in order: main-model ops through `step`, fee ops through the ledger; the Bool is false when a gate
    flag disagreed -/
def runDOps (d : DState) (ops : List DOp) : DState × Out × Bool :=
  ops.foldl (fun (acc : DState × Out × Bool) o =>
    match o with
    | .m op =>
      let ok := gateOk acc.1 op
      let r := runOps acc.1.st [op]
      ({ acc.1 with st := r.1, retry := retryStep acc.1 op r.2 r.1 },
       { evs := acc.2.1.evs ++ r.2.evs, dup := acc.2.1.dup || r.2.dup, panic := acc.2.1.panic || r.2.panic,
         tried := acc.2.1.tried ++ r.2.tried }, acc.2.2 && ok)
    | .strategy id s => ({ acc.1 with retry := (id, { strategy := s }) :: acc.1.retry.filter (·.1 != id) }, acc.2)
    | _ => ({ acc.1 with fees := feeStep acc.1 o }, acc.2)) (d, {}, true)

def showRun (r : DState × Out × Bool) : String := showOut r.2.1 ++ (if r.2.2 then "" else " gate=bad")

def showAmounts (e : PayId × PState) : Option String :=
  match e.2 with
  | .retryable _ pe to => some s!"{e.1}:{pe}:{to}"
  | _ => none

def parseAmts (s : String) : List (PartId × Nat) :=
  if s == "-" then [] else
  (s.splitOn ",").filterMap fun item =>
    match item.splitOn ":" with
    | [p, a] => some (nat! p, nat! a)
    | _ => none

def unsettledIds (st : State) (autos : List PayId) : List PayId :=
  (sortEntries st.cur).filterMap fun e =>
    match e.2 with
    | .retryable _ pe to => if autos.contains e.1 && OutboundSendGen.wantsRetry pe to then some e.1 else none
    | _ => none

def showRecent (e : PayId × PState) : Option String :=
  match e.2 with
  | .absent => none
  | .preHtlc _ => some s!"{e.1}:AwaitingInvoice"
  | .retryable _ _ _ => some s!"{e.1}:Pending"
  | .fulfilled _ _ => some s!"{e.1}:Fulfilled"
  | .abandoned _ _ => some s!"{e.1}:Abandoned"

def showPEv (id : PayId) : OutboundProbe.PEv → String
  | .probeSuccessful p => s!"probeok:{id}:{p}"
  | .probeFailed p => s!"probefail:{id}:{p}"
  | .pathFailed p => s!"pathfail:{id}:{p}"
  | .pathOk p => s!"pathok:{id}:{p}"
  | .failed r => s!"failed:{id}:{reasonName r}"
  | .sent => s!"sent:{id}"

def c03 : Drv where
  σ := DState
  init := {}
  step := fun d ws =>
    let st := d.st
    let keep (r : State × String) : DState × String := ({ d with st := r.1 }, r.2)
    match ws with
    | ["reset"] => ({}, "ok")
    | ["list"] => (d, String.intercalate " " ("list" :: (sortEntries st.cur).filterMap showEntry))
    | ["recent"] => (d, String.intercalate " " ("recent" :: (sortEntries st.cur).filterMap showRecent))
    | ["amounts"] => (d, String.intercalate " " ("amounts" :: (sortEntries st.cur).filterMap showAmounts))
    | ["amtall", n] => keep ({ st with amt := fun _ => nat! n }, "ok")
    | ["amts", tab] =>
      let t := parseAmts tab
      let old := st.amt
      keep ({ st with amt := fun p => (t.lookup p).getD (old p) }, "ok")
    | ["unsettled", a] => (d, String.intercalate " " ("unsettled" :: (unsettledIds st (csvNats a)).map toString))
    | ["probe", i, p, r] =>
      let x := OutboundProbe.sendProbe st.amt (get st.cur (nat! i)) (nat! p) (pathInOf r)
      ({ d with st := { st with cur := set st.cur (nat! i) x.1 } }, if x.2 then "probe ok" else "probe err")
    | ["pfail", i, p, a, pm] =>
      let x := OutboundProbe.failProbe st.amt (get st.cur (nat! i)) (nat! p) (a == "1") (pm == "1")
      ({ d with st := { st with cur := set st.cur (nat! i) x.1 } }, String.intercalate " " ("ok" :: x.2.map (showPEv (nat! i))))
    | ["feepaid", i] =>
      (d, s!"feepaid {i} " ++ match (d.fees.lookup (nat! i)).bind (·.feePaid) with | some f => toString f | none => "none")
    | "chain" :: rest =>
      match parseSeq rest with
      | some ops => let r := runDOps d ops; (r.1, showRun r ++ (if chainOk st (mainOps ops) then " chain=ok" else " chain=broken"))
      | none => (d, "bad-op")
    | "seq" :: rest =>
      match parseSeq rest with
      | some ops => let r := runDOps d ops; (r.1, showRun r)
      | none => (d, "bad-op")
    | _ =>
      match parseDOp ws with
      | some ops => let r := runDOps d ops; (r.1, showRun r)
      | none => (d, "bad-op")

end Ldk.Driver
