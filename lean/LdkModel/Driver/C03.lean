import LdkModel.Driver.Util
import LdkModel.Model.OutboundPay
namespace Ldk.Driver
open Ldk.OutboundPay

/-! c03pay / c03e2e: the `OutboundPayments` state machine.
    ops:  reset | send <id> <parts> | await <id> <ticks> | invoice <id> <parts> | claim <id> <part> <onchain01> |
          finalize <id> <part> | fail <id> <part> <auto01> <perm01> | abandon <id> <reason> |
          retry <id> <parts> <now01> | sweep <autoIds> | tick | insert <id> <part> | handle | persist | restore |
          restart <id:part:res,...>   (res = p | c | f<auto01><perm01>) | list |
          seq <op> ; <op> ; ...   (several ops, one answer: what they pushed in order) |
          recent   (`ChannelManager::list_recent_payments`: `ID:Pending|Fulfilled|Abandoned|AwaitingInvoice`) |
          check <id=parts;id=x;...> <autoIds>   (check_retry_payments: observed router calls, then the retain) |
          sendr <id> <parts> <results> <noSecret01>   (one send call: per-path results `o|m|e|b` = Ok /
             Err(MonitorUpdateInProgress) / other Err / path refused by the parameter check, comma separated) |
          retryr <id> <parts> <now01> <results> <noSecret01>   (one find_route_and_send_payment call after the route was found) |
          chain <op> ; <op> ; ...   (like `seq`, for ONE send call and the retries handle_pay_route_err chains to it:
             the answer ends with `chain=ok` iff every op but the last announced a follow-up retry and the last did not) |
          amtall <msat> | amts <part:msat,...>   (directives: the path amount of every part / of the listed parts) |
          amounts   (`ID:pending_amt_msat:total_msat` of every Retryable entry) |
          unsettled <autoIds>   (the auto-retryable ids that check_retry_payments would still retry: `pending < total`)
    `<parts>`/`<autoIds>` = comma separated naturals or `-`.
    answer:  `ok|dup|panic` followed by the pushed events (`sent:ID failed:ID:Reason pathok:ID:PART pathfail:ID:PART`),
    stably sorted by payment id (the real map is a HashMap).  `list` prints `ID:State:nparts[:ticks]` sorted by id. -/

def csvNats (s : String) : List Nat :=
  if s == "-" then [] else (s.splitOn ",").map nat!

def reasonName : Reason → String
  | .recipientRejected => "RecipientRejected" | .userAbandoned => "UserAbandoned"
  | .retriesExhausted => "RetriesExhausted" | .paymentExpired => "PaymentExpired"
  | .routeNotFound => "RouteNotFound" | .unexpectedError => "UnexpectedError"
  | .invoiceRequestExpired => "InvoiceRequestExpired"

def reasonOf (s : String) : Reason :=
  match s with
  | "RecipientRejected" => .recipientRejected | "UserAbandoned" => .userAbandoned
  | "RetriesExhausted" => .retriesExhausted | "PaymentExpired" => .paymentExpired
  | "RouteNotFound" => .routeNotFound | "InvoiceRequestExpired" => .invoiceRequestExpired
  | _ => .unexpectedError

def showEv : Ev → String
  | .sent i => s!"sent:{i}"
  | .failed i r => s!"failed:{i}:{reasonName r}"
  | .pathOk i p => s!"pathok:{i}:{p}"
  | .pathFailed i p => s!"pathfail:{i}:{p}"

/-- stable insertion sort by payment id -/
def sortEvs (evs : List Ev) : List Ev :=
  evs.foldl (fun acc e =>
    let (lo, hi) := acc.span (fun x => x.id ≤ e.id)
    lo ++ e :: hi) []

def showOut (o : Out) : String :=
  let st := if o.panic then "panic" else if o.dup then "dup" else "ok"
  String.intercalate " " (st :: (sortEvs o.evs).map showEv ++
    (if o.tried.isEmpty then [] else ["tried=" ++ String.intercalate "," (o.tried.map toString)]))

def dedup (ps : List Nat) : List Nat := ps.foldl (fun acc p => if acc.contains p then acc else acc ++ [p]) []

def showEntry (e : PayId × PState) : Option String :=
  match e.2 with
  | .absent => none
  | .preHtlc t => some s!"{e.1}:PreHtlc:0:{t}"
  | .retryable ps _ _ => some s!"{e.1}:Retryable:{(dedup ps).length}"
  | .fulfilled ps t => some s!"{e.1}:Fulfilled:{(dedup ps).length}:{t}"
  | .abandoned ps _ => some s!"{e.1}:Abandoned:{(dedup ps).length}"

def sortEntries (es : List (PayId × PState)) : List (PayId × PState) :=
  es.foldl (fun acc e =>
    let (lo, hi) := acc.span (fun x => x.1 ≤ e.1)
    lo ++ e :: hi) []

def parseRes (s : String) : Res :=
  match s.toList with
  | ['c'] => .claimed
  | ['f', a, p] => .failed (a == '1') (p == '1')
  | _ => .pending

def parseView (s : String) : List (PayId × PartId × Res) :=
  if s == "-" then [] else
  (s.splitOn ",").map fun item =>
    match item.splitOn ":" with
    | [i, p, r] => (nat! i, nat! p, parseRes r)
    | _ => (0, 0, .pending)

/-- run several ops, concatenating what they push and what `sendr` / `retryr` hand to send_payment_along_path
    (dup/panic are or-ed) -/
def runOps (s : State) (ops : List Op) : State × Out :=
  ops.foldl (fun (acc : State × Out) op =>
    let r := step acc.1 op
    (r.1, { evs := acc.2.evs ++ r.2.evs, dup := acc.2.dup || r.2.dup, panic := acc.2.panic || r.2.panic,
            tried := acc.2.tried ++ (match op with | .sendR _ _ _ | .retryR _ _ _ _ => r.2.tried | _ => []) })) (s, {})

/-- one send call and its chained retries: every op but the last announces the follow-up, the last does not -/
def chainOk (s : State) : List Op → Bool
  | [] => true
  | [op] => !(step s op).2.retryNext
  | op :: rest => (step s op).2.retryNext && chainOk (step s op).1 rest

def pathInOf (s : String) : PathIn :=
  match s with
  | "o" => .ok | "m" => .mip | "e" => .err | _ => .bad

def csvPaths (parts res : String) : List (PartId × PathIn) :=
  if parts == "-" then [] else (csvNats parts).zip ((res.splitOn ",").map pathInOf)

/-- `check_retry_payments`: the router calls observed (`id=parts` route found, `id=x` no route), then the retain -/
def parseCheck (s : String) : List Op :=
  if s == "-" then [] else
  (s.splitOn ";").map fun item =>
    match item.splitOn "=" with
    | [i, "x"] => Op.abandon (nat! i) .routeNotFound
    | [i, ps] => Op.retry (nat! i) (csvNats ps) true
    | _ => Op.handle

def parseOp (ws : List String) : Option (List Op) :=
  match ws with
  | ["send", i, ps] => some [.send (nat! i) (csvNats ps)]
  | ["await", i, t] => some [.await (nat! i) (nat! t)]
  | ["invoice", i, ps] => some [.invoice (nat! i) (csvNats ps)]
  | ["claim", i, p, oc] => some [.claim (nat! i) (nat! p) (oc == "1")]
  | ["finalize", i, p] => some [.finalize (nat! i) (nat! p)]
  | ["fail", i, p, a, pm] => some [.fail (nat! i) (nat! p) (a == "1") (pm == "1")]
  | ["abandon", i, r] => some [.abandon (nat! i) (reasonOf r)]
  | ["retry", i, ps, n] => some [.retry (nat! i) (csvNats ps) (n == "1")]
  | ["sweep", a] => some [.sweep (csvNats a)]
  | ["tick"] => some [.tick]
  | ["insert", i, p] => some [.insert (nat! i) (nat! p)]
  | ["sendr", i, ps, rs, ns] => some [.sendR (nat! i) (csvPaths ps rs) (ns == "1")]
  | ["retryr", i, ps, n, rs, ns] => some [.retryR (nat! i) (csvPaths ps rs) (n == "1") (ns == "1")]
  | ["handle"] => some [.handle]
  | ["persist"] => some [.persist]
  | ["restore"] => some [.restore]
  | ["restart", v] => some (restartOps (parseView v))
  | ["check", items, autos] => some (parseCheck items ++ [.sweep (csvNats autos)])
  | _ => none

def splitSemi (ws : List String) : List (List String) :=
  let (cur, acc) := ws.foldl (fun (st : List String × List (List String)) w =>
    if w == ";" then ([], st.2 ++ [st.1]) else (st.1 ++ [w], st.2)) ([], [])
  (acc ++ [cur]).filter (· ≠ [])

def parseSeq (ws : List String) : Option (List Op) :=
  (splitSemi ws).foldl (fun acc sub => match acc, parseOp sub with
    | some a, some b => some (a ++ b)
    | _, _ => none) (some [])

def showAmounts (e : PayId × PState) : Option String :=
  match e.2 with
  | .retryable _ pe to => some s!"{e.1}:{pe}:{to}"
  | _ => none

def parseAmts (s : String) : List (PartId × Nat) :=
  if s == "-" then [] else
  (s.splitOn ",").filterMap fun item =>
    match item.splitOn ":" with
    | [p, a] => some (nat! p, nat! a)
    | _ => none

def unsettledIds (st : State) (autos : List PayId) : List PayId :=
  (sortEntries st.cur).filterMap fun e =>
    match e.2 with
    | .retryable _ pe to => if autos.contains e.1 && OutboundSendGen.wantsRetry pe to then some e.1 else none
    | _ => none

def showRecent (e : PayId × PState) : Option String :=
  match e.2 with
  | .absent => none
  | .preHtlc _ => some s!"{e.1}:AwaitingInvoice"
  | .retryable _ _ _ => some s!"{e.1}:Pending"
  | .fulfilled _ _ => some s!"{e.1}:Fulfilled"
  | .abandoned _ _ => some s!"{e.1}:Abandoned"

def c03 : Drv where
  σ := State
  init := OutboundPay.init
  step := fun st ws =>
    match ws with
    | ["reset"] => (OutboundPay.init, "ok")
    | ["list"] => (st, String.intercalate " " ("list" :: (sortEntries st.cur).filterMap showEntry))
    | ["recent"] => (st, String.intercalate " " ("recent" :: (sortEntries st.cur).filterMap showRecent))
    | ["amounts"] => (st, String.intercalate " " ("amounts" :: (sortEntries st.cur).filterMap showAmounts))
    | ["amtall", n] => ({ st with amt := fun _ => nat! n }, "ok")
    | ["amts", tab] =>
      let t := parseAmts tab
      let old := st.amt
      ({ st with amt := fun p => (t.lookup p).getD (old p) }, "ok")
    | ["unsettled", a] => (st, String.intercalate " " ("unsettled" :: (unsettledIds st (csvNats a)).map toString))
    | "chain" :: rest =>
      match parseSeq rest with
      | some ops => let r := runOps st ops; (r.1, showOut r.2 ++ (if chainOk st ops then " chain=ok" else " chain=broken"))
      | none => (st, "bad-op")
    | "seq" :: rest =>
      match parseSeq rest with
      | some ops => let r := runOps st ops; (r.1, showOut r.2)
      | none => (st, "bad-op")
    | _ =>
      match parseOp ws with
      | some ops => let r := runOps st ops; (r.1, showOut r.2)
      | none => (st, "bad-op")

end Ldk.Driver
