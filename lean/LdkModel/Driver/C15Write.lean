import LdkModel.Driver.C15
import LdkModel.Model.PeerWrite
/- C15 model driver for the OUTBOUND path (model `c15write`): Model/PeerWrite.lean instantiated with
   the executable primitives; one real PeerManager with a scripted SocketDescriptor on the other side.

     winit <msgs> <pongTimer> <recv 0|1> <sentPause 0|1> <awaiting 0|1>     → ok   (fresh peer, queue empty)
     ev <flush 0|1> <sched> <m1,m2,..|->      process_events with these handler messages (`ty:len:seed`)
     wa <sched>                               write_buffer_space_avail
     tick <npeers> <sched>                    timer_tick_occurred                (answer `disc` if dropped)
     bc <len> <seed> <allowLarge 0|1> <capTotal>   one gossip broadcast reaching forward_broadcast_msg's gate
                                              (`capTotal` = sum of buffer capacities, read from the real peer)
     rpong / rmsg / rping <ponglen>           the peer's pong / another message / ping was processed
   <sched> = comma separated byte counts the socket accepts on the successive non-empty send_data calls of
   this op (`-` = none scripted; calls beyond the script accept 0), `*` = accept everything.
   answer  = `<offered:accepted:resume;..|-> q=<buffer lengths> off=<n> g=<broadcasts queued> aw=<0|1> sp=<0|1>
              m=<msgs_sent_since_pong> t=<awaiting_pong_timer_tick_intervals> rv=<0|1>`
             (`bc` answers `queued|skipped` first) -/
namespace Ldk.Driver
open Ldk Ldk.Noise Ldk.Framing Ldk.PeerWrite

structure WSt where
  k : Conn := { p := WPeer.fresh { sk := peerKey, sn := 0, sck := peerCk }, bl := false, alive := true }

def b01 (b : Bool) : String := if b then "1" else "0"

def csv (l : List String) : String := if l.isEmpty then "-" else ",".intercalate l

def schedOf (p : WPeer) (s : String) : Nat → Option Nat :=
  if s == "*" then fun _ => none
  else
    let l := splitCommas s
    fun i => some (l.getD (i - p.calls) 0)

def msgOf (spec : String) : Bytes :=
  match spec.splitOn ":" with
  | [ty, len, seed] => be16 (nat! ty) ++ genPayload (nat! len) (nat! seed)
  | _ => []

def msgsOf (s : String) : List Bytes := if s == "-" then [] else (s.splitOn ",").map msgOf

def stateStr (p : WPeer) : String :=
  s!"q={csv (p.out.map (fun b => toString b.length))} off={p.off} g={p.gossip.length} aw={b01 p.awaiting} sp={b01 p.sentPause} m={p.msgs} t={p.pongTimer} rv={b01 p.recv}"

/-- the send_data calls logged since `before` -/
def callsStr (before after : WPeer) : String :=
  let new := (after.log.take (after.log.length - before.log.length)).reverse
  if new.isEmpty then "-"
  else ";".intercalate (new.map (fun x => s!"{x.data.length}:{x.acc}:{b01 x.resume}"))

def ansOf (before after : WPeer) : String := s!"{callsStr before after} {stateStr after}"

def c15wstep (st : WSt) (ws : List String) : WSt × String :=
  let c := concrete
  let k := st.k
  let p := k.p
  match ws with
  | ["winit", msgs, t, rv, sp, aw] =>
    let p0 := WPeer.fresh { sk := peerKey, sn := 0, sck := peerCk }
    let t' : Int := if t.startsWith "-" then -((nat! (t.drop 1).toString : Nat) : Int) else ((nat! t : Nat) : Int)
    ({ k := { p := { p0 with msgs := nat! msgs, pongTimer := t', recv := rv == "1", sentPause := sp == "1",
                             awaiting := aw == "1" }, bl := false, alive := true } }, "ok")
  | ["ev", flush, sched, ms] =>
    let k1 := step c (schedOf p sched) k (.events (msgsOf ms) (flush == "1") Src.none)
    ({ k := k1 }, ansOf p k1.p)
  | ["wa", sched] =>
    let k1 := step c (schedOf p sched) k (.writeAvail Src.none)
    ({ k := k1 }, ansOf p k1.p)
  | ["tick", n, sched] =>
    let k1 := step c (schedOf p sched) k (.tick (nat! n) false Src.none)
    ({ k := k1 }, if k1.alive then ansOf p k1.p else "disc")
  | ["bc", len, seed, al, cap] =>
    let m := be16 257 ++ genPayload (nat! len) (nat! seed)
    let r := broadcast p m (al == "1") (nat! cap)
    ({ k := step c (fun _ => some 0) k (.broadcast m (al == "1") (nat! cap)) },
     s!"{if r.2 then "queued" else "skipped"} {stateStr r.1}")
  | ["rpong"] =>
    let k1 := step c (fun _ => some 0) (step c (fun _ => some 0) k .received) .pong
    ({ k := k1 }, stateStr k1.p)
  | ["rmsg"] =>
    let k1 := step c (fun _ => some 0) k .received
    ({ k := k1 }, stateStr k1.p)
  | ["rping", pl] =>
    -- the `Message::Ping` arm: the reply (if any) is enqueued, written by the next process_events
    let k1 := step c (fun _ => some 0) k .received
    let p1 := match PeerMsgs.pingReply (nat! pl) with
      | some r => (enqueue c k1.p r).1
      | none => k1.p
    ({ k := { k1 with p := p1 } }, stateStr p1)
  | _ => (st, "bad-op")

def c15write : Drv where
  σ := WSt
  init := {}
  step := c15wstep

end Ldk.Driver
