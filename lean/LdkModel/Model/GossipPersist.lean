/- C17 — what `NetworkGraph::write` persists and what `NetworkGraph::read` rebuilds (routing/gossip.rs), at the
   level of the TLV FIELDS of ChannelUpdateInfo / ChannelInfo / NodeAnnouncementInfo / NodeInfo / NetworkGraph.
   The TLV type numbers are those of C12's tables (Generated/TlvSchemas.lean, blocks `ChannelUpdateInfo.write.w0`
   …; Props/C17.lean proves they agree); which struct member travels in which type is translated by
   tools/gen_gossip.py (`Gen.persistedFields`, pinned against the field names used here). Byte-level framing
   (BigSize lengths, ordering, unknown types) is C12's subject and not repeated.
   Not modelled (opaque to the model): features, alias, addresses, the signed messages themselves (their presence
   is `hasMsg` / `relayed`; a `Relayed` node announcement is rebuilt FROM the stored message, which carries the same
   timestamp and payload). No Mathlib. -/
import LdkModel.Model.Gossip
namespace Ldk.Gossip
namespace Persist

/-- ChannelUpdateInfo on disk: types 0 last_update, 2 enabled, 4 cltv_expiry_delta, 6 htlc_minimum_msat,
    8 `Some(htlc_maximum_msat)` (an Option for pre-0.0.110 readers), 10 fees (RoutingFees: 0 base, 2 proportional),
    12 last_update_message -/
structure PUpd where
  t0_lastUpdate : Nat
  t2_enabled : Bool
  t4_cltv : Nat
  t6_htlcMin : Nat
  t8_htlcMax : Option Nat
  t10_feeBase : Nat
  t10_feeProp : Nat
  t12_hasMsg : Bool
  deriving DecidableEq, Repr

/-- ChannelInfo on disk: 1 announcement_received_time (default 0), 2 node_one, 4 one_to_two, 6 node_two,
    8 two_to_one, 10 capacity_sats, 12 announcement_message (0 features: opaque) -/
structure PChan where
  t1_recvTime : Nat
  t2_node1 : Nat
  t4_d12 : Option PUpd
  t6_node2 : Nat
  t8_d21 : Option PUpd
  t10_capacity : Option Nat
  t12_hasMsg : Bool
  deriving DecidableEq, Repr

/-- NodeAnnouncementInfo on disk: 2 last_update, 4 rgb, 8 announcement_message (option: present iff `Relayed`;
    the message repeats timestamp and rgb) (0 features, 6 alias, 10 addresses: opaque) -/
structure PNodeAnn where
  t2_lastUpdate : Nat
  t4_rgb : Nat
  t8_msg : Option (Nat × Nat)
  deriving DecidableEq, Repr

/-- NodeInfo on disk: 2 announcement_info (option), 4 channels (required_vec, in the vector's order) -/
structure PNode where
  t2_ann : Option PNodeAnn
  t4_channels : List Nat
  deriving DecidableEq, Repr

/-- NetworkGraph on disk: version prefix, chain hash, counted channel and node lists (map iteration order),
    TLV 1 last_rapid_gossip_sync_timestamp. `removed_channels`, `removed_nodes`, the pending UTXO lookups and the
    node counters are NOT written. -/
structure PGraph where
  ver : Nat
  minVer : Nat
  chainOk : Bool
  channels : List (Nat × PChan)
  nodes : List (Nat × PNode)
  deriving DecidableEq, Repr

-- `const SERIALIZATION_VERSION / MIN_SERIALIZATION_VERSION` of gossip.rs (generated)
def SERIALIZATION_VERSION : Nat := Gen.GRAPH_SERIALIZATION_VERSION
def MIN_SERIALIZATION_VERSION : Nat := Gen.GRAPH_MIN_SERIALIZATION_VERSION

-- mirrors impl Writeable for ChannelUpdateInfo
def writeUpd (u : UpdInfo) : PUpd :=
  ⟨u.lastUpdate, u.enabled, u.cltv, u.htlcMin, some u.htlcMax, u.feeBase, u.feeProp, u.hasMsg⟩

-- mirrors impl Readable for ChannelUpdateInfo (+ ChannelUpdateInfoDeserWrapper: InvalidValue ⇒ direction dropped)
def readUpd (p : PUpd) : Option UpdInfo :=
  match p.t8_htlcMax with
  | some mx => some ⟨p.t0_lastUpdate, p.t2_enabled, p.t4_cltv, p.t6_htlcMin, mx, p.t10_feeBase, p.t10_feeProp, p.t12_hasMsg⟩
  | none => none

-- mirrors impl Writeable for ChannelInfo
def writeChan (c : ChanInfo) : PChan :=
  ⟨c.recvTime, c.node1, c.d12.map writeUpd, c.node2, c.d21.map writeUpd, c.capacity, c.hasMsg⟩

-- mirrors impl Readable for ChannelInfo (`one_to_two_wrap.map(|w| w.0).unwrap_or(None)`)
def readChan (p : PChan) : ChanInfo :=
  ⟨p.t2_node1, p.t6_node2, p.t10_capacity, p.t4_d12.bind readUpd, p.t8_d21.bind readUpd, p.t1_recvTime, p.t12_hasMsg⟩

-- mirrors impl Writeable for NodeAnnouncementInfo (accessors of both variants + `announcement_message()`)
def writeNodeAnn (a : NodeAnnInfo) : PNodeAnn :=
  ⟨a.lastUpdate, a.payload, if a.relayed then some (a.lastUpdate, a.payload) else none⟩

-- mirrors impl Readable for NodeAnnouncementInfo: the message, when present, IS the value (`Relayed(announcement)`)
def readNodeAnn (p : PNodeAnn) : NodeAnnInfo :=
  match p.t8_msg with
  | some (ts, rgb) => ⟨ts, rgb, true⟩
  | none => ⟨p.t2_lastUpdate, p.t4_rgb, false⟩

-- mirrors impl Writeable for NodeInfo
def writeNode (ni : NodeInfo) : PNode := ⟨ni.ann.map writeNodeAnn, ni.channels.keys⟩

/-- rebuild the channel set of a node from the stored vector -/
def chanSet (l : List Nat) : SMap Unit := l.foldl (fun m s => m.insert s ()) SMap.empty

-- mirrors impl Readable for NodeInfo
def readNode (p : PNode) : NodeInfo := ⟨chanSet p.t4_channels, p.t2_ann.map readNodeAnn⟩

-- mirrors impl Writeable for NetworkGraph
def persist (g : Graph) : PGraph :=
  ⟨SERIALIZATION_VERSION, MIN_SERIALIZATION_VERSION, true,
   g.channels.l.map (fun e => (e.1, writeChan e.2)), g.nodes.l.map (fun e => (e.1, writeNode e.2))⟩

def fromList {α : Type} (l : List (Nat × α)) : SMap α := l.foldl (fun m e => m.insert e.1 e.2) SMap.empty

-- mirrors impl ReadableArgs for NetworkGraph: version gate, the two maps, every channel endpoint must be a stored
-- node (`ok_or(DecodeError::InvalidValue)`), EMPTY `removed_nodes` / `removed_channels`
def restore (p : PGraph) : Option Graph :=
  if p.minVer > SERIALIZATION_VERSION then none
  else
    let channels := fromList (p.channels.map (fun e => (e.1, readChan e.2)))
    let nodes := fromList (p.nodes.map (fun e => (e.1, readNode e.2)))
    if channels.l.all (fun e => nodes.contains e.2.node1 && nodes.contains e.2.node2) then
      some ⟨channels, nodes, SMap.empty, SMap.empty⟩
    else none

/-- every channel endpoint has a node entry (an invariant of the library: "inconsistent network map" panics) -/
def Consistent (g : Graph) : Bool :=
  g.channels.l.all (fun e => g.nodes.contains e.2.node1 && g.nodes.contains e.2.node2)

/-- the graph without its tombstones -/
def stripTombstones (g : Graph) : Graph := { g with removedChannels := SMap.empty, removedNodes := SMap.empty }

/-- write, then read (a restart) -/
def restart (g : Graph) : Option Graph := restore (persist g)

end Persist
end Ldk.Gossip
