/- C14 — Sphinx onion construction / peeling and failure-packet wrapping, as LDK does it
   (lightning/src/ln/onion_utils.rs), over an ABSTRACT stream cipher and MAC.

   Theorems (Props/C14.lean, Proofs/Onion.lean) are stated over an arbitrary `OnionCrypto`;
   the driver instantiates it with ChaCha20 / HMAC-SHA256 (`ldk` below) and LDK's key derivations,
   and must reproduce the real packets byte for byte.  ECDH / ephemeral-key blinding
   (`construct_onion_keys_generic`) is NOT modelled: per-hop shared secrets are inputs.
   Attribution data (hold times): the byte-level helpers (AttributionData::{new, update, add_hmacs, crypt,
   shift_right, shift_left, verify}) and the sender's hop loop are mirrored here by hand (their Rust
   text is PINNED by tools/gen_onion_fail.py); the failure-relay procedures that call them
   (build_failure_packet, process_failure_packet with its LN_MAX_MSG_LEN guard, crypt_failure_packet,
   update_fail_htlc_wire_len, ...) are TRANSLATED from the Rust source into Generated/OnionFail.lean.
   Theorems about both: Proofs/OnionAttr.lean, Props/C14.lean.  No Mathlib. -/
import LdkModel.Prim.Hmac
import LdkModel.Prim.ChaCha20
import LdkModel.Generated.Consts
namespace Ldk.Onion

abbrev Bytes := List UInt8

/-- a keystream: byte at position `i` (ChaCha20 with an all-zero nonce, block counter from 0) -/
structure KeyStream where
  byte : Nat → UInt8

/-- the cryptography the onion code uses, abstractly -/
structure OnionCrypto where
  /-- `ChaCha20::new(key, [0;12], 0)`: the stream of a key (rho / ammag / prng seed) -/
  stream : Bytes → KeyStream
  /-- `HmacEngine::<Sha256>::new(key)` over a message (mu / um) -/
  mac : Bytes → Bytes → Bytes

def zeros (n : Nat) : Bytes := List.replicate n 0

/-- bytewise xor (`apply_keystream`); operands have equal length wherever the model uses it -/
def xorB (a b : Bytes) : Bytes := List.zipWith (· ^^^ ·) a b

/-- keystream bytes `[off, off+n)` of a prepared stream -/
def ksOf (s : KeyStream) (off n : Nat) : Bytes := (List.range' off n).map s.byte

/-- keystream bytes `[off, off+n)` of `key` (`ChaCha20::new(key, nonce0, seek = off)` applied to `n` zero bytes) -/
def ks (C : OnionCrypto) (key : Bytes) (off n : Nat) : Bytes := ksOf (C.stream key) off n

/-- MAC outputs are used as 32-byte strings (identity on a real HMAC-SHA256 output) -/
def norm32 (b : Bytes) : Bytes := (b ++ zeros 32).take 32

/-- mirrors the HMAC computation in construct_onion_packet_with_init_noise / decode_next_hop:
    `HmacEngine::new(mu); input(packet_data); input(associated_data)` -/
def hmacOf (C : OnionCrypto) (mu data ad : Bytes) : Bytes := norm32 (C.mac mu (data ++ ad))

/-! ## Building -/

/-- one hop as the packet builder sees it: its `rho`, `mu` (OnionKeys) and serialized payload
    (length prefix included, as `payload.encode()` yields it) -/
structure Hop where
  rho : Bytes
  mu : Bytes
  payload : Bytes

/-- bytes a hop occupies in the packet: payload plus the 32-byte HMAC -/
def Hop.size (h : Hop) : Nat := h.payload.length + 32

-- mirrors lightning/src/ln/onion_utils.rs::payloads_serialized_length
def totalSize (hops : List Hop) : Nat := (hops.map Hop.size).sum

/-- mirrors one iteration of the `filler` loop of construct_onion_packet_with_init_noise:
    `seek_pos = len - pos; res.resize(pos + payload_len + 32, 0); chacha(rho, seek_pos).apply_keystream(&mut res)` -/
def fillerStep (C : OnionCrypto) (L : Nat) (fill : Bytes) (h : Hop) : Bytes :=
  xorB (fill ++ zeros h.size) (ks C h.rho (L - fill.length) (fill.length + h.size))

/-- mirrors the `filler` block of construct_onion_packet_with_init_noise (all hops but the last) -/
def filler (C : OnionCrypto) (L : Nat) (hops : List Hop) : Bytes :=
  hops.dropLast.foldl (fillerStep C L) []

/-- mirrors one iteration of the second loop: `shift_slice_right(payload_len + 32)`, write
    `payload ‖ hmac_res`, `chacha(rho, 0).apply_keystream(packet_data)` -/
def layer (C : OnionCrypto) (L : Nat) (h : Hop) (nextHmac inner : Bytes) : Bytes :=
  xorB ((h.payload ++ nextHmac ++ inner).take L) (ks C h.rho 0 L)

/-- `packet_data[len - filler.len() ..].copy_from_slice(&filler)` -/
def splice (d fill : Bytes) : Bytes := d.take (d.length - fill.length) ++ fill

/-- mirrors the second loop of construct_onion_packet_with_init_noise (iterated from the last hop
    backwards, here as a recursion on the hop list): returns this hop's (hop_data, hmac).
    `fillN` is the filler, spliced in at the last hop (`i == 0` of the reversed iteration). -/
def wrapAll (C : OnionCrypto) (ad noise fillN : Bytes) : List Hop → Bytes × Bytes
  | [] => (noise, zeros 32)
  | [h] =>
    let d := splice (layer C noise.length h (zeros 32) noise) fillN
    (d, hmacOf C h.mu d ad)
  | h :: h2 :: rest =>
    let inner := wrapAll C ad noise fillN (h2 :: rest)
    let d := layer C noise.length h inner.2 inner.1
    (d, hmacOf C h.mu d ad)

/-- mirrors lightning/src/ln/onion_utils.rs::construct_onion_packet_with_init_noise.
    `noise` is the initial `packet_data` (its length is the packet length `L`), `ad` the associated
    data (payment hash; empty for onion messages). `none` = `Err(())` (no payloads / does not fit). -/
def build (C : OnionCrypto) (ad noise : Bytes) (hops : List Hop) : Option (Bytes × Bytes) :=
  if hops.isEmpty then none
  else if totalSize hops > noise.length then none
  else some (wrapAll C ad noise (filler C noise.length hops) hops)

/-! ## Peeling -/

structure HopKeys where
  rho : Bytes
  mu : Bytes

def Hop.keys (h : Hop) : HopKeys := ⟨h.rho, h.mu⟩

inductive PeelErr where
  | badHmac      -- OnionDecodeErr::Malformed / InvalidOnionHMAC
  | badPayload   -- OnionDecodeErr::Relay / InvalidOnionPayload (framing; payload contents are not modelled)
  deriving DecidableEq, Repr

inductive Peeled where
  | final (payload : Bytes)
  | forward (payload nextHmac nextData : Bytes)
  deriving DecidableEq, Repr

/-- mirrors lightning/src/ln/onion_utils.rs::decode_next_hop. `plen` abstracts the payload reader:
    given the decrypted stream it says how many bytes the payload (with its length prefix) takes.
    Order as in Rust: HMAC check FIRST, then decrypt, read payload, read next HMAC, all-zero ⇒ final,
    else next packet = remaining bytes ‖ keystream continued over `payload+32` zero bytes. -/
def peel (C : OnionCrypto) (plen : Bytes → Option Nat) (k : HopKeys) (ad data hmac : Bytes) :
    Except PeelErr Peeled :=
  if hmacOf C k.mu data ad ≠ hmac then .error .badHmac else
  let L := data.length
  let dec := xorB data (ks C k.rho 0 L)
  match plen dec with
  | none => .error .badPayload
  | some n =>
    if n + 32 > L then .error .badPayload else
    let payload := dec.take n
    let nh := (dec.drop n).take 32
    if nh = zeros 32 then .ok (.final payload)
    else .ok (.forward payload nh (dec.drop (n + 32) ++ ks C k.rho L (n + 32)))

/-- every hop of the route peels with its own keys: all but the last forward, the last is final;
    returns the payloads seen, in order (`none` if any hop errs or the finality pattern is off) -/
def peelChain (C : OnionCrypto) (plen : Bytes → Option Nat) (ad : Bytes) :
    List HopKeys → Bytes × Bytes → Option (List Bytes)
  | [], _ => none
  | [k], (d, h) =>
    match peel C plen k ad d h with
    | .ok (.final p) => some [p]
    | _ => none
  | k :: k2 :: rest, (d, h) =>
    match peel C plen k ad d h with
    | .ok (.forward p nh nd) => (peelChain C plen ad (k2 :: rest) (nd, nh)).map (p :: ·)
    | _ => none

/-! ## Failure packets -/

structure FailKeys where
  um : Bytes
  ammag : Bytes

def be16 (n : Nat) : Bytes := [UInt8.ofNat (n / 256 % 256), UInt8.ofNat (n % 256)]
def rd16 (b : Bytes) : Nat := (b.getD 0 0).toNat * 256 + (b.getD 1 0).toNat

/-- mirrors lightning/src/ln/onion_utils.rs::build_unencrypted_failure_packet (data part):
    hmac(um, rest) ‖ u16 failure_len ‖ u16 code ‖ data ‖ u16 pad_len ‖ pad -/
def buildUnencryptedFailure (C : OnionCrypto) (k : FailKeys) (minLen code : Nat) (data : Bytes) : Bytes :=
  let failureLen := 2 + data.length
  let padLen := minLen - failureLen
  let body := be16 failureLen ++ be16 code ++ data ++ be16 padLen ++ zeros padLen
  norm32 (C.mac k.um body) ++ body

/-- mirrors lightning/src/ln/onion_utils.rs::crypt_failure_packet (data part): xor with the ammag stream -/
def wrapFailure (C : OnionCrypto) (k : FailKeys) (pkt : Bytes) : Bytes :=
  xorB pkt (ks C k.ammag 0 pkt.length)

/-- mirrors lightning/src/ln/onion_utils.rs::build_failure_packet (data part); the minimum length
    `DEFAULT_MIN_FAILURE_PACKET_LEN` is the GENERATED constant (Generated/Consts.lean, from the Rust source) -/
def buildFailure (C : OnionCrypto) (k : FailKeys) (code : Nat) (data : Bytes) : Bytes :=
  wrapFailure C k (buildUnencryptedFailure C k Ldk.DEFAULT_MIN_FAILURE_PACKET_LEN code data)

/-- what the hops before the failing one do on the way back (first element = hop nearest the sender) -/
def relayFailure (C : OnionCrypto) (pre : List FailKeys) (pkt : Bytes) : Bytes :=
  pre.foldr (wrapFailure C) pkt

/-- the legacy HMAC test of process_onion_failure_inner on a decrypted packet -/
def failMacOk (C : OnionCrypto) (k : FailKeys) (pkt : Bytes) : Bool :=
  norm32 (C.mac k.um (pkt.drop 32)) == pkt.take 32

inductive FailDecoded where
  /-- hop `hop` (0-based) authenticated the failure `code` / `data` -/
  | attributed (hop code : Nat) (data : Bytes)
  /-- HMAC of hop `hop` matched but the packet does not parse ("Unreadable failure") -/
  | unreadable (hop : Nat)
  /-- HMAC matched, parsed, but fewer than 2 bytes of failure message ("Missing error code") -/
  | noCode (hop : Nat)
  /-- no hop's HMAC matched (or the packet is shorter than an HMAC) -/
  | unattributable
  deriving DecidableEq, Repr

/-- mirrors msgs::DecodedOnionErrorPacket::read (hmac, u16-prefixed failuremsg, u16-prefixed pad;
    trailing bytes are not looked at) followed by the error-code extraction -/
def parseFailure (hop : Nat) (pkt : Bytes) : FailDecoded :=
  let b := pkt.drop 32
  if b.length < 2 then .unreadable hop else
  let fl := rd16 b
  let b1 := b.drop 2
  if b1.length < fl then .unreadable hop else
  let msg := b1.take fl
  let b2 := b1.drop fl
  if b2.length < 2 then .unreadable hop else
  let pl := rd16 b2
  if (b2.drop 2).length < pl then .unreadable hop else
  if msg.length < 2 then .noCode hop else
  .attributed hop (rd16 msg) (msg.drop 2)

/-- the hop loop of process_onion_failure_inner (no blinded tail, no trampoline): decrypt with hop
    `i`'s ammag, test hop `i`'s um HMAC, stop at the first match -/
def decodeGo (C : OnionCrypto) : Nat → List FailKeys → Bytes → FailDecoded
  | _, [], _ => .unattributable
  | i, k :: rest, pkt =>
    let p := wrapFailure C k pkt
    if failMacOk C k p then parseFailure i p else decodeGo C (i + 1) rest p

/-- mirrors lightning/src/ln/onion_utils.rs::process_onion_failure_inner (attribution of the
    legacy failure message; network-update policy and attribution data not modelled) -/
def decodeFailure (C : OnionCrypto) (keys : List FailKeys) (pkt : Bytes) : FailDecoded :=
  if pkt.length < 32 then .unattributable else decodeGo C 0 keys pkt

/-- the hop a legacy attribution names -/
def FailDecoded.hop? : FailDecoded → Option Nat
  | .attributed h _ _ => some h
  | .unreadable h => some h
  | .noCode h => some h
  | .unattributable => none

/-- the sender's view of a path with a blinded tail: `unbl` = `path.hops` (the last one is the introduction node),
    `bl` = the blinded hops after the introduction node -/
def pathHops (unbl bl : List FailKeys) : List (Bool × FailKeys) := unbl.map (fun k => (true, k)) ++ bl.map (fun k => (false, k))

/-! ## Attribution data (hold times): hand-written mirrors of the byte-level helpers (Rust text pinned by
   tools/gen_onion_fail.py, behaviour compared byte for byte by the c14 correspondence); the procedures
   that use them are generated (Generated/OnionFail.lean) -/

/-- mirrors lightning/src/ln/onion_utils.rs::AttributionData (`MAX_HOPS * HOLD_TIME_LEN` bytes of
    hold times, `HMAC_LEN * HMAC_COUNT` bytes of truncated HMACs in the triangular layout) -/
structure Attr where
  holdTimes : Bytes
  hmacs : Bytes
  deriving DecidableEq

def slice {α : Type} (b : List α) (off len : Nat) : List α := (b.drop off).take len
/-- `copy_from_slice` / `copy_within` target: overwrite `v.length` bytes at `off` -/
def setSlice {α : Type} (b : List α) (off : Nat) (v : List α) : List α := b.take off ++ v ++ b.drop (off + v.length)
/-- `Vec::resize(n, 0)` -/
def resize (b : Bytes) (n : Nat) : Bytes := (b ++ zeros (n - b.length)).take n

-- mirrors AttributionData::new
def Attr.new : Attr := ⟨zeros (MAX_HOPS * HOLD_TIME_LEN), zeros (HMAC_LEN * HMAC_COUNT)⟩

-- mirrors AttributionData::get_hmac
def Attr.getHmac (a : Attr) (idx : Nat) : Bytes := slice a.hmacs (idx * HMAC_LEN) HMAC_LEN

/-- one iteration of the loop of write_downstream_hmacs: feed `get_hmac(hmac_idx)`, advance by the block size -/
def downstreamStep {α : Type} (h : List α) (acc : List α × Nat) (j : Nat) : List α × Nat :=
  (acc.1 ++ slice h (acc.2 * HMAC_LEN) HMAC_LEN, acc.2 + (MAX_HOPS - j - 1))

/-- mirrors AttributionData::write_downstream_hmacs on the raw `hmacs` array (generic in the element type: it only
    SELECTS data): the bytes fed to the HMAC engine -/
def downstreamG {α : Type} (h : List α) (position : Nat) : List α :=
  ((List.range position).foldl (downstreamStep h) ([], MAX_HOPS + MAX_HOPS - position - 1)).1

/-- mirrors AttributionData::write_downstream_hmacs -/
def Attr.downstreamHmacs (a : Attr) (position : Nat) : Bytes := downstreamG a.hmacs position

/-- the truncated HMAC for an assumed `position` (0 = final node) -/
def Attr.hmacFor (C : OnionCrypto) (a : Attr) (um message : Bytes) (position : Nat) : Bytes :=
  (norm32 (C.mac um (message ++ a.holdTimes.take ((position + 1) * HOLD_TIME_LEN) ++ a.downstreamHmacs position))).take HMAC_LEN

-- mirrors AttributionData::add_hmacs
def Attr.addHmacs (C : OnionCrypto) (a : Attr) (um message : Bytes) : Attr :=
  (List.range MAX_HOPS).foldl (fun a hmacIdx =>
    { a with hmacs := setSlice a.hmacs (hmacIdx * HMAC_LEN) (a.hmacFor C um message (MAX_HOPS - hmacIdx - 1)) }) a

def be32 (n : Nat) : Bytes :=
  [UInt8.ofNat (n / 16777216 % 256), UInt8.ofNat (n / 65536 % 256), UInt8.ofNat (n / 256 % 256), UInt8.ofNat (n % 256)]

-- mirrors AttributionData::update
def Attr.update (C : OnionCrypto) (a : Attr) (um message : Bytes) (holdTime : Nat) : Attr :=
  Attr.addHmacs C { a with holdTimes := setSlice a.holdTimes 0 (be32 holdTime) } um message

/-- mirrors AttributionData::crypt: one ammagext stream over hold times then HMACs -/
def Attr.crypt (C : OnionCrypto) (a : Attr) (ammagext : Bytes) : Attr :=
  ⟨xorB a.holdTimes (ks C ammagext 0 a.holdTimes.length),
   xorB a.hmacs (ks C ammagext a.holdTimes.length a.hmacs.length)⟩

/-- one `self.hmacs.copy_within(src*HMAC_LEN .. (src+len)*HMAC_LEN, dst*HMAC_LEN)` (memmove: the source is
    read before writing) of the shift loops; generic in the element type (the shifts only MOVE data) -/
def copyWithinHm {α : Type} (h : List α) (src dst len : Nat) : List α :=
  setSlice h (dst * HMAC_LEN) (slice h (src * HMAC_LEN) (len * HMAC_LEN))

/-- loop state of the shift loops: (hmacs, src_idx, dest_idx, copy_len) -/
abbrev ShiftSt (α : Type) := List α × Nat × Nat × Nat

def shiftRightStep {α : Type} (st : ShiftSt α) (_ : Nat) : ShiftSt α :=
  (copyWithinHm st.1 st.2.1 st.2.2.1 st.2.2.2, st.2.1 - (st.2.2.2 + 2), st.2.2.1 - (st.2.2.2 + 1), st.2.2.2 + 1)

def shiftLeftStep {α : Type} (st : ShiftSt α) (_ : Nat) : ShiftSt α :=
  (copyWithinHm st.1 st.2.1 st.2.2.1 st.2.2.2, st.2.1 + st.2.2.2, st.2.2.1 + st.2.2.2 + 1, st.2.2.2 - 1)

/-- the hold-time half of AttributionData::shift_right: `copy_within(..(MAX_HOPS-1)*HOLD_TIME_LEN, HOLD_TIME_LEN)` -/
def shiftRightHt {α : Type} (ht : List α) : List α := setSlice ht HOLD_TIME_LEN (ht.take ((MAX_HOPS - 1) * HOLD_TIME_LEN))
/-- the HMAC half of AttributionData::shift_right (the loop, from the last block backwards) -/
def shiftRightHm {α : Type} (h : List α) : List α :=
  ((List.range (MAX_HOPS - 1)).foldl shiftRightStep (h, HMAC_COUNT - 2, HMAC_COUNT - 1, 1)).1
/-- the hold-time half of AttributionData::shift_left: `copy_within(HOLD_TIME_LEN.., 0)` -/
def shiftLeftHt {α : Type} (ht : List α) : List α := setSlice ht 0 (ht.drop HOLD_TIME_LEN)
/-- the HMAC half of AttributionData::shift_left (the loop, from the first block forwards) -/
def shiftLeftHm {α : Type} (h : List α) : List α :=
  ((List.range (MAX_HOPS - 1)).foldl shiftLeftStep (h, MAX_HOPS, 1, MAX_HOPS - 1)).1

/-- mirrors AttributionData::shift_right -/
def Attr.shiftRight (a : Attr) : Attr := ⟨shiftRightHt a.holdTimes, shiftRightHm a.hmacs⟩

/-- mirrors AttributionData::shift_left -/
def Attr.shiftLeft (a : Attr) : Attr := ⟨shiftLeftHt a.holdTimes, shiftLeftHm a.hmacs⟩

/-- mirrors AttributionData::verify -/
def Attr.verify (C : OnionCrypto) (a : Attr) (um message : Bytes) (position : Nat) : Option Nat :=
  if a.hmacFor C um message position = a.getHmac (MAX_HOPS - position - 1)
  then some ((a.holdTimes.take HOLD_TIME_LEN).foldl (fun acc x => acc * 256 + x.toNat) 0) else none

structure FailKeysX where
  um : Bytes
  ammag : Bytes
  ammagext : Bytes

def FailKeysX.base (k : FailKeysX) : FailKeys := ⟨k.um, k.ammag⟩

/-- the hop loop of process_onion_failure_inner with attribution data: hold times of the hops up to
    the failing one (or up to the first hop whose attribution HMAC fails) -/
def decodeGoX (C : OnionCrypto) (count : Nat) : Nat → List FailKeysX → Bytes → Option Attr → Bool → List Nat → FailDecoded × List Nat
  | _, [], _, _, _, holds => (.unattributable, holds)
  | i, k :: rest, pkt, attr, failed, holds =>
    let p := wrapFailure C k.base pkt
    let attr := attr.map (·.crypt C k.ammagext)
    let (attr, failed, holds) :=
      if failed then (attr, failed, holds) else
      match attr with
      | none => (attr, true, holds)
      | some a =>
        if i < count then
          match a.verify C k.um p (count - i - 1) with
          | some h => (some a.shiftLeft, false, holds ++ [h])
          | none => (attr, true, holds)
        else (attr, failed, holds)
    if failMacOk C k.base p then (parseFailure i p, holds) else decodeGoX C count (i + 1) rest p attr failed holds

def decodeFailureX (C : OnionCrypto) (keys : List FailKeysX) (pkt : Bytes) (attr : Option Attr) : FailDecoded × List Nat :=
  if pkt.length < 32 then (.unattributable, []) else
  decodeGoX C (min keys.length MAX_HOPS) 0 keys pkt attr false []

/- process_fulfill_attribution_data / decode_fulfill_attribution_data (the fulfil direction) are TRANSLATED:
   Generated/OnionFail.lean (processFulfillAttributionData, fulfillAttributableHopCount, fulfillPosition,
   decodeFulfillLoop, decodeFulfillAttributionData); theorems in Proofs/OnionFulfil.lean, Props/C14.lean. -/

/-! ## Concrete instantiation: ChaCha20 (zero nonce) / HMAC-SHA256 and LDK's key derivations -/

/-- how many keystream bytes are prepared per key (2 × ONION_DATA_LEN fits); positions beyond come from a
    second, lazily computed table, and beyond that are computed block by block -/
def streamTable : Nat := 4096

/-- second, lazily computed table (failure packets can be as long as a lightning message: 65535 bytes) -/
def streamTableBig : Nat := 66560

def ldkStream (key : Bytes) : KeyStream :=
  let kb := ByteArray.mk key.toArray
  let nonce := ByteArray.mk (Array.replicate 12 0)
  let t := Prim.ChaCha20.streamAtBA kb nonce 0 streamTable
  let big : Thunk ByteArray := Thunk.mk fun _ => Prim.ChaCha20.streamAtBA kb nonce 0 streamTableBig
  ⟨fun i => if i < t.size then t.get! i else if i < streamTableBig then big.get.get! i
            else (Prim.ChaCha20.streamAtBA kb nonce i 1).get! 0⟩

/-- ChaCha20 (IETF, nonce 0) and HMAC-SHA256 — validated against the Rust crates by the c14
    correspondence, not proved -/
def ldk : OnionCrypto := ⟨ldkStream, Prim.hmacSha256⟩

def tag (s : String) : Bytes := s.toUTF8.toList

-- mirrors lightning/src/ln/onion_utils.rs::gen_rho_mu_from_shared_secret
def keysOfSecret (ss : Bytes) : HopKeys := ⟨Prim.hmacSha256 (tag "rho") ss, Prim.hmacSha256 (tag "mu") ss⟩

-- mirrors lightning/src/ln/onion_utils.rs::gen_um_from_shared_secret / gen_ammag_from_shared_secret
def failKeysOfSecret (ss : Bytes) : FailKeys := ⟨Prim.hmacSha256 (tag "um") ss, Prim.hmacSha256 (tag "ammag") ss⟩

-- ... plus gen_ammagext_from_shared_secret
def failKeysXOfSecret (ss : Bytes) : FailKeysX :=
  ⟨Prim.hmacSha256 (tag "um") ss, Prim.hmacSha256 (tag "ammag") ss, Prim.hmacSha256 (tag "ammagext") ss⟩

def hopOfSecret (ss payload : Bytes) : Hop :=
  let k := keysOfSecret ss
  ⟨k.rho, k.mu, payload⟩

/-- mirrors lightning/src/ln/onion_utils.rs::construct_onion_packet: initial packet data is the
    ChaCha20 stream of `prng_seed` -/
def noiseOfSeed (C : OnionCrypto) (seed : Bytes) (L : Nat) : Bytes := ks C seed 0 L

/-- mirrors util::ser::BigSize::read + the FixedLengthReader of `InboundOnionPayload::read`:
    number of bytes taken by a BigSize-length-prefixed payload (canonical encodings only) -/
def bigSizeFrame (b : Bytes) : Option Nat :=
  let be (l : Bytes) : Nat := l.foldl (fun acc x => acc * 256 + x.toNat) 0
  match b with
  | [] => none
  | x :: rest =>
    if x.toNat < 0xfd then some (1 + x.toNat)
    else if x.toNat = 0xfd then
      if rest.length < 2 then none else
      let v := be (rest.take 2); if v < 0xfd then none else some (3 + v)
    else if x.toNat = 0xfe then
      if rest.length < 4 then none else
      let v := be (rest.take 4); if v < 0x10000 then none else some (5 + v)
    else
      if rest.length < 8 then none else
      let v := be (rest.take 8); if v < 0x100000000 then none else some (9 + v)

end Ldk.Onion
