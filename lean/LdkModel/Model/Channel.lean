/- The two-party commitment update protocol as an event-driven state machine (C01, C05, C09).
   Per-HTLC inclusion decisions and the state rewrites of `commitment_signed_update_monitor` /
   `build_commitment_no_status_check` come from the GENERATED tables (Generated/HtlcTables.lean); the
   rewrites of `revoke_and_ack` are mirrored here by hand and pinned by fragment checks in
   tools/gen_htlc_tables.py.  Events are the observable protocol actions of a real run:
     commit x   — x builds a new counterparty commitment (with the updates it newly announces)
     sendRaa x  — x releases the revoke_and_ack it owes
     recv y     — y processes the oldest undelivered message of the peer→y stream (FIFO)
     fee x f    — the funder x decides on a new feerate f (update_fee; it leaves with x's next commit)
     disconnect — the connection drops: everything on the wire is lost, both nodes mark the channel paused
     reest y    — y processes the peer's channel_reestablish and schedules its retransmissions
   so that every interleaving of the two FIFO streams, with disconnections at any point, is an event list.
   No Mathlib. -/
import LdkModel.Generated.HtlcTables
namespace Ldk.Chan

structure InHtlc where
  id : Nat
  amt : Nat
  st : InState
  deriving DecidableEq, Repr, Inhabited

structure OutHtlc where
  id : Nat
  amt : Nat
  st : OutState
  deriving DecidableEq, Repr, Inhabited

/-- what a commitment contains, from the point of view of the party whose transaction it is (the
    broadcaster): HTLCs it offered / received, and the signer-side view of the signer's own balance -/
structure Commit where
  /-- (offered by the broadcaster?, id, amount) -/
  htlcs : List (Bool × Nat × Nat)
  /-- value_to_self of the party that BUILT this view (msat, before fees) -/
  builderBalance : Nat
  /-- feerate_per_kw the transaction is built with -/
  feerate : Nat
  deriving DecidableEq, Repr, Inhabited

/-- FeeUpdateState of `pending_update_fee` -/
inductive FeeState where
  | outbound | remoteAnnounced | awaitingRemoteRevokeToAnnounce
  deriving DecidableEq, Repr, Inhabited

/-- mirrors the `pending_update_fee` arm of build_commitment_transaction: is the pending feerate the one to use? -/
def FeeState.included (st : FeeState) (generatedByLocal : Bool) : Bool :=
  match st with
  | .remoteAnnounced => !generatedByLocal
  | .awaitingRemoteRevokeToAnnounce => !generatedByLocal
  | .outbound => generatedByLocal

inductive Msg where
  | add (id amt : Nat)
  | fulfill (id : Nat)
  | fail (id : Nat)
  | cs (c : Commit)
  | raa
  | fee (f : Nat)
  deriving DecidableEq, Repr, Inhabited

/-- one party's view of the channel -/
structure Node where
  valueToSelf : Nat
  inb : List InHtlc
  outb : List OutHtlc
  awaitingRaa : Bool      -- ChannelState AWAITING_REMOTE_REVOKE
  owesRaa : Nat           -- commitment_signed received and not yet answered
  nextOutId : Nat
  nextInId : Nat
  csSent : Nat            -- INITIAL_COMMITMENT_NUMBER - counterparty_next_commitment_transaction_number
  csRecv : Nat            -- INITIAL_COMMITMENT_NUMBER - holder commitment number
  raaSent : Nat
  raaRecv : Nat
  paused : Bool           -- ChannelState PEER_DISCONNECTED (set on disconnect, cleared by channel_reestablish)
  isFunder : Bool         -- funding.is_outbound(): only the funder sends update_fee
  feerate : Nat           -- feerate_per_kw
  pendingFee : Option (Nat × FeeState)   -- pending_update_fee
  deriving DecidableEq, Repr, Inhabited

structure Sys where
  a : Node
  b : Node
  qab : List Msg          -- a → b, oldest first
  qba : List Msg
  pendA : List Msg        -- update batch a has built (commitment signed) but not yet released to the wire
  pendB : List Msg
  /-- revoke_and_acks the builder owed when it built the pending batch must be on the wire first
      (`resend_order`): release needs `raaSent ≥ needRaa` -/
  needRaaA : Nat
  needRaaB : Nat
  total : Nat             -- channel value in msat
  /-- ghost: did every commitment_signed processed so far match the receiver's own view? -/
  agreed : Bool
  /-- ghost: did every commitment_signed processed so far carry the feerate the receiver computes for its own transaction? -/
  feeAgreed : Bool
  deriving Repr, Inhabited

def Node.init (v : Nat) (funder : Bool) (f0 : Nat) : Node :=
  { valueToSelf := v, inb := [], outb := [], awaitingRaa := false, owesRaa := 0, nextOutId := 0, nextInId := 0,
    csSent := 0, csRecv := 0, raaSent := 0, raaRecv := 0, paused := false, isFunder := funder, feerate := f0, pendingFee := none }

/-- `a` is the funder; `f0` the feerate the channel was opened with -/
def Sys.init (va vb : Nat) (f0 : Nat := 0) : Sys :=
  { a := Node.init va true f0, b := Node.init vb false f0, qab := [], qba := [], pendA := [], pendB := [], needRaaA := 0, needRaaB := 0, total := va + vb, agreed := true, feeAgreed := true }

/-- the feerate of a commitment built now: the pending one iff its state says so -/
def Node.viewFeerate (n : Node) (generatedByLocal : Bool) : Nat :=
  match n.pendingFee with
  | some (f, st) => if st.included generatedByLocal then f else n.feerate
  | none => n.feerate

/-- mirrors ChannelContext::build_commitment_transaction's HTLC selection and claimed-value adjustment.
    `local_` = is this the builder's own transaction; the result lists HTLCs as (offered by broadcaster?). -/
def Node.buildView (n : Node) (local_ generatedByLocal : Bool) : Commit :=
  let inIncl := n.inb.filter (fun h => h.st.included generatedByLocal)
  let outIncl := n.outb.filter (fun h => h.st.included generatedByLocal)
  let claimedToSelf := ((n.inb.filter (fun h => !(h.st.included generatedByLocal) && h.st.hasPreimage)).map (·.amt)).sum
  let claimedToRemote := ((n.outb.filter (fun h => !(h.st.included generatedByLocal) && h.st.hasPreimage)).map (·.amt)).sum
  -- inbound HTLCs are offered by the peer: offered-by-broadcaster iff the broadcaster is the peer (local_ = false)
  { htlcs := inIncl.map (fun h => (!local_, h.id, h.amt)) ++ outIncl.map (fun h => (local_, h.id, h.amt)),
    builderBalance := n.valueToSelf + claimedToSelf - claimedToRemote,
    feerate := n.viewFeerate generatedByLocal }

def sumAmt (l : List (Bool × Nat × Nat)) : Nat := (l.map (fun x => x.2.2)).sum

/-- the receiver of a commitment_signed accepts it iff its own view of its transaction has the same
    HTLC set (as a multiset: the real code compares signatures over the sorted transaction) and the
    balances of the two views add up to the channel value -/
def insertH (x : Bool × Nat × Nat) : List (Bool × Nat × Nat) → List (Bool × Nat × Nat)
  | [] => [x]
  | y :: ys => if (x.1 == false && y.1 == true) || (x.1 == y.1 && x.2.1 ≤ y.2.1) then x :: y :: ys else y :: insertH x ys
def sortH (l : List (Bool × Nat × Nat)) : List (Bool × Nat × Nat) := l.foldr insertH []

def viewsAgree (total : Nat) (signer holder : Commit) : Bool :=
  sortH signer.htlcs == sortH holder.htlcs &&
  -- a pending HTLC stays inside its offerer's value_to_self until its removal is irrevocable, so the two
  -- builders' balances (each already adjusted for removals the commitment no longer contains) partition
  -- the channel value
  signer.builderBalance + holder.builderBalance == total

inductive Ev where
  /-- x announces the given new updates and signs the peer's next commitment -/
  | commit (x : Bool) (adds : List Nat) (fulfills fails : List Nat)   -- x = true: node a
  /-- x puts the batch it built (updates + commitment_signed) on the wire (after its monitor update completed) -/
  | release (x : Bool)
  | sendRaa (x : Bool)
  | recv (y : Bool)
  /-- the funder x picks a new feerate (send_update_fee: `pending_update_fee = (f, Outbound)`); the update_fee
      message leaves with the commitment x builds next -/
  | fee (x : Bool) (f : Nat)
  /-- peer_disconnected on both nodes; messages on the wire are lost -/
  | disconnect
  /-- y processes the peer's channel_reestablish (after a reconnection) -/
  | reest (y : Bool)
  deriving Repr, Inhabited

def setIn (l : List InHtlc) (id : Nat) (f : InState → InState) : List InHtlc :=
  l.map (fun h => if h.id = id then { h with st := f h.st } else h)
def setOut (l : List OutHtlc) (id : Nat) (f : OutState → OutState) : List OutHtlc :=
  l.map (fun h => if h.id = id then { h with st := f h.st } else h)

/-- announce new adds (LocalAnnounced) -/
def Node.addOut (n : Node) (amts : List Nat) : Node × List Msg :=
  amts.foldl (fun (acc : Node × List Msg) amt =>
    let m : Node := acc.1
    (({ m with outb := m.outb ++ [{ id := m.nextOutId, amt := amt, st := .localAnnounced }], nextOutId := m.nextOutId + 1 } : Node),
     acc.2 ++ [Msg.add m.nextOutId amt])) (n, [])

/-- AwaitingRemoteRevokeToAnnounce fee update -> Committed (build_commitment_no_status_check and revoke_and_ack) -/
def Node.promoted (n : Node) : Nat × Option (Nat × FeeState) :=
  match n.pendingFee with
  | some (f, .awaitingRemoteRevokeToAnnounce) => (f, none)
  | _ => (n.feerate, n.pendingFee)
def Node.promoteFee (n : Node) : Node := { n with feerate := n.promoted.1, pendingFee := n.promoted.2 }

/-- the update_fee of a batch: present iff our own fee update is pending -/
def Node.feeMsgs (n : Node) : List Msg :=
  match n.pendingFee with
  | some (f, .outbound) => [Msg.fee f]
  | _ => []

/-- mirrors build_commitment_no_status_check: rewrites, then the counterparty view, then AwaitingRemoteRevoke -/
def Node.commit (n : Node) (adds fulfills fails : List Nat) : Option (Node × List Msg) :=
  if n.awaitingRaa then none else
  -- removals must target inbound HTLCs that are irrevocably committed
  if !(fulfills ++ fails).all (fun id => n.inb.any (fun h => h.id = id && h.st == .committed)) then none else
  -- an inbound fee update whose commitment_signed we have received takes effect when we build (AwaitingRemoteRevokeToAnnounce -> feerate_per_kw)
  let n := n.promoteFee
  let (n1, addMsgs) := n.addOut adds
  let inb1 := fulfills.foldl (fun l id => setIn l id (fun _ => .localRemoved true)) n1.inb
  let inb2 := fails.foldl (fun l id => setIn l id (fun _ => .localRemoved false)) inb1
  let n2 : Node := { n1 with inb := inb2.map (fun (h : InHtlc) => { h with st := h.st.onBuildCommitment }),
                             outb := n1.outb.map (fun (h : OutHtlc) => { h with st := h.st.onBuildCommitment }) }
  let c := n2.buildView false true
  some ({ n2 with awaitingRaa := true, csSent := n2.csSent + 1 },
        n.feeMsgs ++ addMsgs ++ fulfills.map Msg.fulfill ++ fails.map Msg.fail ++ [Msg.cs c])

/-- mirrors the HTLC part of FundedChannel::revoke_and_ack -/
def Node.onRaa (n : Node) : Option Node :=
  if !n.awaitingRaa then none else
  let gained := ((n.inb.filter (fun h => h.st == .localRemoved true)).map (·.amt)).sum
  let lost := ((n.outb.filter (fun h => h.st == .awaitingRemovedRemoteRevoke true)).map (·.amt)).sum
  let inb := (n.inb.filter (fun h => match h.st with | .localRemoved _ => false | _ => true)).map (fun (h : InHtlc) =>
    match h.st with
    | .awaitingRemoteRevokeToAnnounce => { h with st := .awaitingAnnouncedRemoteRevoke }
    | .awaitingAnnouncedRemoteRevoke => { h with st := .committed }
    | _ => h)
  let outb := (n.outb.filter (fun h => match h.st with | .awaitingRemovedRemoteRevoke _ => false | _ => true)).map (fun (h : OutHtlc) =>
    match h.st with
    | .localAnnounced => { h with st := .committed }
    | .awaitingRemoteRevokeToRemove ok => { h with st := .awaitingRemovedRemoteRevoke ok }
    | _ => h)
  -- Outbound and AwaitingRemoteRevokeToAnnounce fee updates become the committed feerate
  let (fr, pf) := match n.pendingFee with
    | some (f, .outbound) => (f, none)
    | some (f, .awaitingRemoteRevokeToAnnounce) => (f, none)
    | pf => (n.feerate, pf)
  some { n with inb := inb, outb := outb, awaitingRaa := false, raaRecv := n.raaRecv + 1,
                valueToSelf := n.valueToSelf + gained - lost, feerate := fr, pendingFee := pf }

/-- process one incoming message; the Bool is "commitment agreed" (true for non-cs messages) -/
def Node.onMsg (n : Node) (total : Nat) (m : Msg) : Option (Node × Bool) :=
  match m with
  | .add id amt => if id = n.nextInId then
      some ({ n with inb := n.inb ++ [{ id := id, amt := amt, st := .remoteAnnounced }], nextInId := id + 1 }, true) else none
  | .fulfill id => if n.outb.any (fun h => h.id = id && h.st == .committed) then
      some ({ n with outb := setOut n.outb id (fun _ => .remoteRemoved true) }, true) else none
  | .fail id => if n.outb.any (fun h => h.id = id && h.st == .committed) then
      some ({ n with outb := setOut n.outb id (fun _ => .remoteRemoved false) }, true) else none
  | .cs c =>
      let mine := n.buildView true false
      let ok := viewsAgree total c mine
      some ({ n with inb := n.inb.map (fun (h : InHtlc) => { h with st := h.st.onCommitmentSigned }),
                     outb := n.outb.map (fun (h : OutHtlc) => { h with st := h.st.onCommitmentSigned }),
                     owesRaa := n.owesRaa + 1, csRecv := n.csRecv + 1,
                     pendingFee := match n.pendingFee with
                       | some (f, .remoteAnnounced) => some (f, .awaitingRemoteRevokeToAnnounce)
                       | pf => pf }, ok)
  | .raa => (n.onRaa).map (fun n' => (n', true))
  -- FundedChannel::update_fee: only the non-funder accepts it
  | .fee f => if n.isFunder then none else some ({ n with pendingFee := some (f, .remoteAnnounced) }, true)

/-- mirrors FundedChannel::remove_uncommitted_htlcs_and_mark_paused: inbound RemoteAnnounced HTLCs are dropped
    (and `next_counterparty_htlc_id` rewound), outbound RemoteRemoved revert to Committed; idempotent -/
def Node.pause (n : Node) : Node :=
  if n.paused then n else
  { n with inb := n.inb.filter (fun h => h.st != .remoteAnnounced),
           nextInId := n.nextInId - (n.inb.filter (fun h => h.st == .remoteAnnounced)).length,
           outb := n.outb.map (fun (h : OutHtlc) => match h.st with | .remoteRemoved _ => { h with st := .committed } | _ => h),
           pendingFee := (match n.pendingFee with | some (_, .remoteAnnounced) => none | pf => pf),
           paused := true }

/-- mirrors get_last_commitment_update_for_send: the last update batch, regenerated from the current state -/
def Node.lastBatch (n : Node) : List Msg :=
  n.feeMsgs ++
  (n.outb.filter (fun h => h.st == .localAnnounced)).map (fun h => Msg.add h.id h.amt) ++
  (n.inb.filter (fun h => h.st == .localRemoved true)).map (fun h => Msg.fulfill h.id) ++
  (n.inb.filter (fun h => h.st == .localRemoved false)).map (fun h => Msg.fail h.id) ++
  [Msg.cs (n.buildView false true)]

/-- the batch to retransmit: the peer's `next_local_commitment_number` (= peerCsRecv + 1) says whether it has
    processed our latest commitment_signed -/
def Node.retrans (n : Node) (peerCsRecv : Nat) : List Msg :=
  if n.csSent = peerCsRecv then [] else n.lastBatch

/-- mirrors the retransmission decisions of FundedChannel::channel_reestablish; the peer's message carries
    `next_local_commitment_number = peerCsRecv + 1` and `next_remote_commitment_number = peerRaaRecv`.
    Result: the node (revoke_and_acks the peer has not seen are owed again) and the batch to retransmit. -/
def Node.reestablish (n : Node) (peerCsRecv peerRaaRecv : Nat) : Option (Node × List Msg) :=
  if !n.paused then none else
  if !(decide (peerRaaRecv ≤ n.csRecv) && decide (n.csRecv ≤ peerRaaRecv + 1) &&
       decide (peerCsRecv ≤ n.csSent) && decide (n.csSent ≤ peerCsRecv + 1)) then none else
  some ({ n with paused := false, raaSent := peerRaaRecv, owesRaa := n.csRecv - peerRaaRecv },
        n.retrans peerCsRecv)

/-- does an incoming commitment_signed carry the feerate the receiver computes for its own transaction? -/
def Node.feeOk (n : Node) : Msg → Bool
  | .cs c => c.feerate == n.viewFeerate false
  | _ => true

def step (s : Sys) (e : Ev) : Option Sys :=
  match e with
  | .fee true f =>
      if s.a.paused || !s.a.isFunder || s.a.awaitingRaa || s.pendA ≠ [] || s.a.pendingFee.isSome then none
      else some { s with a := { s.a with pendingFee := some (f, .outbound) } }
  | .fee false f =>
      if s.b.paused || !s.b.isFunder || s.b.awaitingRaa || s.pendB ≠ [] || s.b.pendingFee.isSome then none
      else some { s with b := { s.b with pendingFee := some (f, .outbound) } }
  | .disconnect => some { s with a := s.a.pause, b := s.b.pause, qab := [], qba := [] }
  | .reest true => (s.a.reestablish s.b.csRecv s.b.raaRecv).map (fun (n, p) => { s with a := n, pendA := p })
  | .reest false => (s.b.reestablish s.a.csRecv s.a.raaRecv).map (fun (n, p) => { s with b := n, pendB := p })
  | .commit true adds fu fa => if s.a.paused then none else if s.pendA ≠ [] then none else
      (s.a.commit adds fu fa).map (fun (n, ms) => { s with a := n, pendA := ms, needRaaA := s.a.raaSent + s.a.owesRaa })
  | .commit false adds fu fa => if s.b.paused then none else if s.pendB ≠ [] then none else
      (s.b.commit adds fu fa).map (fun (n, ms) => { s with b := n, pendB := ms, needRaaB := s.b.raaSent + s.b.owesRaa })
  | .release true => if s.a.paused then none else if s.pendA = [] || s.a.raaSent < s.needRaaA then none else some { s with qab := s.qab ++ s.pendA, pendA := [] }
  | .release false => if s.b.paused then none else if s.pendB = [] || s.b.raaSent < s.needRaaB then none else some { s with qba := s.qba ++ s.pendB, pendB := [] }
  | .sendRaa true => if s.a.paused then none else if s.a.owesRaa = 0 then none else
      some { s with a := { s.a with owesRaa := s.a.owesRaa - 1, raaSent := s.a.raaSent + 1 }, qab := s.qab ++ [Msg.raa] }
  | .sendRaa false => if s.b.paused then none else if s.b.owesRaa = 0 then none else
      some { s with b := { s.b with owesRaa := s.b.owesRaa - 1, raaSent := s.b.raaSent + 1 }, qba := s.qba ++ [Msg.raa] }
  | .recv true =>   -- a receives from b
      if s.a.paused then none else
      match s.qba with
      | [] => none
      | m :: rest => (s.a.onMsg s.total m).map (fun (n, ok) =>
          { s with a := n, qba := rest, agreed := s.agreed && ok, feeAgreed := s.feeAgreed && s.a.feeOk m })
  | .recv false =>
      if s.b.paused then none else
      match s.qab with
      | [] => none
      | m :: rest => (s.b.onMsg s.total m).map (fun (n, ok) =>
          { s with b := n, qab := rest, agreed := s.agreed && ok, feeAgreed := s.feeAgreed && s.b.feeOk m })

/-- run an event list; `none` = some event was not enabled (the trace is not a protocol run) -/
def run (s : Sys) : List Ev → Option Sys
  | [] => some s
  | e :: es => match step s e with
    | none => none
    | some s' => run s' es

end Ldk.Chan
