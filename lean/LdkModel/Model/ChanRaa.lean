/- FundedChannel::revoke_and_ack over the GENERATED rewrite tables (Generated/RaaRewrites.lean, tools/gen_raa.py): which HTLCs the
   two retain passes remove, which amounts enter value_to_self_msat_diff and with which sign, the promotions of the iter_mut passes,
   the promotion of pending_update_fee per FeeUpdateState.  This file only applies the tables to the node of the two-party protocol
   model; Props/C01Raa.lean proves the result equal to the hand mirror `Node.onRaa` (Model/Channel.lean) for ALL nodes.  No Mathlib. -/
import LdkModel.Model.ChanPersist
import LdkModel.Generated.RaaRewrites
namespace Ldk.Chan

def Node.onRaaG (n : Node) : Option Node :=
  if !n.awaitingRaa then none else
  let inCounted := ((n.inb.filter (fun h => h.st.raaCounted)).map (·.amt)).sum
  let outCounted := ((n.outb.filter (fun h => h.st.raaCounted)).map (·.amt)).sum
  let inb := n.inb.filterMap (fun (h : InHtlc) => h.st.onRaa.map (fun st => { h with st := st }))
  let outb := n.outb.filterMap (fun (h : OutHtlc) => h.st.onRaa.map (fun st => { h with st := st }))
  let (fr, pf) := match n.pendingFee with
    | some (f, st) => if raaFeePromoted st.code then (f, none) else (n.feerate, some (f, st))
    | none => (n.feerate, none)
  some { n with inb := inb, outb := outb, awaitingRaa := false, raaRecv := n.raaRecv + 1,
                valueToSelf := raaValueToSelf n.valueToSelf inCounted outCounted, feerate := fr, pendingFee := pf }

end Ldk.Chan
