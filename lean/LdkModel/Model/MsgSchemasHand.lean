import LdkModel.Model.Codec
/-!
  Model/MsgSchemasHand.lean — hand-written schemas for peer messages whose codec in
  lightning/src/ln/msgs.rs is a hand-written `impl Writeable` / `impl LengthReadable` (C13).

  Two shapes:
  * `Schema` (fixed fields, then a TLV stream) for OpenChannel / AcceptChannel / OpenChannelV2 /
    AcceptChannelV2 — all generic theorems of Props/C13 apply through `hand_schemas_wf`;
  * `TailSchema` (self-delimiting fields, then `excess_data = read_to_end(r)`, NO TLV stream) for the gossip
    messages (Unsigned)ChannelAnnouncement and (Unsigned)ChannelUpdate.

  Tie to the source: tools/gen_msg_schemas.py extracts, from the reader and writer bodies, the field order,
  the Rust field types (mapped to `FieldTy` by the same table as the macro-declared messages), the TLV lists
  and the trailing `read_to_end` into `Generated/MsgSchemas.lean::handPinned` (TRANSLATE-ERROR if a reader
  is no longer a plain field sequence or reader and writer disagree on the order); Props/C13
  `hand_schemas_match_source` proves by `decide` that the schemas below ARE that extracted layout.
-/
namespace Ldk.Codec.Hand
open Ldk.Codec

def u64 : FieldTy := .uint 8
def u32 : FieldTy := .uint 4
def u16 : FieldTy := .uint 2
def u8 : FieldTy := .uint 1
def h32 : FieldTy := .fixed 32 .any      -- ChainHash / ChannelId
def point : FieldTy := .fixed 33 .point  -- PublicKey (validated)
def nodeId : FieldTy := .fixed 33 .any   -- routing::gossip::NodeId: 33 raw bytes, NOT validated
def sig : FieldTy := .fixed 64 .sig

/-- TLVs shared by the four channel-open messages.
    0: `shutdown_scriptpubkey`, `(option, encoding: (ScriptBuf, WithoutLength))` — raw script bytes to the end of the record;
    1: `channel_type: Option<ChannelTypeFeatures>` — `impl_feature_tlv_write!`: flag bytes to the end of the record, kept as they are -/
def openTlvs : List TlvField := [⟨0, "shutdown_scriptpubkey", .restBytes, .option⟩, ⟨1, "channel_type", .restBytes, .option⟩]

/-- …plus, for the V2 messages, 2: `require_confirmed_inputs: Option<()>`, 103: `disable_channel_reserve: Option<()>` -/
def openV2Tlvs : List TlvField :=
  openTlvs ++ [⟨2, "require_confirmed_inputs", .unit, .option⟩, ⟨103, "disable_channel_reserve", .unit, .option⟩]

/-- mirrors msgs.rs `impl Writeable for OpenChannel` / `impl LengthReadable for OpenChannel`:
    chain_hash, temporary_channel_id, funding_satoshis, push_msat, dust_limit_satoshis, max_htlc_value_in_flight_msat,
    channel_reserve_satoshis, htlc_minimum_msat, commitment_feerate_sat_per_1000_weight (u32), to_self_delay (u16),
    max_accepted_htlcs (u16), funding_pubkey, revocation_basepoint, payment_basepoint, delayed_payment_basepoint,
    htlc_basepoint, first_per_commitment_point, channel_flags (u8); `decode_tlv_stream!(r, {(0, …), (1, …)})` -/
def schema_OpenChannel : Schema where
  name := "OpenChannel"
  fixedNames := ["chain_hash", "temporary_channel_id", "funding_satoshis", "push_msat", "dust_limit_satoshis",
    "max_htlc_value_in_flight_msat", "channel_reserve_satoshis", "htlc_minimum_msat", "commitment_feerate_sat_per_1000_weight",
    "to_self_delay", "max_accepted_htlcs", "funding_pubkey", "revocation_basepoint", "payment_basepoint",
    "delayed_payment_basepoint", "htlc_basepoint", "first_per_commitment_point", "channel_flags"]
  fixed := [h32, h32, u64, u64, u64, u64, u64, u64, u32, u16, u16, point, point, point, point, point, point, u8]
  tlvs := openTlvs

/-- mirrors msgs.rs `impl Writeable for AcceptChannel` / `impl LengthReadable for AcceptChannel`:
    temporary_channel_id, dust_limit_satoshis, max_htlc_value_in_flight_msat, channel_reserve_satoshis, htlc_minimum_msat,
    minimum_depth (u32), to_self_delay (u16), max_accepted_htlcs (u16), six public keys; TLVs 0, 1 -/
def schema_AcceptChannel : Schema where
  name := "AcceptChannel"
  fixedNames := ["temporary_channel_id", "dust_limit_satoshis", "max_htlc_value_in_flight_msat", "channel_reserve_satoshis",
    "htlc_minimum_msat", "minimum_depth", "to_self_delay", "max_accepted_htlcs", "funding_pubkey", "revocation_basepoint",
    "payment_basepoint", "delayed_payment_basepoint", "htlc_basepoint", "first_per_commitment_point"]
  fixed := [h32, u64, u64, u64, u64, u32, u16, u16, point, point, point, point, point, point]
  tlvs := openTlvs

/-- mirrors msgs.rs `impl Writeable for OpenChannelV2` / `impl LengthReadable for OpenChannelV2`:
    chain_hash, temporary_channel_id, funding_feerate_sat_per_1000_weight (u32), commitment_feerate_sat_per_1000_weight (u32),
    funding_satoshis, dust_limit_satoshis, max_htlc_value_in_flight_msat, htlc_minimum_msat, to_self_delay (u16),
    max_accepted_htlcs (u16), locktime (u32), seven public keys (… first_per_commitment_point, second_per_commitment_point),
    channel_flags (u8); TLVs 0, 1, 2, 103 -/
def schema_OpenChannelV2 : Schema where
  name := "OpenChannelV2"
  fixedNames := ["chain_hash", "temporary_channel_id", "funding_feerate_sat_per_1000_weight", "commitment_feerate_sat_per_1000_weight",
    "funding_satoshis", "dust_limit_satoshis", "max_htlc_value_in_flight_msat", "htlc_minimum_msat", "to_self_delay",
    "max_accepted_htlcs", "locktime", "funding_pubkey", "revocation_basepoint", "payment_basepoint", "delayed_payment_basepoint",
    "htlc_basepoint", "first_per_commitment_point", "second_per_commitment_point", "channel_flags"]
  fixed := [h32, h32, u32, u32, u64, u64, u64, u64, u16, u16, u32, point, point, point, point, point, point, point, u8]
  tlvs := openV2Tlvs

/-- mirrors msgs.rs `impl Writeable for AcceptChannelV2` / `impl LengthReadable for AcceptChannelV2`:
    temporary_channel_id, funding_satoshis, dust_limit_satoshis, max_htlc_value_in_flight_msat, htlc_minimum_msat,
    minimum_depth (u32), to_self_delay (u16), max_accepted_htlcs (u16), seven public keys; TLVs 0, 1, 2, 103 -/
def schema_AcceptChannelV2 : Schema where
  name := "AcceptChannelV2"
  fixedNames := ["temporary_channel_id", "funding_satoshis", "dust_limit_satoshis", "max_htlc_value_in_flight_msat",
    "htlc_minimum_msat", "minimum_depth", "to_self_delay", "max_accepted_htlcs", "funding_pubkey", "revocation_basepoint",
    "payment_basepoint", "delayed_payment_basepoint", "htlc_basepoint", "first_per_commitment_point", "second_per_commitment_point"]
  fixed := [h32, u64, u64, u64, u64, u32, u16, u16, point, point, point, point, point, point, point]
  tlvs := openV2Tlvs

def handSchemas : List Schema := [schema_OpenChannel, schema_AcceptChannel, schema_OpenChannelV2, schema_AcceptChannelV2]

/-! ## messages ending in `excess_data` -/

/-- self-delimiting fields in order, then everything left is `excess_data` (`read_to_end(r)`); no TLV stream.
    `lowBitField = some i`: after ALL fields were read, field `i` (a `u8`) must have its low bit set, else
    InvalidValue (UnsignedChannelUpdate `message_flags & 1`); the writer emits `field | 1`, the identity on such values. -/
structure TailSchema where
  name : String
  fixedNames : List String
  fixed : List FieldTy
  lowBitField : Option Nat
  deriving DecidableEq, Repr

def TailSchema.postOk (s : TailSchema) (vs : List Val) : Bool :=
  match s.lowBitField with
  | none => true
  | some i => match vs[i]? with
    | some (.nat x) => x % 2 == 1
    | _ => false

/-- mirrors the `LengthReadable` impls of the gossip messages: fields in order (first error wins), the rest is
    excess data, then the low-bit check -/
def TailSchema.decode (s : TailSchema) (b : Bytes) : Res (List Val × Bytes) :=
  match decodeFixed s.fixed b with
  | .error e => .error e
  | .ok (vs, rest) => if s.postOk vs then .ok (vs, rest) else .error .InvalidValue

/-- mirrors the `Writeable` impls: fields in order, then `w.write_all(&self.excess_data[..])` -/
def TailSchema.encode (s : TailSchema) (vs : List Val) (excess : Bytes) : Bytes := encodeFixed s.fixed vs ++ excess

def TailSchema.wf (s : TailSchema) : Bool :=
  s.fixed.all (fun t => t.wf && t.selfDelim && t.plain) &&
  (match s.lowBitField with
   | none => true
   | some i => s.fixed[i]? == some (.uint 1))

def TailSchema.valid (s : TailSchema) (vs : List Val) : Bool := validFixed s.fixed vs && s.postOk vs

/-- mirrors msgs.rs `impl Writeable/LengthReadable for UnsignedChannelAnnouncement`: features (ChannelFeatures: u16 length +
    flag bytes), chain_hash, short_channel_id, node_id_1, node_id_2, bitcoin_key_1, bitcoin_key_2 (NodeId ×4), excess_data -/
def unsignedChannelAnnouncementFields : List FieldTy := [.bytes16, h32, u64, nodeId, nodeId, nodeId, nodeId]
def unsignedChannelAnnouncementNames : List String :=
  ["features", "chain_hash", "short_channel_id", "node_id_1", "node_id_2", "bitcoin_key_1", "bitcoin_key_2"]
def tail_UnsignedChannelAnnouncement : TailSchema :=
  ⟨"UnsignedChannelAnnouncement", unsignedChannelAnnouncementNames, unsignedChannelAnnouncementFields, none⟩

/-- mirrors msgs.rs `impl Writeable/LengthReadable for ChannelAnnouncement`: node_signature_1, node_signature_2,
    bitcoin_signature_1, bitcoin_signature_2, contents (the unsigned announcement, to the end of the message) -/
def tail_ChannelAnnouncement : TailSchema :=
  ⟨"ChannelAnnouncement", ["node_signature_1", "node_signature_2", "bitcoin_signature_1", "bitcoin_signature_2"] ++
     unsignedChannelAnnouncementNames.map ("contents." ++ ·),
   [sig, sig, sig, sig] ++ unsignedChannelAnnouncementFields, none⟩

/-- mirrors msgs.rs `impl Writeable/LengthReadable for UnsignedChannelUpdate`: chain_hash, short_channel_id, timestamp (u32),
    message_flags (u8; `& 1` must be 1, checked last; written as `message_flags | 1`), channel_flags (u8),
    cltv_expiry_delta (u16), htlc_minimum_msat, fee_base_msat (u32), fee_proportional_millionths (u32), htlc_maximum_msat,
    excess_data -/
def unsignedChannelUpdateFields : List FieldTy := [h32, u64, u32, u8, u8, u16, u64, u32, u32, u64]
def unsignedChannelUpdateNames : List String :=
  ["chain_hash", "short_channel_id", "timestamp", "message_flags", "channel_flags", "cltv_expiry_delta",
   "htlc_minimum_msat", "fee_base_msat", "fee_proportional_millionths", "htlc_maximum_msat"]
def tail_UnsignedChannelUpdate : TailSchema :=
  ⟨"UnsignedChannelUpdate", unsignedChannelUpdateNames, unsignedChannelUpdateFields, some 3⟩

/-- mirrors msgs.rs `impl Writeable/LengthReadable for ChannelUpdate`: signature, contents -/
def tail_ChannelUpdate : TailSchema :=
  ⟨"ChannelUpdate", "signature" :: unsignedChannelUpdateNames.map ("contents." ++ ·), sig :: unsignedChannelUpdateFields, some 4⟩

def tailSchemas : List TailSchema :=
  [tail_UnsignedChannelAnnouncement, tail_ChannelAnnouncement, tail_UnsignedChannelUpdate, tail_ChannelUpdate]

/-- the layout of all hand-written schemas in the format of `Generated/MsgSchemas.lean::handPinned` -/
def handLayout : List HandLayout :=
  handSchemas.map (fun s => ⟨s.name, s.fixedNames, s.fixed, s.tlvs.map (fun f => (f.typ, f.ty)), false, none⟩) ++
  tailSchemas.map (fun s => ⟨s.name, s.fixedNames, s.fixed, [], true, s.lowBitField⟩)

/-! ## ErrorMessage / WarningMessage / Ping / Pong (irregular hand-written codecs: own small decoders)

  Pinned to the source by a textual check in tools/gen_msg_schemas.py (`HAND_FRAGMENTS`: the whitespace-normalised
  bodies of the eight impls; TRANSLATE-ERROR when one of them changes). -/

/-- UTF-8 validation automaton state: `need` continuation bytes outstanding; the NEXT byte must lie in `[lo, hi]` -/
structure Utf8St where
  need : Nat
  lo : Nat
  hi : Nat
  deriving DecidableEq, Repr

/-- one byte of `core::str::from_utf8` validation (Unicode Standard, table 3-7 "well-formed UTF-8 byte sequences":
    no overlong forms, no surrogates, nothing above U+10FFFF); `none` = invalid -/
def utf8Step (st : Option Utf8St) (b : UInt8) : Option Utf8St :=
  match st with
  | none => none
  | some s =>
    let x := b.toNat
    if s.need = 0 then
      if x < 0x80 then some ⟨0, 0, 0⟩
      else if 0xC2 ≤ x ∧ x ≤ 0xDF then some ⟨1, 0x80, 0xBF⟩
      else if x = 0xE0 then some ⟨2, 0xA0, 0xBF⟩
      else if x = 0xED then some ⟨2, 0x80, 0x9F⟩
      else if 0xE1 ≤ x ∧ x ≤ 0xEF then some ⟨2, 0x80, 0xBF⟩
      else if x = 0xF0 then some ⟨3, 0x90, 0xBF⟩
      else if 0xF1 ≤ x ∧ x ≤ 0xF3 then some ⟨3, 0x80, 0xBF⟩
      else if x = 0xF4 then some ⟨3, 0x80, 0x8F⟩
      else none
    else if s.lo ≤ x ∧ x ≤ s.hi then some ⟨s.need - 1, 0x80, 0xBF⟩
    else none

/-- mirrors `String::from_utf8(data).is_ok()` -/
def validUtf8 (b : Bytes) : Bool :=
  match b.foldl utf8Step (some ⟨0, 0, 0⟩) with
  | some s => s.need == 0
  | none => false

/-- mirrors msgs.rs `impl LengthReadable for ErrorMessage` (WarningMessage is identical): channel_id (32 bytes), u16 size,
    `read_exact` of that many bytes, `String::from_utf8` else InvalidValue.  Bytes after the string are not read.
    Result: (channel id, data bytes). -/
def decodeErrorMsg (b : Bytes) : Res (Bytes × Bytes) :=
  if b.length < 32 then .error .ShortRead
  else
    match readUint 2 (b.drop 32) with
    | .error e => .error e
    | .ok (len, r) =>
      if r.length < len then .error .ShortRead
      else if validUtf8 (r.take len) then .ok (b.take 32, r.take len)
      else .error .InvalidValue

/-- mirrors msgs.rs `impl Writeable for ErrorMessage` / `WarningMessage`: channel_id, `(data.len() as u16)`, the bytes -/
def encodeErrorMsg (cid data : Bytes) : Bytes := cid ++ (beEncode 2 data.length ++ data)

/-- mirrors msgs.rs `impl LengthReadable for Ping`: ponglen (u16), byteslen (u16), `read_exact` of byteslen padding bytes
    (content ignored).  Result: (ponglen, byteslen). -/
def decodePing (b : Bytes) : Res (Nat × Nat) :=
  match readUint 2 b with
  | .error e => .error e
  | .ok (ponglen, r) =>
    match readUint 2 r with
    | .error e => .error e
    | .ok (byteslen, r2) => if r2.length < byteslen then .error .ShortRead else .ok (ponglen, byteslen)

/-- mirrors msgs.rs `impl Writeable for Ping`: ponglen, then `vec![0u8; byteslen].write(w)` — a `Vec<u8>` write, i.e. a
    CollectionLength prefix (for byteslen = 0xffff that is `ffff` + eight zero bytes) and byteslen zero bytes -/
def encodePing (ponglen byteslen : Nat) : Bytes := beEncode 2 ponglen ++ (CollLen.encode byteslen ++ List.replicate byteslen 0)

/-- mirrors msgs.rs `impl LengthReadable for Pong`: byteslen (u16), `read_exact` of byteslen padding bytes -/
def decodePong (b : Bytes) : Res Nat :=
  match readUint 2 b with
  | .error e => .error e
  | .ok (byteslen, r) => if r.length < byteslen then .error .ShortRead else .ok byteslen

/-- mirrors msgs.rs `impl Writeable for Pong`: `vec![0u8; byteslen].write(w)` -/
def encodePong (byteslen : Nat) : Bytes := CollLen.encode byteslen ++ List.replicate byteslen 0

/-- names of the messages handled by the four decoders above -/
def customNames : List String := ["ErrorMessage", "WarningMessage", "Ping", "Pong"]

end Ldk.Codec.Hand
