/-! C12: the per-HTLC optional vectors of `FundedChannel::write` / `::read` (TLVs 15, 35–41, 55–79) as a model over the TRANSLATED
    rows of Generated/ChanSideVecs.lean (tools/gen_chan_sidevecs.py).  No Mathlib. -/
namespace Ldk.ChanSideVecs

/-- one optional vector: TLV type, writer vector, list it is collected from (`in` / `out` / `hold`), element kinds in which the
    writer pushes an entry, reader variable, element kinds in which the reader consumes an entry, reader rejects left-overs -/
structure SideRow where
  tlv : Nat
  wvec : String
  list : String
  push : List String
  rvar : String
  attach : List String
  leftover : Bool
deriving DecidableEq, Repr

/-- an element of one of the three lists as far as the vectors care: its kind and the optional value it carries -/
abbrev Elem := String × Option Nat

/-- mirrors FundedChannel::write: `vec.push(value)` in the arms of the kinds in `p`, in list order -/
def collect (p : String → Bool) (l : List Elem) : List (Option Nat) := (l.filter (fun e => p e.1)).map (·.2)

/-- mirrors FundedChannel::read: `for x in list.iter_mut() { if <kind in q> { x.field = iter.next().ok_or(InvalidValue)? } }` followed by
    `if iter.next().is_some() { return Err(InvalidValue) }` (when `leftover`); elements of other kinds keep the constructor default -/
def reattach (q : String → Bool) (leftover : Bool) : List String → List (Option Nat) → Option (List Elem)
  | [], [] => some []
  | [], _ :: _ => if leftover then none else some []
  | k :: ks, vs =>
    if q k then
      match vs with
      | [] => none
      | v :: vs' => (reattach q leftover ks vs').map ((k, v) :: ·)
    else (reattach q leftover ks vs).map ((k, none) :: ·)

/-- `optional_vec`: an empty vector is not written at all and the reader skips the whole re-attachment -/
def reattachOpt (q : String → Bool) (leftover : Bool) (ks : List String) (vs : List (Option Nat)) : Option (List Elem) :=
  if vs.isEmpty then some (ks.map (·, none)) else reattach q leftover ks vs

/-- the kind a written element is read back as (none: the element is not written) -/
def readAsOf (tab : List (String × String × String)) (list kind : String) : Option String :=
  (tab.find? (fun t => t.1 == list && t.2.1 == kind)).map (·.2.2)

/-- the elements of a list that are written, in order -/
def written (tab : List (String × String × String)) (list : String) (l : List Elem) : List Elem :=
  l.filter (fun e => (readAsOf tab list e.1).isSome)

def readKind (tab : List (String × String × String)) (list kind : String) : String := (readAsOf tab list kind).getD kind

/-- what the channel read back holds for this vector: every written element, as the kind it is read as, with the value re-attached -/
def roundTrip (tab : List (String × String × String)) (r : SideRow) (l : List Elem) : Option (List Elem) :=
  let w := written tab r.list l
  reattachOpt (fun k => r.attach.contains k) r.leftover (w.map (fun e => readKind tab r.list e.1)) (collect (fun k => r.push.contains k) w)

def kindsOfList (kinds : List (String × List String)) (list : String) : List String :=
  ((kinds.find? (·.1 == list)).map (·.2)).getD []

/-- a row is consistent when, for every kind of its list that is written, the reader consumes an entry for the kind it is read back
    as exactly when the writer pushed one -/
def rowConsistent (tab : List (String × String × String)) (kinds : List (String × List String)) (r : SideRow) : Bool :=
  (kindsOfList kinds r.list).all fun k =>
    match readAsOf tab r.list k with
    | none => true
    | some k' => r.attach.contains k' == r.push.contains k

end Ldk.ChanSideVecs
