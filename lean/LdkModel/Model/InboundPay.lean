/- C04 — inbound payments: stateless payment secrets (lightning/src/ln/inbound_payment.rs) and the
   per-payment-hash MPP accumulator of the ChannelManager (lightning/src/ln/channelmanager.rs:
   handle_claimable_htlc / check_incoming_mpp_part / check_mpp_timeout / do_chain_event /
   claim_payment_internal / fail_htlc_backwards).

   No Mathlib.  Cryptography is a PARAMETER (`PayCrypto`): the theorems of Props/C04 are stated over
   an arbitrary `mac`, stream cipher `enc` and `hash`; the driver instantiates it with the executable
   HMAC-SHA256 / ChaCha20 / SHA-256 of `Prim/` (in Driver/C04.lean) and is compared byte for byte
   with the real functions. -/
import LdkModel.Generated.Timing
import LdkModel.Generated.InboundMpp
namespace Ldk.InboundPay
open Ldk

abbrev Bytes := List UInt8

/-! ## bytes ↔ integers -/

/-- Rust `u64::to_be_bytes` (of `n mod 2^64`) -/
def be64 (n : Nat) : Bytes :=
  [UInt8.ofNat (n / 2 ^ 56), UInt8.ofNat (n / 2 ^ 48), UInt8.ofNat (n / 2 ^ 40), UInt8.ofNat (n / 2 ^ 32),
   UInt8.ofNat (n / 2 ^ 24), UInt8.ofNat (n / 2 ^ 16), UInt8.ofNat (n / 2 ^ 8), UInt8.ofNat n]

/-- Rust `u64::to_le_bytes` -/
def le64 (n : Nat) : Bytes := (be64 n).reverse

/-- Rust `uN::from_be_bytes` -/
def fromBE (b : Bytes) : Nat := b.foldl (fun acc x => acc * 256 + x.toNat) 0

/-! ## the 16 `info` bytes -/

/-- mirrors inbound_payment.rs `enum Method` (3 bits) -/
inductive Method where
  | ldkHash | userHash | ldkHashCltv | userHashCltv | spontaneous
  deriving DecidableEq, Repr, Inhabited

def Method.bits : Method → Nat
  | .ldkHash => 0 | .userHash => 1 | .ldkHashCltv => 2 | .userHashCltv => 3 | .spontaneous => 4

/-- mirrors `Method::from_bits` -/
def Method.fromBits : Nat → Option Method
  | 0 => some .ldkHash | 1 => some .userHash | 2 => some .ldkHashCltv | 3 => some .userHashCltv
  | 4 => some .spontaneous | _ => none

/-- the two methods for which `verify` reads a min-final-CLTV out of the expiry bytes -/
def Method.hasCltv : Method → Bool
  | .ldkHashCltv | .userHashCltv => true
  | _ => false

/-- The bit packing of `construct_info_bytes`:
    `min_amt_msat_bytes[0] |= method << 5` on the big-endian amount (= bits 61..63 of the word) and
    `expiry_bytes[0..2] |= min_final_cltv_expiry_delta.to_be_bytes()` (= bits 48..63 of the word). -/
def packInfo (methodBits minAmt expiry : Nat) (cltv : Option Nat) : Bytes :=
  be64 (minAmt ||| (methodBits <<< 61)) ++
  be64 (match cltv with | some d => expiry ||| (d <<< 48) | none => expiry)

/-- what `verify` reads back out of the decrypted info bytes -/
structure InfoFields where
  /-- `(info[0] & 0b1110_0000) >> 5` -/
  methodBits : Nat
  /-- amount bytes with `amt_msat_bytes[0] &= 0b00011111` -/
  amt : Nat
  /-- `min_final_cltv_expiry_delta_from_info`: the first two expiry bytes -/
  cltvBits : Nat
  /-- expiry with the first two bytes zeroed (custom-final-CLTV methods) -/
  expiry48 : Nat
  /-- the full 8 expiry bytes (other methods) -/
  expiry64 : Nat
  deriving DecidableEq, Repr

def unpackInfo (info : Bytes) : InfoFields :=
  let aw := fromBE (info.take 8)
  let ew := fromBE (info.drop 8)
  { methodBits := aw >>> 61, amt := aw % 2 ^ 61, cltvBits := ew >>> 48, expiry48 := ew % 2 ^ 48, expiry64 := ew }

/-- mirrors `calculate_absolute_expiry` -/
def absoluteExpiry (now deltaSecs : Nat) : Nat := now + deltaSecs + 7200

/-- mirrors `construct_info_bytes` (the three `return Err(())` in source order) -/
def constructInfo (minAmt : Option Nat) (m : Method) (deltaSecs now : Nat) (cltv : Option Nat) : Option Bytes :=
  if (match minAmt with | some a => decide (a > MAX_VALUE_MSAT) | none => false) then none else
  let expiry := absoluteExpiry now deltaSecs
  if (match minAmt with | some a => decide (a > 2 ^ 61 - 1) | none => false) then none else
  if cltv.isSome && decide (expiry > 2 ^ 48 - 1) then none else
  some (packInfo m.bits (minAmt.getD 0) expiry cltv)

/-! ## crypto parameters -/

structure PayCrypto where
  /-- HMAC-SHA256 key msg -/
  mac : Bytes → Bytes → Bytes
  /-- `apply_chacha20(key, iv16, data)`: xor with a key stream (same function encrypts and decrypts) -/
  enc : Bytes → Bytes → Bytes → Bytes
  /-- SHA-256 -/
  hash : Bytes → Bytes

/-- The functional facts the theorems use (true of HMAC-SHA256 / ChaCha20 / SHA-256; none of them is
    a security assumption): output lengths, and xor with a key stream is an involution. -/
structure PayCrypto.Wf (C : PayCrypto) : Prop where
  mac_len : ∀ k m, (C.mac k m).length = 32
  enc_len : ∀ k iv d, (C.enc k iv d).length = d.length
  enc_enc : ∀ k iv d, C.enc k iv (C.enc k iv d) = d

/-- the five keys of `ExpandedKey` used by inbound_payment.rs -/
structure Keys where
  infoKey : Bytes
  ldkKey : Bytes
  userKey : Bytes
  spontKey : Bytes
  metaKey : Bytes

/-- `hmac.input(&(metadata.len() as u64).to_le_bytes()); hmac.input(metadata)` when present -/
def metaPart : Option Bytes → Bytes
  | none => []
  | some md => le64 md.length ++ md

/-- mirrors `construct_payment_secret`: IV ‖ enc(info) -/
def constructSecret (C : PayCrypto) (k : Keys) (iv info : Bytes) : Bytes :=
  iv ++ C.enc k.infoKey iv info

/-- mirrors `decrypt_info` -/
def decryptInfo (C : PayCrypto) (k : Keys) (secret : Bytes) : Bytes × Bytes :=
  let iv := secret.take 16
  (iv, C.enc k.infoKey iv (secret.drop 16))

/-- mirrors `inbound_payment::create` (`rand` = `get_secure_random_bytes()`):
    (payment_hash, payment_secret, encrypted metadata) -/
def create (C : PayCrypto) (k : Keys) (minAmt : Option Nat) (deltaSecs : Nat) (rand : Bytes) (now : Nat)
    (cltv : Option Nat) (md : Option Bytes) : Option (Bytes × Bytes × Option Bytes) :=
  match constructInfo minAmt (if cltv.isSome then .ldkHashCltv else .ldkHash) deltaSecs now cltv with
  | none => none
  | some info =>
    let iv := rand.take 16
    let md' := md.map (C.enc k.metaKey iv)
    let preimage := C.mac k.ldkKey (iv ++ info ++ metaPart md')
    some (C.hash preimage, constructSecret C k iv info, md')

/-- mirrors `inbound_payment::create_from_hash`: (payment_secret, encrypted metadata ‖ its IV) -/
def createFromHash (C : PayCrypto) (k : Keys) (minAmt : Option Nat) (hash : Bytes) (deltaSecs : Nat)
    (rand : Bytes) (now : Nat) (cltv : Option Nat) (md : Option Bytes) : Option (Bytes × Option Bytes) :=
  match constructInfo minAmt (if cltv.isSome then .userHashCltv else .userHash) deltaSecs now cltv with
  | none => none
  | some info =>
    let md' := md.map (fun m => C.enc k.metaKey (rand.take 16) m ++ rand.take 16)
    let iv := (C.mac k.userKey (info ++ hash ++ metaPart md')).take 16
    some (constructSecret C k iv info, md')

/-- mirrors `inbound_payment::create_for_spontaneous_payment` -/
def createSpontaneous (C : PayCrypto) (k : Keys) (minAmt : Option Nat) (deltaSecs now : Nat)
    (cltv : Option Nat) : Option Bytes :=
  match constructInfo minAmt .spontaneous deltaSecs now cltv with
  | none => none
  | some info => some (constructSecret C k ((C.mac k.spontKey info).take 16) info)

inductive VerifyErr where
  | unknownMethod | badMac | spontaneousMetadata | shortMetadata | amountTooLow | expired
  deriving DecidableEq, Repr, Inhabited

def VerifyErr.name : VerifyErr → String
  | .unknownMethod => "UnknownMethod" | .badMac => "BadMac" | .spontaneousMetadata => "SpontaneousMetadata"
  | .shortMetadata => "ShortMetadata" | .amountTooLow => "AmountTooLow" | .expired => "Expired"

/-- result of the authentication stage of `verify` -/
structure MacOk where
  preimage : Option Bytes
  /-- `payment_metadata` after the in-place decryption -/
  metadata : Option Bytes
  deriving DecidableEq, Repr

/-- The first `match payment_type_res` of `verify`: everything that happens before the amount and
    expiry are looked at ("Make sure to check the HMAC before doing the other checks below").
    It has no access to `total_msat` / `highest_seen_timestamp`. -/
def macStage (C : PayCrypto) (k : Keys) (hash secret : Bytes) (md : Option Bytes) : Except VerifyErr MacOk :=
  let (iv, info) := decryptInfo C k secret
  match Method.fromBits (unpackInfo info).methodBits with
  | none => .error .unknownMethod
  | some .spontaneous =>
    if md.isSome then .error .spontaneousMetadata
    else if iv ≠ (C.mac k.spontKey info).take 16 then .error .badMac
    else .ok ⟨none, none⟩
  | some .ldkHash | some .ldkHashCltv =>
    -- derive_ldk_payment_preimage
    let pre := C.mac k.ldkKey (iv ++ info ++ metaPart md)
    if hash ≠ C.hash pre then .error .badMac
    else .ok ⟨some pre, md.map (C.enc k.metaKey iv)⟩
  | some .userHash | some .userHashCltv =>
    if iv ≠ (C.mac k.userKey (info ++ hash ++ metaPart md)).take 16 then .error .badMac
    else match md with
      | none => .ok ⟨none, none⟩
      | some m =>
        if m.length < 16 then .error .shortMetadata
        else
          let n := m.length - 16
          .ok ⟨none, some (C.enc k.metaKey (m.drop n) (m.take n))⟩

structure VerifyOk where
  preimage : Option Bytes
  minFinalCltv : Option Nat
  metadata : Option Bytes
  deriving DecidableEq, Repr

/-- the (method-dependent) fields the second half of `verify` compares -/
def infoOf (C : PayCrypto) (k : Keys) (secret : Bytes) : InfoFields := unpackInfo (decryptInfo C k secret).2

def hasCltvOf (f : InfoFields) : Bool :=
  match Method.fromBits f.methodBits with
  | some m => m.hasCltv
  | none => false

/-- mirrors `inbound_payment::verify`: authentication first, then `total_msat < min_amt_msat`, then
    `expiry < highest_seen_timestamp`. -/
def verify (C : PayCrypto) (k : Keys) (hash secret : Bytes) (totalMsat : Nat) (md : Option Bytes) (now : Nat) :
    Except VerifyErr VerifyOk :=
  match macStage C k hash secret md with
  | .error e => .error e
  | .ok r =>
    let f := infoOf C k secret
    let cl := hasCltvOf f
    if totalMsat < f.amt then .error .amountTooLow
    else if (if cl then f.expiry48 else f.expiry64) < now then .error .expired
    else .ok ⟨r.preimage, if cl then some f.cltvBits else none, r.metadata⟩

/-- SPECIFICATION predicate (not used by `verify`): the authentication equation a
    (hash, secret, metadata) triple has to satisfy under the method its decrypted info names.
    LDK-hash methods: the payment hash is the SHA-256 of the HMAC over IV ‖ info ‖ metadata;
    user-hash methods: the IV is the truncated HMAC over info ‖ hash ‖ metadata (and a present
    metadata carries its 16-byte IV); spontaneous: the IV is the truncated HMAC over info, no metadata. -/
def MacEq (C : PayCrypto) (k : Keys) (hash secret : Bytes) (md : Option Bytes) : Prop :=
  let iv := (decryptInfo C k secret).1
  let info := (decryptInfo C k secret).2
  match Method.fromBits (unpackInfo info).methodBits with
  | none => False
  | some .spontaneous => md = none ∧ iv = (C.mac k.spontKey info).take 16
  | some .ldkHash | some .ldkHashCltv => hash = C.hash (C.mac k.ldkKey (iv ++ info ++ metaPart md))
  | some .userHash | some .userHashCltv =>
    iv = (C.mac k.userKey (info ++ hash ++ metaPart md)).take 16 ∧ ∀ m, md = some m → 16 ≤ m.length

/-- the minimum amount / absolute expiry / min-final-CLTV `verify` reads out of a secret -/
def minAmtOf (C : PayCrypto) (k : Keys) (secret : Bytes) : Nat := (infoOf C k secret).amt
def expiryOf (C : PayCrypto) (k : Keys) (secret : Bytes) : Nat :=
  if hasCltvOf (infoOf C k secret) then (infoOf C k secret).expiry48 else (infoOf C k secret).expiry64
def minFinalCltvOf (C : PayCrypto) (k : Keys) (secret : Bytes) : Option Nat :=
  if hasCltvOf (infoOf C k secret) then some (infoOf C k secret).cltvBits else none

/-! ## the MPP accumulator of one payment hash -/

/-- one `ClaimableHTLC` (`MppPart` + the onion fields it arrived with) -/
structure Part where
  /-- order key standing for `(prev_hop.channel_id, prev_hop.htlc_id)` (`impl Ord for MppPart`) -/
  id : Nat
  /-- amount actually received on the HTLC -/
  value : Nat
  /-- `sender_intended_value` (the onion's amt_to_forward) -/
  intended : Nat
  /-- `ClaimableHTLC::counterparty_skimmed_fee_msat` (the `skimmed_fee_msat` TLV of the update_add_htlc) -/
  skim : Option Nat
  cltv : Nat
  /-- `timer_ticks` -/
  ticks : Nat
  /-- `total_value_received`: set on every part when the set completes -/
  totalRecv : Option Nat
  /-- onion fields of this part: `total_msat`, a tag standing for (payment_secret, payment_metadata,
      purpose), and whether there are even custom TLVs (compared exactly by `check_merge`) -/
  total : Nat
  tag : Nat
  evenTlv : Bool
  deriving DecidableEq, Repr

/-- `claimable_payments[hash]` (absent ⇔ `parts = []`) and `pending_claiming_payments.contains(hash)` -/
structure Mpp where
  parts : List Part
  /-- `ClaimablePayment::onion_fields` (taken from the first part) -/
  total : Nat
  tag : Nat
  evenTlv : Bool
  claiming : Bool
  deriving DecidableEq, Repr

def Mpp.init : Mpp := { parts := [], total := 0, tag := 0, evenTlv := false, claiming := false }

inductive Op where
  /-- an HTLC that passed `verify` reaches `handle_claimable_htlc`: `value` = amount of the
      update_add_htlc, `intended` = the onion's amt_to_forward, `skim` = its skimmed_fee_msat TLV -/
  | part (id value intended : Nat) (skim : Option Nat) (total cltv tag : Nat) (evenTlv : Bool)
  /-- `timer_tick_occurred` -/
  | tick
  /-- `best_block_updated` / `transactions_confirmed` at height `h` (`do_chain_event`) -/
  | block (h : Nat)
  /-- `claim_funds` (`known = false`) / `claim_funds_with_known_custom_tlvs` (`known = true`) -/
  | claim (known : Bool)
  /-- the claim's monitor updates completed: `PaymentClaimed` surfaced, `pending_claiming_payments` entry removed -/
  | claimDone
  /-- `fail_htlc_backwards` -/
  | failBack
  deriving DecidableEq, Repr

inductive Out where
  /-- `Event::PaymentClaimable { amount_msat, counterparty_skimmed_fee_msat, claim_deadline }` -/
  | claimable (amount skim deadline : Nat)
  /-- the HTLC is failed back (`update_fail_htlc`) -/
  | failPart (id : Nat)
  /-- the preimage is released on the HTLC (`update_fulfill_htlc`) -/
  | fulfilPart (id : Nat)
  /-- `Event::PaymentClaimed { amount_msat, htlcs, sender_intended_total_msat }` (generated for this
      claim): the amount, the sum of the per-HTLC `counterparty_skimmed_fee_msat`, the onion total -/
  | claimed (amount skim total : Nat)
  /-- the `debug_assert!(false)` "should not be reachable" branch of `claim_payment_internal` was entered
      (parts with different `total_value_received`); release builds continue as modelled -/
  | inconsistent
  deriving DecidableEq, Repr

/-- the part as the TRANSLATED decision functions of Generated/InboundMpp.lean (`MppGen`) see it -/
def Part.g (p : Part) : MppGen.PartG :=
  { value := p.value, sender_intended_value := p.intended, timer_ticks := p.ticks, total_value_received := p.totalRecv,
    cltv_expiry := p.cltv, counterparty_skimmed_fee_msat := p.skim }

def sumIntended (ps : List Part) : Nat := (ps.map (·.intended)).sum
def sumValue (ps : List Part) : Nat := (ps.map (·.value)).sum
/-- `ClaimablePayment::total_counterparty_skimmed_msat` -/
def sumSkim (ps : List Part) : Nat := (ps.map (·.skim.getD 0)).sum

/-- mirrors the loop of `check_incoming_mpp_part` (with its early `break`) -/
def accIntended (acc : Nat) : List Part → Nat
  | [] => acc
  | p :: ps =>
    let t := acc + p.intended
    if t ≥ MAX_VALUE_MSAT then t else accIntended t ps

def insertPart (p : Part) : List Part → List Part
  | [] => [p]
  | q :: qs => if p.id ≤ q.id then p :: q :: qs else q :: insertPart p qs

/-- `htlc_set.sort()` (by `(channel_id, htlc_id)`; keys are unique, so any sorting algorithm gives
    the same list — insertion sort, structurally recursive) -/
def sortParts (ps : List Part) : List Part := ps.foldr insertPart []

/-- `htlcs.iter().map(|h| h.cltv_expiry).min()` -/
def minCltv (ps : List Part) : Option Nat := (ps.map (·.cltv)).min?

/-- `RecipientOnionFields` (+ the payment purpose) of a part / of the entry as the TRANSLATED `check_merge`,
    purpose test and unknown-even-TLV test read them.  The model's `tag` stands for the tuple (payment_secret,
    payment_metadata, purpose, values of the even custom TLVs), so it fills every one of those slots; `ev` says
    whether there is an even custom TLV at all (type 65536 in the harness).  Odd custom TLVs never decide anything
    (check_merge intersects them) and are not represented. -/
def onionOf (total tag : Nat) (ev : Bool) : MppGen.OnionG :=
  { payment_secret := tag, payment_metadata := tag, total_mpp_amount_msat := total,
    custom_tlvs := if ev then [(65536, tag)] else [] }

/-- mirrors `handle_claimable_htlc` + `check_incoming_mpp_part` for one new part; the gates in front of the amount
    decisions are the TRANSLATED ones (`MppGen.pendingClaimRefuses`, `purposeMismatch`, `checkMergeErr`) -/
def stepPart (s : Mpp) (p : Part) : Mpp × List Out :=
  if MppGen.pendingClaimRefuses s.claiming then (s, [.failPart p.id]) else
  -- `entry(payment_hash).or_insert_with(..)`: the first part defines the payment's onion fields
  let first := s.parts.isEmpty
  let total := if first then p.total else s.total
  let tag := if first then p.tag else s.tag
  let ev := if first then p.evenTlv else s.evenTlv
  -- purpose comparison + RecipientOnionFields::check_merge
  if MppGen.purposeMismatch p.tag tag || MppGen.checkMergeErr (onionOf total tag ev) (onionOf p.total p.tag p.evenTlv) then
    (s, [.failPart p.id]) else
  let t := accIntended p.intended s.parts
  if t ≥ MAX_VALUE_MSAT then (s, [.failPart p.id])
  else if t - p.intended ≥ total then (s, [.failPart p.id])      -- "payment is already claimable"
  else if t ≥ total then
    let all := s.parts ++ [p]
    let amount := sumValue all
    let all' := sortParts (all.map fun q => { q with totalRecv := some amount })
    -- `claim_deadline`: the TRANSLATED expression of handle_claimable_htlc over the (sorted) completed set
    let deadline := MppGen.eventClaimDeadline (all'.map Part.g) p.cltv
    ({ s with parts := all', total := total, tag := tag, evenTlv := ev }, [.claimable amount (sumSkim all) deadline])
  else
    ({ s with parts := s.parts ++ [p], total := total, tag := tag, evenTlv := ev }, [])

/-- mirrors `check_mpp_timeout` (ticks incremented on every part; complete sets never time out) and
    its use in `timer_tick_occurred` (all HTLCs of a timed-out set are failed, the entry removed) -/
def stepTick (s : Mpp) : Mpp × List Out :=
  if s.parts.isEmpty then (s, []) else
  let parts' := s.parts.map fun q => { q with ticks := q.ticks + 1 }
  let timedOut := parts'.any fun q => decide (q.ticks ≥ MPP_TIMEOUT_TICKS)
  if sumIntended parts' ≥ s.total then ({ s with parts := parts' }, [])
  else if timedOut then ({ s with parts := [] }, parts'.map (Out.failPart ·.id))
  else ({ s with parts := parts' }, [])

/-- mirrors the `claimable_payments.retain` of `do_chain_event`: each HTLC whose own
    `check_onchain_timeout(height)` holds is failed; the others stay -/
def stepBlock (s : Mpp) (h : Nat) : Mpp × List Out :=
  let dead := s.parts.filter fun q => mppOnchainTimeout h q.cltv
  let alive := s.parts.filter fun q => !mppOnchainTimeout h q.cltv
  ({ s with parts := alive }, dead.map (Out.failPart ·.id))

/-- the `for htlc in sources.iter()` loop of `claim_payment_internal`:
    (expected_amt_msat, claimable_amt_msat, valid_mpp) -/
def claimLoop : List Part → Option Nat → Nat → Option Nat × Nat × Bool
  | [], exp, amt => (exp, amt, true)
  | p :: ps, exp, amt =>
    if exp.isSome && exp != p.totalRecv then (exp, amt, false)
    else claimLoop ps p.totalRecv (amt + p.value)

/-- mirrors `begin_claiming_payment` + `claim_payment_internal` -/
def stepClaim (s : Mpp) (known : Bool) : Mpp × List Out :=
  if s.parts.isEmpty then (s, []) else       -- `Err(Vec::new())`: nothing claimable under this hash
  let gone := { s with parts := [] }         -- `claimable_payments.remove(&payment_hash)`
  -- `begin_claiming_payment`: unknown even TLVs (translated test over the entry's merged onion fields)
  if MppGen.claimRefusesUnknownEven known (onionOf s.total s.tag s.evenTlv).custom_tlvs then (gone, s.parts.map (Out.failPart ·.id)) else
  let (exp, amt, valid) := claimLoop s.parts none 0
  let mark : List Out := if valid then [] else [.inconsistent]
  match exp with
  | none => (gone, mark)                     -- "no longer had any available HTLCs": dropped
  | some e =>
    if amt ≠ e then (gone, mark)             -- "expected {} msat, had {} available to claim": dropped
    else if valid then ({ gone with claiming := true }, s.parts.map (Out.fulfilPart ·.id) ++ [.claimed amt (sumSkim s.parts) s.total])
    else (gone, mark ++ s.parts.map (Out.failPart ·.id))

/-- mirrors `fail_htlc_backwards_with_reason` -/
def stepFailBack (s : Mpp) : Mpp × List Out :=
  ({ s with parts := [] }, s.parts.map (Out.failPart ·.id))

def step (s : Mpp) : Op → Mpp × List Out
  | .part id value intended skim total cltv tag ev =>
    stepPart s { id, value, intended, skim, cltv, ticks := 0, totalRecv := none, total, tag, evenTlv := ev }
  | .tick => stepTick s
  | .block h => stepBlock s h
  | .claim known => stepClaim s known
  | .claimDone => ({ s with claiming := false }, [])
  | .failBack => stepFailBack s

/-- the `LocalHTLCFailureReason` with which the HTLCs failed by `step s op` (its `failPart` outputs) are failed
    back: one fail-back site per op, each constant TRANSLATED from the site's Rust text (`MppGen.reason*`) -/
def stepWhy (s : Mpp) : Op → FailReason
  | .part .. => MppGen.reasonPartRefused
  | .tick => MppGen.reasonMppTimeout
  | .block _ => MppGen.reasonOnchainTimeout
  | .claim known =>
    if MppGen.claimRefusesUnknownEven known (onionOf s.total s.tag s.evenTlv).custom_tlvs then MppGen.reasonUnknownEvenTlv
    else MppGen.reasonClaimInvalidMpp
  | .claimDone => MppGen.reasonFailBack
  | .failBack => MppGen.reasonFailBack

/-- run a list of ops, collecting the outputs of every step -/
def run (s : Mpp) : List Op → Mpp × List Out
  | [] => (s, [])
  | op :: ops =>
    let (s1, o1) := step s op
    let (s2, o2) := run s1 ops
    (s2, o1 ++ o2)

/-- everything the receive path reads of one final-hop HTLC (`ks`: code of the onion's keysend preimage, `pd`: the onion
    carries payment_data, `hash`: code of the payment hash, `verifyOk`: what `inbound_payment::verify` answers for it,
    `minCltv`: the delta `verify` returns, `height`: the receiver's best block height) -/
structure RecvIn where
  id : Nat
  value : Nat
  intended : Nat
  skim : Option Nat
  total : Nat
  cltv : Nat
  tag : Nat
  ev : Bool
  onionCltv : Nat
  height : Nat
  allow : Bool
  ks : Option Nat
  pd : Bool
  hash : Nat
  verifyOk : Bool
  minCltv : Option Nat

def RecvIn.op (i : RecvIn) : Op := .part i.id i.value i.intended i.skim i.total i.cltv i.tag i.ev

/-- one deciding statement of the receive path: `some reason` = the HTLC is failed back here.  Every test is the TRANSLATED one
    (Generated/Timing, Generated/InboundMpp); `verify` and the min_final_cltv test run only when
    `has_recipient_created_payment_secret` (= `keysend_preimage.is_none()` for a plain Receive, pinned by gen_inbound.py) -/
def stageRefuses (sha256 : Nat → Nat) (i : RecvIn) : MppGen.RecvStage → Option FailReason
  | .finalCltv => if finalIncorrectCltv i.onionCltv i.cltv then some .finalIncorrectCLTVExpiry else none
  | .expirySoon => if finalExpiryTooSoon i.height i.cltv then some .paymentClaimBuffer else none
  | .amount => if MppGen.recvAmountTooLow i.allow i.intended i.value i.skim then some .finalIncorrectHTLCAmount else none
  | .routing => match MppGen.recvRouting sha256 i.ks i.pd i.hash with | .refused r => some r | _ => none
  | .verifySecret => if i.ks.isNone && !i.verifyOk then some MppGen.reasonPartRefused else none
  | .minCltv =>
    match i.ks, i.minCltv with
    | none, some m => if MppGen.recvCltvBelowMin i.height m i.cltv then some MppGen.reasonPartRefused else none
    | _, _ => none
  | .accumulator => none

/-- the receive path as a sequence of stages IN THE ORDER GIVEN (the generated `MppGen.recvStages` = the order of the Rust
    text): a refusing test stops with the state AS IT IS THEN and fails the HTLC; the accumulator stage is `step s (.part ..)`.
    Result: state, everything output, the reason of the front-end refusal (if any). -/
def runStages (sha256 : Nat → Nat) : List MppGen.RecvStage → RecvIn → Mpp → List Out → Mpp × List Out × Option FailReason
  | [], _, s, acc => (s, acc, none)
  | .accumulator :: rest, i, s, acc => runStages sha256 rest i (step s i.op).1 (acc ++ (step s i.op).2)
  | st :: rest, i, s, acc =>
    match stageRefuses sha256 i st with
    | some r => (s, acc ++ [.failPart i.id], some r)
    | none => runStages sha256 rest i s acc

/-- the receive path of the code that exists -/
def receive (sha256 : Nat → Nat) (i : RecvIn) (s : Mpp) : Mpp × List Out × Option FailReason :=
  runStages sha256 MppGen.recvStages i s []

/-- the ChannelManager is written and read back: `claimable_payments` / `pending_claiming_payments` are persisted, of a part
    everything except `MppPart::timer_ticks`, which `impl Readable for (ClaimableHTLC, u64)` sets to 0 -/
def restartState (s : Mpp) : Mpp := { s with parts := s.parts.map fun p => { p with ticks := 0 } }

/-- states reachable from the empty accumulator -/
inductive Reachable : Mpp → Prop where
  | init : Reachable Mpp.init
  | step {s : Mpp} (op : Op) : Reachable s → Reachable (step s op).1

end Ldk.InboundPay
