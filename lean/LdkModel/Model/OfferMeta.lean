/- Stateless BOLT-12 metadata -- hand-written model of lightning/src/offers/signer.rs
   (`MetadataMaterial::derive_metadata`, `derive_metadata_and_keys`, `hmac_for_message`,
   `verify_recipient_metadata`, `verify_payer_metadata_inner`, `verify_metadata`) over an abstract
   `mac : key → msg → bytes` (HMAC-SHA256 keyed with `ExpandedKey.offers_base_key` in the driver) and
   an abstract `pubOf : secret → public key`.  No Mathlib. -/
namespace Ldk.OfferMeta

abbrev Bytes := List UInt8

def NONCE_LEN : Nat := 16      -- offers/nonce.rs::Nonce::LENGTH
def PAYMENT_ID_LEN : Nat := 32 -- ln/channelmanager.rs::PaymentId::LENGTH
def MAC_LEN : Nat := 32        -- Sha256::LEN

def DERIVED_METADATA_HMAC_INPUT : Bytes := List.replicate 16 1
def DERIVED_METADATA_AND_KEYS_HMAC_INPUT : Bytes := List.replicate 16 2
def WITHOUT_ENCRYPTED_PAYMENT_ID_HMAC_INPUT : Bytes := List.replicate 16 3
def WITH_ENCRYPTED_PAYMENT_ID_HMAC_INPUT : Bytes := List.replicate 16 4

variable (mac : Bytes → Bytes → Bytes)

/-- tail of the MAC input -- mirrors signer.rs::MetadataMaterial::maybe_include_encrypted_payment_id -/
def pidInput (encPid : Option Bytes) : Bytes :=
  match encPid with
  | none => WITHOUT_ENCRYPTED_PAYMENT_ID_HMAC_INPUT
  | some p => WITH_ENCRYPTED_PAYMENT_ID_HMAC_INPUT ++ p

/-- mirrors signer.rs::MetadataMaterial::derive_metadata: `[encrypted payment id ‖] nonce ‖ HMAC`.
    `tlvs` = concatenated record bytes of the covered TLV records -/
def deriveMetadata (key iv nonce : Bytes) (encPid : Option Bytes) (tlvs : Bytes) : Bytes :=
  (encPid.getD []) ++ nonce ++
    mac key (iv ++ nonce ++ tlvs ++ DERIVED_METADATA_HMAC_INPUT ++ pidInput encPid)

/-- mirrors signer.rs::MetadataMaterial::derive_metadata_and_keys: metadata is `[enc pid ‖] nonce`
    and the signing secret is the HMAC -/
def deriveMetadataAndKey (key iv nonce : Bytes) (encPid : Option Bytes) (tlvs : Bytes) : Bytes × Bytes :=
  ((encPid.getD []) ++ nonce,
   mac key (iv ++ nonce ++ tlvs ++ DERIVED_METADATA_AND_KEYS_HMAC_INPUT ++ pidInput encPid))

/-- the HMAC recomputed on verification; `md` is the metadata AFTER any payment-id prefix; `none`
    when it is shorter than a nonce -- mirrors signer.rs::hmac_for_message followed by the
    WITH/WITHOUT_ENCRYPTED_PAYMENT_ID input of its two callers -/
def verifyHmac (key iv md : Bytes) (encPid : Option Bytes) (tlvs : Bytes) : Option Bytes :=
  if md.length < NONCE_LEN then none else
  let nonce := md.take NONCE_LEN
  let variant := if md.length == NONCE_LEN then DERIVED_METADATA_AND_KEYS_HMAC_INPUT
                 else DERIVED_METADATA_HMAC_INPUT
  some (mac key (iv ++ nonce ++ tlvs ++ variant ++ pidInput encPid))

inductive Verdict | err | okNoKeys | okKeys (secret : Bytes)
  deriving DecidableEq, Repr

/-- mirrors signer.rs::verify_metadata -/
def verifyTail (pubOf : Bytes → Bytes) (md hmac signingPubkey : Bytes) : Verdict :=
  if md.length == NONCE_LEN then
    if pubOf hmac == signingPubkey then .okKeys hmac else .err
  else if md.length == NONCE_LEN + MAC_LEN && md.drop NONCE_LEN == hmac then .okNoKeys else .err

/-- mirrors signer.rs::verify_recipient_metadata -/
def verifyRecipient (pubOf : Bytes → Bytes) (key iv signingPubkey tlvs md : Bytes) : Verdict :=
  match verifyHmac mac key iv md none tlvs with
  | none => .err
  | some h => verifyTail pubOf md h signingPubkey

/-- mirrors signer.rs::verify_payer_metadata_inner -/
def verifyPayer (pubOf : Bytes → Bytes) (key iv signingPubkey tlvs md : Bytes) : Verdict :=
  if md.length < PAYMENT_ID_LEN then .err else
  let encPid := md.take PAYMENT_ID_LEN
  let rest := md.drop PAYMENT_ID_LEN
  match verifyHmac mac key iv rest (some encPid) tlvs with
  | none => .err
  | some h => verifyTail pubOf rest h signingPubkey

end Ldk.OfferMeta
