/- Stateless BOLT-12 metadata -- hand-written model of lightning/src/offers/signer.rs
   (`MetadataMaterial::derive_metadata`, `derive_metadata_and_keys`, `hmac_for_message`,
   `verify_recipient_metadata`, `verify_payer_metadata_inner`, `verify_metadata`) over an abstract
   `mac : key → msg → bytes` (HMAC-SHA256 keyed with `ExpandedKey.offers_base_key` in the driver) and
   an abstract `pubOf : secret → public key`.  No Mathlib. -/
import LdkModel.Model.Merkle
import LdkModel.Generated.C18Meta
namespace Ldk.OfferMeta

abbrev Bytes := List UInt8

def NONCE_LEN : Nat := 16      -- offers/nonce.rs::Nonce::LENGTH
def PAYMENT_ID_LEN : Nat := 32 -- ln/channelmanager.rs::PaymentId::LENGTH
def MAC_LEN : Nat := 32        -- Sha256::LEN

def DERIVED_METADATA_HMAC_INPUT : Bytes := List.replicate 16 1
def DERIVED_METADATA_AND_KEYS_HMAC_INPUT : Bytes := List.replicate 16 2
def WITHOUT_ENCRYPTED_PAYMENT_ID_HMAC_INPUT : Bytes := List.replicate 16 3
def WITH_ENCRYPTED_PAYMENT_ID_HMAC_INPUT : Bytes := List.replicate 16 4

variable (mac : Bytes → Bytes → Bytes)

/-- tail of the MAC input -- mirrors signer.rs::MetadataMaterial::maybe_include_encrypted_payment_id -/
def pidInput (encPid : Option Bytes) : Bytes :=
  match encPid with
  | none => WITHOUT_ENCRYPTED_PAYMENT_ID_HMAC_INPUT
  | some p => WITH_ENCRYPTED_PAYMENT_ID_HMAC_INPUT ++ p

/-- mirrors signer.rs::MetadataMaterial::derive_metadata: `[encrypted payment id ‖] nonce ‖ HMAC`.
    `tlvs` = concatenated record bytes of the covered TLV records -/
def deriveMetadata (key iv nonce : Bytes) (encPid : Option Bytes) (tlvs : Bytes) : Bytes :=
  (encPid.getD []) ++ nonce ++
    mac key (iv ++ nonce ++ tlvs ++ DERIVED_METADATA_HMAC_INPUT ++ pidInput encPid)

/-- mirrors signer.rs::MetadataMaterial::derive_metadata_and_keys: metadata is `[enc pid ‖] nonce`
    and the signing secret is the HMAC -/
def deriveMetadataAndKey (key iv nonce : Bytes) (encPid : Option Bytes) (tlvs : Bytes) : Bytes × Bytes :=
  ((encPid.getD []) ++ nonce,
   mac key (iv ++ nonce ++ tlvs ++ DERIVED_METADATA_AND_KEYS_HMAC_INPUT ++ pidInput encPid))

/-- the HMAC recomputed on verification; `md` is the metadata AFTER any payment-id prefix; `none`
    when it is shorter than a nonce -- mirrors signer.rs::hmac_for_message followed by the
    WITH/WITHOUT_ENCRYPTED_PAYMENT_ID input of its two callers -/
def verifyHmac (key iv md : Bytes) (encPid : Option Bytes) (tlvs : Bytes) : Option Bytes :=
  if md.length < NONCE_LEN then none else
  let nonce := md.take NONCE_LEN
  let variant := if md.length == NONCE_LEN then DERIVED_METADATA_AND_KEYS_HMAC_INPUT
                 else DERIVED_METADATA_HMAC_INPUT
  some (mac key (iv ++ nonce ++ tlvs ++ variant ++ pidInput encPid))

inductive Verdict | err | okNoKeys | okKeys (secret : Bytes)
  deriving DecidableEq, Repr

/-- mirrors signer.rs::verify_metadata; its three decisions (which branch, WHICH REPRESENTATION of the
    two public keys is compared, the HMAC comparison) are the definitions of Generated/C18Meta.lean,
    translated from the Rust text on every run (tools/gen_c18_meta.py).  `pubOf hmac` is the public key
    of `Keypair::from_secret_key(hmac)` (secp256k1: trusted, a parameter), keys are 33-byte compressed
    encodings (Model/SecpKey.lean). -/
def verifyTail (pubOf : Bytes → Bytes) (md hmac signingPubkey : Bytes) : Verdict :=
  if C18Meta.derivesKeys md.length then
    if C18Meta.keysEq signingPubkey (pubOf hmac) then .okKeys hmac else .err
  else if C18Meta.hmacOk md hmac then .okNoKeys else .err

/-- mirrors signer.rs::verify_recipient_metadata -/
def verifyRecipient (pubOf : Bytes → Bytes) (key iv signingPubkey tlvs md : Bytes) : Verdict :=
  match verifyHmac mac key iv md none tlvs with
  | none => .err
  | some h => verifyTail pubOf md h signingPubkey

/-- mirrors signer.rs::verify_payer_metadata_inner -/
def verifyPayer (pubOf : Bytes → Bytes) (key iv signingPubkey tlvs md : Bytes) : Verdict :=
  if md.length < PAYMENT_ID_LEN then .err else
  let encPid := md.take PAYMENT_ID_LEN
  let rest := md.drop PAYMENT_ID_LEN
  match verifyHmac mac key iv rest (some encPid) tlvs with
  | none => .err
  | some h => verifyTail pubOf rest h signingPubkey

/-! ### which records of an offer the stateless check covers (offers/offer.rs::OfferContents::verify) -/
open Ldk.Merkle (Rec readBigSize)

/-- value bytes of a TLV record (after type and length) -/
def recValue (r : Rec) : Bytes :=
  let rest := r.recordBytes.drop r.typeBytes.length
  match readBigSize rest with
  | some (_, k) => rest.drop k
  | none => []

def OFFER_TYPES_LO : Nat := 1                      -- offer.rs::OFFER_TYPES = 1..80
def OFFER_TYPES_HI : Nat := 80
def EXPERIMENTAL_OFFER_TYPES_LO : Nat := 1000000000 -- offer.rs::EXPERIMENTAL_OFFER_TYPES
def EXPERIMENTAL_OFFER_TYPES_HI : Nat := 2000000000
def OFFER_METADATA_TYPE : Nat := 4
def OFFER_ISSUER_ID_TYPE : Nat := 22
def IV_BYTES_WITH_METADATA : Bytes := "LDK Offer ~~~~~~".toUTF8.toList
def IV_BYTES_WITHOUT_METADATA : Bytes := "LDK Offer v2~~~~".toUTF8.toList

/-- mirrors merkle.rs::TlvStream::range (`skip_while` not in range, then `take_while` in range) -/
def rangeRecs (lo hi : Nat) (rs : List Rec) : List Rec :=
  (rs.dropWhile (fun r => !(lo ≤ r.ty && r.ty < hi))).takeWhile (fun r => lo ≤ r.ty && r.ty < hi)

/-- the records fed to the HMAC: the records of the offer range that pass the record filter of
    OfferContents::verify, then the experimental offer range -- mirrors the iterator built in
    offer.rs::OfferContents::verify.  The FILTER is `C18Meta.offerRecordCovered`, translated from the
    `match record.r#type { .. }` arms of the Rust text on every run (tools/gen_c18_meta.py):
    `recipientData` = the metadata is `Metadata::RecipientData(_)` (verify_using_recipient_data),
    `derivesKeys` = `metadata.derives_recipient_keys()`. -/
def offerCovered (recipientData derivesKeys : Bool) (rs : List Rec) : List Rec :=
  (rangeRecs OFFER_TYPES_LO OFFER_TYPES_HI rs).filter
      (fun r => C18Meta.offerRecordCovered recipientData derivesKeys r.ty) ++
    rangeRecs EXPERIMENTAL_OFFER_TYPES_LO EXPERIMENTAL_OFFER_TYPES_HI rs

/-- mirrors offer.rs::OfferContents::verify_using_metadata (`nonce = none`: the metadata is the
    value of record 4, `Metadata::Bytes`) and verify_using_recipient_data (`nonce = some n`:
    `Metadata::RecipientData`, the nonce came back through the blinded path context; the VALUE of
    record 4 is not read, whether the record is part of the MAC input is decided by the translated
    filter).  `derives_recipient_keys` is the translated `C18Meta.derivesRecipientKeys`. -/
def offerVerify (pubOf : Bytes → Bytes) (key : Bytes) (nonce : Option Bytes) (rs : List Rec) : Verdict :=
  let metadata : Option Bytes :=
    match nonce with
    | some n => some n
    | none => (rs.find? (fun r => r.ty == OFFER_METADATA_TYPE)).map recValue
  match metadata with
  | none => .err
  | some md =>
    let derivesKeys := C18Meta.derivesRecipientKeys nonce.isSome md.length
    match rs.find? (fun r => r.ty == OFFER_ISSUER_ID_TYPE) with
    | none => .err
    | some pkRec =>
      let iv := match nonce with | some _ => IV_BYTES_WITHOUT_METADATA | none => IV_BYTES_WITH_METADATA
      verifyRecipient mac pubOf key iv (recValue pkRec)
        ((offerCovered nonce.isSome derivesKeys rs).flatMap (fun r => r.recordBytes)) md

/-! ### which records of an invoice the payer's stateless check covers (offers/invoice.rs) -/

def PAYER_METADATA_TYPE : Nat := 0               -- payer.rs
def OFFER_PATHS_TYPE : Nat := 16                 -- offer.rs tlv_stream (16, paths)
def INVOICE_REQUEST_TYPES_LO : Nat := 80         -- invoice_request.rs::INVOICE_REQUEST_TYPES = 80..160
def INVOICE_REQUEST_TYPES_HI : Nat := 160
def INVOICE_REQUEST_PAYER_ID_TYPE : Nat := 88
def INVOICE_REQUEST_PATHS_TYPE : Nat := 90       -- invoice_request.rs tlv_stream (90, paths): a refund's paths
def EXPERIMENTAL_INVOICE_REQUEST_TYPES_HI : Nat := 3000000000
def INVOICE_REQUEST_IV_BYTES : Bytes := "LDK Invreq ~~~~~".toUTF8.toList
def REFUND_IV_BYTES_WITH_METADATA : Bytes := "LDK Refund ~~~~~".toUTF8.toList
def REFUND_IV_BYTES_WITHOUT_METADATA : Bytes := "LDK Refund v2~~~".toUTF8.toList

/-- mirrors invoice.rs::InvoiceContents::payer_tlv_stream: the offer range, the invoice-request range
    without the payer id when the payer key is derived, the experimental offer + invoice-request
    ranges (the payer metadata, type 0, lies outside every range) -/
def invoiceCovered (excludePayerId : Bool) (rs : List Rec) : List Rec :=
  rangeRecs OFFER_TYPES_LO OFFER_TYPES_HI rs ++
  (rangeRecs INVOICE_REQUEST_TYPES_LO INVOICE_REQUEST_TYPES_HI rs).filter
      (fun r => r.ty != PAYER_METADATA_TYPE && (r.ty != INVOICE_REQUEST_PAYER_ID_TYPE || !excludePayerId)) ++
  rangeRecs EXPERIMENTAL_OFFER_TYPES_LO EXPERIMENTAL_INVOICE_REQUEST_TYPES_HI rs

/-- mirrors invoice.rs::Bolt12Invoice::verify_using_metadata (the `Ok(PaymentId)` payload is the
    ChaCha20-decrypted first 32 metadata bytes and is not modelled).  An invoice answers an invoice
    request when the stream has an issuer id or offer paths (invoice.rs TryFrom), else a refund. -/
def invoiceVerify (pubOf : Bytes → Bytes) (key : Bytes) (rs : List Rec) : Verdict :=
  match rs.find? (fun r => r.ty == PAYER_METADATA_TYPE), rs.find? (fun r => r.ty == INVOICE_REQUEST_PAYER_ID_TYPE) with
  | some mdRec, some pkRec =>
    let md := recValue mdRec
    let forOffer := rs.any (fun r => r.ty == OFFER_ISSUER_ID_TYPE || r.ty == OFFER_PATHS_TYPE)
    let iv := if forOffer then INVOICE_REQUEST_IV_BYTES
              else if rs.any (fun r => r.ty == INVOICE_REQUEST_PATHS_TYPE) then REFUND_IV_BYTES_WITHOUT_METADATA
              else REFUND_IV_BYTES_WITH_METADATA
    let derives := md.length == PAYMENT_ID_LEN + NONCE_LEN
    verifyPayer mac pubOf key iv (recValue pkRec) ((invoiceCovered derives rs).flatMap (fun r => r.recordBytes)) md
  | _, _ => .err

end Ldk.OfferMeta
