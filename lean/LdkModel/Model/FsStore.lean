/- C19 — FILE-LEVEL model of lightning-persister/src/fs_store/{common,v1,v2}.rs. No Mathlib.

   The file system is a model state: a finite map from file locations to contents. A location is
   `(dir1, dir2, fileName)` below the data directory (`""` = that directory level is absent, which
   only the v1 layout produces); directories are implicit (`create_dir_all`). Contents are `torn`
   (created, `write_all` not finished) or `data v`. File operations (`FOp`) are applied one at a time, so
   a crash point is a prefix of the file-operation list of an API call. `rename` is ATOMIC — the
   explicit assumption of the whole model. `fsync` steps are part of the op lists (their position is
   shape-checked against the source by tools/gen_fsstore.py) but have no effect on the state: the
   model is about process crashes, not about what a disk loses at power loss.

   In-memory store state: `next_version`, `tmp_file_counter`, and the `locks` map
   `dest path -> (last written version, in-flight references)`; an API call is `issue` (version and
   lock reference taken, at call time) followed, possibly much later and in any order relative to other
   calls, by `exec` (the body that `spawn_blocking` runs).

   The decisive expressions come from Generated/FsStoreConsts.lean (tools/gen_fsstore.py):
   `isStaleVersion`, `tmpExtOf`, `artifactExts`, `V1_/V2_USE_EMPTY_NS_DIR`, `FIRST_VERSION`,
   `TMP_COUNTER_START`; `EMPTY_NAMESPACE_DIR` and the key alphabet from Generated/PersistConsts.lean. -/
import LdkModel.Model.KvStore
import LdkModel.Generated.FsStoreConsts
namespace Ldk.Fs
open Ldk.Kv Ldk.Persist Ldk.FsConsts

inductive Content (ν : Type) where
  /-- the file exists but its contents are not (completely) written -/
  | torn
  | data (v : ν)
  deriving DecidableEq

/-- `(dir1, dir2, fileName)` ↦ contents; same association list as the abstract store, so a directory
    listing is `Store.names fs dir1 dir2`. -/
abbrev FS (ν : Type) := Store (Content ν)

/-! ### names: `Path::extension`, `set_extension`, the artifact test -/

/-- mirrors std `Path::extension` on the file name: the part after the last `.`; none when there is
    no `.` or the only `.` is the first character -/
def extChars (cs : List Char) : Option (List Char) :=
  let r := cs.reverse
  let e := r.takeWhile (fun c => c != '.')
  if e.length = r.length then none
  else if r.drop (e.length + 1) = [] then none
  else some e.reverse

/-- mirrors fs_store/common.rs::dir_entry_is_store_artifact (arms translated: `artifactExts`) -/
def isArtifact (name : String) : Bool :=
  match extChars name.toList with
  | some e => artifactExts.any (fun a => a.toList == e)
  | none => false

/-- std `Path::file_stem` of a file name -/
def stemChars (cs : List Char) : List Char :=
  match extChars cs with
  | none => cs
  | some e => cs.take (cs.length - (e.length + 1))

/-- mirrors `PathBuf::set_extension(ext)` on the file name (an existing extension is replaced) -/
def setExt (name ext : String) : String := String.ofList (stemChars name.toList) ++ "." ++ ext

/-- mirrors write_version: `tmp_file_path = dest_file_path.clone(); set_extension(format!("{}.tmp", n))` -/
def tmpPath (dest : Key) (counter : Nat) : Key := (dest.1, dest.2.1, setExt dest.2.2 (tmpExtOf counter))

/-! ### layout — mirrors common.rs::get_dest_dir_path / get_checked_dest_file_path -/

/-- one namespace level: v2 (`use_empty_ns_dir`) maps the empty namespace to `[empty]`, v1 pushes
    nothing for it (`PathBuf::push("")` / the `if !secondary_namespace.is_empty()`) -/
def nsDir (ue : Bool) (s : String) : String := if ue && s.isEmpty then EMPTY_NAMESPACE_DIR else s

def destPath (ue : Bool) (k : Key) : Key := (nsDir ue k.1, nsDir ue k.2.1, k.2.2)

/-- the `use_empty_ns_dir` flag of `FilesystemStore` (false) / `FilesystemStoreV2` (true) -/
def layoutOf (v2 : Bool) : Bool := if v2 then V2_USE_EMPTY_NS_DIR else V1_USE_EMPTY_NS_DIR

/-! ### file operations -/

inductive FOp (ν : Type) where
  /-- `fs::File::create(path)`: create or truncate -/
  | create (p : Key)
  /-- `write_all(buf)` completed -/
  | writeAll (p : Key) (v : ν)
  /-- `sync_all()` on the file -/
  | fsync (p : Key)
  /-- `fs::rename(src, dst)` — ATOMIC: `dst` holds its old contents or all of `src`'s, never a mix -/
  | rename (src dst : Key)
  /-- `fs::remove_file(path)` -/
  | unlink (p : Key)
  /-- open the parent directory, `sync_all()` -/
  | fsyncDir (d1 d2 : String)

def FOp.apply {ν : Type} (fs : FS ν) : FOp ν → FS ν
  | .create p => fs.put p .torn
  | .writeAll p v => fs.put p (.data v)
  | .fsync _ => fs
  | .rename s d => match fs.get s with
      | some c => (fs.del s).put d c
      | none => fs
  | .unlink p => fs.del p
  | .fsyncDir _ _ => fs

def applyOps {ν : Type} (fs : FS ν) (ops : List (FOp ν)) : FS ν := ops.foldl FOp.apply fs

/-! ### in-memory state -/

/-- value of the `locks` map: `RwLock<u64>` = last written version; `refs` = number of issued,
    not yet finished operations holding the `Arc` (`Arc::strong_count - 1`) -/
structure Lock where
  lastWritten : Nat
  refs : Nat
  deriving DecidableEq

structure St (ν : Type) where
  fs : FS ν
  nextVersion : Nat := FIRST_VERSION
  tmpCounter : Nat := TMP_COUNTER_START
  locks : Store Lock := []

/-- a (re)started store over an existing directory: `FilesystemStoreState::new` -/
def fresh {ν : Type} (fs : FS ν) : St ν := { fs := fs }

inductive Body (ν : Type) where
  | write (v : ν)
  | remove (lazy : Bool)

/-- an issued operation: destination path, the version it took at issue time, what to do -/
structure Pending (ν : Type) where
  dest : Key
  version : Nat
  body : Body ν

variable {ν : Type}

def lockOf (st : St ν) (d : Key) : Lock := (st.locks.get d).getD ⟨0, 0⟩

/-- mirrors common.rs::get_new_version_and_lock_ref (called by write_impl/remove_impl and, BEFORE the
    `async move` block, by write_async/remove_async): `next_version.fetch_add(1)`, and
    `locks.entry(path).or_default()` cloned (one more reference) -/
def issue (st : St ν) (dest : Key) (b : Body ν) : St ν × Pending ν :=
  let l := lockOf st dest
  ({ st with nextVersion := st.nextVersion + 1, locks := st.locks.put dest ⟨l.lastWritten, l.refs + 1⟩ },
   ⟨dest, st.nextVersion, b⟩)

/-- mirrors `let is_stale_version = version <= *last_written_version` at the time the body runs -/
def staleNow (st : St ν) (x : Pending ν) : Bool := isStaleVersion x.version (lockOf st x.dest).lastWritten

/-- the file operations of the body, in order. mirrors write_version (create tmp, write_all,
    sync_all, then under the lock: stale ⇒ nothing and the tmp file is removed afterwards, else rename
    over the destination and fsync the directory) and remove_version (under the lock: stale ⇒ nothing;
    `!is_file()` ⇒ nothing; lazy ⇒ remove_file; else remove_file + directory fsync) — non-windows -/
def bodyOps (st : St ν) (x : Pending ν) : List (FOp ν) :=
  match x.body with
  | .write v =>
    let tmp := tmpPath x.dest st.tmpCounter
    [.create tmp, .writeAll tmp v, .fsync tmp] ++
      (if staleNow st x then [.unlink tmp] else [.rename tmp x.dest, .fsyncDir x.dest.1 x.dest.2.1])
  | .remove lazy =>
    if staleNow st x then [] else
    match st.fs.get x.dest with
    | none => []
    | some _ => if lazy then [.unlink x.dest] else [.unlink x.dest, .fsyncDir x.dest.1 x.dest.2.1]

/-- mirrors execute_locked_write's bookkeeping + clean_locks: `*last_written_version = version` unless
    stale; the map entry is dropped when no other operation holds a reference -/
def finishLocks (st : St ν) (x : Pending ν) : Store Lock :=
  let l := lockOf st x.dest
  let lw := if staleNow st x then l.lastWritten else x.version
  if l.refs ≤ 1 then st.locks.del x.dest else st.locks.put x.dest ⟨lw, l.refs - 1⟩

/-- run the body of an issued operation to completion -/
def exec (st : St ν) (x : Pending ν) : St ν :=
  { st with fs := applyOps st.fs (bodyOps st x),
            tmpCounter := (match x.body with | .write _ => st.tmpCounter + 1 | .remove _ => st.tmpCounter),
            locks := finishLocks st x }

def execAll (st : St ν) (l : List (Pending ν)) : St ν := l.foldl exec st

/-! ### the API — mirrors common.rs::{read,write,remove,list}_impl -/

inductive FsAns (ν : Type) where
  | ok
  | value (v : ν)
  /-- a read that returned the bytes of a half-written file -/
  | tornValue
  | names (l : List String)
  | err (e : KvErr)
  /-- `get_key_from_dir_entry_path` met a file name that is not a valid key -/
  | errBadEntry

def ansOfKv : KvAns ν → FsAns ν
  | .ok => .ok
  | .value v => .value v
  | .names l => .names l
  | .err e => .err e

/-- what `read` finds at a key's destination -/
def readKey (ue : Bool) (fs : FS ν) (k : Key) : Option (Content ν) := fs.get (destPath ue k)

/-- mirrors common.rs::list: the directory entries that are keys (`dir_entry_is_key`: artifacts and
    directories skipped) -/
def listDir (ue : Bool) (fs : FS ν) (p sn : String) : List String :=
  (fs.names (nsDir ue p) (nsDir ue sn)).filter (fun n => !isArtifact n)

/-- one API call, run to completion (the sync API) -/
def step (ue : Bool) (st : St ν) : KvOp ν → St ν × FsAns ν
  | .write k v => match checkKey k with
      | .error e => (st, .err e)
      | .ok _ => let i := issue st (destPath ue k) (.write v); (exec i.1 i.2, .ok)
  | .read k => match checkKey k with
      | .error e => (st, .err e)
      | .ok _ => match readKey ue st.fs k with
          | some (.data v) => (st, .value v)
          | some .torn => (st, .tornValue)
          | none => (st, .err .notFound)
  | .remove k lazy => match checkKey k with
      | .error e => (st, .err e)
      | .ok _ => let i := issue st (destPath ue k) (.remove lazy); (exec i.1 i.2, .ok)
  | .list p sn => match checkNs p sn with
      | .error e => (st, .err e)
      | .ok _ => let l := listDir ue st.fs p sn
                 if l.all validStr then (st, .names l) else (st, .errBadEntry)

def runSeq (ue : Bool) (st : St ν) (ops : List (KvOp ν)) : St ν := ops.foldl (fun s op => (step ue s op).1) st

def answersSeq (ue : Bool) : St ν → List (KvOp ν) → List (FsAns ν)
  | _, [] => []
  | s, op :: r => (step ue s op).2 :: answersSeq ue (step ue s op).1 r

/-- the file operations one API call performs when run to completion from `st` (a crash point is a
    prefix of this list) -/
def fileOpsOf (ue : Bool) (st : St ν) : KvOp ν → List (FOp ν)
  | .write k v => match checkKey k with
      | .error _ => []
      | .ok _ => let i := issue st (destPath ue k) (.write v); bodyOps i.1 i.2
  | .remove k lazy => match checkKey k with
      | .error _ => []
      | .ok _ => let i := issue st (destPath ue k) (.remove lazy); bodyOps i.1 i.2
  | _ => []

/-- the directory a process crash leaves behind: `op` was interrupted after `j` of its file operations -/
def crashFs (ue : Bool) (st : St ν) (op : KvOp ν) (j : Nat) : FS ν := applyOps st.fs ((fileOpsOf ue st op).take j)

/-! ### the async API: issue now, run the body later -/

/-- the mutating part of an API call: destination and body; `none` for reads, lists and calls
    rejected by `check_namespace_key_validity` -/
def mutOf (ue : Bool) : KvOp ν → Option (Key × Body ν)
  | .write k v => if validKey k then some (destPath ue k, .write v) else none
  | .remove k lazy => if validKey k then some (destPath ue k, .remove lazy) else none
  | _ => none

/-- issue the mutating calls of `ops` in order (what creating the futures does); calls with an
    invalid key fail at once and leave nothing pending; reads/lists take no version -/
def issueAll (ue : Bool) : St ν → List (KvOp ν) → St ν × List (Pending ν)
  | st, [] => (st, [])
  | st, op :: r =>
    match mutOf ue op with
    | some (d, b) =>
      let i := issue st d b
      let t := issueAll ue i.1 r
      (t.1, i.2 :: t.2)
    | none => issueAll ue st r

/-- what a completed body leaves at its destination -/
def Pending.result (x : Pending ν) : Option (Content ν) :=
  match x.body with
  | .write v => some (.data v)
  | .remove _ => none

/-- mirrors common.rs::list_all_keys + get_key_from_dir_entry_path: every non-artifact file, its
    directory names mapped back to namespaces (`[empty]` ↦ "" only under `use_empty_ns_dir`);
    `none` = the "not a valid key" error -/
def unDir (ue : Bool) (d : String) : Option String :=
  if ue && d == EMPTY_NAMESPACE_DIR then some "" else if validStr d then some d else none

def listAll (ue : Bool) (fs : FS ν) : Option (List Key) :=
  (fs.keys.filter (fun e => !isArtifact e.1 && !isArtifact e.2.1 && !isArtifact e.2.2)).mapM
    (fun e => match unDir ue e.1, unDir ue e.2.1 with
      | some p, some s => if validStr e.2.2 then some (p, s, e.2.2) else none
      | _, _ => none)

/-! ### finer interleavings: the body in two steps

   `write_version` creates, fills and syncs its tmp file BEFORE it takes the per-path lock
   (`execute_locked_write`); only the version check, the rename / unlink, the version bookkeeping and
   `clean_locks` happen under it. So between operations the real granularity is: `prep` (outside the
   lock, touches only the operation's own, uniquely numbered tmp file) and `commit` (one critical
   section per destination path). `Sched2` interleaves these steps of all issued operations freely. -/

/-- in-memory state plus the prepared-but-not-committed operations with their tmp files -/
structure St2 (ν : Type) where
  st : St ν
  prepared : List (Pending ν × Key) := []

inductive Step2 (ν : Type) where
  /-- the part of the body before `execute_locked_write` -/
  | prep (x : Pending ν)
  /-- the part from `execute_locked_write` to the end of the body -/
  | commit (x : Pending ν)

def tmpOf (s : St2 ν) (x : Pending ν) : Option Key :=
  (s.prepared.find? (fun e => e.1.version == x.version)).map (·.2)

/-- mirrors the first half of write_version: `create tmp, write_all, sync_all` with a fresh counter value
    (a remove has no such half; preparing twice is a no-op) -/
def prep2 (s : St2 ν) (x : Pending ν) : St2 ν :=
  match x.body, tmpOf s x with
  | .write v, none =>
    let tmp := tmpPath x.dest s.st.tmpCounter
    { st := { s.st with fs := applyOps s.st.fs [.create tmp, .writeAll tmp v, .fsync tmp], tmpCounter := s.st.tmpCounter + 1 },
      prepared := (x, tmp) :: s.prepared }
  | _, _ => s

/-- mirrors the locked half: version check; not stale ⇒ rename the tmp file over the destination + dir
    fsync (write) or unlink (+ dir fsync) (remove); stale write ⇒ the tmp file is removed; then the
    version bookkeeping and clean_locks (`finishLocks`). A commit of an operation that was not prepared
    runs the whole body (`exec`). -/
def commit2 (s : St2 ν) (x : Pending ν) : St2 ν :=
  match x.body, tmpOf s x with
  | .write _, some tmp =>
    { st := { s.st with
              fs := applyOps s.st.fs (if staleNow s.st x then [.unlink tmp] else [.rename tmp x.dest, .fsyncDir x.dest.1 x.dest.2.1]),
              locks := finishLocks s.st x },
      prepared := s.prepared.filter (fun e => e.1.version != x.version) }
  | _, _ => { s with st := exec s.st x }

def Step2.apply (s : St2 ν) : Step2 ν → St2 ν
  | .prep x => prep2 s x
  | .commit x => commit2 s x

def run2 (s : St2 ν) (steps : List (Step2 ν)) : St2 ν := steps.foldl Step2.apply s

/-- the operations a schedule commits, in commit order -/
def commitsOf : List (Step2 ν) → List (Pending ν)
  | [] => []
  | .commit x :: r => x :: commitsOf r
  | .prep _ :: r => commitsOf r

/-! ### the refinement relation between a directory and the abstract map -/

/-- `fs` (with whatever tmp/trash artifacts it holds) represents the abstract store `s` in the layout `ue` -/
structure Rel (ue : Bool) (fs : FS ν) (s : Store ν) : Prop where
  wf : fs.WF
  /-- every valid key: the file at its destination holds exactly the stored value, completely written -/
  get : ∀ k, validKey k = true → fs.get (destPath ue k) = (s.get k).map Content.data
  inval : ∀ k, validKey k = false → s.get k = none
  /-- every file that is not an artifact is the destination of a valid key -/
  only : ∀ p c, fs.get p = some c → isArtifact p.2.2 = false → ∃ k, validKey k = true ∧ p = destPath ue k

/-- between two calls of the sync API no operation is in flight -/
def Quiescent (st : St ν) : Prop := st.locks = [] ∧ 1 ≤ st.nextVersion

/-- answers agree; a listing agrees as a set (the order of `read_dir` is unspecified) and has no duplicates -/
def ansEq : FsAns ν → KvAns ν → Prop
  | a, .names l' => ∃ l, a = .names l ∧ l.Nodup ∧ ∀ n, n ∈ l ↔ n ∈ l'
  | a, b => a = ansOfKv b

/-- answer lists agree position by position -/
def ansAllEq : List (FsAns ν) → List (KvAns ν) → Prop
  | [], [] => True
  | a :: r, b :: r' => ansEq a b ∧ ansAllEq r r'
  | _, _ => False

end Ldk.Fs
