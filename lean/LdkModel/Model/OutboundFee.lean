/- C03 — routing-fee accounting of one `PendingOutboundPayment::Retryable` entry
   (`pending_fee_msat`, `remaining_max_total_routing_fee_msat`), as a ledger next to the state machine of
   Model/OutboundPay.lean.  The arithmetic is `Generated/OutboundFee.lean` (translated from outbound_payment.rs on
   every run); this file only says WHEN it runs: `insert` / `remove` adjust the two fields iff the session-priv set
   changed and the entry is `Retryable`; once the entry is Fulfilled / Abandoned the fee is frozen
   (`mark_fulfilled` / `mark_abandoned` carry `get_pending_fee_msat()` over) and `PaymentSent.fee_paid_msat` reports it.
   `parts` (session priv, `path.fee_msat()`) is specification state: the real entry only keeps the set of session privs;
   the path (hence its fee) comes with every call (`HTLCSource::OutboundRoute { path, .. }`).  No Mathlib. -/
import LdkModel.Generated.OutboundFee
namespace Ldk.OutboundFee
open Ldk.OutboundFeeGen

abbrev PartId := Nat

structure Ledger where
  /-- `pending_fee_msat` -/
  fee : Option Nat
  /-- `remaining_max_total_routing_fee_msat` -/
  rem : Option Nat
  /-- the session privs held, each with the fee of its path -/
  parts : List (PartId × Nat)
  deriving DecidableEq, Repr, Inhabited

/-- mirrors create_pending_payment before its inserts (`routeMax` = `route.route_params.max_total_routing_fee_msat`) -/
def Ledger.new (routeMax : Option Nat) : Ledger := { fee := newFee, rem := newRemaining routeMax, parts := [] }

/-- mirrors insert_from_monitor_on_startup (vacant entry) -/
def Ledger.startup (p : PartId) (f : Nat) : Ledger := { fee := startupFee f, rem := startupRemaining, parts := [(p, f)] }

def Ledger.has (l : Ledger) (p : PartId) : Bool := l.parts.any (·.1 == p)

/-- mirrors `PendingOutboundPayment::insert(session_priv, path)` on a `Retryable` entry (`f = path.fee_msat()`) -/
def Ledger.insert (l : Ledger) (p : PartId) (f : Nat) : Ledger :=
  if l.has p then l
  else { fee := insertFee f l.fee, rem := insertRemaining f l.rem, parts := l.parts ++ [(p, f)] }

/-- mirrors `PendingOutboundPayment::remove(session_priv, Some(path))` on a `Retryable` entry -/
def Ledger.remove (l : Ledger) (p : PartId) : Ledger :=
  match l.parts.lookup p with
  | none => l
  | some f => { fee := removeFee f l.fee, rem := removeRemaining f l.rem, parts := l.parts.filter (·.1 != p) }

inductive FOp
  | ins (p : PartId) (f : Nat)
  | rem (p : PartId)
  deriving DecidableEq, Repr

def Ledger.step (l : Ledger) : FOp → Ledger
  | .ins p f => l.insert p f
  | .rem p => l.remove p

def Ledger.run (l : Ledger) (ops : List FOp) : Ledger := ops.foldl Ledger.step l

/-- Σ of the path fees of the parts held -/
def Ledger.sumFees (l : Ledger) : Nat := (l.parts.map (·.2)).sum

/-- the router contract along a run: every path that is inserted has a fee within the budget that is left at that
    moment (the route was found for `max_total_routing_fee_msat` = the remaining budget — `retryBudget` — and
    `validate_found_route` / the router keep a route's total fee within it).  Without a budget: nothing to respect. -/
def Fits (l : Ledger) : List FOp → Prop
  | [] => True
  | .ins p f :: rest => (l.has p = false → ∀ r, l.rem = some r → f ≤ r) ∧ Fits (l.insert p f) rest
  | .rem p :: rest => Fits (l.remove p) rest

/-- `PaymentSent.fee_paid_msat` when the first claim arrives now (`sentReportsPendingFee`) -/
def Ledger.feePaid (l : Ledger) : Option Nat := l.fee

end Ldk.OutboundFee
