/- C05, channel level: the receiving side of `revoke_and_ack`.
   The guard chain (`RaaGuard.check`), the three commitment-number expressions (`validateIdx`, `provideIdx`,
   `monitorIdx`) and the state step (`RaaGuard.accept`) are GENERATED from the text of
   `FundedChannel::revoke_and_ack` (tools/gen_raa_guard.py -> Generated/RaaGuard.lean); this file only
   wires them to the secret store of Model/Secrets.lean and to the protocol model of Model/Channel.lean.
   No Mathlib. -/
import LdkModel.Generated.RaaGuard
import LdkModel.Model.Secrets
import LdkModel.Model.Channel
namespace Ldk.RaaGate
open Ldk.Secrets Ldk.RaaGuard

/-- msgs::RevokeAndACK: `per_commitment_secret`, `next_per_commitment_point` -/
structure Raa (S Pt : Type) where
  secret : S
  next : Pt

/-- what does not change during a channel's life: the store parameters, secret -> point
    (`SecretKey::from_slice` + `PublicKey::from_secret_key`; `none` = not a valid secret key) and the signer's
    `validate_counterparty_revocation(idx, secret)` -/
structure World (S Pt : Type) where
  P : Params S
  pointOf : S → Option Pt
  signerOk : Nat → S → Bool

/-- one side of the channel, as far as `revoke_and_ack` reads or writes it -/
structure Side (S Pt : Type) where
  /-- every flag / field / HTLC state the guard chain may read; the four message-dependent atoms and
      `awaitingRemoteRevoke` are overwritten by `inOf` -/
  env : In
  st : St Pt
  /-- `ChannelContext::commitment_secrets` -/
  store : Store S
  /-- ghost: number of counterparty commitments built (`build_commitment_no_status_check`) -/
  signed : Nat
  /-- ghost: the `(idx, secret)` pairs of the CommitmentSecret monitor updates generated, newest first -/
  accepted : List (Nat × S)

variable {S Pt : Type} [DecidableEq S] [DecidableEq Pt]

/-- the guard chain's input for message `m` in state `c` -/
def inOf (w : World S Pt) (c : Side S Pt) (m : Raa S Pt) : In :=
  { c.env with
    awaitingRemoteRevoke := c.st.awaitingRemoteRevoke
    secretValid := (w.pointOf m.secret).isSome
    cpCurrentPointSome := c.st.cpCurPoint.isSome
    secretMatchesPoint := (match c.st.cpCurPoint, w.pointOf m.secret with
      | some p, some q => decide (p = q)
      | _, _ => true)
    signerValidates := w.signerOk (validateIdx c.st.cpNext) m.secret
    storeAccepts := (provideSecret w.P c.store (provideIdx c.st.cpNext) m.secret).isSome }

/-- the `ChannelError` the real function returns (`none` = Ok) -/
def outcome (w : World S Pt) (c : Side S Pt) (m : Raa S Pt) : Option Err := check (inOf w c m)

/-- mirrors FundedChannel::revoke_and_ack up to the HTLC loop: `none` = Err (nothing was written) -/
def recvRaa (w : World S Pt) (c : Side S Pt) (m : Raa S Pt) : Option (Side S Pt) :=
  if (outcome w c m).isSome then none else
  (provideSecret w.P c.store (provideIdx c.st.cpNext) m.secret).map fun store' =>
    { c with st := accept c.st m.next, store := store', accepted := (monitorIdx c.st.cpNext, m.secret) :: c.accepted }

/-- what can happen to one side, the peer being arbitrary -/
inductive Op (S Pt : Type) where
  /-- we build and sign the peer's next commitment (`build_commitment_no_status_check`: only while not
      AwaitingRemoteRevoke, sets it) -/
  | sign
  /-- the peer sends a revoke_and_ack with any content at any time -/
  | raa (m : Raa S Pt)
  /-- anything else: every other flag, field and HTLC state changes arbitrarily (updates announced by
      either side, disconnection, reestablish, shutdown, quiescence, fee updates …) -/
  | env (e : In)

/-- a refused revoke_and_ack leaves the side as it was (the real channel is closed; keeping it open
    only gives the adversary more moves); `sign` while awaiting is not enabled -/
def step (w : World S Pt) (c : Side S Pt) : Op S Pt → Option (Side S Pt)
  | .sign => if c.st.awaitingRemoteRevoke then none else
      some { c with st := { c.st with awaitingRemoteRevoke := true }, signed := c.signed + 1 }
  | .raa m => some ((recvRaa w c m).getD c)
  | .env e => some { c with env := e }

def run (w : World S Pt) (c : Side S Pt) : List (Op S Pt) → Option (Side S Pt)
  | [] => some c
  | o :: os => match step w c o with
    | none => none
    | some c' => run w c' os

/-- a channel whose next counterparty commitment number is `n0` and whose store holds `st0` -/
def Side.init (n0 : Nat) (st0 : Store S) (cur nxt : Option Pt) : Side S Pt :=
  { env := {}, st := { awaitingRemoteRevoke := false, cpNext := n0, cpCurPoint := cur, cpNextPoint := nxt },
    store := st0, signed := 0, accepted := [] }

/-- the commitment numbers of `k` consecutive revocations starting below `n0 + 1`, newest first -/
def idxs (n0 : Nat) : Nat → List Nat
  | 0 => []
  | k + 1 => (n0 - k + 1) :: idxs n0 k

/-- feed the accepted pairs (oldest first) to a store -/
def replay (P : Params S) (st0 : Store S) : List (Nat × S) → Option (Store S)
  | [] => some st0
  | (i, s) :: older => (replay P st0 older).bind fun st => provideSecret P st i s

/-- the guard's input on a node of the two-party protocol model (Model/Channel.lean), connected or not;
    `e` = `expecting_peer_commitment_signed`, which that model does not track -/
def inOfNode (n : Chan.Node) (e : Bool) : In :=
  { awaitingRemoteRevoke := n.awaitingRaa, peerDisconnected := n.paused,
    inb := n.inb.map (·.st), outb := n.outb.map (·.st),
    pendingUpdateFeeSome := n.pendingFee.isSome, expectingPeerCommitmentSigned := e }

end Ldk.RaaGate
