/- C10 — restart from persisted state.  A *durable world* for one channel (what is on disk when the
   node stops: one ChannelMonitor copy, one — possibly much older — ChannelManager), the reload
   decision of `ChannelManager::from_channel_manager_data` built from the GENERATED predicates
   (Generated/Restart.lean, re-translated from the Rust source on every run), and a small history
   generator whose crash points produce the worlds the theorems quantify over.

   No Mathlib (the driver links natively).  Commitment numbers count DOWN, as in the code. -/
import LdkModel.Generated.Restart
namespace Ldk.Restart

/-- The three numbers of the startup comparison besides the update id.  For a monitor:
    (get_cur_holder_commitment_number, get_cur_counterparty_commitment_number, get_min_seen_secret);
    for a channel: (get_cur_holder_commitment_transaction_number,
    get_cur_counterparty_commitment_transaction_number,
    get_revoked_counterparty_commitment_transaction_number). -/
structure Nums where
  holder : Nat
  cp : Nat
  secret : Nat
  deriving DecidableEq, Repr, Inhabited

/-- One ChannelMonitorUpdate as far as the startup comparison can see it: by how much applying it
    lowers each number (number of LatestHolderCommitment[TXInfo] / LatestCounterpartyCommitment[TXInfo]
    / CommitmentSecret steps it carries). -/
structure Upd where
  dHolder : Nat
  dCp : Nat
  dSecret : Nat
  deriving DecidableEq, Repr, Inhabited

-- mirrors channelmonitor.rs provide_latest_holder_commitment_tx / provide_latest_counterparty_commitment_tx /
-- provide_secret as seen through the three getters (and, on the channel side, the moment the channel
-- generates the update: channel.rs commitment_signed / build_commitment_no_status_check / revoke_and_ack)
def Nums.apply (n : Nums) (u : Upd) : Nums :=
  { holder := n.holder - u.dHolder, cp := n.cp - u.dCp, secret := n.secret - u.dSecret }

/-- numbers of an object that contains the first `k` updates after `base` -/
def numsAt (base : Nums) (upds : List Upd) (k : Nat) : Nums := (upds.take k).foldl Nums.apply base

/-- The serialized ChannelManager's view of one channel. -/
structure Mgr where
  /-- channel.context.get_latest_monitor_update_id() (includes blocked updates) -/
  latestId : Nat
  /-- channel.get_latest_unblocked_monitor_update_id() -/
  unblockedId : Nat
  /-- update ids of PeerState::in_flight_monitor_updates for the channel, in stored order -/
  inFlight : List Nat
  nums : Nums
  deriving DecidableEq, Repr, Inhabited

/-- The ChannelMonitor copy on disk. -/
structure Mon where
  id : Nat
  nums : Nums
  deriving DecidableEq, Repr, Inhabited

structure World where
  mgr : Mgr
  mon : Mon
  deriving DecidableEq, Repr, Inhabited

inductive Outcome where
  /-- the whole read fails with DecodeError::DangerousValue -/
  | err
  /-- force-closed with ClosureReason::OutdatedChannelManager: in-flight updates replayed for the closed
      channel, then a ChannelForceClosed update with id `closeId` -/
  | closed (replay : List Nat) (closeId : Nat)
  /-- resumed: these in-flight updates are replayed (BackgroundEvent::MonitorUpdateRegeneratedOnStartup) -/
  | resumed (replay : List Nat)
  deriving DecidableEq, Repr, Inhabited

-- mirrors handle_in_flight_updates! (channelmanager.rs, inside from_channel_manager_data)
def replayList (inFlight : List Nat) (monId : Nat) : List Nat :=
  let numCompleted := (inFlight.filter (fun id => inFlightCompleted id monId)).length
  if allCompleted numCompleted inFlight.length then []
  else inFlight.filter (fun id => shouldReplay id monId)

-- mirrors the re-numbering of close_background_events at the end of the channel loop
def closeIdAfter (monId : Nat) (replay : List Nat) : Nat :=
  replay.foldl (fun _ p => closeUpdateIdAfter p) (closeUpdateId monId)

def World.stale (w : World) : Bool :=
  isStale w.mgr.nums.holder w.mon.nums.holder w.mgr.nums.secret w.mon.nums.secret
    w.mgr.nums.cp w.mon.nums.cp w.mgr.latestId w.mon.id

def World.dangerous (w : World) : Bool :=
  isDangerous w.mgr.unblockedId w.mon.id (maxInFlight w.mgr.inFlight)

-- mirrors lightning/src/ln/channelmanager.rs::from_channel_manager_data (per channel)
def reload (w : World) : Outcome :=
  if w.stale then .closed (replayList w.mgr.inFlight w.mon.id) (closeIdAfter w.mon.id (replayList w.mgr.inFlight w.mon.id))
  else if w.dangerous then .err
  else .resumed (replayList w.mgr.inFlight w.mon.id)

/-- a node with several channels: the read fails iff some channel that is not force-closed is dangerous -/
def reloadNode (ws : List World) : Option (List Outcome) :=
  let rs := ws.map reload
  if rs.any (fun r => r == .err) then none else some rs

/-- blocked updates the resumed channel still holds: channel.rs
    on_startup_drop_completed_blocked_mon_updates_through(monitor.get_latest_update_id()) -/
def blockedAfter (m : Mgr) (monId : Nat) : List Nat :=
  (List.range' (m.unblockedId + 1) (m.latestId - m.unblockedId)).filter (fun id => !blockedDropped id monId)

/-- the monitor's id after the replayed updates have been applied in order -/
def monIdAfter (monId : Nat) (replay : List Nat) : Nat := replay.foldl (fun _ id => id) monId

/-! ## History generator -/

inductive Op where
  /-- the channel generates its next update; `blocked`: it is held in blocked_monitor_updates instead of
      being handed to chain::Watch (it is queued behind earlier blocked updates in any case) -/
  | update (u : Upd) (blocked : Bool)
  /-- a new update is handed to chain::Watch AHEAD of the blocked ones: it takes the first blocked id and
      every blocked update's id is bumped (channel.rs get_update_fulfill_htlc_and_commit: a preimage claim
      while RAA updates are held) -/
  | jump (u : Upd)
  /-- the first blocked update is handed to chain::Watch -/
  | release
  /-- the persister reports completion and every update through `k` is now durable (completions that
      leave an earlier write pending change nothing observable: ChainMonitor waits for all of them) -/
  | complete (k : Nat)
  /-- the manager processes MonitorEvent::Completed (only emitted when nothing is pending) -/
  | notify
  | persistManager
  /-- the node stops; the monitor on disk is at update `d` (any in-progress write may or may not have
      reached the disk); it restarts from that monitor and the last written manager -/
  | crash (d : Nat)
  deriving DecidableEq, Repr, Inhabited

structure St where
  baseId : Nat
  base : Nums
  /-- updates generated since `base`; the i-th (from 0) has id baseId + i + 1 -/
  upds : List Upd
  /-- last id handed to chain::Watch -/
  watch : Nat
  /-- every update through this id has been reported complete -/
  durable : Nat
  /-- the manager's in-flight list is [lo .. watch] -/
  lo : Nat
  /-- the ChannelManager on disk -/
  disk : Mgr
  closed : Bool
  deriving DecidableEq, Repr, Inhabited

def St.latest (st : St) : Nat := st.baseId + st.upds.length

def St.curMgr (st : St) : Mgr :=
  { latestId := st.latest, unblockedId := st.watch,
    inFlight := List.range' st.lo (st.watch + 1 - st.lo),
    nums := numsAt st.base st.upds st.upds.length }

def St.init (baseId : Nat) (base : Nums) : St :=
  { baseId := baseId, base := base, upds := [], watch := baseId, durable := baseId, lo := baseId + 1,
    disk := { latestId := baseId, unblockedId := baseId, inFlight := [], nums := base }, closed := false }

/-- the durable world when the node stops in state `st` with the monitor on disk at update `d` -/
def St.world (st : St) (d : Nat) : World :=
  { mgr := st.disk, mon := { id := d, nums := numsAt st.base st.upds (d - st.baseId) } }

def crashStep (st : St) (d : Nat) : St :=
  match reload (st.world d) with
  | .err => st
  | .closed _ c => { st with closed := true, durable := d, watch := Nat.max d c, lo := d + 1 }
  | .resumed _ =>
    { st with upds := st.upds.take (st.disk.latestId - st.baseId), watch := Nat.max d st.disk.unblockedId,
              durable := d, lo := d + 1 }

def step (st : St) : Op → St
  | .update u blocked =>
    if st.closed then st
    else if blocked || decide (st.watch < st.latest) then { st with upds := st.upds ++ [u] }
    else { st with upds := st.upds ++ [u], watch := st.watch + 1 }
  | .jump u =>
    if st.closed then st
    else { st with upds := st.upds.take (st.watch - st.baseId) ++ u :: st.upds.drop (st.watch - st.baseId), watch := st.watch + 1 }
  | .release => if !st.closed && decide (st.watch < st.latest) then { st with watch := st.watch + 1 } else st
  | .complete k => if decide (st.durable < k) && decide (k ≤ st.watch) then { st with durable := k } else st
  | .notify => if decide (st.durable = st.watch) then { st with lo := st.watch + 1 } else st
  | .persistManager => if st.closed then st else { st with disk := st.curMgr }
  | .crash d => if decide (st.durable ≤ d) && decide (d ≤ st.watch) then crashStep st d else st

def run (st : St) (ops : List Op) : St := ops.foldl step st

def Op.isJump : Op → Bool
  | .jump _ => true
  | _ => false

/-! ## Reconciliation of queued forwards with the monitors of closed channels -/

/-- an HTLC on an inbound channel: (channel, htlc id).  Ids are per-channel counters starting at 0. -/
structure HtlcRef where
  chan : Nat
  id : Nat
  deriving DecidableEq, Repr, Inhabited

-- mirrors channelmanager.rs reconcile_pending_htlcs_with_monitor (the forward_htlcs_legacy /
-- pending_intercepted_htlcs_legacy retains) for one outbound HTLC `h` (given by its previous hop) that the
-- monitor of a closed channel lists
def reconcileOne (queue : List HtlcRef) (h : HtlcRef) : List HtlcRef :=
  queue.filter (fun f => !pendingForwardMatches f.chan f.id h.chan h.id)

/-- the manager's to-forward queue (each entry given by its previous hop) after the reload has walked every
    outbound HTLC `mons` of every monitor of a channel that is closed at load time -/
def reconcile (queue : List HtlcRef) (mons : List HtlcRef) : List HtlcRef := mons.foldl reconcileOne queue

-- mirrors channelmanager.rs dedup_decode_update_add_htlcs: the map is keyed by the inbound channel; only the
-- entry of `h.chan` is touched, entries that become empty are removed
def dedupDecodeOne (m : List (Nat × List Nat)) (h : HtlcRef) : List (Nat × List Nat) :=
  (m.map (fun e => if e.1 = h.chan then (e.1, e.2.filter (fun i => !dedupMatches i h.id)) else e)).filter
    (fun e => !e.2.isEmpty)

def dedupDecode (m : List (Nat × List Nat)) (mons : List HtlcRef) : List (Nat × List Nat) := mons.foldl dedupDecodeOne m

/-- (inbound channel, id) pairs waiting in a decode map -/
def decodeRefs (m : List (Nat × List Nat)) : List HtlcRef := m.flatMap (fun e => e.2.map (fun i => ⟨e.1, i⟩))

/-! ## Outbound HTLCs of a channel that was closed on chain: what the reload fails -/

/-- what a closed channel's monitor knows about the funding spend when the manager is read -/
structure ClosedMon where
  /-- `funding_spend_confirmed` is set (the FundingSpendConfirmation entry matured in the monitor) -/
  matured : Bool
  /-- height of the pending FundingSpendConfirmation entry (the closing transaction is confirmed but not matured) -/
  spendHeight : Option Nat
  /-- the monitor's best block height -/
  best : Nat
  deriving DecidableEq, Repr, Inhabited

/-- where an outbound HTLC (known from the unrevoked counterparty commitments) is with respect to the confirmed
    commitment transaction -/
inductive HtlcPos where
  /-- not in the confirmed commitment at all (only in another — e.g. newer — commitment) -/
  | absent
  /-- in it, below the dust limit (no output) -/
  | dust
  /-- an output of it; `failedOnChain`: that output was irrevocably resolved on chain without a preimage -/
  | output (failedOnChain : Bool)
  deriving DecidableEq, Repr, Inhabited

-- mirrors channelmonitor.rs get_onchain_failed_outbound_htlcs: `confirmed_txid.is_some()`
def ClosedMon.confirmedForReload (m : ClosedMon) : Bool :=
  m.matured || (match m.spendHeight with | some h => fundingSpendBuried h m.best | none => false)

-- mirrors channelmonitor.rs get_onchain_failed_outbound_htlcs (per candidate HTLC): is it in the returned set, i.e. does
-- from_channel_manager_data fail it (PaymentFailed for an own payment, fail-back for a forward) with reason OnChainTimeout
def failedOnReload (m : ClosedMon) (pos : HtlcPos) (resolvedToUser : Bool) : Bool :=
  m.confirmedForReload && !resolvedToUser &&
    (match pos with
     | .absent => true
     | .dust => true
     | .output failedOnChain => failedOnChain)

/-- confirmations of the closing transaction in the monitor's view -/
def ClosedMon.confirmations (m : ClosedMon) : Nat := match m.spendHeight with | some h => m.best + 1 - h | none => 0

end Ldk.Restart
