/- C05, holder side: the ChannelMonitor never signs a holder commitment whose secret was released, and a state that was
   signed for broadcast is never revoked.  Joint model of the channel's holder-commitment update (commitment_signed ->
   LatestHolderCommitment monitor update -> revoke_and_ack released when the update completes) and the monitor's refusal
   rule.  `noFurtherUpdatesAllowed`, `isPreCloseStep`, `updateOk`, `chainMonitorDefers` are GENERATED
   (tools/gen_holder_gate.py -> Generated/HolderGate.lean).  Hand-mirrored (tied by `probe_signed_then_cs`): the holder
   arms apply the new commitment before the refusal is decided; the revoke_and_ack waits for the update's completion; a
   refused / deferred update never releases it (the force-close monitor event closes the channel first); `sign` requests
   signatures for the CURRENT holder commitment only (get_latest_holder_commitment_txn / holder HTLC claims).
   Commitment numbers count down.  No Mathlib. -/
import LdkModel.Generated.HolderGate
namespace Ldk.HolderGate

structure Sys where
  flags : Flags
  /-- ChannelMonitor: current_holder_commitment_number -/
  monCur : Nat
  /-- channel: holder commitment number -/
  chanCur : Nat
  /-- the held revoke_and_ack: (commitment number whose secret it reveals, frozen = its update was refused / deferred) -/
  inflight : Option (Nat × Bool)
  /-- ghost: commitment numbers whose secrets were released -/
  released : List Nat
  /-- ghost: holder commitment numbers handed to the signer (commitment or HTLC transactions) -/
  signReq : List Nat
  chanClosed : Bool
  deriving Repr

def Sys.init (n0 : Nat) : Sys :=
  { flags := {}, monCur := n0, chanCur := n0, inflight := none, released := [], signReq := [], chanClosed := false }

/-- a fresh channel of either funding mode: `manual` = funded through funding_transaction_generated_manual_broadcast,
    `seen` = its funding transaction was already seen on chain (any other flag clear) -/
def Sys.initF (n0 : Nat) (manual seen : Bool) : Sys :=
  { Sys.init n0 with flags := { isManualBroadcast := manual, fundingSeenOnchain := seen } }

inductive Ev where
  /-- the channel accepts a commitment_signed; `persistCompleted` = what the persister answers -/
  | csRecv (persistCompleted : Bool)
  /-- the in-flight monitor update completes -/
  | complete
  /-- the monitor queues / signs its latest holder commitment (user force-close, HTLC timeout on chain,
      ChannelForceClosed { should_broadcast }) or a holder HTLC transaction on it -/
  | sign
  /-- mirrors queue_latest_holder_commitment_txn_for_broadcast(require_funding_seen) (ChannelForceClosed { should_broadcast },
      user broadcast): holder_tx_signed is set ALWAYS; the commitment is signed / queued unless the GENERATED
      `skipBroadcastUntilFundingSeen` holds (manual-broadcast funding not yet seen on chain) -/
  | goOnChain (requireFundingSeen : Bool)
  /-- mirrors block_confirmed when should_broadcast_holder_commitment_txn fires (an HTLC timed out): holder_tx_signed is set,
      the claims are queued iff the GENERATED `timeoutBroadcastAllowed` -/
  | htlcTimeout
  /-- mirrors transactions_confirmed seeing the funding transaction: funding_seen_onchain := true, and the holder commitment is
      broadcast now iff the GENERATED `broadcastOnFundingSeen` (manual broadcast, marked earlier) -/
  | fundingSeen
  | lockdown
  | spendSeen
  /-- the channel is closed off-chain (error, force close event processed): nothing held is ever released -/
  | closeChan
  /-- crash + reload: serialization is the identity on these fields; the manager replays the in-flight update -/
  | restart
  deriving Repr

def step (s : Sys) : Ev → Option Sys
  | .csRecv pc =>
    if s.chanClosed || s.inflight.isSome || s.chanCur == 0 then none else
    let new := s.chanCur - 1
    -- provide_latest_holder_commitment_tx ran; then the refusal rule
    let ok := updateOk true s.flags [.latestHolderCommitmentTXInfo]
    let defers := chainMonitorDefers ok s.flags pc
    if pc && !defers && ok then
      some { s with monCur := new, chanCur := new, released := s.chanCur :: s.released }
    else
      some { s with monCur := new, chanCur := new, inflight := some (s.chanCur, !ok || noFurtherUpdatesAllowed s.flags) }
  | .complete =>
    match s.inflight with
    | some (n, false) => if s.chanClosed then none else some { s with inflight := none, released := n :: s.released }
    | _ => none
  | .sign => some { s with flags := { s.flags with holderTxSigned := true }, signReq := s.monCur :: s.signReq }
  | .goOnChain rfs =>
    let f := { s.flags with holderTxSigned := true }
    some { s with flags := f, signReq := if skipBroadcastUntilFundingSeen rfs f then s.signReq else s.monCur :: s.signReq }
  | .htlcTimeout =>
    let f := { s.flags with holderTxSigned := true }
    some { s with flags := f, signReq := if timeoutBroadcastAllowed f then s.monCur :: s.signReq else s.signReq }
  | .fundingSeen =>
    let f := { s.flags with fundingSeenOnchain := true }
    some { s with flags := f, signReq := if broadcastOnFundingSeen s.flags.fundingSeenOnchain f then s.monCur :: s.signReq else s.signReq }
  | .lockdown => some { s with flags := { s.flags with lockdownFromOffchain := true } }
  | .spendSeen => some { s with flags := { s.flags with fundingSpendSeen := true } }
  | .closeChan => some { s with chanClosed := true, inflight := none }
  | .restart => some { s with inflight := s.inflight.map fun (n, fr) => (n, fr || noFurtherUpdatesAllowed s.flags) }

def run (s : Sys) : List Ev → Option Sys
  | [] => some s
  | e :: es => match step s e with
    | none => none
    | some s' => run s' es

end Ldk.HolderGate
