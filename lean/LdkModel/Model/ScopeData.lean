/- The per-FundingScope commitment data of a ChannelMonitor while splices / RBF candidates are pending (C06).
   Mirrors, in lightning/src/chain/channelmonitor.rs:
     update_counterparty_commitment_data (with verify_matching_commitment_transactions' count / funding-outpoint checks),
     renegotiated_funding (the HTLC-list part), promote_funding (the scope swap),
     and the lookup of check_spend_counterparty_transaction in the scope whose funding was spent.
   WHICH element of `commitment_txs` feeds which scope is TRANSLATED (Generated/ScopeData.lean, tools/gen_scopedata.py).

   Abstractions: txids are numbers; a commitment transaction is (funding txid it spends, its txid, its non-dust HTLCs with THEIR
   output indices in THIS transaction); dust HTLCs (no output index, no claim) and HTLC sources are not modelled here
   (Model/Punish.lean has the sources).  No Mathlib. -/
import LdkModel.Model.Punish
import LdkModel.Generated.ScopeData
namespace Ldk.ScopeData
open Ldk.Punish

/-- one counterparty `CommitmentTransaction` as handed to the monitor -/
structure CTx where
  /-- txid of the funding transaction its single input spends -/
  funding : Nat
  txid : Nat
  /-- `nondust_htlcs()`: `transaction_output_index` is the index in THIS transaction -/
  htlcs : List Htlc
  /-- `commitment_number()`, `per_commitment_point()` (points are numbered by the harness), `negotiated_feerate_per_kw()` -/
  num : Nat := 0
  point : Nat := 0
  feerate : Nat := 0
  deriving DecidableEq, Repr, Inhabited

/-- the punishment-relevant part of a `FundingScope` -/
structure Scope where
  funding : Nat
  /-- `current_counterparty_commitment_txid` -/
  cur : Option Nat
  /-- `prev_counterparty_commitment_txid` -/
  prev : Option Nat
  /-- `counterparty_claimable_outpoints` -/
  claimable : List (Nat × List Htlc)
  deriving DecidableEq, Repr, Inhabited

structure Mon where
  /-- `self.funding` -/
  locked : Scope
  /-- `self.pending_funding` -/
  pending : List Scope
  deriving DecidableEq, Repr, Inhabited

def Mon.init (funding : Nat) : Mon := { locked := { funding := funding, cur := none, prev := none, claimable := [] }, pending := [] }
def Mon.scopes (m : Mon) : List Scope := m.locked :: m.pending

/-- `prev = cur.take(); cur = Some(curTxid); counterparty_claimable_outpoints.insert(key, htlcs)` -/
def Scope.provide (s : Scope) (key curTxid : Nat) (htlcs : List Htlc) : Scope :=
  { s with prev := s.cur, cur := some curTxid, claimable := (key, htlcs) :: s.claimable.filter (fun e => e.1 != key) }

/-- one scope's share of update_counterparty_commitment_data: key / current txid / HTLC list taken from the elements
    `key`, `cur`, `src` of `commitment_txs`; `none` = verify_matching_commitment_transactions refuses (the transaction paired with
    the scope does not spend its funding outpoint) or the count does not match -/
def Scope.update (s : Scope) (txs : List CTx) (key cur src : Nat) : Option Scope :=
  match txs[key]?, txs[cur]?, txs[src]? with
  | some tk, some tc, some ts => if tk.funding == s.funding then some (s.provide tk.txid tc.txid ts.htlcs) else none
  | _, _, _ => none

/-- the loop over `self.pending_funding.iter_mut().zip(commitment_txs.iter().skip(..))`, `k` = position of the scope -/
def updPending (txs : List CTx) : Nat → List Scope → Option (List Scope)
  | _, [] => some []
  | k, s :: rest =>
    match s.update txs (Gen.pendingKey k) (Gen.pendingCur k) (Gen.pendingSrc k), updPending txs (k + 1) rest with
    | some s', some rest' => some (s' :: rest')
    | _, _ => none

/-- `HTLCOutputInCommitment::is_data_equal`: the TRANSLATED conjunction (Gen.isDataEqual) over the model's fields; payment hashes are
    not modelled (constant) -/
def dataEq (a b : Htlc) : Bool := Gen.isDataEqual Htlc.offered Htlc.amtMsat Htlc.cltv (fun _ => 0) a b

/-- the `for (nondust_htlc, other_nondust_htlc) in nondust_htlcs.iter().zip(other_nondust_htlcs.iter())` loop of
    verify_matching_commitment_transactions (it runs after the length comparison) -/
def htlcsDataEqual (a b : CTx) : Bool := (List.zipWith dataEq a.htlcs b.htlcs).all id

/-- the TRANSLATED comparisons of verify_matching_commitment_transactions between `tx` and `other_commitment_tx` -/
def versionMismatch (tx other : CTx) : Option String :=
  Gen.versionMismatch CTx.num CTx.point CTx.feerate (fun t => t.htlcs.length) htlcsDataEqual tx other

/-- the loop `for (funding, commitment_tx) in once(&self.funding).chain(self.pending_funding.iter()).zip(commitment_txs)`:
    funding-outpoint check, then the comparisons with `other_commitment_tx`; `some msg` = `return Err(msg)` -/
def verifyLoop : Option CTx → List Scope → List CTx → Option String
  | _, [], _ => none
  | _, _, [] => none
  | other, s :: ss, t :: ts =>
    if t.funding != s.funding then some "Commitment transaction spends invalid funding outpoint"
    else match other.bind (versionMismatch t) with
      | some e => some e
      | none => verifyLoop (if Gen.verifyOtherIsPredecessor then some t else other) ss ts

-- mirrors lightning::chain::channelmonitor::ChannelMonitorImpl::verify_matching_commitment_transactions (`none` = Ok(()))
def verifyMatching (m : Mon) (txs : List CTx) : Option String :=
  if m.pending.length + 1 != txs.length then some "Commitment transaction count mismatch"
  else verifyLoop none (m.locked :: m.pending) txs

/-- update_counterparty_commitment_data after `verify_matching_commitment_transactions(..)?` -/
def storeCommitmentData (m : Mon) (txs : List CTx) : Option Mon :=
  if txs.length != m.pending.length + 1 then none      -- "Commitment transaction count mismatch"
  else
    match m.locked.update txs Gen.lockedKey Gen.lockedKey Gen.lockedSrc, updPending txs 0 m.pending with
    | some l, some p => some { locked := l, pending := p }
    | _, _ => none

-- mirrors lightning::chain::channelmonitor::ChannelMonitorImpl::update_counterparty_commitment_data
def updateCommitmentData (m : Mon) (txs : List CTx) : Option Mon :=
  if (verifyMatching m txs).isSome then none else storeCommitmentData m txs

/-- the new scope's list: the current list with every index overwritten by the alternative transaction's -/
def renegList (alt cur : List Htlc) : List Htlc :=
  List.zipWith (fun a h => if Gen.renegIndexFromAlternative then { h with outIdx := a.outIdx } else h) alt cur

-- mirrors lightning::chain::channelmonitor::ChannelMonitorImpl::renegotiated_funding (the HTLC-list part)
def renegotiatedFunding (m : Mon) (alt : CTx) : Option Mon :=
  match m.locked.cur.bind (fun t => m.locked.claimable.lookup t) with
  | none => none
  | some cur =>
    if alt.htlcs.length != cur.length then none           -- "HTLC count mismatch"
    else if !(List.zipWith dataEq alt.htlcs cur).all id then none   -- "non-dust HTLC mismatch"
    else if m.pending.any (fun s => s.funding == alt.funding) then none   -- duplicate funding txid
    else some { m with pending := m.pending ++
      [{ funding := alt.funding, cur := some alt.txid, prev := none, claimable := [(alt.txid, renegList alt.htlcs cur)] }] }

-- mirrors lightning::chain::channelmonitor::ChannelMonitorImpl::promote_funding (the scope swap; the other scopes are dropped)
def promote (m : Mon) (funding : Nat) : Option Mon :=
  match m.pending.find? (fun s => s.funding == funding) with
  | none => none
  | some s => some { locked := s, pending := [] }

/-- monitor-visible events that touch the per-scope data -/
inductive Op where
  | commit (txs : List CTx)
  | reneg (alt : CTx)
  | promote (funding : Nat)
  deriving Repr

def step (m : Mon) : Op → Option Mon
  | .commit txs => updateCommitmentData m txs
  | .reneg alt => renegotiatedFunding m alt
  | .promote f => promote m f

def run (m : Mon) : List Op → Option Mon
  | [] => some m
  | op :: rest => (step m op).bind (fun m' => run m' rest)

/-- the transaction lists of the counterparty-commitment updates of a history -/
def seenCommits : List Op → List (List CTx)
  | [] => []
  | .commit txs :: rest => txs :: seenCommits rest
  | _ :: rest => seenCommits rest

/-- every commitment transaction the history handed to the monitor -/
def seenTxs : List Op → List CTx
  | [] => []
  | .commit txs :: rest => txs ++ seenTxs rest
  | .reneg alt :: rest => alt :: seenTxs rest
  | .promote _ :: rest => seenTxs rest

/-- check_spend_counterparty_transaction: the HTLC claims on a confirmed counterparty commitment `txid` that spends `funding`
    (outputs `tx`), from the data stored in THAT scope (`get_confirmed_funding_scope!`) -/
def htlcClaimsOn {S : Type} (m : Mon) (funding txid : Nat) (tx : List (TxOut S)) : List Outpoint :=
  match m.scopes.find? (fun s => s.funding == funding) with
  | none => []
  | some s => match s.claimable.lookup txid with
    | none => []
    | some l => htlcClaims tx l

end Ldk.ScopeData
