/- BOLT-8 transport framing and the byte-level reassembly of `PeerManager::do_read_event`, over the
   abstract `Noise.Crypto`.

   Sender   = (sk, sn, sck)                              — `NoiseState::Finished` send half
   Receiver = (rk, rn, rck, buf, need, isHeader)         — receive half + `Peer::pending_read_buffer`
              (`need` = `pending_read_buffer.len()`, `buf` = the first `pending_read_buffer_pos`
              bytes already copied in, `isHeader` = `pending_read_is_header`)
   frame    : one message → 18-byte sealed length header ‖ sealed body (+16)
   recvData : one `read_event(data)` call after the handshake → delivered messages, and either the
              new receiver state or "disconnected"
   Gate     : the Init-before-anything / unknown-even rule of `do_handle_message_*`
   No Mathlib. -/
import LdkModel.Model.Noise
import LdkModel.Generated.Consts
import LdkModel.Generated.PeerGate
namespace Ldk.Framing
open Ldk.Noise

/-- the counter value at which a key is rotated: `if *sn >= 1000` / `if *rn >= 1000`
    (a literal in peer_channel_encryptor.rs, checked only before a length header, so a key seals
    exactly 1000 boxes = 500 messages) -/
def ROTATE_AT : Nat := 1000

structure Sender where
  sk : Bytes
  sn : Nat
  sck : Bytes
  deriving Repr, DecidableEq

structure Receiver where
  rk : Bytes
  rn : Nat
  rck : Bytes
  /-- bytes of the pending item received so far (`pending_read_buffer[..pending_read_buffer_pos]`) -/
  buf : Bytes
  /-- `pending_read_buffer.len()` -/
  need : Nat
  /-- `pending_read_is_header` -/
  isHeader : Bool
  deriving Repr, DecidableEq

/-- u16 big endian -/
def be16 (n : Nat) : Bytes := [UInt8.ofNat (n / 256), UInt8.ofNat n]
/-- `u16::from_be_bytes` of the first two bytes -/
def unbe16 (b : Bytes) : Nat := (b.getD 0 0).toNat * 256 + (b.getD 1 0).toNat

variable (c : Crypto)

/-- mirrors the `if *sn >= 1000 { … }` block of encrypt_message_with_header_0s:
    `(new_sck, new_sk) = hkdf(sck, sk)` -/
def Sender.rotate (s : Sender) : Sender :=
  if s.sn ≥ ROTATE_AT then
    let (ck', k') := c.hkdf2 s.sck s.sk
    { sk := k', sn := 0, sck := ck' }
  else s

/-- mirrors the `if *rn >= 1000 { … }` block of decrypt_length_header -/
def Receiver.rotate (r : Receiver) : Receiver :=
  if r.rn ≥ ROTATE_AT then
    let (ck', k') := c.hkdf2 r.rck r.rk
    { r with rk := k', rn := 0, rck := ck' }
  else r

/-- mirrors PeerChannelEncryptor::encrypt_message_with_header_0s (for `msg.length ≤ 65535`):
    rotate if due, seal the 2-byte big-endian length with nonce `sn`, seal the body with `sn+1`,
    both with empty associated data -/
def frame (s : Sender) (msg : Bytes) : Bytes × Sender :=
  let s1 := s.rotate c
  let hdr := c.aeadSeal s1.sk s1.sn [] (be16 msg.length)
  let body := c.aeadSeal s1.sk (s1.sn + 1) [] msg
  (hdr ++ body, { s1 with sn := s1.sn + 2 })

/-- mirrors encrypt_buffer / encrypt_message including the length check
    (`MessageBuf::from_encoded` / `msg_len > LN_MAX_MSG_LEN ⇒ Err(())`) -/
def send (s : Sender) (msg : Bytes) : Option (Bytes × Sender) :=
  if msg.length > Ldk.LN_MAX_MSG_LEN then none else some (frame c s msg)

/-- the byte stream of a message list, and the sender afterwards -/
def sendAll (s : Sender) : List Bytes → Bytes × Sender
  | [] => ([], s)
  | m :: ms =>
    let (f, s1) := frame c s m
    let (rest, s2) := sendAll s1 ms
    (f ++ rest, s2)

/-- mirrors PeerChannelEncryptor::decrypt_length_header on an 18-byte box: rotate if due, open with
    nonce `rn`; `None` = Bad MAC -/
def decryptLengthHeader (r : Receiver) (box : Bytes) : Option (Nat × Receiver) :=
  let r1 := r.rotate c
  match c.aeadOpen r1.rk r1.rn [] box with
  | none => none
  | some p => some (unbe16 p, { r1 with rn := r1.rn + 1 })

/-- mirrors PeerChannelEncryptor::decrypt_message -/
def decryptMessage (r : Receiver) (box : Bytes) : Option (Bytes × Receiver) :=
  if box.length > Ldk.LN_MAX_MSG_LEN + 16 then none
  else match c.aeadOpen r.rk r.rn [] box with
    | none => none
    | some m => some (m, { r with rn := r.rn + 1 })

/-- outcome of processing one complete pending buffer -/
inductive Step where
  | disconnect
  | cont (r : Receiver) (delivered : Option Bytes)

/-- mirrors the `NextNoiseStep::NoiseComplete` arm of do_read_event on a full `pending_read_buffer`:
    header ⇒ decrypt the length, `msg_len < 2 ⇒ Err`, next item is `msg_len + 16` bytes;
    body ⇒ decrypt, hand the plaintext to `wire::read`/`handle_message`, next item is an 18-byte
    header.  Any decrypt error is `ErrorAction::DisconnectPeer` ⇒ `Err(PeerHandleError)`. -/
def complete (r : Receiver) (full : Bytes) : Step :=
  if r.isHeader then
    match decryptLengthHeader c r full with
    | none => .disconnect
    | some (len, r1) =>
      if len < 2 then .disconnect
      else .cont { r1 with buf := [], need := len + 16, isHeader := false } none
  else
    match decryptMessage c r full with
    | none => .disconnect
    | some (m, r1) => .cont { r1 with buf := [], need := 18, isHeader := true } (some m)

/-- result of feeding bytes: the messages delivered (in order) and the receiver afterwards;
    `none` = the connection was dropped (`read_event` returned `Err`, the peer is removed) -/
abbrev RecvResult := List Bytes × Option Receiver

def consOut (o : Option Bytes) (r : RecvResult) : RecvResult :=
  match o with
  | some m => (m :: r.1, r.2)
  | none => r

/-- mirrors the `while read_pos < data.len()` loop of PeerManager::do_read_event after the
    handshake: copy `min(need - pos, remaining)` bytes; when the pending buffer is full, process it
    and go on with the rest of `data`.  `r.need ≤ r.buf.length` is the state the two `assert!`s at
    the top of the loop exclude (never reached from `Receiver.start`); it is mapped to a drop. -/
def recvData (r : Receiver) (data : Bytes) : RecvResult :=
  if hd : data = [] then ([], some r)
  else if hn : r.need ≤ r.buf.length then ([], none)
  else
    let k := min (r.need - r.buf.length) data.length
    let buf' := r.buf ++ data.take k
    if buf'.length = r.need then
      match complete c { r with buf := [] } buf' with
      | .disconnect => ([], none)
      | .cont r1 o => consOut o (recvData r1 (data.drop k))
    else ([], some { r with buf := buf' })
termination_by data.length
decreasing_by
  have h1 : 0 < data.length := List.length_pos_iff.mpr hd
  simp only [List.length_drop]
  omega

/-- a sequence of `read_event` calls; after a drop the remaining reads are not delivered
    (`peers.get(descriptor)` is `None`) -/
def recvChunks (r : Receiver) : List Bytes → RecvResult
  | [] => ([], some r)
  | ch :: rest =>
    match recvData c r ch with
    | (out, none) => (out, none)
    | (out, some r1) =>
      let (out2, r2) := recvChunks r1 rest
      (out ++ out2, r2)

/-- receiver right after the handshake: `pending_read_buffer = [0; 18]`, `pending_read_is_header` -/
def Receiver.start (rk rck : Bytes) : Receiver :=
  { rk := rk, rn := 0, rck := rck, buf := [], need := 18, isHeader := true }

def Sender.ofKeys (k : Keys) : Sender := { sk := k.sk, sn := k.sn, sck := k.sck }
def Receiver.ofKeys (k : Keys) : Receiver := Receiver.start k.rk k.rck

/-! ### PeerGate: which decrypted messages are passed up (do_handle_message_holding_peer_lock,
    do_handle_message_without_peer_lock).  The DECISIONS are the definitions of Generated/PeerGate.lean, which
    tools/gen_peer_gate.py translates from the Rust text on every run: which variant takes the Init arm
    (`isInitArm`), the Need-an-Init rule (`rejectedBeforeInit` = the `else if their_features.is_none()` test and
    the variants its body lets through — none in the pristine source), the second-Init rule
    (`secondInitRejected`), and per arm of the `match message` of do_handle_message_without_peer_lock the
    handler methods called and when `Err(PeerHandleError)` is returned (`dispatch`). -/
open Ldk.PeerGate (MK)

inductive GateOut where
  | initOk                 -- the peer's Init was accepted (`their_features = Some(..)`)
  | passUp (msg : Bytes)   -- handed to a message handler; the peer stays
  | passUpDisc (msg : Bytes) -- handed to a message handler, THEN `Err(PeerHandleError)` (error with an all-zero channel id)
  | ignored                -- no handler is called and the peer stays (unknown odd type, warning, what the PeerManager consumes itself)
  | disconnect             -- `Err(PeerHandleError)` without any handler call
  deriving DecidableEq, Repr

structure Gate where
  /-- `peer.their_features.is_some()` — the peer's Init has been processed -/
  theirInit : Bool
  /-- our own Init was queued when the handshake completed (it is enqueued in the same
      `do_read_event` step that finishes act two / act three, before any message is read) -/
  ourInitQueued : Bool
  deriving DecidableEq, Repr

def Gate.start : Gate := { theirInit := false, ourInitQueued := true }

/-- message type = first two bytes, big endian -/
def msgType (m : Bytes) : Nat := unbe16 m

/-- `msg.channel_id.is_zero()` of an error / warning: the 32 bytes after the type (msgs.rs
    `impl Writeable for ErrorMessage`: channel_id first); hand-written, tied by the differential run -/
def chanIdZero (m : Bytes) : Bool := ((m.drop 2).take 32).all (· == 0)

/-- does this arm return `Err(PeerHandleError)` on this message -/
def armDisconnects (a : PeerGate.Arm) (m : Bytes) : Bool :=
  match a.disc with
  | .never => false
  | .always => true
  | .ifZeroChannelId => chanIdZero m

/-- the dispatch of do_handle_message_without_peer_lock on one message of variant `k` -/
def dispatchOut (k : MK) (m : Bytes) : GateOut :=
  let a := PeerGate.dispatch k (msgType m % 2 == 0)
  if a.calls.isEmpty then (if armDisconnects a m then .disconnect else .ignored)
  else if armDisconnects a m then .passUpDisc m else .passUp m

/-- mirrors the head of do_handle_message_holding_peer_lock ("Need an Init as first message",
    a second Init ⇒ Err, non-Init before Init ⇒ Err) followed by the arm of
    do_handle_message_without_peer_lock.  `classify` abstracts `wire::read` + the custom reader (which
    `Message` variant the bytes decode to); `initOk` abstracts the feature/chain compatibility checks
    and the handlers' `peer_connected` results.  Every decision is a generated definition. -/
def gateStep (classify : Nat → MK) (initOk : Bytes → Bool) (g : Gate) (m : Bytes) :
    Gate × GateOut :=
  let k := classify (msgType m)
  if PeerGate.isInitArm k then
    if !initOk m then (g, .disconnect)
    else if PeerGate.secondInitRejected g.theirInit then (g, .disconnect)
    else ({ g with theirInit := true }, .initOk)
  else if PeerGate.rejectedBeforeInit g.theirInit k then (g, .disconnect)  -- "Peer sent non-Init first message"
  else (g, dispatchOut k m)

/-- run the gate over the decrypted message sequence; nothing is processed after a disconnect -/
def gateRun (classify : Nat → MK) (initOk : Bytes → Bool) (g : Gate) : List Bytes → List GateOut
  | [] => []
  | m :: ms =>
    match gateStep classify initOk g m with
    | (_, .disconnect) => [.disconnect]
    | (_, .passUpDisc x) => [.passUp x, .disconnect]
    | (g1, o) => o :: gateRun classify initOk g1 ms

end Ldk.Framing
