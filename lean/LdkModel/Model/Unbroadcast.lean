/- C03 — the LIVE twin of the restart reconstruction: when a commitment transaction confirms, the monitor's macro
   `fail_unbroadcast_htlcs!` (lightning/src/chain/channelmonitor.rs) queues, for ANTI_REORG_DELAY blocks later, the
   failure (`OnchainEvent::HTLCUpdate { commitment_tx_output_idx: None }`, later `MonitorEvent::HTLCEvent` without a
   preimage => `fail_htlc` => PaymentPathFailed / PaymentFailed) of every outbound HTLC of the two unrevoked counterparty
   commitments that did not make it into the confirmed commitment transaction (or is dust there).
   Every deciding expression comes from Generated/Unbroadcast.lean (tools/gen_unbroadcast.py); hand-written here: the data
   layout, the two nested loops (`any` = the inner `for .. break`) and `liveConfirmed` (which list each of the five call
   sites hands in — the call sites' arguments are pinned by the translator; tied by the `fub` op of c03chain). -/
import LdkModel.Generated.Unbroadcast
import LdkModel.Model.OnchainFailed
namespace Ldk.Unbroadcast
open Ldk Ldk.OnchainFailed Ldk.UnbroadcastGen

/-- `(HTLCOutputInCommitment, Option<HTLCSource>)` with the two fields the macro's fallback comparison reads -/
structure BHtlc where
  src : Option Nat          -- the source (a number per distinct source), `none` = an inbound HTLC
  outIdx : Option Nat       -- transaction_output_index (`none` = dust)
  hash : Nat                -- payment_hash (interned)
  amt : Nat                 -- amount_msat
deriving Repr, DecidableEq

def BHtlc.toHtlc (b : BHtlc) : Htlc := { src := b.src, outIdx := b.outIdx }

/-- mirrors the `if` inside `for (ref broadcast_htlc, ref broadcast_source) in confirmed_htlcs_iter` for the candidate
    `c` with source `s` -/
def matchedBy (s : Nat) (c b : BHtlc) : Bool :=
  fuMatches b.outIdx (b.src == some s) b.src.isNone (b.hash == c.hash) (b.amt == c.amt)

/-- mirrors one round of `check_htlc_fails!`'s loop: `some s` = an `HTLCUpdate` entry for source `s` is pushed -/
def checkOne (fulfilled : List Nat) (conf : List BHtlc) (c : BHtlc) : Option Nat :=
  match c.src with
  | none => none
  | some s =>
    if fuSkipMatched (conf.any (matchedBy s c)) then none
    else if fuSkipFulfilled (if fulfilled.contains s then some 0 else none) then none
    else if fuQueues then some s else none

/-- mirrors `fail_unbroadcast_htlcs!`: the sources queued to fail (`cpCur` / `cpPrev` = the HTLC lists of
    `funding.{current,prev}_counterparty_commitment_txid`, empty when the txid is `None`; `fulfilled` = the sources in
    `counterparty_fulfilled_htlcs`; `conf` = `$confirmed_htlcs_list`) -/
def failUnbroadcast (cpCur cpPrev : List BHtlc) (fulfilled : List Nat) (conf : List BHtlc) : List Nat :=
  (fuCandidates cpCur cpPrev).flatMap (fun l => l.filterMap (checkOne fulfilled conf))

/-- what the monitor holds when a commitment transaction confirms -/
structure LiveView where
  curCp : Option Nat
  prevCp : Option Nat
  cpCur : List BHtlc
  cpPrev : List BHtlc
  holderCurTxid : Nat
  holderCur : List BHtlc
  holderPrev : Option (Nat × List BHtlc)
  fulfilled : List Nat
deriving Repr

/-- which list the call site hands in for the confirmed txid `t` (hand-written; the five call sites are pinned):
    `counterparty_claimable_outpoints.get(&commitment_txid)` if there is one (check_spend_counterparty_transaction), else
    the current / previous holder commitment (check_spend_holder_transaction); an unknown txid runs no check at all -/
def liveConfirmed (v : LiveView) (t : Nat) : Option (List BHtlc) :=
  if v.curCp = some t then some v.cpCur
  else if v.prevCp = some t then some v.cpPrev
  else if t = v.holderCurTxid then some v.holderCur
  else match v.holderPrev with
    | some (p, hs) => if t = p then some hs else none
    | none => none

/-- the sources queued to fail when the transaction `t` confirms -/
def queuedOnConfirm (v : LiveView) (t : Nat) : List Nat :=
  match liveConfirmed v t with
  | some conf => failUnbroadcast v.cpCur v.cpPrev v.fulfilled conf
  | none => []

end Ldk.Unbroadcast
