import LdkModel.Model.Codec
import LdkModel.Generated.MsgSchemas
import LdkModel.Model.MsgSchemasHand
/-!
  Model/MsgCustom.lean — peer messages whose hand-written codec in lightning/src/ln/msgs.rs is not a plain field
  sequence (C13): UnsignedNodeAnnouncement / NodeAnnouncement (addrlen-delimited SocketAddress list) and
  QueryShortChannelIds / ReplyChannelRange (encoding-type byte + sized short_channel_id list).

  Tie to the source (tools/gen_msg_schemas.py, every run):
  * the *shape* of each reader / writer body is pinned by a skeleton (TRANSLATE-ERROR when it changes);
  * the arithmetic and comparisons inside them (`addr_len <= addr_readpos`, `addr_len < addr_readpos + 1 + addr.len()`,
    `addr_readpos += …`, `encoding_len == 0 || (encoding_len - 1) % 8 != 0`, …) are TRANSLATED into the definitions
    `Gen.nodeAnn*` / `Gen.*Rules` that the functions below call — the model follows the source and the theorems of
    Props/C13 are re-checked against what the source says now;
  * the SocketAddress table `Gen.sockAddrKinds` (type bytes, fields, `SocketAddress::len` constants) is extracted.
-/
namespace Ldk.Codec.Custom
open Ldk.Codec Ldk.Codec.Gen

/-- field types whose decoder keeps the bytes it read verbatim (no canonicalising check, no alternative length encodings):
    what such a field decodes to re-encodes to exactly the bytes that were consumed -/
def exactTy : FieldTy → Bool
  | .uint _ => true
  | .fixed _ c => c == .any || c == .bool || c == .point || c == .sig
  | .unit => true
  | .bytes16 => true
  | .pair a b => exactTy a && exactTy b
  | _ => false

/-- shape conditions on the header (the fields before the variable part) of a custom codec: well-formed, self-delimiting,
    HighZeroBytesDropped-free and exact -/
def hdrOk (hdr : List FieldTy) : Bool := hdr.all fun t => t.wf && t.selfDelim && t.plain && exactTy t

/-! ## UnsignedNodeAnnouncement / NodeAnnouncement -/

/-- fields read before `addr_len`: features (NodeFeatures: u16 length + flag bytes), timestamp, node_id (33 raw bytes),
    rgb (`read_exact` of 3 bytes), alias (32 bytes) — Props/C13 `custom_headers_match_source` -/
def nodeAnnHeaderNames : List String := ["features", "timestamp", "node_id", "rgb", "alias"]
def nodeAnnHeader : List FieldTy := [.bytes16, Hand.u32, Hand.nodeId, .fixed 3 .any, .fixed 32 .any]
/-- `NodeAnnouncement`: `signature`, then `contents` (the unsigned announcement, to the end of the message) -/
def nodeAnnSignedHeader : List FieldTy := Hand.sig :: nodeAnnHeader

/-- the value of an (Unsigned)NodeAnnouncement: header values, addresses, excess_address_data, excess_data -/
structure NodeAnn where
  hdr : List Val
  addresses : List SockAddr
  excessAddr : Bytes
  excess : Bytes
  deriving DecidableEq, Repr

/-- mirrors the `loop { … }` of `impl LengthReadable for UnsignedNodeAnnouncement`, one iteration per unit of fuel:
    `if addr_len <= addr_readpos { break }` · read a `Result<SocketAddress, u8>` (ShortRead ⇒ BadLengthDescriptor, other
    errors as they are) · known descriptor: `if addr_len < addr_readpos + 1 + addr.len() ⇒ BadLengthDescriptor`,
    `addr_readpos += 1 + addr.len()`, push · unknown descriptor: remember the byte, `break`.
    Result: (addresses, addr_readpos, unknown descriptor byte, unread rest). -/
def addrLoop (kinds : List AddrKind) (addrLen : Nat) : Nat → Nat → List SockAddr → Bytes → Res (List SockAddr × Nat × Option UInt8 × Bytes)
  | 0, _, _, _ => .error .Io   -- out of fuel; unreachable with fuel > input length (every iteration consumes a byte)
  | fuel + 1, pos, acc, b =>
    if nodeAnnDone addrLen pos then .ok (acc, pos, none, b)
    else
      match decodeAddrResult kinds b with
      | .error .ShortRead => .error .BadLengthDescriptor
      | .error e => .error e
      | .ok (.inr unknown, r) => .ok (acc, pos, some unknown, r)
      | .ok (.inl a, r) =>
        if nodeAnnOverrun addrLen pos (a.len kinds) then .error .BadLengthDescriptor
        else addrLoop kinds addrLen fuel (nodeAnnAdvance pos (a.len kinds)) (acc ++ [a]) r

def optByte : Option UInt8 → Bytes
  | some x => [x]
  | none => []

/-- mirrors `impl LengthReadable for UnsignedNodeAnnouncement` (`hdr = nodeAnnHeader`) and `… for NodeAnnouncement`
    (`hdr = nodeAnnSignedHeader`): header fields, `addr_len: u16`, the address loop, then
    `if addr_readpos < addr_len`: `excess_address_data = vec![0; addr_len - addr_readpos]`, `read_exact` into it (after the
    unknown descriptor byte, if there was one) ⇒ ShortRead when the message ends first; else no excess address data (an unknown
    byte would go to excess_data — unreachable, the loop only breaks on an unknown byte while `addr_readpos < addr_len`);
    `excess_data` = everything left. -/
def decodeNodeAnn (kinds : List AddrKind) (hdr : List FieldTy) (b : Bytes) : Res NodeAnn :=
  match decodeFixed hdr b with
  | .error e => .error e
  | .ok (hv, b1) =>
    match readUint 2 b1 with
    | .error e => .error e
    | .ok (addrLen, b2) =>
      match addrLoop kinds addrLen (b2.length + 1) 0 [] b2 with
      | .error e => .error e
      | .ok (addrs, pos, unk, b3) =>
        if nodeAnnHasExcess addrLen pos then
          let need := nodeAnnExcessLen addrLen pos - (optByte unk).length
          if b3.length < need then .error .ShortRead
          else .ok ⟨hv, addrs, optByte unk ++ b3.take need, b3.drop need⟩
        else .ok ⟨hv, addrs, [], optByte unk ++ b3⟩

/-- the writer's `let mut addr_len = 0; for addr in … { addr_len += 1 + addr.len(); }` -/
def writeAddrLen (kinds : List AddrKind) : Nat → List SockAddr → Nat
  | acc, [] => acc
  | acc, a :: as => writeAddrLen kinds (nodeAnnWriteStep acc (a.len kinds)) as

def encodeAddrs (kinds : List AddrKind) : List SockAddr → Bytes
  | [] => []
  | a :: as => a.encode kinds ++ encodeAddrs kinds as

/-- mirrors `impl Writeable for UnsignedNodeAnnouncement` / `NodeAnnouncement`: header fields,
    `(addr_len + excess_address_data.len()) as u16`, the addresses, excess_address_data, excess_data -/
def encodeNodeAnn (kinds : List AddrKind) (hdr : List FieldTy) (m : NodeAnn) : Bytes :=
  encodeFixed hdr m.hdr ++ (beEncode 2 (nodeAnnWriteTotal (writeAddrLen kinds 0 m.addresses) m.excessAddr.length) ++
    (encodeAddrs kinds m.addresses ++ (m.excessAddr ++ m.excess)))

/-- bytes the descriptors occupy on the wire (type byte included) -/
def regionLen (kinds : List AddrKind) : List SockAddr → Nat
  | [] => 0
  | a :: as => (a.encode kinds).length + regionLen kinds as

/-- the announcements the Rust struct can hold AND the wire format can carry: header values in range, every address a valid
    value of a known variant, addresses + excess_address_data fit the u16 length, and excess_address_data — which the reader
    only ever produces starting at an unknown descriptor byte — is empty or starts with a byte that is not a known type -/
def NodeAnn.wf (kinds : List AddrKind) (hdr : List FieldTy) (m : NodeAnn) : Bool :=
  validFixed hdr m.hdr && m.addresses.all (·.valid kinds) &&
  decide (regionLen kinds m.addresses + m.excessAddr.length < 2 ^ 16) &&
  (match m.excessAddr with
   | [] => true
   | x :: _ => (findKind kinds x.toNat).isNone)

/-! ## QueryShortChannelIds / ReplyChannelRange -/

def queryScidHeaderNames : List String := ["chain_hash"]
def queryScidHeader : List FieldTy := [Hand.h32]
def replyRangeHeaderNames : List String := ["chain_hash", "first_blocknum", "number_of_blocks", "sync_complete"]
def replyRangeHeader : List FieldTy := [Hand.h32, Hand.u32, Hand.u32, .fixed 1 .bool]

structure ScidMsg where
  hdr : List Val
  scids : List Nat
  deriving DecidableEq, Repr

/-- `for _ in 0..count { short_channel_ids.push(Readable::read(r)?) }` -/
def readU64s : Nat → Bytes → Res (List Nat × Bytes)
  | 0, b => .ok ([], b)
  | n + 1, b =>
    match readUint 8 b with
    | .error e => .error e
    | .ok (x, r) =>
      match readU64s n r with
      | .error e => .error e
      | .ok (xs, r') => .ok (x :: xs, r')

def encodeU64s : List Nat → Bytes
  | [] => []
  | x :: xs => beEncode 8 x ++ encodeU64s xs

/-- mirrors `impl LengthReadable for QueryShortChannelIds` / `ReplyChannelRange`: header fields, `encoding_len: u16`,
    `encoding_type: u8` ≠ Uncompressed ⇒ UnsupportedCompression; `encoding_len == 0 || (encoding_len - 1) % 8 != 0` ⇒
    InvalidValue; `(encoding_len - 1) / 8` u64s.  Bytes after the list are not read.  Result: the message and the unread rest. -/
def decodeScidMsg (rules : ScidRules) (hdr : List FieldTy) (b : Bytes) : Res (ScidMsg × Bytes) :=
  match decodeFixed hdr b with
  | .error e => .error e
  | .ok (hv, b1) =>
    match readUint 2 b1 with
    | .error e => .error e
    | .ok (encLen, b2) =>
      match readUint 1 b2 with
      | .error e => .error e
      | .ok (encTy, b3) =>
        if encTy ≠ rules.accepted then .error .UnsupportedCompression
        else if rules.badLen encLen then .error .InvalidValue
        else
          match readU64s (rules.count encLen) b3 with
          | .error e => .error e
          | .ok (scids, rest) => .ok (⟨hv, scids⟩, rest)

/-- mirrors the `Writeable` impls: header fields, `encoding_len = 1 + len * 8`, the encoding type, the ids -/
def encodeScidMsg (rules : ScidRules) (hdr : List FieldTy) (m : ScidMsg) : Bytes :=
  encodeFixed hdr m.hdr ++ (beEncode 2 (rules.encLen m.scids.length) ++ (beEncode 1 rules.written ++ encodeU64s m.scids))

/-- header values in range, ids are u64s, and the list fits the u16 `encoding_len` (`1 + 8·len ≤ 0xffff`) -/
def ScidMsg.wf (hdr : List FieldTy) (m : ScidMsg) : Bool :=
  validFixed hdr m.hdr && m.scids.all (· < 2 ^ 64) && decide (m.scids.length ≤ 8191)

/-! ## Init

  `impl LengthReadable for Init`: `global_features: InitFeatures`, `features: InitFeatures` (both u16 length + flag bytes), then
  `decode_tlv_stream!(r, {(1, networks, option), (3, remote_network_address, option)})` with
  `networks: Option<WithoutLength<Vec<ChainHash>>>` and `remote_network_address: Option<SocketAddress>`; the message keeps
  `features | global_features`.  `impl Writeable for Init`: `write_features_up_to_13(w, features.le_flags())` (the low 13 bits as
  the "global" vector), the full vector, the TLV stream.  So Init is an ordinary `Schema` (all generic theorems apply to it:
  `init_schema_wf`) followed / preceded by a merge / split of the two feature vectors. -/

def initTlvs : List TlvField :=
  [⟨1, "networks", .chunks 32, .option⟩, ⟨3, "remote_network_address", .sockAddr sockAddrKinds, .option⟩]

def initSchema : Schema := ⟨"Init", ["global_features", "features"], [.bytes16, .bytes16], initTlvs⟩

/-- mirrors lightning-types/src/features.rs `impl BitOrAssign for Features` on the little-endian flag bytes: resize to the longer
    of the two, OR byte by byte -/
def orLE : Bytes → Bytes → Bytes
  | [], b => b
  | a, [] => a
  | x :: a, y :: b => (x ||| y) :: orLE a b

/-- `features | global_features` on the big-endian wire bytes (`from_be_bytes` reverses, `write_be` reverses back) -/
def orBE (a b : Bytes) : Bytes := (orLE a.reverse b.reverse).reverse

/-- mirrors ln/msgs.rs `write_features_up_to_13` on the little-endian flags (without the length prefix, in LE order):
    `len = min(2, le_flags.len())`, byte 0 as it is, byte 1 `& 0b00_11_11_11` -/
def first13LE : Bytes → Bytes
  | [] => []
  | [b0] => [b0]
  | b0 :: b1 :: _ => [b0, b1 &&& 0x3f]

def first13 (f : Bytes) : Bytes := (first13LE f.reverse).reverse

/-- the value of an Init: the merged feature vector (big-endian wire bytes) and the two optional TLVs -/
structure InitMsg where
  features : Bytes
  tlvs : List (Option Val)
  deriving DecidableEq, Repr

/-- mirrors `impl LengthReadable for Init` -/
def decodeInit (b : Bytes) : Res InitMsg :=
  match initSchema.decode b with
  | .error e => .error e
  | .ok ⟨[.bytes g, .bytes f], tlvs⟩ => .ok ⟨orBE f g, tlvs⟩
  | .ok _ => .error .Io   -- unreachable: the two fixed fields are byte strings (Props/C13 `init_decode_shape`)

/-- mirrors `impl Writeable for Init` -/
def encodeInit (m : InitMsg) : Bytes := initSchema.encode ⟨[.bytes (first13 m.features), .bytes m.features], m.tlvs⟩

def InitMsg.wf (m : InitMsg) : Bool := decide (m.features.length < 2 ^ 16) && validTlvs initTlvs m.tlvs

/-! ## OnionMessage

  `impl LengthReadable for OnionMessage`: `blinding_point: PublicKey`, `len: u16`, then the onion packet read through
  `FixedLengthReader::new(r, len)` by onion_message/packet.rs `impl LengthReadable for Packet`:
  `hop_data_len = remaining_bytes().saturating_sub(66)` (remaining_bytes of a FixedLengthReader is the DECLARED length), version (u8),
  public_key (validated), `hop_data_len` bytes, hmac (32 bytes).  Bytes after the packet are not read.
  `impl Writeable`: blinding_point, `packet.serialized_length() as u16`, version, public_key, hop_data, hmac. -/

/-- the constant of `remaining_bytes().saturating_sub(66)` as extracted from the source: 1 (version) + 33 (pubkey) + 32 (HMAC) -/
def onionMsgOverhead : Nat := onionPacketOverheadPinned

/-- the fields of the packet, given the length of its hop data -/
def packetTys (hopLen : Nat) : List FieldTy := [Hand.u8, Hand.point, .fixed hopLen .any, Hand.h32]

/-- the value of an OnionMessage: blinding point, packet fields [version, public_key, hop_data, hmac] -/
structure OnionMsg where
  blinding : Val
  packet : List Val
  deriving DecidableEq, Repr

def hopLenOf : List Val → Nat
  | [_, _, .bytes h, _] => h.length
  | _ => 0

/-- mirrors `impl LengthReadable for OnionMessage` + `impl LengthReadable for Packet`; the sub-reader hands out at most `len` bytes of
    what is left (`b2.take len`).  Result: the message and the unread rest. -/
def decodeOnionMsg (b : Bytes) : Res (OnionMsg × Bytes) :=
  match Hand.point.decode b with
  | .error e => .error e
  | .ok (bp, b1) =>
    match readUint 2 b1 with
    | .error e => .error e
    | .ok (len, b2) =>
      match decodeFixed (packetTys (len - onionMsgOverhead)) (b2.take len) with
      | .error e => .error e
      | .ok (pv, _) => .ok (⟨bp, pv⟩, b2.drop len)

/-- mirrors `impl Writeable for OnionMessage` -/
def encodeOnionMsg (m : OnionMsg) : Bytes :=
  Hand.point.encode m.blinding ++ (beEncode 2 (onionMsgOverhead + hopLenOf m.packet) ++ encodeFixed (packetTys (hopLenOf m.packet)) m.packet)

/-- a valid blinding point, packet fields in range, and the packet fits the u16 length -/
def OnionMsg.wf (m : OnionMsg) : Bool :=
  Hand.point.valid m.blinding && validFixed (packetTys (hopLenOf m.packet)) m.packet && decide (onionMsgOverhead + hopLenOf m.packet < 2 ^ 16)

/-- names of the messages handled by the decoders above -/
def customNames : List String := ["UnsignedNodeAnnouncement", "NodeAnnouncement", "QueryShortChannelIds", "ReplyChannelRange", "Init", "OnionMessage"]

end Ldk.Codec.Custom
