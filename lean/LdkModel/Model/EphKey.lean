import LdkModel.Generated.PeerEph
import LdkModel.Model.Noise
/- C15: how a PeerManager derives the BOLT-8 ephemeral key of each connection
   (lightning/src/ln/peer_handler.rs: PeerManager::new, get_ephemeral_key, new_outbound_connection,
   the NextNoiseStep::ActOne arm of do_read_event; util/atomic_counter.rs).
   WHAT is hashed comes from Generated/PeerEph.lean (translated from the Rust text on every run);
   the hash is a parameter `H` in the theorems and the executable SHA-256 of Prim/ in the driver.
   No Mathlib. -/
namespace Ldk.EphKey
open Ldk.Noise (Bytes)
open Ldk.PeerEph

/-- `u64::to_le_bytes` -/
def le64 (n : Nat) : Bytes :=
  [UInt8.ofNat (n % 256), UInt8.ofNat (n / 256 % 256), UInt8.ofNat (n / 65536 % 256),
   UInt8.ofNat (n / 16777216 % 256), UInt8.ofNat (n / 4294967296 % 256),
   UInt8.ofNat (n / 1099511627776 % 256), UInt8.ofNat (n / 281474976710656 % 256),
   UInt8.ofNat (n / 72057594037927936 % 256)]

/-- `u64::to_be_bytes` -/
def be64 (n : Nat) : Bytes := (le64 n).reverse

/-- the bytes one `input` call feeds to the engine -/
def partBytes (seed : Bytes) (ctr : Nat) : Part → Bytes
  | .seed => seed
  | .counterLE => le64 ctr
  | .counterBE => be64 ctr

/-- the byte string whose SHA-256 get_ephemeral_key turns into the SecretKey, when
    `self.peer_counter.next()` returned `ctr` (parts: translated) -/
def ephPreimage (seed : Bytes) (ctr : Nat) : Bytes :=
  (ephPreimageParts.map (partBytes seed ctr)).flatten

/-- mirrors AtomicCounter (`counter`): the value the next `next()` returns -/
structure EphSt where
  next : Nat
  deriving Repr, DecidableEq

/-- mirrors AtomicCounter::new -/
def EphSt.fresh : EphSt := { next := COUNTER_START }

/-- mirrors PeerManager::get_ephemeral_key: one counter value is consumed per key
    (`fetch_add` returns the previous value) -/
def getEphemeralKey (H : Bytes → Bytes) (seed : Bytes) (st : EphSt) : Bytes × EphSt :=
  (H (ephPreimage seed st.next), { next := st.next + COUNTER_STEP * counterNextCalls })

/-- what makes a PeerManager draw an ephemeral key: `new_outbound_connection`, act one read on an
    inbound connection (`NextNoiseStep::ActOne` arm), the verification hook -/
inductive ConnOp where
  | outbound
  | inboundActOne
  | hook
  deriving Repr, DecidableEq

/-- the ephemeral keys of a history of connections of ONE PeerManager, in order -/
def runConns (H : Bytes → Bytes) (seed : Bytes) : EphSt → List ConnOp → List Bytes
  | _, [] => []
  | st, _ :: ops => (getEphemeralKey H seed st).1 :: runConns H seed (getEphemeralKey H seed st).2 ops

end Ldk.EphKey
