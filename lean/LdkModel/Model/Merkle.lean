/- BOLT-12 merkle root over a TLV stream -- hand-written model of lightning/src/offers/merkle.rs
   (`TlvStream::next`, `merkle_tlv_data`, `root_hash`, `tagged_branch_hash_from_engine`,
   `TaggedHash::from_merkle_root`) over an abstract tagged hash `H : Tag → Bytes → Bytes`, plus its
   SHA-256 instance.  No Mathlib. -/
import LdkModel.Prim.Sha256
import LdkModel.Generated.C18Consts
namespace Ldk.Merkle

abbrev Bytes := List UInt8

/-- which tagged hash: `LnLeaf`, `LnNonce ‖ first record`, `LnBranch` -/
inductive Tag
  | leaf
  | nonce (firstRecord : Bytes)
  | branch
  deriving DecidableEq, Repr

def beNat (b : Bytes) : Nat := b.foldl (fun a x => a * 256 + x.toNat) 0

/-- (value, bytes consumed) -- mirrors util/ser.rs::BigSize::read (non-minimal encodings are errors) -/
def readBigSize (b : Bytes) : Option (Nat × Nat) :=
  match b with
  | [] => none
  | 0xFF :: r => if r.length < 8 then none else
      let x := beNat (r.take 8); if x < 0x100000000 then none else some (x, 9)
  | 0xFE :: r => if r.length < 4 then none else
      let x := beNat (r.take 4); if x < 0x10000 then none else some (x, 5)
  | 0xFD :: r => if r.length < 2 then none else
      let x := beNat (r.take 2); if x < 0xFD then none else some (x, 3)
  | n :: _ => some (n.toNat, 1)

/-- mirrors merkle.rs::TlvRecord: the bytes of the type and of the whole record -/
structure Rec where
  typeBytes : Bytes
  recordBytes : Bytes
  deriving DecidableEq, Repr

/-- the TLV type is what the type bytes decode to -/
def Rec.ty (r : Rec) : Nat := match readBigSize r.typeBytes with | some (t, _) => t | none => 0

/-- mirrors merkle.rs::TlvStream::next, repeated to the end of the input; `none` where the Rust
    iterator would panic (malformed BigSize or a record running past the end).  fuel = input length -/
def splitRecords : Nat → Bytes → Option (List Rec)
  | 0, b => if b.isEmpty then some [] else none
  | fuel + 1, b =>
    if b.isEmpty then some [] else
    match readBigSize b with
    | none => none
    | some (_, k1) =>
      match readBigSize (b.drop k1) with
      | none => none
      | some (len, k2) =>
        let total := k1 + k2 + len
        if b.length < total then none else
        match splitRecords fuel (b.drop total) with
        | none => none
        | some rs => some (⟨b.take k1, b.take total⟩ :: rs)

def parseStream (b : Bytes) : Option (List Rec) := splitRecords b.length b

/-- mirrors merkle.rs::SIGNATURE_TYPES = 240..=1000 -/
def sigTypesLo : Nat := 240
def sigTypesHi : Nat := 1000
def isSig (r : Rec) : Bool := sigTypesLo ≤ r.ty && r.ty ≤ sigTypesHi

def nonSig (rs : List Rec) : List Rec := rs.filter (fun r => !isSig r)

/-- byte-wise lexicographic `<` (the derived `Ord` of `sha256::Hash`) -/
def lexLt : Bytes → Bytes → Bool
  | [], [] => false
  | [], _ :: _ => true
  | _ :: _, [] => false
  | a :: as, b :: bs => a < b || (a == b && lexLt as bs)

/-- the smaller hash first -- mirrors merkle.rs::tagged_branch_hash_from_engine -/
def sortCat (a b : Bytes) : Bytes := if lexLt a b then a ++ b else b ++ a

variable (H : Tag → Bytes → Bytes)

def branch (a b : Bytes) : Bytes := H .branch (sortCat a b)

/-- mirrors merkle.rs::merkle_tlv_data: branch of the leaf hash (whole record) and the nonce hash
    (type bytes, tagged with the FIRST record of the stream) -/
def perTlv (first : Bytes) (r : Rec) : Bytes :=
  branch H (H .leaf r.recordBytes) (H (.nonce first) r.typeBytes)

/-- one level of merkle.rs::root_hash's in-place loop, with the dead slots dropped: at level ℓ the
    live slots are the multiples of 2^ℓ; slot i is combined with slot i + 2^ℓ when that exists -/
def pairUp : List Bytes → List Bytes
  | a :: b :: rest => branch H a b :: pairUp rest
  | xs => xs

/-- levels until one hash is left; fuel = number of leaves -/
def reduce : Nat → List Bytes → Bytes
  | 0, xs => xs.headD []
  | fuel + 1, xs =>
    match xs with
    | [] => []
    | [a] => a
    | _ => reduce fuel (pairUp H xs)

/-- mirrors merkle.rs::root_hash (`[]` where the Rust asserts: no record at all / only signature records) -/
def rootHash (rs : List Rec) : Bytes :=
  match rs with
  | [] => []
  | first :: _ =>
    let leaves := (nonSig rs).map (perTlv H first.recordBytes)
    reduce H leaves.length leaves

/-- the loop of merkle.rs::root_hash verbatim in `do` notation (array, `level`, `step = 2 << level`,
    `offset = step/2`, `leaves[i] = branch(leaves[i], leaves[j])`); `while` is opaque to proofs, so
    the same loop is written once more with explicit fuel below (`rootHashInPlace`), which IS proved
    equal to `rootHash`; the driver checks all three against each other on every case -/
def rootHashInPlaceArr (rs : List Rec) : Bytes :=
  match rs with
  | [] => []
  | first :: _ => Id.run do
    let mut leaves : Array Bytes := ((nonSig rs).map (perTlv H first.recordBytes)).toArray
    let n := leaves.size
    if n = 0 then return []
    for level in [0:64] do
      let step := 2 <<< level
      let offset := step / 2
      if offset ≥ n then break
      let mut i := 0
      while i + offset < n do
        leaves := leaves.set! i (branch H leaves[i]! leaves[i + offset]!)
        i := i + step
    return leaves[0]!

/-! the in-place loop with explicit fuel: slots of a fixed-size buffer, overwritten level by level -/

/-- content of slot `i` (`[]` outside the buffer) -/
def slot (a : List Bytes) (i : Nat) : Bytes := (a[i]?).getD []

/-- inner loop of one level: `for (i, j) in (0..n).step_by(step).zip((offset..n).step_by(step))`,
    `leaves[i] = branch(leaves[i], leaves[j])` with `j = i + offset` -/
def levelLoop (offset step n : Nat) : Nat → Nat → List Bytes → List Bytes
  | 0, _, a => a
  | fuel + 1, i, a =>
    if i + offset < n then
      levelLoop offset step n fuel (i + step) (a.set i (branch H (slot a i) (slot a (i + offset))))
    else a

/-- outer loop: `for level in 0.. { step = 2 << level; offset = step / 2; if offset >= n { break } … }` -/
def levelsLoop (n : Nat) : Nat → Nat → List Bytes → List Bytes
  | 0, _, a => a
  | fuel + 1, level, a =>
    let step := 2 <<< level
    let offset := step / 2
    if offset ≥ n then a else levelsLoop n fuel (level + 1) (levelLoop H offset step n n 0 a)


/-- mirrors merkle.rs::root_hash, in-place formulation (proved equal to `rootHash`:
    `Ldk.C18.merkle_in_place_eq`) -/
def rootHashInPlace (rs : List Rec) : Bytes :=
  match rs with
  | [] => []
  | first :: _ =>
    let leaves := (nonSig rs).map (perTlv H first.recordBytes)
    if leaves.isEmpty then [] else slot (levelsLoop H leaves.length leaves.length 0 leaves) 0

end Ldk.Merkle

namespace Ldk.Merkle
open Ldk.Prim

def ascii (s : String) : Bytes := s.toUTF8.toList

/-- mirrors merkle.rs::tagged_hash_engine + tagged_hash_from_engine: SHA256(tag ‖ tag ‖ msg) -/
def taggedSha (tagHash msg : Bytes) : Bytes := sha256 (tagHash ++ tagHash ++ msg)

/-- the concrete tagged hashes of merkle.rs::merkle_tlv_data -/
def shaH : Tag → Bytes → Bytes
  | .leaf, m => taggedSha (sha256 (ascii Ldk.C18Consts.TAG_STR_LNLEAF)) m
  | .nonce first, m => taggedSha (sha256 (ascii Ldk.C18Consts.TAG_STR_LNNONCE ++ first)) m
  | .branch, m => taggedSha (sha256 (ascii Ldk.C18Consts.TAG_STR_LNBRANCH)) m

/-- mirrors merkle.rs::TaggedHash::from_merkle_root: the BIP-340 style digest that is signed -/
def sigDigest (tag : Bytes) (root : Bytes) : Bytes := taggedSha (sha256 tag) root

/-! Tests (labelled as tests): the verbatim in-place loop and the list reduction agree for every
    leaf count 0..70, with a structure-revealing (injective, non-truncating) toy hash and records of
    distinct content, with and without interleaved signature-range records.  The c18b12 driver
    re-checks the agreement on every `merkle` op with SHA-256. -/
private def testH : Tag → Bytes → Bytes
  | .leaf, m => 0 :: m
  | .nonce f, m => 1 :: (f ++ m)
  | .branch, m => 2 :: m
private def testRecs (n : Nat) (withSig : Bool) : List Rec :=
  (List.range n).flatMap (fun i =>
    let r : Rec := ⟨[UInt8.ofNat (i % 200)], [UInt8.ofNat (i % 200), 1, UInt8.ofNat (7 * i % 251)]⟩
    if withSig && i % 3 == 1 then [r, ⟨[0xfd, 0x01, UInt8.ofNat i], [0xfd, 0x01, UInt8.ofNat i, 0]⟩] else [r])
#guard (List.range 71).all (fun n => rootHash testH (testRecs n false) == rootHashInPlace testH (testRecs n false) && rootHash testH (testRecs n false) == rootHashInPlaceArr testH (testRecs n false))
#guard (List.range 71).all (fun n => rootHash testH (testRecs n true) == rootHashInPlace testH (testRecs n true) && rootHash testH (testRecs n true) == rootHashInPlaceArr testH (testRecs n true))
#guard (nonSig (testRecs 9 true)).length == 9 && (testRecs 9 true).length == 12

end Ldk.Merkle
