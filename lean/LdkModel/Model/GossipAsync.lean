/- C17 — the ASYNCHRONOUS UTXO lookup layer (lightning/src/routing/utxo.rs: `UtxoResult::Async`, `UtxoFuture`,
   `PendingChecks::{check_channel_announcement, check_hold_pending_channel_update,
   check_hold_pending_node_announcement, resolve_single_future, check_resolved_futures,
   too_many_checks_pending}`) on top of the graph model `Gossip.Impl` (Model/Gossip.lean).

   State = the graph + `PendingChecksContext`: `pend` = `pending_states` (one entry per `UtxoMessages` whose
   `channel_announce` is set, in insertion order), `chans` = `channels` (scid ↦ the LATEST pending lookup of that
   scid). `PendingChecksContext::nodes` is derived: node ↦ every pending entry whose announcement names it.
   Assumptions about the caller (what the harness does): every `UtxoResult::Async` carries a FRESH `UtxoFuture`,
   and the caller keeps its clone alive (no dropped futures: the `Weak::upgrade` failure arms and the
   `strong_count == 1` arm are not modelled); a future that is already resolved when `get_utxo` returns is
   handled in-line by the library exactly like `UtxoResult::Sync` (the harness sends those as sync ops).

   Every delivery first passes this layer: it is refused (`alreadyChecking`), parked (graph untouched), or handed
   to the graph handler `Impl.applyMsg` UNCHANGED. Decisions (slot choice, latest-timestamp-wins, pending limit,
   whether the replay of a parked signed channel_update goes through a signature-checking entry point) are calls
   of Generated/Gossip.lean (tools/gen_gossip.py, re-translated from utxo.rs / gossip.rs on every run).
   No Mathlib; core only. -/
import LdkModel.Model.Gossip
namespace Ldk.Gossip
namespace Async

/-- one `UtxoMessages` with `channel_announce = Some(..)`. `ann.verify` = `ChannelAnnouncement::Full` vs
    `Unsigned`; likewise `verify` of the parked messages. `ann.utxo` / `ann.now` carry no meaning here. -/
structure Pending where
  fid : Nat
  ann : ChanAnn
  /-- `complete`: `UtxoFuture::resolve` was called with this result -/
  complete : Option Utxo
  naA : Option NodeAnn
  naB : Option NodeAnn
  cuA : Option ChanUpd
  cuB : Option ChanUpd
  deriving DecidableEq, Repr

structure State where
  g : Graph
  pend : List Pending
  chans : List (Nat × Nat)

def State.empty : State := ⟨Graph.empty, [], []⟩

/-- the pending lookup `channels[scid]` points to (a dangling entry counts as none) -/
def chanPending (s : State) (scid : Nat) : Option Pending :=
  match s.chans.find? (fun e => e.1 == scid) with
  | some e => s.pend.find? (fun p => p.fid == e.2)
  | none => none

def setChan (cs : List (Nat × Nat)) (scid fid : Nat) : List (Nat × Nat) :=
  cs.filter (fun e => e.1 != scid) ++ [(scid, fid)]

def annContentsEq (a b : ChanAnn) : Bool :=
  a.scid == b.scid && a.n1 == b.n1 && a.n2 == b.n2 && a.sameBtc == b.sameBtc && a.chainOk == b.chainOk

def annSigsEq (a b : ChanAnn) : Bool :=
  a.sigN1 == b.sigN1 && a.sigN2 == b.sigN2 && a.sigB1 == b.sigB1 && a.sigB2 == b.sigB2

-- mirrors utxo.rs::PendingChecks::pending_channel_announcement_matches
-- (Full pending: `Some(pending_msg) == full_msg`; Unsigned pending: `pending_msg == msg`, the contents only)
def pendingMatches (p a : ChanAnn) : Bool :=
  if p.verify then a.verify && annContentsEq p a && annSigsEq p a else annContentsEq p a

/-- everything `update_channel_from_(unsigned_)announcement` checks before `check_channel_announcement`:
    pre-check, the four signatures (signed entry point), tombstones. `none` = the lookup layer is reached. -/
def annGate (g : Graph) (a : ChanAnn) : Option Reject :=
  match Impl.chanAnnPre g a with
  | some r => some r
  | none =>
    if a.verify && !Impl.chanAnnSigsVerify a then some .badSig
    else if Gen.annRecentlyRemoved g.removedChannels.contains g.removedNodes.contains a.scid a.n1 a.n2 then
      some .recentlyRemoved
    else none

-- mirrors check_replace_previous_entry(msg, full_msg, None, ..): the same announcement is already being checked
def alreadyChecking (s : State) (a : ChanAnn) : Bool :=
  match chanPending s a.scid with
  | some p => pendingMatches p.ann a
  | none => false

-- mirrors update_channel_from_(unsigned_)announcement with no lookup / a lookup answering `UtxoResult::Sync`
def deliverChanAnn (s : State) (a : ChanAnn) : State × Outcome :=
  match annGate s.g a with
  | some r => (s, .reject r)
  | none =>
    if alreadyChecking s a then (s, .reject .alreadyChecking)
    else let r := Impl.applyChanAnn s.g a; ({ s with g := r.1 }, r.2)

-- mirrors the same entry points when the lookup answers `UtxoResult::Async(future)` (future `fid`, fresh, unresolved):
-- check_channel_announcement parks the announcement, (re)points channels[scid] at it and registers both nodes
def annAsync (s : State) (a : ChanAnn) (fid : Nat) : State × Outcome :=
  match annGate s.g { a with utxo := .unknownTx } with
  | some r => (s, .reject r)
  | none =>
    if alreadyChecking s a then (s, .reject .alreadyChecking)
    else ({ s with pend := s.pend ++ [⟨fid, a, none, none, none, none, none⟩],
                   chans := setChan s.chans a.scid fid }, .reject .checkingAsync)

-- mirrors check_hold_pending_channel_update (slot by `channel_flags & 1`, latest timestamp wins, NO signature check)
def holdUpd (p : Pending) (u : ChanUpd) : Pending :=
  if Gen.holdUpdIsA u.channelFlags then
    (if Gen.holdUpdReplaces (p.cuA.map (·.ts)) u.ts then { p with cuA := some u } else p)
  else
    (if Gen.holdUpdReplaces (p.cuB.map (·.ts)) u.ts then { p with cuB := some u } else p)

-- mirrors handle_channel_update / update_channel_unsigned → update_channel_internal: the unknown-channel arm
-- parks the update when a lookup for that scid is pending
def deliverChanUpd (s : State) (u : ChanUpd) : State × Outcome :=
  let r := Impl.applyChanUpd s.g u
  if r.2 = .reject .unknownChannel then
    match chanPending s u.scid with
    | some p =>
      ({ s with pend := s.pend.map (fun q => if q.fid == p.fid then holdUpd q u else q) }, .reject .awaitingChanUpd)
    | none => (s, r.2)
  else ({ s with g := r.1 }, r.2)

def involves (p : Pending) (node : Nat) : Bool := p.ann.n1 == node || p.ann.n2 == node

-- mirrors check_hold_pending_node_announcement (slot a iff the node is node_id_1 of that announcement)
def holdNode (p : Pending) (n : NodeAnn) : Pending :=
  if Gen.holdNodeIsA p.ann.n1 n.node then
    (if Gen.holdNodeReplaces (p.naA.map (·.ts)) n.ts then { p with naA := some n } else p)
  else
    (if Gen.holdNodeReplaces (p.naB.map (·.ts)) n.ts then { p with naB := some n } else p)

-- mirrors update_node_from_(unsigned_)announcement: signature first (signed entry point), then the unknown-node
-- arm parks the announcement in EVERY pending lookup that names the node
def deliverNodeAnn (s : State) (n : NodeAnn) : State × Outcome :=
  let r := Impl.applyNodeAnn s.g n
  if r.2 = .reject .noChannelsForNode && s.pend.any (involves · n.node) then
    ({ s with pend := s.pend.map (fun p => if involves p n.node then holdNode p n else p) }, .reject .awaitingNodeAnn)
  else ({ s with g := r.1 }, r.2)

def deliver (s : State) : Msg → State × Outcome
  | .chanAnn a => deliverChanAnn s a
  | .chanUpd u => deliverChanUpd s u
  | .nodeAnn n => deliverNodeAnn s n

-- mirrors UtxoFuture::resolve
def resolve (s : State) (fid : Nat) (r : Utxo) : State :=
  { s with pend := s.pend.map (fun p => if p.fid == fid then { p with complete := some r } else p) }

/-- a signature that is NOT checked = a signature that passes: the signer the graph expects -/
def assumeSigned (g : Graph) (u : ChanUpd) : ChanUpd :=
  match g.channels.get u.scid with
  | some c => { u with signer := c.dirNode (Gen.updDirSigner u.channelFlags) }
  | none => u

-- resolve_single_future, parked channel_update: `Full` → the entry point the Rust text names (generated flags:
-- does it check the signature? does it store?), `Unsigned` → update_channel_unsigned
def replayUpd (s : State) (u : ChanUpd) : State × Outcome :=
  if u.verify && !Gen.replayFullUpdStores then (s, .done)
  else if u.verify && !Gen.replayFullUpdVerifies then deliverChanUpd s (assumeSigned s.g u)
  else deliverChanUpd s u

/-- the messages resolve_single_future replays, in its order: the announcement with the resolved lookup, the parked
    node announcements a, b, the parked channel updates a, b -/
def replayAnn (p : Pending) (res : Utxo) (now : Nat) : ChanAnn := { p.ann with utxo := res, now := now }

def replayNodes (p : Pending) : List NodeAnn := p.naA.toList ++ p.naB.toList
def replayUpds (p : Pending) : List ChanUpd := p.cuA.toList ++ p.cuB.toList

/-- state and the list of accepted SIGNED replays (the `MessageSendEvent::Broadcast*` the library queues) -/
abbrev Acc := State × List Msg

def note (acc : Acc) (r : State × Outcome) (m : Msg) (signed : Bool) : Acc :=
  (r.1, if signed && r.2 = .accept then acc.2 ++ [m] else acc.2)

-- mirrors resolve_single_future
def replayOne (now : Nat) (acc : Acc) (p : Pending) : Acc :=
  match p.complete with
  | none => acc
  | some res =>
    let a := replayAnn p res now
    let acc1 := note acc (deliverChanAnn acc.1 a) (.chanAnn a) a.verify
    let acc2 := (replayNodes p).foldl (fun ac n => note ac (deliverNodeAnn ac.1 n) (.nodeAnn n) n.verify) acc1
    (replayUpds p).foldl (fun ac u => note ac (replayUpd ac.1 u) (.chanUpd u) u.verify) acc2

-- mirrors check_resolved_futures: completed entries leave all three collections first, then are replayed in order
def process (s : State) (now : Nat) : Acc :=
  let done := s.pend.filter (fun p => p.complete.isSome)
  let s1 : State := { s with pend := s.pend.filter (fun p => p.complete.isNone),
                             chans := s.chans.filter (fun e => !(done.any (fun p => p.fid == e.2))) }
  done.foldl (replayOne now) (s1, [])

-- mirrors too_many_checks_pending (no dangling entries)
def tooMany (s : State) : Bool := Gen.tooManyChecks s.chans.length

inductive AOp
  /-- an operation of the synchronous model; messages pass the pending-lookup layer first -/
  | base (op : Op)
  /-- a channel_announcement whose lookup answers `UtxoResult::Async` with the fresh future `fid` -/
  | annAsync (a : ChanAnn) (fid : Nat)
  /-- `UtxoFuture::resolve` -/
  | resolve (fid : Nat) (r : Utxo)
  /-- `check_resolved_futures` (P2PGossipSync::get_and_clear_pending_msg_events) at wall clock `now` -/
  | process (now : Nat)

def step (s : State) : AOp → State × Outcome
  | .base (.msg m) => deliver s m
  | .base op => let r := Impl.step s.g op; ({ s with g := r.1 }, r.2)
  | .annAsync a fid => annAsync s a fid
  | .resolve fid r => (resolve s fid r, .done)
  | .process now => ((process s now).1, .done)

def run (s : State) (ops : List AOp) : State := ops.foldl (fun s o => (step s o).1) s

end Async
end Ldk.Gossip
