import LdkModel.Model.Codec
/-!
  Model/Int64.lean — `i64` on the wire (two's complement, 8 big-endian bytes).

  mirrors rust-lightning lightning/src/util/ser.rs `impl_writeable_primitive!(i64, 8)`:
  `Writeable::write` = `writer.write_all(&self.to_be_bytes())`,
  `Readable::read`  = `read_exact` of 8 bytes (ShortRead on EOF) then `i64::from_be_bytes`.
  Core only (no Mathlib); theorems in Proofs/Utf8.lean.
-/
namespace Ldk.Codec

/-- the `i64` whose two's-complement bit pattern is `n` (`n < 2^64`) -/
def i64OfBits (n : Nat) : Int := if n < 2 ^ 63 then (n : Int) else (n : Int) - 2 ^ 64

/-- the two's-complement bit pattern (as a `u64`) of `i` -/
def bitsOfI64 (i : Int) : Nat := (i % 2 ^ 64).toNat

/-- mirrors `i64::to_be_bytes` -/
def encodeI64 (i : Int) : Bytes := beEncode 8 (bitsOfI64 i)

/-- mirrors `<i64 as Readable>::read`: 8 bytes (ShortRead on EOF), `i64::from_be_bytes` -/
def readI64 (b : Bytes) : Res (Int × Bytes) :=
  match readUint 8 b with
  | .error e => .error e
  | .ok (n, r) => .ok (i64OfBits n, r)

end Ldk.Codec
