/- The parameter records of Generated/RecvAdmit.lean (tools/gen_recvadmit.py) as seen from the ChannelConstraints the SENDER's
   get_available_balances is given (mirrors ChannelContext::get_channel_constraints: the `counterparty_*` limits are what the
   peer announced in open_channel / accept_channel, i.e. the peer's own `holder_*` values).  No Mathlib. -/
import LdkModel.Generated.RecvAdmit
import LdkModel.Generated.TxBuilder
namespace Ldk.RecvAdmit
open Ldk

/-- the sender's record: the fields its three caps and its minimum read; its own inbound limits are not in ChannelConstraints
    and are read by no sender-side definition (0) -/
def senderParams (c : TxB.ChannelConstraints) : Params :=
  { holder_max_accepted_htlcs := 0, holder_max_htlc_value_in_flight_msat := 0
    holder_selected_channel_reserve_satoshis := c.holder_selected_channel_reserve_satoshis
    counterparty_max_accepted_htlcs := c.counterparty_max_accepted_htlcs
    counterparty_max_htlc_value_in_flight_msat := c.counterparty_max_htlc_value_in_flight_msat
    counterparty_selected_channel_reserve_satoshis := c.counterparty_selected_channel_reserve_satoshis
    holder_htlc_minimum_msat := 0, counterparty_htlc_minimum_msat := c.counterparty_htlc_minimum_msat }

/-- the record of the peer of that sender: roles exchanged -/
def peerParams (c : TxB.ChannelConstraints) : Params :=
  { holder_max_accepted_htlcs := c.counterparty_max_accepted_htlcs
    holder_max_htlc_value_in_flight_msat := c.counterparty_max_htlc_value_in_flight_msat
    holder_selected_channel_reserve_satoshis := c.counterparty_selected_channel_reserve_satoshis
    counterparty_max_accepted_htlcs := 0, counterparty_max_htlc_value_in_flight_msat := 0
    counterparty_selected_channel_reserve_satoshis := c.holder_selected_channel_reserve_satoshis
    holder_htlc_minimum_msat := c.counterparty_htlc_minimum_msat, counterparty_htlc_minimum_msat := 0 }

end Ldk.RecvAdmit
