/- The OUTBOUND byte path of `PeerManager` (lightning/src/ln/peer_handler.rs): `enqueue_message`,
   `do_attempt_write_data`, `write_buffer_space_avail`, the gossip-broadcast queue and its size limit,
   the ping / timer rules that feed the queue, and the read-pause flag, for ONE peer.

   Every decision expression is a definition of `Generated/PeerWrite.lean`, regenerated from the Rust
   text on every run (tools/gen_peer_write.py); this file only mirrors the control flow around them.

   The socket is an acceptance schedule `sched : Nat → Option Nat`: the `i`-th `send_data` call that
   offers a queued buffer accepts `min n slice.length` bytes for `some n`, everything for `none`
   (any `0 ≤ n ≤ len`, every call).
   The message handlers that may refill the queue from inside the loop are a `Src` (what
   `next_onion_message_for_peer` / `get_next_channel_announcement` / `get_next_node_announcement` would
   return, in order).  Three fields of `WPeer` are ghosts (no Rust counterpart): `pushed` (every buffer
   ever pushed to `pending_outbound_buffer`), `plains` (the plaintext of every encrypted one) and `log`
   (every `send_data` call) — the theorems are statements about them.
   No Mathlib. -/
import LdkModel.Model.Framing
import LdkModel.Model.PeerMsgs
import LdkModel.Generated.PeerWrite
namespace Ldk.PeerWrite
open Ldk.Noise Ldk.Framing
open Ldk.PeerWriteGen

/-- one `SocketDescriptor::send_data(data, resume_read)` call and its return value -/
structure Call where
  data : Bytes
  acc : Nat
  resume : Bool
  deriving Repr, DecidableEq

structure WPeer where
  /-- send half of `channel_encryptor` -/
  snd : Sender
  /-- `pending_outbound_buffer` (front first) -/
  out : List Bytes
  /-- `pending_outbound_buffer_first_msg_offset` -/
  off : Nat
  /-- `gossip_broadcast_buffer`: serialized, NOT yet encrypted (front first) -/
  gossip : List Bytes
  /-- `awaiting_write_event` -/
  awaiting : Bool
  /-- `sent_pause_read` -/
  sentPause : Bool
  /-- `msgs_sent_since_pong` -/
  msgs : Nat
  /-- `awaiting_pong_timer_tick_intervals` -/
  pongTimer : Int
  /-- `received_message_since_timer_tick` -/
  recv : Bool
  /-- `their_features.is_some()` -/
  hs : Bool
  /-- `received_channel_announce_since_backlogged` -/
  annSince : Bool
  /-- number of non-empty `send_data` calls so far = index into the acceptance schedule -/
  calls : Nat
  /-- ghost: every buffer pushed to `out`, newest first -/
  pushed : List Bytes
  /-- ghost: the plaintext of every message encrypted with `snd`, newest first -/
  plains : List Bytes
  /-- ghost: every `send_data` call, newest first -/
  log : List Call
  deriving Repr

/-- what the handlers would hand out when asked from inside the write loop -/
structure Src where
  /-- successive `next_onion_message_for_peer` results (serialized onion messages) -/
  onion : List Bytes
  /-- successive non-`None` results of `get_next_channel_announcement` (announcement + 0–2 updates) /
      `get_next_node_announcement`, each a batch of serialized messages -/
  backfill : List (List Bytes)
  deriving Repr

def Src.none : Src := { onion := [], backfill := [] }

/-- a peer right after the handshake with nothing queued -/
def WPeer.fresh (s : Sender) : WPeer :=
  { snd := s, out := [], off := 0, gossip := [], awaiting := false, sentPause := false, msgs := 0,
    pongTimer := 0, recv := false, hs := true, annSince := false, calls := 0, pushed := [],
    plains := [], log := [] }

/-- the bytes the socket accepted, in order -/
def wireOf (log : List Call) : Bytes := (log.reverse.map (fun c => c.data.take c.acc)).flatten
def WPeer.wire (p : WPeer) : Bytes := wireOf p.log
/-- every byte ever queued, in queue order -/
def WPeer.queued (p : WPeer) : Bytes := p.pushed.reverse.flatten
/-- the bytes still to be written: the unwritten rest of the front buffer, then the others -/
def WPeer.remaining (p : WPeer) : Bytes := p.out.flatten.drop p.off

variable (c : Crypto)

/-- mirrors Peer::should_read: the flag reset, then the translated expression -/
def shouldRead (p : WPeer) (backlogged : Bool) : WPeer × Bool :=
  let p1 := if !backlogged then { p with annSince := false } else p
  (p1, PeerWriteGen.shouldRead p1.out.length backlogged p1.annSince)

/-- push an already encrypted / raw buffer (`pending_outbound_buffer.push_back`) -/
def pushBuf (p : WPeer) (f : Bytes) : WPeer := { p with out := p.out ++ [f], pushed := f :: p.pushed }

/-- mirrors PeerManager::enqueue_message: count, encrypt (`Framing.send` = encrypt_message with its
    length check), push; `false` = "Failed to encrypt … dropping it".  No buffer limit is consulted. -/
def enqueue (p : WPeer) (m : Bytes) : WPeer × Bool :=
  let p1 := { p with msgs := p.msgs + ENQUEUE_COUNT }
  match send c p1.snd m with
  | some (f, s1) => (pushBuf { p1 with snd := s1, plains := m :: p1.plains } f, true)
  | none => (p1, false)

def enqueueAll (p : WPeer) : List Bytes → WPeer
  | [] => p
  | m :: ms => enqueueAll (enqueue c p m).1 ms

/-- mirrors the `if peer.should_buffer_onion_message()` block -/
def refillOnion (p : WPeer) (src : Src) : WPeer × Src :=
  if shouldBufferOnionMessage p.out.length p.msgs p.hs then
    match src.onion with
    | m :: rest => ((enqueue c p m).1, { src with onion := rest })
    | [] => (p, src)
  else (p, src)

/-- mirrors the `if peer.should_buffer_gossip_broadcast()` block: pop one serialized broadcast,
    count it, `encrypt_buffer` (= `frame`, the length was checked by `MessageBuf::from_encoded`) -/
def refillGossip (p : WPeer) : WPeer :=
  if shouldBufferGossipBroadcast p.out.length p.msgs p.hs then
    match p.gossip with
    | m :: rest =>
      let (f, s1) := frame c p.snd m
      pushBuf { p with gossip := rest, msgs := p.msgs + 1, snd := s1, plains := m :: p.plains } f
    | [] => p
  else p

/-- mirrors the `if peer.should_buffer_gossip_backfill()` block (the sync cursor is the `Src`) -/
def refillBackfill (p : WPeer) (src : Src) : WPeer × Src :=
  if shouldBufferGossipBackfill p.out.length p.gossip.length p.msgs p.hs then
    match src.backfill with
    | b :: rest => (enqueueAll c p b, { src with backfill := rest })
    | [] => (p, src)
  else (p, src)

/-- mirrors PeerManager::maybe_send_extra_ping -/
def maybeSendExtraPing (p : WPeer) : WPeer :=
  if p.pongTimer = 0 then (enqueue c { p with pongTimer := -1 } PeerMsgs.ownPing).1 else p

/-- the head of one loop iteration of do_attempt_write_data, up to `let should_read = ..` -/
def refill (p : WPeer) (src : Src) : WPeer × Src :=
  let (p1, s1) := refillOnion c p src
  let p2 := refillGossip c p1
  let (p3, s3) := refillBackfill c p2 s1
  (if extraPingDue p3.msgs then maybeSendExtraPing c p3 else p3, s3)

/-- how many of `len` offered bytes the socket takes: `none` = all of them, `some n` = at most `n` -/
def accept (s : Option Nat) (len : Nat) : Nat :=
  match s with
  | none => len
  | some n => min n len

/-- mirrors the tail of one loop iteration of do_attempt_write_data, from `let next_buff = match ..`:
    the `send_data` call, the offset update and the pop / `awaiting_write_event` decision.
    The Bool says whether the `while` condition is evaluated again (`false` = the `return`). -/
def writeOnce (sched : Nat → Option Nat) (p : WPeer) (sr force : Bool) : WPeer × Bool :=
  match p.out with
  | [] =>
    -- `if force_one_write { descriptor.send_data(&[], should_read); sent_pause_read = .. } return`
    (if force then { p with sentPause := sentPauseAfter sr, log := ⟨[], 0, sr⟩ :: p.log } else p, false)
  | buf :: rest =>
    let pending := buf.drop p.off
    let n := accept (sched p.calls) pending.length
    let off' := advanceOffset p.off n
    let q := { p with sentPause := sentPauseAfter sr, calls := p.calls + 1,
                      log := ⟨pending, n, sr⟩ :: p.log }
    if bufferDone off' buf.length n pending.length then ({ q with off := OFFSET_AFTER_POP, out := rest }, true)
    else ({ q with off := partialOffset off' n, awaiting := true }, true)

/-- one iteration of the loop body: refill, `should_read`, write -/
def iter (sched : Nat → Option Nat) (bl : Bool) (p : WPeer) (src : Src) (force : Bool) :
    WPeer × Src × Bool :=
  let r := refill c p src
  let q := shouldRead r.1 bl
  let w := writeOnce sched q.1 q.2 force
  (w.1, r.2, w.2)

/-- mirrors the `while force_one_write || !peer.awaiting_write_event` loop of do_attempt_write_data
    (`force_one_write = false` after the first iteration).  `fuel` bounds the number of iterations
    (see `attemptFuel`; `writeLoop_drains` shows the bound is not what ends the loop). -/
def writeLoop (sched : Nat → Option Nat) (bl : Bool) : Nat → WPeer → Src → Bool → WPeer × Src
  | 0, p, src, _ => (p, src)
  | fuel + 1, p, src, force =>
    if loopCond force p.awaiting then
      let it := iter c sched bl p src force
      if it.2.2 then writeLoop sched bl fuel it.1 it.2.1 false else (it.1, it.2.1)
    else (p, src)

/-- an iteration bound: every iteration that does not end the loop pops one buffer, and buffers only
    come from the queue, the broadcast queue, the handlers' sources and (once) the extra ping -/
def attemptFuel (p : WPeer) (src : Src) : Nat :=
  p.out.length + p.gossip.length + src.onion.length
    + (src.backfill.map (fun b => b.length + 1)).sum + 3

/-- mirrors PeerManager::do_attempt_write_data -/
def attemptWrite (sched : Nat → Option Nat) (bl : Bool) (p : WPeer) (src : Src) (force : Bool) : WPeer × Src :=
  let (p1, sr) := shouldRead p bl
  writeLoop c sched bl (attemptFuel p1 src) p1 src (forceOnEntry force sr p1.sentPause)

/-- mirrors PeerManager::write_buffer_space_avail -/
def writeBufferSpaceAvail (sched : Nat → Option Nat) (bl : Bool) (p : WPeer) (src : Src) : WPeer × Src :=
  attemptWrite c sched bl { p with awaiting := false } src true

/-- mirrors what process_events does for one peer: the handlers' messages for it are enqueued in
    order (`enqueue_message`), then `do_attempt_write_data(.., flush_read_disabled)` -/
def processEvents (sched : Nat → Option Nat) (bl : Bool) (p : WPeer) (src : Src) (msgs : List Bytes)
    (flush : Bool) : WPeer × Src :=
  let p1 := enqueueAll c p msgs
  attemptWrite c sched bl (if flush then { p1 with annSince := false } else p1) src flush

/-- mirrors the per-peer gate of forward_broadcast_msg: skipped when the buffers are full (sum of the
    CAPACITIES of both queues, an allocator-dependent number the caller supplies as `capTotal`) unless
    `allow_large_buffer`; otherwise `MessageBuf::from_encoded` (length check) and push.
    `true` = queued. -/
def broadcast (p : WPeer) (m : Bytes) (allowLarge : Bool) (capTotal : Nat) : WPeer × Bool :=
  if broadcastSkips (bufferFullDropGossip capTotal) allowLarge then (p, false)
  else if m.length > Ldk.LN_MAX_MSG_LEN then (p, false)
  else ({ p with gossip := p.gossip ++ [m] }, true)

/-- mirrors the `Message::Pong` arm -/
def pongReceived (p : WPeer) : WPeer := { p with pongTimer := 0, msgs := 0 }
/-- mirrors the first statement of do_handle_message_holding_peer_lock -/
def msgReceived (p : WPeer) : WPeer := { p with recv := true }

/-- mirrors the `loop { .. }` ladder of PeerManager::timer_tick_occurred and the write attempt after
    it, for a peer whose handshake is complete; `none` = pushed to `descriptors_needing_disconnect`
    (no write attempt, the peer is removed) -/
def tickCore (sched : Nat → Option Nat) (bl : Bool) (p : WPeer) (src : Src) (npeers : Nat) (flush : Bool) :
    Option (WPeer × Src) :=
  if timerMagic p.pongTimer then
    some (attemptWrite c sched bl { p with pongTimer := 1, recv := false } src flush)
  else if timerDisconnects (notRecentlyActive p.pongTimer p.recv) (reachedThreshold p.pongTimer npeers) then none
  else if timerStillWaiting p.pongTimer then
    some (attemptWrite c sched bl { p with recv := false, pongTimer := p.pongTimer + 1 } src flush)
  else
    some (attemptWrite c sched bl (enqueue c { p with recv := false, pongTimer := 1 } PeerMsgs.ownPing).1 src flush)

/-- mirrors the per-peer body of PeerManager::timer_tick_occurred (`flush_read_disabled` reset first) -/
def timerTick (sched : Nat → Option Nat) (bl : Bool) (p : WPeer) (src : Src) (npeers : Nat) (flush : Bool) :
    Option (WPeer × Src) :=
  tickCore c sched bl (if flush then { p with annSince := false } else p) src npeers flush

/-! ### op sequences: every interleaving of the public entry points -/

inductive Op where
  /-- process_events with these messages queued by the handlers for this peer -/
  | events (msgs : List Bytes) (flush : Bool) (src : Src)
  | writeAvail (src : Src)
  | broadcast (m : Bytes) (allowLarge : Bool) (capTotal : Nat)
  | pong
  | received
  | tick (npeers : Nat) (flush : Bool) (src : Src)
  /-- `gossip_processing_backlogged` changes (update_gossip_backlogged) -/
  | backlog (b : Bool)
  /-- a channel_announcement arrived while backlogged (`received_channel_announce_since_backlogged`) -/
  | annSeen

/-- connection state: the peer, the backlog flag, or dropped -/
structure Conn where
  p : WPeer
  bl : Bool
  alive : Bool

def step (sched : Nat → Option Nat) (k : Conn) (op : Op) : Conn :=
  if !k.alive then k else
  match op with
  | .events msgs flush src => { k with p := (processEvents c sched k.bl k.p src msgs flush).1 }
  | .writeAvail src => { k with p := (writeBufferSpaceAvail c sched k.bl k.p src).1 }
  | .broadcast m al cap => { k with p := (broadcast k.p m al cap).1 }
  | .pong => { k with p := pongReceived k.p }
  | .received => { k with p := msgReceived k.p }
  | .tick n flush src =>
    match timerTick c sched k.bl k.p src n flush with
    | some (p, _) => { k with p := p }
    | none => { k with alive := false }
  | .backlog b => { k with bl := b }
  | .annSeen => { k with p := { k.p with annSince := true } }

def run (sched : Nat → Option Nat) (k : Conn) (ops : List Op) : Conn := ops.foldl (step c sched) k

end Ldk.PeerWrite
