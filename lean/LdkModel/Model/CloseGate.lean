/- Closing-negotiation gate (C09): when may a funded channel release `closing_signed` (the message that lets the peer
   broadcast a transaction paying to OUR shutdown script, which the ChannelMonitor learns through a `ShutdownScript`
   ChannelMonitorUpdate) and when does the closing timer start — in every ChannelState variant, also before channel_ready.
   Every DECISION and (round 6) every flag / field WRITE is a call into Generated/CloseGate.lean (re-translated from channel.rs on
   every run); hand-mirrored here is only which Rust function an op stands for and that a completed update restores the channel,
   tied by the differential ops `cgop` of driver `closegate`.  No Mathlib. -/
import LdkModel.Generated.CloseGate
namespace Ldk.CloseGate
open Ldk.CloseGate.Gen

structure Chan where
  /-- ChannelState variant (0..4) and its flags -/
  v : Nat
  f : Flags
  /-- pending_inbound_htlcs.len(), pending_outbound_htlcs.len(), pending_update_fee.is_some() -/
  nIn : Nat
  nOut : Nat
  fee : Bool
  /-- last_sent_closing_fee.is_some(), funding.is_outbound(), expecting_peer_commitment_signed,
      pending_counterparty_closing_signed.is_some(), closing_signed_in_flight -/
  lastSent : Bool
  outbound : Bool
  expCs : Bool
  parked : Bool
  timerOn : Bool
  deriving Repr, DecidableEq, Inhabited

/-- mirrors ChannelContext::closing_negotiation_ready -/
def Chan.ready (c : Chan) : Bool :=
  closingReady (c.nIn == 0) (c.nOut == 0) (!c.fee) (closingReadyState c.v c.f)

/-- an update is in flight / the peer is gone, as the channel sees it -/
def Chan.inProgress (c : Chan) : Bool := isMonitorUpdateInProgress c.v c.f
def Chan.disconnected (c : Chan) : Bool := isPeerDisconnected c.v c.f

inductive Out where
  /-- a closing_signed (or the final closing transaction) leaves the channel -/
  | closingSigned
  /-- the peer's closing_signed is parked until the monitor update completes -/
  | parked
  | refused
  /-- the closing timer force-closes the channel -/
  | timeout
  deriving DecidableEq, Repr, Inhabited

inductive Op where
  /-- close_channel → get_shutdown: LOCAL_SHUTDOWN_SENT; `upd`: a ShutdownScript update is generated (no upfront script),
      `ip`: it is still in flight when the call returns (monitor_updating_paused, not restored) -/
  | localShutdown (upd ip : Bool)
  /-- peer's shutdown → FundedChannel::shutdown: REMOTE_SHUTDOWN_SENT, and LOCAL_SHUTDOWN_SENT (we answer) -/
  | remoteShutdown (upd ip : Bool)
  /-- all monitor updates complete → monitor_updating_restored clears the flag -/
  | monitorDone
  | disconnect
  | reconnect
  /-- ChannelManager::maybe_generate_initial_closing_signed → maybe_propose_closing_signed -/
  | poll
  /-- peer's closing_signed → FundedChannel::closing_signed -/
  | recv (pendingSignature feeTooBig : Bool)
  /-- timer_tick_occurred → timer_check_closing_negotiation_progress -/
  | tick
  deriving Repr, Inhabited

def setMon (c : Chan) (b : Bool) : Chan := { c with f := { c.f with monitorUpdateInProgress := b } }

/-- monitor_updating_paused / monitor_updating_restored on the state word (translated writes) -/
def paused (c : Chan) : Chan := { c with f := pausedWrites c.v c.f }
def restored (c : Chan) : Chan := { c with f := restoredWrites c.v c.f }

/-- a ShutdownScript update is generated: the channel is paused (translated: monitor_updating_paused precedes the hand-over in both
    producers); `ip` = the persister answered InProgress.  It is restored within the same call only when it completed at once and no
    earlier update was in flight -/
def shutdownUpdate (c : Chan) (ip : Bool) : Chan :=
  if c.inProgress || ip then paused c else restored (paused c)

/-- FundedChannel::closing_signed on the current state -/
def recvStep (c : Chan) (pendingSignature feeTooBig : Bool) : Chan × List Out :=
  match closingSignedGate pendingSignature (isBothSidesShutdown c.v c.f) c.disconnected (c.nIn == 0) (c.nOut == 0) feeTooBig
      c.outbound c.lastSent c.inProgress with
  | 0 => ({ c with lastSent := true }, [.closingSigned])
  | 2 => ({ c with parked := true }, [.parked])
  | _ => (c, [.refused])

/-- every flag / field WRITE below is a definition of Generated/CloseGate.lean (translated from get_shutdown, shutdown,
    monitor_updating_restored, remove_uncommitted_htlcs_and_mark_paused, channel_reestablish) -/
def step (c : Chan) : Op → Chan × List Out
  | .localShutdown upd ip =>
    -- get_shutdown's refusals (translated): nothing changes, nothing is sent (no HTLC still LocalAnnounced / no script override in the scenarios)
    if getShutdownRefused c.v c.f false false false then (c, [.refused])
    else
      let c1 := { c with f := getShutdownWrites c.v c.f }
      (if upd then shutdownUpdate c1 ip else c1, [])
  | .remoteShutdown upd ip =>
    -- shutdown's refusals (translated; honest peer: V1 channel, no RemoteAnnounced HTLC, compliant script)
    if shutdownRefused c.v c.f false false false then (c, [.refused])
    else
      let c1 := { c with f := shutdownWrites c.v c.f }
      (if upd then shutdownUpdate c1 ip else c1, [])
  | .monitorDone => (restored c, [])
  -- remove_uncommitted_htlcs_and_mark_paused: "we have to start the closing_signed dance over"
  | .disconnect =>
    if disconnectNoop c.v c.f then (c, [])
    else ({ c with f := disconnectWrites c.v c.f, lastSent := disconnectLastSent c.lastSent, parked := disconnectParked c.parked }, [])
  | .reconnect => ({ c with f := reestablishWrites c.v c.f }, [])
  | .poll =>
    match proposeGate c.lastSent c.ready c.outbound c.expCs c.parked with
    | 1 => ({ c with lastSent := true }, [.closingSigned])
    | 2 => recvStep { c with parked := false } false false
    | _ => (c, [])
  | .recv ps ftb => recvStep c ps ftb
  | .tick =>
    let r := timerGate c.ready c.timerOn
    ({ c with timerOn := r.2 }, if r.1 then [.timeout] else [])

/-- run an op list; the trace pairs every output with the state it was released FROM -/
def run (c : Chan) : List Op → List (Chan × Out)
  | [] => []
  | op :: ops =>
    let r := step c op
    r.2.map (fun o => (c, o)) ++ run r.1 ops

end Ldk.CloseGate
