/- C08: the HEIGHT-DRIVEN glue of a forwarding node B (A → B → C) for one forwarded HTLC, as a state machine over
   delivered block heights. Every decision is a GENERATED predicate (Generated/Timing.lean, regenerated from the Rust text
   on every run); what is hand-written here is only the order in which the real code consults them:

   ChannelManager::best_block_updated → do_chain_event → FundedChannel::do_best_block_updated   (`mgrBlock`)
       holding-cell scan (`holdingCellTimedOut`), the list handed back through exit `x : BbuExit`
       (`BbuExit.returnsTimedOut`, translated per exit), failed backwards by do_chain_event.
   ChannelMonitorImpl::best_block_updated (`monitorProcessesHeight`) → block_confirmed            (`monDown`, `monUp`)
       matched transactions, should_broadcast_holder_commitment_txn (`shouldBroadcastFor`), matured HTLCUpdate
       (`hasReachedConfirmationThreshold`), pre-emptive upstream fail-back (`earlyFailBack`, only once no further updates
       are allowed), timelocked HTLC-timeout claim (`claimHeldBack`).
   Heights may jump (Confirm clients) and may be re-announced (restart). -/
import LdkModel.Model.Timing
namespace Ldk.NodeStep
open Ldk Ldk.Timing

inductive Act where
  | cellTimeout      -- outbound AddHTLC dropped from the holding cell (do_best_block_updated scan)
  | failBack         -- upstream HTLC failed backwards (HTLCHandlingFailed / update_fail_htlc)
  | claimOffchain    -- upstream update_fulfill_htlc
  | broadcastDown    -- holder commitment of the downstream channel handed to the broadcaster
  | broadcastTimeout -- HTLC-timeout claim of the outbound HTLC handed to the broadcaster
  | broadcastUp      -- holder commitment (+ HTLC-success) of the upstream channel handed to the broadcaster
  | chanClosed       -- downstream channel force-closed by an `Err` exit of do_best_block_updated
  | interceptTimeout -- (round 5) the HTLC, still held as an INTERCEPTED forward, given up by do_chain_event's intercepted-HTLC sweep
  deriving DecidableEq, Repr, Inhabited

def Act.name : Act → String
  | .cellTimeout => "cell" | .failBack => "fail" | .claimOffchain => "claim" | .broadcastDown => "down"
  | .broadcastTimeout => "timeout" | .broadcastUp => "up" | .chanClosed => "closed" | .interceptTimeout => "icpt"

inductive Up where | pending | claimed | failed
  deriving DecidableEq, Repr, Inhabited

structure St where
  inCltv : Nat
  outCltv : Nat
  monBest : Nat                    -- ChannelMonitor best_block.height
  inCell : Bool                    -- outbound AddHTLC still in the downstream holding cell
  outLive : Bool                   -- outbound HTLC in a downstream commitment and unresolved
  downOpen : Bool := true          -- downstream monitor still allows updates
  downBroadcast : Option Nat := none
  commitConf : Option Nat := none
  timeoutBroadcast : Option Nat := none
  timeoutConf : Option Nat := none
  preimage : Bool := false
  up : Up := .pending
  upResponsive : Bool := true      -- the upstream peer completes an update dance at once
  upBroadcast : Option Nat := none
  intercepted : Bool := false      -- (round 5) the forward is held in pending_intercepted_htlcs (HTLCIntercepted not yet answered)
  deriving Repr, Inhabited

inductive Ev where
  /-- a block at height `h` is announced to manager and monitors; `x` = exit taken by the downstream channel's
      do_best_block_updated; the block contains the downstream commitment / B's HTLC-timeout transaction -/
  | block (h : Nat) (x : BbuExit) (cConf tConf : Bool)
  /-- the downstream peer reveals the preimage (update_fulfill_htlc, or its on-chain claim is seen) -/
  | preimage
  /-- the holding cell is freed: the HTLC enters a downstream commitment -/
  | downCommitted
  /-- (round 5) forward_intercepted_htlc: the held forward is released towards the downstream channel (its holding cell) -/
  | released
  deriving Repr, Inhabited

/-- upstream fail-back (fail_htlc_backwards_internal): first resolution wins -/
def failUp (s : St) : St × List Act :=
  if s.up = .pending then ({ s with up := .failed }, [.failBack]) else (s, [])

/-- mirrors ChannelManager::do_chain_event ∘ FundedChannel::do_best_block_updated for the outbound channel -/
def mgrBlock (s : St) (h : Nat) (x : BbuExit) : St × List Act :=
  if s.inCell && holdingCellTimedOut h s.outCltv then
    let s1 := { s with inCell := false }
    let r := if x.returnsTimedOut then failUp s1 else (s1, [])
    if x.isOk then (r.1, .cellTimeout :: r.2) else ({ r.1 with downOpen := false }, .cellTimeout :: r.2 ++ [.chanClosed])
  else (s, [])

/-- (round 5) mirrors ChannelManager::do_chain_event, `pending_intercepted_htlcs.retain`: a held intercepted forward is dropped
    and failed backwards as soon as the translated `interceptTimedOut` holds at the announced height (runs for every
    announced height, after the channels' best_block_updated, whatever the monitors do) -/
def mgrIntercept (s : St) (h : Nat) : St × List Act :=
  if s.intercepted && interceptTimedOut h s.outCltv then
    let r := failUp { s with intercepted := false }
    (r.1, .interceptTimeout :: r.2)
  else (s, [])

/-- transactions matched in the block -/
def monTxs (s : St) (h : Nat) (cConf tConf : Bool) : St :=
  let s := if cConf && s.downBroadcast.isSome && s.commitConf.isNone then { s with commitConf := some h } else s
  if tConf && s.timeoutBroadcast.isSome && s.timeoutConf.isNone then { s with timeoutConf := some h } else s

/-- should_broadcast_holder_commitment_txn of the downstream monitor -/
def monScan (s : St) (h : Nat) : St × List Act :=
  if s.outLive && s.downBroadcast.isNone && shouldBroadcastFor h s.outCltv true s.preimage then
    ({ s with downBroadcast := some h, downOpen := false }, [.broadcastDown])
  else (s, [])

/-- HTLCUpdate of the confirmed HTLC-timeout reaching its confirmation threshold -/
def monMatured (s : St) (h : Nat) : St × List Act :=
  match s.timeoutConf with
  | some t => if s.outLive && hasReachedConfirmationThreshold h t none then failUp { s with outLive := false } else (s, [])
  | none => (s, [])

/-- pre-emptive upstream fail-back of block_confirmed -/
def monPreemptive (s : St) (h : Nat) : St × List Act :=
  if !s.downOpen && s.outLive && earlyFailBack h s.inCltv then failUp s else (s, [])

/-- timelocked HTLC-timeout claim of the holder commitment: generated together with the commitment broadcast
    (generate_claimable_outpoints_and_watch_outputs; non-anchor channel), held back only by its locktime -/
def monClaims (s : St) (h : Nat) : St × List Act :=
  if s.downBroadcast.isSome && s.outLive && s.timeoutBroadcast.isNone && !claimHeldBack h s.outCltv then
    ({ s with timeoutBroadcast := some h }, [.broadcastTimeout])
  else (s, [])

/-- block_confirmed of the downstream monitor at a processed height -/
def monDown (s : St) (h : Nat) (cConf tConf : Bool) : St × List Act :=
  let r1 := monScan (monTxs s h cConf tConf) h
  let r2 := monMatured r1.1 h
  let r3 := monPreemptive r2.1 h
  let r4 := monClaims r3.1 h
  (r4.1, r1.2 ++ r2.2 ++ r3.2 ++ r4.2)

/-- should_broadcast_holder_commitment_txn of the upstream monitor (inbound HTLC, preimage known, not yet resolved) -/
def monUp (s : St) (h : Nat) : St × List Act :=
  if s.preimage && s.up = .pending && s.upBroadcast.isNone && shouldBroadcastFor h s.inCltv false true then
    ({ s with upBroadcast := some h }, [.broadcastUp])
  else (s, [])

/-- claim_funds_internal on a downstream preimage -/
def onPreimage (s : St) : St × List Act :=
  if s.preimage || s.inCell then (s, []) else
  let s := { s with preimage := true, outLive := false }
  if s.up = .pending && s.upResponsive then ({ s with up := .claimed }, [.claimOffchain]) else (s, [])

def nodeStep (s : St) : Ev → St × List Act
  | .block h x cConf tConf =>
    let r0 := mgrBlock s h x
    let ri := mgrIntercept r0.1 h
    let r1 : St × List Act := (ri.1, r0.2 ++ ri.2)
    if monitorProcessesHeight h s.monBest then
      let r2 := monDown r1.1 h cConf tConf
      let r3 := monUp r2.1 h
      ({ r3.1 with monBest := h }, r1.2 ++ r2.2 ++ r3.2)
    else r1
  | .preimage => onPreimage s
  | .downCommitted => if s.inCell then ({ s with inCell := false, outLive := true }, []) else (s, [])
  | .released => if s.intercepted then ({ s with intercepted := false, inCell := true }, []) else (s, [])

/-- height stamp of an event for the log -/
def evHeight (s : St) : Ev → Nat
  | .block h _ _ _ => h
  | _ => s.monBest

/-- run a history; the log is (height, action) in order -/
def run (s : St) : List Ev → St × List (Nat × Act)
  | [] => (s, [])
  | e :: es =>
    let r := nodeStep s e
    let rest := run r.1 es
    (rest.1, r.2.map (fun a => (evHeight s e, a)) ++ rest.2)

/-- silent world: blocks announced at the given heights, plain exit, nothing of ours confirms -/
def plainBlocks (hs : List Nat) : List Ev := hs.map (fun h => .block h .plain false false)

/-- the whole holding cell (ids with expiries): what stays / what leaves in the scan, what the exit hands back -/
def cellKept (h : Nat) (cell : List (Nat × Nat)) : List (Nat × Nat) := cell.filter (fun e => !holdingCellTimedOut h e.2)
def cellTimedOut (h : Nat) (cell : List (Nat × Nat)) : List (Nat × Nat) := cell.filter (fun e => holdingCellTimedOut h e.2)
def bbuReturn (x : BbuExit) (timedOut : List (Nat × Nat)) : List (Nat × Nat) := if x.returnsTimedOut then timedOut else []

end Ldk.NodeStep
