/- C02: `PeerState::actions_blocking_raa_monitor_updates` — `BTreeMap<ChannelId, Vec<RAAMonitorUpdateBlockingAction>>` — as a
   partial function, and the `btree_map::Entry` / `Vec` calls the manager makes on it.  The functions of
   Generated/RaaBlock.lean (translated call by call from channelmanager.rs) are compositions of these primitives. -/
namespace Ldk.RaaBlock

/-- channel id ↦ blockers (`none` = no entry).  A blocker (`ForwardedPaymentInboundClaim { channel_id, htlc_id }`) is a number. -/
abbrev BlockMap := Nat → Option (List Nat)

namespace BlockMap
def empty : BlockMap := fun _ => none
def set (m : BlockMap) (k : Nat) (v : Option (List Nat)) : BlockMap := fun j => if j = k then v else m j
/-- mirrors `.entry(k).or_insert_with(|| d)` (also `.or_insert(d)`, `.or_default()` with `d = []`) -/
def orInsertWith (m : BlockMap) (k : Nat) (d : List Nat) : BlockMap :=
  match m k with | some _ => m | none => set m k (some d)
/-- mirrors `.push(x)` on the `&mut Vec` an entry chain for `k` returned -/
def pushAt (m : BlockMap) (k x : Nat) : BlockMap :=
  match m k with | some v => set m k (some (v ++ [x])) | none => m
/-- mirrors `if let Entry::Occupied(mut e) = m.entry(k) { e.get_mut().retain(p) }` -/
def retainAt (m : BlockMap) (k : Nat) (p : Nat → Bool) : BlockMap :=
  match m k with | some v => set m k (some (v.filter p)) | none => m
/-- `Vec::retain` with a closure that carries a flag from element to element (`let mut found = ..; v.retain(|it| { .. })`):
    `f flag it = (new flag, keep?)` -/
def retainState (f : Bool → Nat → Bool × Bool) : Bool → List Nat → List Nat
  | _, [] => []
  | st, x :: r => if (f st x).2 then x :: retainState f (f st x).1 r else retainState f (f st x).1 r
/-- mirrors `if let Entry::Occupied(mut e) = m.entry(k) { let mut flag = init; e.get_mut().retain(|it| ..flag..) }` -/
def retainStateAt (m : BlockMap) (k : Nat) (init : Bool) (f : Bool → Nat → Bool × Bool) : BlockMap :=
  match m k with | some v => set m k (some (retainState f init v)) | none => m
/-- mirrors `if e.get().is_empty() { e.remove(); }` -/
def removeIfEmpty (m : BlockMap) (k : Nat) : BlockMap :=
  match m k with | some [] => set m k none | _ => m
/-- the blockers registered for channel `k` -/
def get (m : BlockMap) (k : Nat) : List Nat := (m k).getD []
end BlockMap

end Ldk.RaaBlock
