/- Race timelines composed from the *generated* decision predicates (Generated/Timing.lean) and the
   library's stated bounds (a broadcast transaction confirms within MAX_BLOCKS_FOR_CONF blocks; a
   peer's update dance completes within LATENCY_GRACE_PERIOD_BLOCKS). C08. -/
import LdkModel.Generated.Timing
namespace Ldk.Timing
open Ldk

/-- First height at which the monitor goes on chain for an inbound HTLC whose preimage it knows
    (least `h` with `shouldBroadcastFor h cltv false true`), see `inbound_trigger_iff`. -/
def inboundTrigger (cltv : Nat) : Nat := cltv - CLTV_CLAIM_BUFFER
/-- First height at which the monitor goes on chain for an un-resolved outbound HTLC. -/
def outboundTrigger (cltv : Nat) : Nat := cltv + LATENCY_GRACE_PERIOD_BLOCKS

/-- A transaction timelocked with nLockTime = `cltv` can be mined in block `cltv + 1` at the earliest
    (consensus: `nLockTime < block height`). -/
def earliestTimeoutConf (cltv : Nat) : Nat := cltv + 1

/-- Preimage race: the node knows the preimage of an inbound HTLC; it broadcasts its commitment at
    `inboundTrigger cltv` (or earlier), the commitment confirms `d1` blocks later and the HTLC-success
    `d2` blocks after that. -/
def successConfHeight (cltv d1 d2 : Nat) : Nat := inboundTrigger cltv + d1 + d2

/-- Forward race, downstream silent: commitment broadcast at `outboundTrigger outCltv`, confirmed `d1`
    later, HTLC-timeout (already final: locktime `outCltv` < height) confirmed `d2` later, the upstream
    fail-back is released when that spend reaches `confirmationThreshold`. -/
def timeoutConfHeight (outCltv d1 d2 : Nat) : Nat := outboundTrigger outCltv + d1 + d2
def upstreamFailHeight (outCltv d1 d2 : Nat) : Nat := confirmationThreshold (timeoutConfHeight outCltv d1 d2) none

/-- Latest height at which a downstream peer's off-chain `update_fulfill_htlc` still arrives before the
    node itself goes on chain for the outbound HTLC. -/
def lastMomentFulfil (outCltv : Nat) : Nat := outboundTrigger outCltv - 1

end Ldk.Timing
