/- Race timelines composed from the *generated* decision predicates (Generated/Timing.lean) and the
   library's stated bounds (a broadcast transaction confirms within MAX_BLOCKS_FOR_CONF blocks; a
   peer's update dance completes within LATENCY_GRACE_PERIOD_BLOCKS). C08. -/
import LdkModel.Generated.Timing
namespace Ldk.Timing
open Ldk

/-- First height at which the monitor goes on chain for an inbound HTLC whose preimage it knows
    (least `h` with `shouldBroadcastFor h cltv false true`), see `inbound_trigger_iff`. -/
def inboundTrigger (cltv : Nat) : Nat := cltv - CLTV_CLAIM_BUFFER
/-- First height at which the monitor goes on chain for an un-resolved outbound HTLC. -/
def outboundTrigger (cltv : Nat) : Nat := cltv + LATENCY_GRACE_PERIOD_BLOCKS

/-- A transaction timelocked with nLockTime = `cltv` can be mined in block `cltv + 1` at the earliest
    (consensus: `nLockTime < block height`). -/
def earliestTimeoutConf (cltv : Nat) : Nat := cltv + 1

/-- Preimage race: the node knows the preimage of an inbound HTLC; it broadcasts its commitment at
    `inboundTrigger cltv` (or earlier), the commitment confirms `d1` blocks later and the HTLC-success
    `d2` blocks after that. -/
def successConfHeight (cltv d1 d2 : Nat) : Nat := inboundTrigger cltv + d1 + d2

/-- Forward race, downstream silent: commitment broadcast at `outboundTrigger outCltv`, confirmed `d1`
    later, HTLC-timeout (already final: locktime `outCltv` < height) confirmed `d2` later, the upstream
    fail-back is released when that spend reaches `confirmationThreshold`. -/
def timeoutConfHeight (outCltv d1 d2 : Nat) : Nat := outboundTrigger outCltv + d1 + d2
def upstreamFailHeight (outCltv d1 d2 : Nat) : Nat := confirmationThreshold (timeoutConfHeight outCltv d1 d2) none

/-- Latest height at which a downstream peer's off-chain `update_fulfill_htlc` still arrives before the
    node itself goes on chain for the outbound HTLC. -/
def lastMomentFulfil (outCltv : Nat) : Nat := outboundTrigger outCltv - 1

/-! ### Intercepted HTLC held by the node (round 5) -/

/-- mirrors channelmanager.rs do_chain_event, `pending_intercepted_htlcs.retain`: the node is told the heights `hs` one
    after the other (single blocks or jumps) while it holds an intercepted HTLC with outgoing expiry `out`; the HTLC is
    failed back at the FIRST delivered height at which the translated `interceptTimedOut` holds, `none` = still held. -/
def interceptHold (out : Nat) (hs : List Nat) : Option Nat := hs.find? (fun h => interceptTimedOut h out)

/-! ### Which HTLCs the monitor's on-chain trigger looks at (round 5) -/

/-- the `offered` flag of an HTLC inside a commitment transaction is relative to the transaction's OWNER (chan_utils
    HTLCOutputInCommitment::offered): an HTLC that WE offered has `offered = true` in our holder commitment and
    `offered = false` in the counterparty's commitments. Hand-written fact about the data, not about the scan. -/
def offeredIn (s : ScanSet) (weOffered : Bool) : Bool :=
  match s with
  | .holderCurrent => weOffered
  | .counterpartyCurrent => !weOffered
  | .counterpartyPrev => !weOffered

/-- one HTLC as the monitor sees it: the set it sits in, who offered it, expiry, preimage known -/
structure MonHtlc where
  set : ScanSet
  weOffered : Bool
  cltv : Nat
  preimage : Bool
  deriving Repr, DecidableEq

/-- mirrors should_broadcast_holder_commitment_txn as a whole: gate, then the translated `scanList` in source order, each
    HTLC of the scanned set tested by the translated `shouldBroadcastFor` under the direction `scanHtlcOutbound` derives
    from the set's `$holder_tx` flag. -/
def monShouldBroadcast (spendConfirmed spendAwaiting : Bool) (height : Nat) (htlcs : List MonHtlc) : Bool :=
  if broadcastGateClosed spendConfirmed spendAwaiting then false
  else scanList.any (fun (s, holderTx) =>
    htlcs.any (fun x => x.set == s && shouldBroadcastFor height x.cltv (scanHtlcOutbound holderTx (offeredIn s x.weOffered)) x.preimage))

/-! ### Where a forwarded HTLC can sit, and which timeout sweep looks there (round 5b) -/

/-- locations of a forwarded HTLC (one with a downstream counterpart) inside the node. Hand-written enumeration. -/
inductive FwdLoc where
  | intercepted           -- pending_intercepted_htlcs (HTLCIntercepted not yet answered)
  | trampolineAwaiting    -- awaiting_trampoline_forwards
  | holdingCell           -- the outbound channel's holding cell
  | commitment (s : ScanSet)  -- in a commitment transaction of the outbound channel
  deriving DecidableEq, Repr

def FwdLoc.all : List FwdLoc := [.intercepted, .trampolineAwaiting, .holdingCell, .commitment .holderCurrent,
  .commitment .counterpartyCurrent, .commitment .counterpartyPrev]

/-- hand-written: the do_chain_event sweep responsible for a manager-side location -/
def mgrSweepOf : FwdLoc → Option MgrSweep
  | .intercepted => some .intercepted
  | .trampolineAwaiting => some .trampolineAwaiting
  | .holdingCell => some .holdingCell
  | .commitment _ => none

/-- a location is swept iff: manager-side — its sweep is among the TRANSLATED `chainEventSweeps`; in a commitment — the set is
    visited BOTH by the translated on-chain trigger scan (`scanList`) and by the translated pre-emptive fail-back loop
    (`preemptiveSweepList`) of the monitor -/
def sweptBy (l : FwdLoc) : Bool :=
  match l with
  | .commitment s => preemptiveSweepList.contains s && scanList.any (fun p => p.1 == s)
  | l => match mgrSweepOf l with
    | some w => chainEventSweeps.contains w
    | none => false

end Ldk.Timing
