/- C17 — what P2PGossipSync forwards (the relay flag of handle_*) and serves (get_next_*), on top of Model/Gossip.lean.
   Every decision is Generated/GossipRelay.lean (translated from gossip.rs on every run). -/
import LdkModel.Model.Gossip
import LdkModel.Generated.GossipRelay
namespace Ldk.Gossip
namespace Impl

/-- the verifying entry point the message went through (`verify` of the op) -/
def msgVerify : Msg → Bool
  | .chanAnn a => a.verify
  | .chanUpd u => u.verify
  | .nodeAnn n => n.verify

inductive MsgKind | chanAnn | chanUpd | nodeAnn
  deriving DecidableEq, Repr

def msgKind : Msg → MsgKind
  | .chanAnn _ => .chanAnn
  | .chanUpd _ => .chanUpd
  | .nodeAnn _ => .nodeAnn

-- mirrors the `Ok(..)` expressions of P2PGossipSync::handle_channel_announcement / handle_channel_update /
-- handle_node_announcement for a message with `excess` / `excessAddr` bytes of excess data
def relayOfKind (k : MsgKind) (excess excessAddr : Nat) : Bool :=
  match k with
  | .chanAnn => Gen.handleChanAnnRelay excess
  | .chanUpd => Gen.handleChanUpdRelay excess
  | .nodeAnn => Gen.handleNodeAnnRelay excess excessAddr

def relayExpr (m : Msg) (excess excessAddr : Nat) : Bool := relayOfKind (msgKind m) excess excessAddr

-- mirrors P2PGossipSync::handle_*: the message is forwarded to peers iff it came through the signed handler, the graph
-- update returned Ok (the `?` / the `Err(e) => Err(e)` arm otherwise) and the relay expression holds.
-- (The unsigned entry points of NetworkGraph return no relay decision at all.)
def relayed (g : Graph) (m : Msg) (excess excessAddr : Nat) : Bool :=
  msgVerify m && decide ((applyMsg g m).2 = .accept) && relayExpr m excess excessAddr

-- mirrors P2PGossipSync::get_next_channel_announcement: first channel at or after `start` that has its announcement message
def nextChanAnn (g : Graph) (start : Nat) : Option (Nat × ChanInfo) :=
  g.channels.l.find? fun p => Gen.nextChanInRange start p.1 && Gen.nextChanServes p.2.hasMsg

/-- the served triple: scid, does direction one_to_two / two_to_one come with its stored last_update_message -/
def servedUpdates (c : ChanInfo) : Bool × Bool :=
  ((c.d12.map (·.hasMsg)).getD false, (c.d21.map (·.hasMsg)).getD false)

-- mirrors P2PGossipSync::get_next_node_announcement: first node after `start` whose announcement is `Relayed`
def nextNodeAnn (g : Graph) (start : Option Nat) : Option (Nat × NodeInfo) :=
  g.nodes.l.find? fun p => Gen.nextNodeInRange start p.1 && Gen.nextNodeServes ((p.2.ann.map (·.relayed)).getD false)

end Impl
end Ldk.Gossip
