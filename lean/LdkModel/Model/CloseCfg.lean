/- C07: the per-side CSV delays of a closure as PARAMETERS of the entitlement ledger.

   Each node picks `channel_handshake_config.our_to_self_delay` and imposes it on the OTHER side's
   delayed outputs.  Which of the two numbers ends up in which script, descriptor and maturity
   computation is not written here: it is TRANSLATED from the Rust text into Generated/Maturity.lean
   (`monDelaysOfChannel`, `fundingSpendLocalCsv`, `delayedDescriptorToSelfDelay`, `contestDelay`,
   `builtToLocalScriptCsv`, …).  This file only composes those selectors with the ledger of
   Model/OnchainClaims.lean.  No Mathlib. -/
import LdkModel.Model.OnchainClaims
import LdkModel.Generated.Maturity
namespace Ldk.Onchain
open Ldk Ldk.Maturity

/-- the configuration of a closure, from the point of view of the node whose monitor is modelled -/
structure CloseCfg where
  /-- the node's OWN latest commitment closed the channel (else the counterparty's) -/
  holderClose : Bool
  /-- the node's `our_to_self_delay` (imposed on the counterparty's delayed outputs) -/
  holderSelected : Nat
  /-- the counterparty's `our_to_self_delay` (imposed on the node's delayed outputs) -/
  counterpartySelected : Nat
  deriving DecidableEq, Repr, Inhabited

/-- what the node's ChannelMonitor stores (ChannelMonitor::new, translated) -/
def CloseCfg.delays (c : CloseCfg) : MonDelays := monDelaysOfChannel c.holderSelected c.counterpartySelected

/-- the CSV that the monitor's on-chain bookkeeping attaches to the output that finally pays the
    node for an item of this kind:
    * holder close, own balance: `FundingSpendConfirmation::on_local_output_csv` (reported height of the
      `ClaimableAwaitingConfirmations` balance) — the `MaturingOutput` of the same output carries
      `delayedDescriptorToSelfDelay` (Props/C07 `descriptor_matches_script`: the same number);
    * holder close, HTLC claimed by a second-stage transaction: the `MaturingOutput` of that
      transaction's delayed output (`DelayedPaymentOutputDescriptor::to_self_delay`);
    * counterparty close: nothing delays the node's outputs beyond ANTI_REORG_DELAY. -/
def itemCsv (c : CloseCfg) : Kind → Option Nat
  | .toSelf => if c.holderClose then fundingSpendLocalCsv c.delays else none
  | .inboundHtlcUnknown => none
  | _ => if c.holderClose then some (delayedDescriptorToSelfDelay c.delays) else none

/-- the CSV that is REALLY in the script of that output, as chan_utils.rs builds the holder's
    commitment (`to_local`) and second-stage HTLC transactions -/
def scriptCsv (c : CloseCfg) : Kind → Option Nat
  | .toSelf => if c.holderClose then some (builtToLocalScriptCsv (contestDelay true c.holderSelected c.counterpartySelected)) else none
  | .inboundHtlcUnknown => none
  | _ => if c.holderClose then some (builtHtlcTxOutputScriptCsv (contestDelay true c.holderSelected c.counterpartySelected)) else none

/-- the ledger when the closing commitment confirms at `height`; the items' `csv` fields are filled
    in from the configuration (whatever the caller put there is overwritten) -/
def closeWith (c : CloseCfg) (height : Nat) (items : List Item) : Ledger :=
  close height (items.map fun i => { i with csv := itemCsv c i.kind })

end Ldk.Onchain
