/- C07: the per-side CSV delays of a closure as PARAMETERS of the entitlement ledger.

   Each node picks `channel_handshake_config.our_to_self_delay` and imposes it on the OTHER side's
   delayed outputs.  Which of the two numbers ends up in which script, descriptor and maturity
   computation is not written here: it is TRANSLATED from the Rust text into Generated/Maturity.lean
   (`monDelaysOfChannel`, `fundingSpendLocalCsv`, `delayedDescriptorToSelfDelay`, `contestDelay`,
   `builtToLocalScriptCsv`, …).  This file only composes those selectors with the ledger of
   Model/OnchainClaims.lean.  No Mathlib. -/
import LdkModel.Model.OnchainClaims
import LdkModel.Generated.Maturity
import LdkModel.Generated.PreimageClaims
namespace Ldk.Onchain
open Ldk Ldk.Maturity

/-- the configuration of a closure, from the point of view of the node whose monitor is modelled -/
structure CloseCfg where
  /-- the node's OWN latest commitment closed the channel (else the counterparty's) -/
  holderClose : Bool
  /-- the node's `our_to_self_delay` (imposed on the counterparty's delayed outputs) -/
  holderSelected : Nat
  /-- the counterparty's `our_to_self_delay` (imposed on the node's delayed outputs) -/
  counterpartySelected : Nat
  /-- (counterparty close only) the commitment that confirmed is the counterparty's PREVIOUS, not yet revoked one
      (`prev_counterparty_commitment_txid`: the node had already signed a newer one) rather than its latest -/
  counterpartyPrev : Bool := false
  deriving DecidableEq, Repr, Inhabited

/-- what the node's ChannelMonitor stores (ChannelMonitor::new, translated) -/
def CloseCfg.delays (c : CloseCfg) : MonDelays := monDelaysOfChannel c.holderSelected c.counterpartySelected

/-- the CSV that the monitor's on-chain bookkeeping attaches to the output that finally pays the
    node for an item of this kind:
    * holder close, own balance: `FundingSpendConfirmation::on_local_output_csv` (reported height of the
      `ClaimableAwaitingConfirmations` balance) — the `MaturingOutput` of the same output carries
      `delayedDescriptorToSelfDelay` (Props/C07 `descriptor_matches_script`: the same number);
    * holder close, HTLC claimed by a second-stage transaction: the `MaturingOutput` of that
      transaction's delayed output (`DelayedPaymentOutputDescriptor::to_self_delay`);
    * counterparty close: nothing delays the node's outputs beyond ANTI_REORG_DELAY. -/
def itemCsv (c : CloseCfg) : Kind → Option Nat
  | .toSelf => if c.holderClose then fundingSpendLocalCsv c.delays else none
  | .inboundHtlcUnknown => none
  -- the node's preimage claim of an inbound HTLC is an HTLC-success transaction (accepted_preimage_claim) on the HOLDER's commitment, where
  -- the HTLC is not offered, and a direct offered-preimage claim on the counterparty's, where it is: the csv of the HTLCSpendConfirmation
  -- is the TRANSLATED `on_to_local_output_csv` under the TRANSLATED direction of is_resolving_htlc_output (`resolvingHtlcOutbound`)
  | .inboundHtlcPreimage => htlcSpendToLocalCsv c.delays c.holderClose (resolvingHtlcOutbound c.holderClose (!c.holderClose))
  | _ => if c.holderClose then some (delayedDescriptorToSelfDelay c.delays) else none

/-- the CSV that is REALLY in the script of that output, as chan_utils.rs builds the holder's
    commitment (`to_local`) and second-stage HTLC transactions -/
def scriptCsv (c : CloseCfg) : Kind → Option Nat
  | .toSelf => if c.holderClose then some (builtToLocalScriptCsv (contestDelay true c.holderSelected c.counterpartySelected)) else none
  | .inboundHtlcUnknown => none
  | _ => if c.holderClose then some (builtHtlcTxOutputScriptCsv (contestDelay true c.holderSelected c.counterpartySelected)) else none

/-- the ledger when the closing commitment confirms at `height`; the items' `csv` fields are filled
    in from the configuration (whatever the caller put there is overwritten) -/
def closeWith (c : CloseCfg) (height : Nat) (items : List Item) : Ledger :=
  close height (items.map fun i => { i with csv := itemCsv c i.kind })

/-! ### A preimage learned AFTER the closing commitment confirmed

    `ChannelMonitorImpl::provide_payment_preimage` stores the preimage and scans the HTLCs of the
    confirmed commitment for outputs it can now claim.  Payment hashes are NOT unique per commitment
    (several parts of one multi-part payment over one channel; a reused hash): the SHAPE of that scan
    (every match / first match) and its test are TRANSLATED (Generated/PreimageClaims.lean); here they
    are composed with the ledger. -/
open Ldk.PreimageClaims

/-- positions `k, k+1, …` of the elements of a list that satisfy `p` -/
def matchingIdx {α : Type} (p : α → Bool) : List α → Nat → List Nat
  | [], _ => []
  | x :: xs, k => if p x then k :: matchingIdx p xs (k + 1) else matchingIdx p xs (k + 1)

/-- the positions a scan of the given shape acts on -/
def selectIdx {α : Type} (mode : IterMode) (p : α → Bool) (xs : List α) : List Nat :=
  match mode with
  | .all => matchingIdx p xs 0
  | .first => (matchingIdx p xs 0).take 1

/-- a ledger together with the closure configuration and the payment hash (an opaque id; 0 for the
    balance output) of the HTLC behind each entry, in entry order -/
structure HLedger where
  cfg : CloseCfg
  ledger : Ledger
  hashes : List Nat
  deriving Repr, Inhabited

def Item.inbound (i : Item) : Bool := i.kind = .inboundHtlcPreimage || i.kind = .inboundHtlcUnknown

/-- the scan's test on one HTLC output, for the preimage of `matching`: on the COUNTERPARTY's
    commitment the node's inbound HTLCs are the offered, non-dust ones
    (`counterpartyPreimageMatches`); on the HOLDER's commitment they are the received ones, included
    once `payment_preimages` knows their hash (`holderClaimIncluded`) -/
def preimageScanAccepts (c : CloseCfg) (matching : Nat) (eh : Entry × Nat) : Bool :=
  eh.1.item.inbound &&
    (if c.holderClose then holderClaimIncluded false (decide (eh.2 = matching))
     else counterpartyPreimageMatches true true eh.2 matching)

/-- a claim package for this output is handed to the OnchainTxHandler: if the output is still
    unspent and the node could not claim it before, it now can -/
def Entry.learn (c : CloseCfg) (e : Entry) : Entry := match e.stage with
  | .pending =>
    if e.item.kind = .inboundHtlcUnknown then
      { e with item := { e.item with kind := .inboundHtlcPreimage, csv := itemCsv c .inboundHtlcPreimage } }
    else e
  | _ => e

/-- does provide_payment_preimage scan the commitment that confirmed?  (translated per branch: the holder's, the
    counterparty's latest, the counterparty's previous unrevoked one) -/
def CloseCfg.scanRuns (c : CloseCfg) : Bool :=
  if c.holderClose then holderScanRuns else if c.counterpartyPrev then counterpartyScanOnPrevious else counterpartyScanOnCurrent

/-- the entries provide_payment_preimage hands a claim request for -/
def HLedger.sel (hl : HLedger) (matching : Nat) : List Nat :=
  if hl.cfg.scanRuns then
    selectIdx (if hl.cfg.holderClose then holderPreimageIter else counterpartyPreimageIter)
      (preimageScanAccepts hl.cfg matching) (hl.ledger.entries.zip hl.hashes)
  else []

/-- mirrors provide_payment_preimage on a monitor whose closing commitment has confirmed -/
def HLedger.provide (hl : HLedger) (matching : Nat) : HLedger :=
  let sel := hl.sel matching
  { hl with ledger := { hl.ledger with entries := hl.ledger.entries.mapIdx fun i e => if sel.contains i then e.learn hl.cfg else e } }

inductive HOp where
  | op (o : Op)
  | provide (matching : Nat)
  deriving DecidableEq, Repr

def HLedger.step (hl : HLedger) : HOp → HLedger
  | .op o => { hl with ledger := Onchain.step hl.ledger o }
  | .provide m => hl.provide m

def HLedger.run (hl : HLedger) (ops : List HOp) : HLedger := ops.foldl HLedger.step hl

/-- the closure: items with the payment hash of each -/
def hclose (c : CloseCfg) (height : Nat) (items : List (Item × Nat)) : HLedger :=
  { cfg := c, ledger := closeWith c height (items.map (·.1)), hashes := items.map (·.2) }

end Ldk.Onchain
