import LdkModel.Generated.FundConf
/- C11, manager/channel side of chain delivery: the per-funding-scope confirmation state machine of
   lightning/src/ln/channel.rs (FundedChannel::{transactions_confirmed, do_best_block_updated, transaction_unconfirmed,
   get_relevant_txids}, PendingFunding::check_get_splice_locked) and of the ChannelManager's Listen/Confirm wrappers
   (channelmanager.rs transactions_confirmed / best_block_updated / filtered_block_connected / blocks_disconnected /
   transaction_unconfirmed / get_relevant_txids), for a channel that has exchanged channel_ready (the establishment
   messages are not modelled) with any number of pending splice candidates.
   Every height decision is the TRANSLATED one of Generated/FundConf.lean (tools/gen_fundconf.py). No Mathlib. -/
namespace Ldk.FundConf
open Ldk.FundConfGen

/-- the confirmation fields of a FundingScope; `confIn` = funding_tx_confirmed_in.is_some(), `scid` = short_channel_id.is_some() -/
structure Scope where
  txid : Nat
  confHeight : Nat := 0
  confIn : Bool := false
  scid : Bool := false
deriving Repr, DecidableEq, Inhabited

structure Chan where
  minDepth : Nat
  main : Scope
  /-- pending_splice.negotiated_candidates (empty list = no pending splice) -/
  cands : List Scope := []
  /-- pending_splice.sent_funding_txid -/
  sent : Option Nat := none
  /-- ChannelManager::best_block.height -/
  best : Nat := 0
  /-- the channel was force-closed by a chain call (funding unconfirmed / conflicting splice confirmations) -/
  closed : Bool := false
deriving Repr, DecidableEq, Inhabited

/-- mirrors FundedChannel::get_relevant_txids (+ ChannelManager::get_relevant_txids: closed channels are gone):
    (txid, height) of every scope whose height AND block hash are known -/
def scopeRelevant (f : Scope) : Option (Nat × Nat) :=
  match relevantHeight f.confHeight, f.confIn with
  | some h, true => some (f.txid, h)
  | _, _ => none

def relevantTxids (c : Chan) : List (Nat × Nat) :=
  if c.closed then [] else (c.main :: c.cands).filterMap scopeRelevant

/-- mirrors PendingFunding::check_get_splice_locked for candidate `f` (channel not quiescent):
    new `sent`, and the txid of the splice_locked produced -/
def checkLock (minDepth : Nat) (sent : Option Nat) (f : Scope) (height : Nat) : Option Nat × Option Nat :=
  if !meetsMinDepth minDepth f.confHeight height then (sent, none)
  else if sent == some f.txid then (sent, none)
  else (some f.txid, some f.txid)

/-- the pending-splice retraction block of do_best_block_updated applied to the confirmed candidate -/
def retractScope (height : Nat) (sent : Option Nat) (f : Scope) : Scope :=
  let confs := confirmations f.confHeight height
  { f with confHeight := spliceRetractHeight confs sent (some f.txid) f.confHeight,
           confIn := spliceRetractConfIn confs sent (some f.txid) f.confIn,
           scid := spliceRetractScid confs sent (some f.txid) f.scid }

/-- number of candidates with a recorded confirmation -/
def confirmedCount (cs : List Scope) : Nat := cs.countP (fun f => f.confHeight != 0)

/-- the pending-splice section of do_best_block_updated: more than one confirmed candidate => Err (close); else the
    confirmed candidate is retracted when it has 0 confirmations at `height`, then check_get_splice_locked -/
def spliceSection (c : Chan) (height : Nat) : Chan × Option Nat :=
  if confirmedCount c.cands ≥ 2 then ({ c with closed := true }, none) else
  match c.cands.find? (fun f => f.confHeight != 0) with
  | none => (c, none)
  | some f =>
    let confs := confirmations f.confHeight height
    let f' := retractScope height c.sent f
    let sent' := spliceRetractSent confs c.sent (some f.txid) c.sent
    let cands' := c.cands.map (fun g => if g.confHeight != 0 then retractScope height c.sent g else g)
    let r := checkLock c.minDepth sent' f' height
    ({ c with cands := cands', sent := r.1 }, r.2)

/-- the main-funding retraction block of do_best_block_updated -/
def mainRetracted (c : Chan) (height : Nat) : Scope :=
  let mconfs := confirmations c.main.confHeight height
  { c.main with confHeight := mainRetractHeight mconfs c.main.confHeight,
                confIn := mainRetractConfIn mconfs c.main.confIn,
                scid := mainRetractScid mconfs c.main.scid }

/-- the force-close decision "Funding transaction was un-confirmed" of do_best_block_updated for a channel in
    ChannelReady state: the TRANSLATED guard (Generated mainCloseGuard: state, `confs == 0 && was_confirmed`,
    minimum_depth) with was_confirmed = funding_tx_confirmed_in.is_some() BEFORE the retraction block -/
def mainUnconfirmedCloses (c : Chan) (height : Nat) : Bool :=
  mainCloseGuard true false (confirmations c.main.confHeight height) c.main.confIn c.minDepth

/-- mirrors FundedChannel::do_best_block_updated (ready channel, no holding-cell HTLCs): main funding retraction
    (=> force-close for a ready non-zero-conf channel), then the pending-splice section. Returns the splice_locked txid. -/
def chanBestBlockUpdated (c : Chan) (height : Nat) : Chan × Option Nat :=
  if c.closed then (c, none)
  else if mainUnconfirmedCloses c height then ({ c with main := mainRetracted c height, closed := true }, none)
  else spliceSection { c with main := mainRetracted c height } height

/-- the candidate loop of FundedChannel::transactions_confirmed for ONE transaction `t` of a block at `height`:
    state = (candidates processed so far (reversed), confirmed_funding_index as the scope, funding_already_confirmed, error);
    the two-confirmations test and the funding_already_confirmed mark are the TRANSLATED confirmLoopErr / confirmLoopMark -/
def confirmLoop (t height : Nat) : List Scope → List Scope × Option Scope × Bool × Bool → List Scope × Option Scope × Bool × Bool
  | [], acc => acc
  | f :: rest, (done, idx, already, err) =>
    if err then confirmLoop t height rest (f :: done, idx, already, err)
    else if confirmGuard f.confHeight && f.txid == t then
      let f' : Scope := { f with confHeight := height, confIn := true, scid := true }
      if confirmLoopErr already idx.isSome then confirmLoop t height rest (f' :: done, idx, already, true)
      else confirmLoop t height rest (f' :: done, some f', already, err)
    else if confirmLoopMark f.confHeight then confirmLoop t height rest (f :: done, idx, true, err)
    else confirmLoop t height rest (f :: done, idx, already, err)

/-- mirrors FundedChannel::transactions_confirmed for the transactions `ids` of one block (ready channel): the main
    funding is only re-recorded when it had been retracted; a splice_locked ends the call (early return). -/
def chanTxsConfirmed (c : Chan) (height : Nat) : List Nat → Chan × Option Nat
  | [] => (c, none)
  | t :: ts =>
    if c.closed then (c, none) else
    let main' : Scope := if confirmGuard c.main.confHeight && c.main.txid == t
      then { c.main with confHeight := height, confIn := true, scid := true } else c.main
    let c := { c with main := main' }
    let (done, idx, _, err) := confirmLoop t height c.cands ([], none, false, false)
    -- an Err(`?`) leaves the loop at once: candidates after the failing one are untouched, which is what `err` does
    let c := { c with cands := done.reverse }
    if err then ({ c with closed := true }, none) else
    match idx with
    | some f =>
      match checkLock c.minDepth c.sent f height with
      | (sent', some l) => ({ c with sent := sent' }, some l)
      | (_, none) => chanTxsConfirmed c height ts
    | none => chanTxsConfirmed c height ts

/-- mirrors FundedChannel::transaction_unconfirmed -/
def chanTxUnconfirmed (c : Chan) (t : Nat) : Chan × Option Nat :=
  if c.closed then (c, none) else
  match (c.main :: c.cands).find? (fun f => f.txid == t) with
  | some f => if unconfGuard f.confHeight then chanBestBlockUpdated c (unconfReorgHeight f.confHeight) else (c, none)
  | none => (c, none)

/-- the calls a chain client makes on the ChannelManager -/
inductive Op where
  /-- Confirm::transactions_confirmed(header at `h`, txdata) -/
  | conf (h : Nat) (ids : List Nat)
  /-- Confirm::best_block_updated(header at `h`) -/
  | best (h : Nat)
  /-- Listen::filtered_block_connected / block_connected of a NEW block -/
  | block (h : Nat) (ids : List Nat)
  /-- Listen::filtered_block_connected of the block that is already the best one (is_rescan) -/
  | rblock (h : Nat) (ids : List Nat)
  /-- Listen::blocks_disconnected(fork point at `h`) -/
  | disc (h : Nat)
  /-- Confirm::transaction_unconfirmed -/
  | unconf (t : Nat)
deriving Repr, DecidableEq

def locksOf (l : Option Nat) : List Nat := match l with | some t => [t] | none => []

/-- mirrors ChannelManager's Confirm::transactions_confirmed: the channel call, then — when the block is below the
    best one — a best_block_updated(last best height) on the channel -/
def mgrConf (c : Chan) (h : Nat) (ids : List Nat) : Chan × List Nat :=
  let (c1, l1) := chanTxsConfirmed c h ids
  if h < c1.best then
    let (c2, l2) := chanBestBlockUpdated c1 c1.best
    (c2, locksOf l1 ++ locksOf l2)
  else (c1, locksOf l1)

/-- mirrors ChannelManager's Confirm::best_block_updated (also what Listen::blocks_disconnected does with the fork point) -/
def mgrBest (c : Chan) (h : Nat) : Chan × List Nat :=
  let (c1, l1) := chanBestBlockUpdated { c with best := h } h
  (c1, locksOf l1)

def step (c : Chan) : Op → Chan × List Nat
  | .conf h ids => mgrConf c h ids
  | .best h => mgrBest c h
  | .block h ids => let (c1, l1) := mgrConf c h ids; let (c2, l2) := mgrBest c1 h; (c2, l1 ++ l2)
  | .rblock h ids => mgrConf c h ids
  | .disc h => mgrBest c h
  | .unconf t => let (c1, l1) := chanTxUnconfirmed c t; (c1, locksOf l1)

/-- a whole history: final channel and every splice_locked produced, in order -/
def run (c : Chan) : List Op → Chan × List Nat
  | [] => (c, [])
  | o :: os => let (c1, l1) := step c o; let (c2, l2) := run c1 os; (c2, l1 ++ l2)

/-! ### the channel funding BEFORE channel_ready (AwaitingChannelReady; peer connected, no monitor update in progress,
    the peer's channel_ready not yet received, no pending splice) -/

structure Pre where
  minDepth : Nat
  main : Scope
  best : Nat := 0
  /-- our channel_ready was produced (AwaitingChannelReady(OUR_CHANNEL_READY)) -/
  ourReady : Bool := false
  closed : Bool := false
deriving Repr, DecidableEq, Inhabited

def preRelevant (p : Pre) : List (Nat × Nat) := if p.closed then [] else [p.main].filterMap scopeRelevant

/-- the main-funding retraction block of do_best_block_updated (translated field by field) -/
def preRetracted (p : Pre) (height : Nat) : Scope :=
  let mconfs := confirmations p.main.confHeight height
  { p.main with confHeight := mainRetractHeight mconfs p.main.confHeight,
                confIn := mainRetractConfIn mconfs p.main.confIn,
                scid := mainRetractScid mconfs p.main.scid }

/-- mirrors check_get_channel_ready for the two states reachable without the peer's channel_ready:
    no flags => set OUR_CHANNEL_READY and produce channel_ready; OUR_CHANNEL_READY => "got a reorg, just ignore" -/
def preCheckReady (p : Pre) (height : Nat) : Pre × Bool :=
  if !meetsMinDepth p.minDepth p.main.confHeight height then (p, false)
  else if p.ourReady then (p, false)
  else ({ p with ourReady := true }, true)

/-- the tail of do_best_block_updated after check_get_channel_ready answered `r` -/
def preFinish (r : Pre × Bool) (confs : Nat) (was : Bool) : Pre × Bool :=
  if r.2 then r
  else if mainCloseGuard false r.1.ourReady confs was r.1.minDepth then ({ r.1 with closed := true }, false)
  else r

/-- mirrors FundedChannel::do_best_block_updated before channel_ready: retraction, check_get_channel_ready (early
    return), then — once our channel_ready is out — `funding_tx_confirmations == 0 && was_confirmed` => force-close
    unless zero-conf. (The inbound funding timeout is not modelled.) -/
def preBestBlockUpdated (p : Pre) (height : Nat) : Pre × Bool :=
  if p.closed then (p, false)
  else preFinish (preCheckReady { p with main := preRetracted p height } height)
         (confirmations p.main.confHeight height) p.main.confIn

/-- mirrors FundedChannel::transactions_confirmed before channel_ready (no pending splice) -/
def preTxsConfirmed (p : Pre) (height : Nat) : List Nat → Pre × Bool
  | [] => (p, false)
  | t :: ts =>
    if p.closed then (p, false)
    else if confirmGuard p.main.confHeight && p.main.txid == t then
      let r := preCheckReady { p with main := { p.main with confHeight := height, confIn := true, scid := true } } height
      if r.2 then r else preTxsConfirmed r.1 height ts
    else preTxsConfirmed p height ts

def preTxUnconfirmed (p : Pre) (t : Nat) : Pre × Bool :=
  if p.closed then (p, false)
  else if p.main.txid == t && unconfGuard p.main.confHeight then preBestBlockUpdated p (unconfReorgHeight p.main.confHeight)
  else (p, false)

def readyCount (b : Bool) : Nat := if b then 1 else 0

def preConf (p : Pre) (h : Nat) (ids : List Nat) : Pre × Nat :=
  let r1 := preTxsConfirmed p h ids
  if h < r1.1.best then
    let r2 := preBestBlockUpdated r1.1 r1.1.best
    (r2.1, readyCount r1.2 + readyCount r2.2)
  else (r1.1, readyCount r1.2)

def preBest (p : Pre) (h : Nat) : Pre × Nat :=
  let r := preBestBlockUpdated { p with best := h } h
  (r.1, readyCount r.2)

/-- the manager calls on a channel awaiting channel_ready: new state, number of channel_ready messages produced -/
def preStep (p : Pre) : Op → Pre × Nat
  | .conf h ids => preConf p h ids
  | .best h => preBest p h
  | .block h ids => let r1 := preConf p h ids; let r2 := preBest r1.1 h; (r2.1, r1.2 + r2.2)
  | .rblock h ids => preConf p h ids
  | .disc h => preBest p h
  | .unconf t => let r := preTxUnconfirmed p t; (r.1, readyCount r.2)

end Ldk.FundConf
